import GqlVerif.Props.C02
/-!
# C02 — the response items of a generated module are closed (and defined once)

`Props/C02.lean` proves that the mentions of the emitted *input* items and of `Variables` are resolved
inside the module `Codegen.responseForQuery` emits.  This file proves the same for the **response
items**: the structs / tagged enums / aliases produced by `responseItems` and `fragmentItems` (the four
mutual `calc*` functions of `Model/Codegen.lean`, `renderType`, `renderField`), and combines the three
results into a statement about every item of the module.
-/
namespace GqlVerif
namespace C02
open Codegen

/-! ## 0. scope vocabulary -/

theorem defines_append (a b : List Item) : Scope.defines (a ++ b) = Scope.defines a ++ Scope.defines b := by
  simp [Scope.defines, List.filterMap_append]

theorem defines_cons (a : Item) (b : List Item) :
    Scope.defines (a :: b) = (Scope.itemDefines a).toList ++ Scope.defines b := by
  cases h : Scope.itemDefines a <;> simp [Scope.defines, h]

@[simp] theorem defines_nil : Scope.defines [] = [] := rfl

/-- `n` is resolved by the items `ctx` or by the global part `G` of the module -/
def Res (G : String → Prop) (ctx : List Item) (n : String) : Prop := n ∈ Scope.defines ctx ∨ G n

/-- every mention of every item of `items` is resolved by `ctx` or globally -/
def ClosedIn (G : String → Prop) (ctx items : List Item) : Prop :=
  ∀ it ∈ items, ∀ n ∈ Scope.itemMentions it, Res G ctx n

theorem Res.mono {G : String → Prop} {a b : List Item} {n : String}
    (h : ∀ m ∈ Scope.defines a, m ∈ Scope.defines b) (hr : Res G a n) : Res G b n :=
  hr.elim (fun x => .inl (h _ x)) .inr

theorem ClosedIn.mono {G : String → Prop} {a b items : List Item}
    (h : ∀ m ∈ Scope.defines a, m ∈ Scope.defines b) (hc : ClosedIn G a items) : ClosedIn G b items :=
  fun it hit n hn => (hc it hit n hn).mono h

theorem ClosedIn.append {G : String → Prop} {ctx a b : List Item}
    (ha : ClosedIn G ctx a) (hb : ClosedIn G ctx b) : ClosedIn G ctx (a ++ b) := by
  intro it hit
  rcases List.mem_append.mp hit with h | h
  · exact ha it h
  · exact hb it h

theorem ClosedIn.nil {G : String → Prop} {ctx : List Item} : ClosedIn G ctx [] := by
  intro it hit; cases hit

/-! ## 1. `renderField`, `aliasItem`, `renderType` -/

theorem renderField_leaf {c : Ctx} {g : Option String} {r ft : String} {quals : List Qual} {fl bx : Bool}
    {dep : Option (Option String)} {o : Option RField}
    (h : renderField c g r ft quals fl bx dep = .ok o) : ∀ f ∈ o.toList, Scope.leaf f.ty = ft := by
  unfold renderField at h
  obtain ⟨ty, hty, h⟩ := bind_ok h
  have hl := decorateType_leaf hty
  rw [leaf_eq] at hl
  simp only [] at h
  split at h
  · simp only [pure, Except.pure, Except.ok.injEq] at h
    subst h; simp
  · simp only [pure, Except.pure, Except.ok.injEq] at h
    subst h
    intro f hf
    simp only [Option.toList_some, List.mem_singleton] at hf
    subst hf
    simp only []
    split
    · simpa [Scope.leaf, C02.leaf] using hl
    · simpa [Scope.leaf, C02.leaf] using hl

theorem aliasItem_mentions (n t : String) (b : Bool) : Scope.itemMentions (aliasItem n t b) = [t] := by
  cases b <;> rfl

theorem aliasItem_defines (n t : String) (b : Bool) : Scope.itemDefines (aliasItem n t b) = some n := by
  cases b <;> rfl

theorem renderType_defines (c : Ctx) (name : String) (fs : List RField) (vs : List RVariant) :
    name ∈ Scope.defines (renderType c name fs vs) := by
  unfold renderType
  split
  · simp [Scope.defines, Scope.itemDefines, Item.name]
  · split <;> simp [Scope.defines, Scope.itemDefines, Item.name]

theorem renderType_closed {G : String → Prop} (c : Ctx) (name : String) (fs : List RField) (vs : List RVariant)
    (ctx : List Item)
    (hf : ∀ f ∈ fs, Res G ctx (Scope.leaf f.ty))
    (hv : ∀ v ∈ vs, ∀ t, v.payload = some t → Res G ctx (Scope.leaf t)) :
    ClosedIn G (renderType c name fs vs ++ ctx) (renderType c name fs vs) := by
  have mono : ∀ {n}, Res G ctx n → Res G (renderType c name fs vs ++ ctx) n :=
    fun h => h.mono (fun m hm => by simp [defines_append, hm])
  have htag : ∀ n, n ∈ Scope.itemMentions (.tagged (name ++ "On") c.respDerives c.serdeCrate "__typename" vs) ∨
      n ∈ Scope.itemMentions (.tagged name c.respDerives c.serdeCrate "__typename" vs) →
      Res G (renderType c name fs vs ++ ctx) n := by
    intro n hn
    simp only [Scope.itemMentions, List.mem_filterMap, or_self] at hn
    obtain ⟨v, hv', hvn⟩ := hn
    cases hp : v.payload with
    | none => simp [hp] at hvn
    | some t =>
      simp only [hp, Option.map_some, Option.some.injEq] at hvn
      subst hvn
      exact mono (hv v hv' t hp)
  intro it hit n hn
  unfold renderType at hit
  split at hit
  · simp only [List.mem_singleton] at hit
    subst hit
    exact htag n (.inr hn)
  · split at hit
    · simp only [List.mem_singleton] at hit
      subst hit
      simp only [Scope.itemMentions, List.mem_map] at hn
      obtain ⟨f, hf', rfl⟩ := hn
      exact mono (hf f hf')
    · simp only [List.mem_cons, List.not_mem_nil, or_false] at hit
      rcases hit with rfl | rfl
      · simp only [Scope.itemMentions, List.map_append, List.mem_append, List.mem_map, List.map_cons,
          List.map_nil, List.mem_singleton] at hn
        rcases hn with ⟨f, hf', rfl⟩ | rfl
        · exact mono (hf f hf')
        · refine .inl ?_
          rw [defines_append]
          apply List.mem_append_left
          unfold renderType
          rw [if_neg (by assumption), if_neg (by assumption)]
          simp [Scope.defines, Scope.itemDefines, Item.name, Scope.leaf]
      · exact htag n (.inl hn)

/-! ## 2. one-step decompositions of the `calc*` block -/

/-- the variants part of a successful `calcSelection` call -/
def VariantsPart (c : Ctx) (f : Nat) (name pfx : String) (ty : TypeId) (sels : List Sel)
    (rvariants : List RVariant) (vitems : List Item) : Prop :=
  (variantsOf c.s ty = .ok none ∧ rvariants = [] ∧ vitems = []) ∨
  ∃ vts vsels r, variantsOf c.s ty = .ok (some vts) ∧ sels.filterMapM (variantSelOf c.q ty) = .ok vsels ∧
    calcVariants c f name pfx vsels vts = .ok r ∧
    rvariants = r.1 ++ (if c.o.otherVariant then [{ name := "Unknown", other := true }] else []) ∧ vitems = r.2

theorem calcSelection_single_ok {c : Ctx} {f : Nat} {name pfx : String} {ty : TypeId} {g : Nat} {items : List Item}
    (h : calcSelection c (f + 1) name pfx ty [.spread g] = .ok items) :
    ∃ fr, c.q.fragments[g]? = some fr ∧ items = [aliasItem name fr.name (fragmentIsRecursive c.q g)] := by
  rw [calcSelection.eq_2] at h
  obtain ⟨fr, hfr, h⟩ := bind_ok h
  simp only [pure, Except.pure, Except.ok.injEq] at h
  exact ⟨fr, getFragment_ok hfr, h.symm⟩

theorem calcSelection_ok {c : Ctx} {f : Nat} {name pfx : String} {ty : TypeId} {sels : List Sel} {items : List Item}
    (hsp : ∀ g, sels ≠ [Sel.spread g])
    (h : calcSelection c (f + 1) name pfx ty sels = .ok items) :
    ∃ rvariants vitems rfields fitems, VariantsPart c f name pfx ty sels rvariants vitems ∧
      calcFields c f pfx ty sels = .ok (rfields, fitems) ∧
      items = renderType c name rfields rvariants ++ vitems ++ fitems := by
  rw [calcSelection.eq_3 _ _ _ _ _ _ (fun g hg => hsp g hg)] at h
  obtain ⟨variants, hv, h⟩ := bind_ok h
  simp only [] at h
  cases variants with
  | none =>
    simp only [pure_bind] at h
    obtain ⟨⟨rfields, fitems⟩, hfl, h⟩ := bind_ok h
    simp only [pure, Except.pure, Except.ok.injEq] at h
    exact ⟨[], [], rfields, fitems, .inl ⟨hv, rfl, rfl⟩, hfl, h.symm⟩
  | some vts =>
    simp only [] at h
    obtain ⟨vsels, hvs, h⟩ := bind_ok h
    obtain ⟨r, hr, h⟩ := bind_ok h
    simp only [pure_bind] at h
    obtain ⟨⟨rfields, fitems⟩, hfl, h⟩ := bind_ok h
    simp only [pure, Except.pure, Except.ok.injEq] at h
    exact ⟨_, _, rfields, fitems, .inr ⟨vts, vsels, r, hv, hvs, hr, rfl, rfl⟩, hfl, h.symm⟩

/-- what one iteration of the per-variant loop contributes -/
def VariantStep (c : Ctx) (f : Nat) (pfx : String) (vt : TypeId) (mine : List VariantSel) (vname : String)
    (thisV : RVariant) (thisItems : List Item) : Prop :=
  let sname := pfx ++ "On" ++ vname
  (mine = [] ∧ thisV = { name := vname } ∧ thisItems = []) ∨
  (thisV = { name := vname, payload := some (.path sname) } ∧
    ((∃ fid fr, mine = [.spread fid fr] ∧ thisItems = [aliasItem sname fr.name (fragmentIsRecursive c.q fid)]) ∨
     (∃ r, calcVariantSels c f sname pfx vt mine = .ok r ∧
        ((∃ a tl, r.2.2 = a :: tl ∧ thisItems = a :: r.2.1) ∨
         (r.2.2 = [] ∧ thisItems = renderType c sname r.1 [] ++ r.2.1)))))

theorem calcVariants_ok {c : Ctx} {f : Nat} {name pfx : String} {vsels : List VariantSel} {vt : TypeId}
    {rest : List TypeId} {vs : List RVariant} {items : List Item}
    (h : calcVariants c (f + 1) name pfx vsels (vt :: rest) = .ok (vs, items)) :
    ∃ vname thisV thisItems vs' items', c.s.typeName vt = .ok vname ∧
      calcVariants c f name pfx vsels rest = .ok (vs', items') ∧ vs = thisV :: vs' ∧ items = thisItems ++ items' ∧
      VariantStep c f pfx vt (vsels.filter (fun v => v.typeId == vt)) vname thisV thisItems := by
  rw [calcVariants.eq_3] at h
  obtain ⟨vname, hvn, h⟩ := bind_ok h
  simp only [] at h
  have fin : ∀ {thisV : RVariant} {thisItems : List Item},
      (do let x ← calcVariants c f name pfx vsels rest
          (pure (thisV :: x.fst, thisItems ++ x.snd) : Outcome _)) = .ok (vs, items) →
      ∃ vs' items', calcVariants c f name pfx vsels rest = .ok (vs', items') ∧ vs = thisV :: vs' ∧
        items = thisItems ++ items' := by
    intro thisV thisItems h
    obtain ⟨⟨vs', items'⟩, hr, h⟩ := bind_ok h
    simp only [pure, Except.pure, Except.ok.injEq, Prod.mk.injEq] at h
    exact ⟨vs', items', hr, h.1.symm, h.2.symm⟩
  split at h
  · rename_i hm
    simp only [pure_bind] at h
    obtain ⟨vs', items', hr, h1, h2⟩ := fin h
    exact ⟨vname, _, _, vs', items', hvn, hr, h1, h2, .inl ⟨hm, rfl, rfl⟩⟩
  · rename_i first tl hm
    split at h
    · rename_i fid fr hs
      simp only [pure_bind] at h
      obtain ⟨vs', items', hr, h1, h2⟩ := fin h
      refine ⟨vname, _, _, vs', items', hvn, hr, h1, h2, .inr ⟨rfl, .inl ⟨fid, fr, ?_, rfl⟩⟩⟩
      split at hs
      · rename_i fid' fr' hm'
        simp only [Option.some.injEq, Prod.mk.injEq] at hs
        rw [← hs.1, ← hs.2]; exact hm'
      · cases hs
    · obtain ⟨r, hr0, h⟩ := bind_ok h
      split at h
      · rename_i a tl' hal
        simp only [pure_bind] at h
        obtain ⟨vs', items', hr, h1, h2⟩ := fin h
        exact ⟨vname, _, _, vs', items', hvn, hr, h1, h2, .inr ⟨rfl, .inr ⟨r, hr0, .inl ⟨a, tl', hal, rfl⟩⟩⟩⟩
      · rename_i hal
        simp only [pure_bind] at h
        obtain ⟨vs', items', hr, h1, h2⟩ := fin h
        exact ⟨vname, _, _, vs', items', hvn, hr, h1, h2, .inr ⟨rfl, .inr ⟨r, hr0, .inr ⟨hal, rfl⟩⟩⟩⟩

theorem calcVariantSels_inline_ok {c : Ctx} {f : Nat} {sname pfx : String} {vt t : TypeId} {sub : List Sel}
    {rest : List VariantSel} {fs : List RField} {items al : List Item}
    (h : calcVariantSels c (f + 1) sname pfx vt (.inline t sub :: rest) = .ok (fs, items, al)) :
    ∃ tn fs0 items0 al0 fs' items' al', c.s.typeName t = .ok tn ∧
      calcVariantSels c f sname pfx vt rest = .ok (fs', items', al') ∧
      fs = fs0 ++ fs' ∧ items = items0 ++ items' ∧ al = al0 ++ al' ∧
      ((∃ g fr, sub = [.spread g] ∧ c.q.fragments[g]? = some fr ∧ fs0 = [] ∧ items0 = [] ∧
          al0 = [aliasItem sname fr.name (fragmentIsRecursive c.q g)]) ∨
       ((∀ g, sub ≠ [Sel.spread g]) ∧ calcFields c f (pfx ++ "On" ++ c.cs.camel tn) vt sub = .ok (fs0, items0) ∧
          al0 = [])) := by
  have fin : ∀ {fs0 : List RField} {items0 al0 : List Item},
      (do let x ← calcVariantSels c f sname pfx vt rest
          (pure (fs0 ++ x.fst, items0 ++ x.snd.fst, al0 ++ x.snd.snd) : Outcome _)) = .ok (fs, items, al) →
      ∃ fs' items' al', calcVariantSels c f sname pfx vt rest = .ok (fs', items', al') ∧
        fs = fs0 ++ fs' ∧ items = items0 ++ items' ∧ al = al0 ++ al' := by
    intro fs0 items0 al0 h
    obtain ⟨⟨fs', items', al'⟩, hr, h⟩ := bind_ok h
    simp only [pure, Except.pure, Except.ok.injEq, Prod.mk.injEq] at h
    exact ⟨fs', items', al', hr, h.1.symm, h.2.1.symm, h.2.2.symm⟩
  by_cases hsp : ∃ g, sub = [Sel.spread g]
  · obtain ⟨g, rfl⟩ := hsp
    rw [calcVariantSels.eq_3] at h
    obtain ⟨tn, htn, h⟩ := bind_ok h
    simp only [] at h
    obtain ⟨fr, hfr, h⟩ := bind_ok h
    simp only [pure_bind] at h
    obtain ⟨fs', items', al', hr, h1, h2, h3⟩ := fin h
    exact ⟨tn, _, _, _, fs', items', al', htn, hr, h1, h2, h3,
      .inl ⟨g, fr, rfl, getFragment_ok hfr, rfl, rfl, rfl⟩⟩
  · rw [calcVariantSels.eq_4 _ _ _ _ _ _ _ _ (fun g hg => hsp ⟨g, hg⟩)] at h
    obtain ⟨tn, htn, h⟩ := bind_ok h
    simp only [] at h
    obtain ⟨⟨fs0, items0⟩, hfl, h⟩ := bind_ok h
    simp only [pure_bind] at h
    obtain ⟨fs', items', al', hr, h1, h2, h3⟩ := fin h
    exact ⟨tn, fs0, items0, [], fs', items', al', htn, hr, h1, h2, h3,
      .inr ⟨fun g hg => hsp ⟨g, hg⟩, hfl, rfl⟩⟩

theorem calcVariantSels_spread_ok {c : Ctx} {f : Nat} {sname pfx : String} {vt : TypeId} {fid : Nat} {fr : RFragment}
    {rest : List VariantSel} {fs : List RField} {items al : List Item}
    (h : calcVariantSels c (f + 1) sname pfx vt (.spread fid fr :: rest) = .ok (fs, items, al)) :
    ∃ fld fs', renderField c none (c.cs.snake fr.name) fr.name [.required] true (fragmentIsRecursive c.q fid) none = .ok fld ∧
      calcVariantSels c f sname pfx vt rest = .ok (fs', items, al) ∧ fs = fld.toList ++ fs' := by
  rw [calcVariantSels.eq_5] at h
  obtain ⟨fld, hfld, h⟩ := bind_ok h
  obtain ⟨⟨fs', items', al'⟩, hr, h⟩ := bind_ok h
  simp only [pure, Except.pure, Except.ok.injEq, Prod.mk.injEq] at h
  obtain ⟨h1, h2, h3⟩ := h
  subst h2 h3
  exact ⟨fld, fs', hfld, hr, h1.symm⟩

/-- what a field selection contributes to the field loop -/
def FieldStep (c : Ctx) (f : Nat) (pfx : String) (alias : Option String) (sub : List Sel) (sf : StoredField)
    (fld : Option RField) (its : List Item) : Prop :=
  let gname := alias.getD sf.name
  let rname := keywordReplace (c.cs.snake gname)
  let sname := pfx ++ c.cs.camel gname
  (∃ e en, sf.ty.id = .enum e ∧ c.s.enums[e]? = some en ∧ its = [] ∧
    renderField c (some gname) rname (c.o.normalization.fieldType c.cs en.name) sf.ty.quals false false sf.deprecation = .ok fld) ∨
  (∃ k sn, sf.ty.id = .scalar k ∧ c.s.scalars[k]? = some sn ∧ its = [] ∧
    renderField c (some gname) rname (c.o.normalization.fieldType c.cs sn) sf.ty.quals false false sf.deprecation = .ok fld) ∨
  ((∀ e, sf.ty.id ≠ .enum e) ∧ (∀ k, sf.ty.id ≠ .scalar k) ∧ (∀ i, sf.ty.id ≠ .input i) ∧
    renderField c (some gname) rname sname sf.ty.quals false false sf.deprecation = .ok fld ∧
    calcSelection c f sname sname sf.ty.id sub = .ok its)

theorem calcFields_field_ok {c : Ctx} {f : Nat} {pfx : String} {ty : TypeId} {alias : Option String} {fid : Nat}
    {sub rest : List Sel} {fs : List RField} {items : List Item}
    (h : calcFields c (f + 1) pfx ty (.field alias fid sub :: rest) = .ok (fs, items)) :
    ∃ sf fld its fs' items', c.s.fields[fid]? = some sf ∧ calcFields c f pfx ty rest = .ok (fs', items') ∧
      fs = fld.toList ++ fs' ∧ items = its ++ items' ∧ FieldStep c f pfx alias sub sf fld its := by
  rw [calcFields.eq_3] at h
  obtain ⟨sf, hsf, h⟩ := bind_ok h
  simp only [] at h
  have fin : ∀ {fld : Option RField} {its : List Item},
      (do let x ← calcFields c f pfx ty rest
          (pure (fld.toList ++ x.fst, its ++ x.snd) : Outcome _)) = .ok (fs, items) →
      ∃ fs' items', calcFields c f pfx ty rest = .ok (fs', items') ∧ fs = fld.toList ++ fs' ∧ items = its ++ items' := by
    intro fld its h
    obtain ⟨⟨fs', items'⟩, hr, h⟩ := bind_ok h
    simp only [pure, Except.pure, Except.ok.injEq, Prod.mk.injEq] at h
    exact ⟨fs', items', hr, h.1.symm, h.2.symm⟩
  split at h
  · rename_i e he
    obtain ⟨en, hen, h⟩ := bind_ok h
    obtain ⟨fld, hfld, h⟩ := bind_ok h
    simp only [pure_bind] at h
    obtain ⟨fs', items', hr, h1, h2⟩ := fin h
    exact ⟨sf, fld, [], fs', items', getField_ok hsf, hr, h1, h2, .inl ⟨e, en, he, getEnum_ok hen, rfl, hfld⟩⟩
  · rename_i k hk
    obtain ⟨sn, hsn, h⟩ := bind_ok h
    obtain ⟨fld, hfld, h⟩ := bind_ok h
    simp only [pure_bind] at h
    obtain ⟨fs', items', hr, h1, h2⟩ := fin h
    exact ⟨sf, fld, [], fs', items', getField_ok hsf, hr, h1, h2, .inr (.inl ⟨k, sn, hk, getScalar_ok hsn, rfl, hfld⟩)⟩
  · obtain ⟨x, hx, _⟩ := bind_ok h
    cases hx
  · rename_i h1' h2' h3'
    obtain ⟨fld, hfld, h⟩ := bind_ok h
    obtain ⟨its, hits, h⟩ := bind_ok h
    simp only [pure_bind] at h
    obtain ⟨fs', items', hr, h1, h2⟩ := fin h
    exact ⟨sf, fld, its, fs', items', getField_ok hsf, hr, h1, h2,
      .inr (.inr ⟨fun e he => h1' e he, fun k hk => h2' k hk, fun i hi => h3' i hi, hfld, hits⟩)⟩

theorem calcFields_spread_ok {c : Ctx} {f : Nat} {pfx : String} {ty : TypeId} {fid : Nat}
    {rest : List Sel} {fs : List RField} {items : List Item}
    (h : calcFields c (f + 1) pfx ty (.spread fid :: rest) = .ok (fs, items)) :
    ∃ fr fs', c.q.fragments[fid]? = some fr ∧ calcFields c f pfx ty rest = .ok (fs', items) ∧
      (fs = fs' ∨ ∃ fld, renderField c none (keywordReplace (c.cs.snake fr.name)) fr.name [.required] true
                    (fragmentIsRecursive c.q fid) none = .ok fld ∧ fs = fld.toList ++ fs') := by
  rw [calcFields.eq_4] at h
  obtain ⟨fr, hfr, h⟩ := bind_ok h
  obtain ⟨⟨fs', items'⟩, hr, h⟩ := bind_ok h
  simp only [] at h
  split at h
  · simp only [pure, Except.pure, Except.ok.injEq, Prod.mk.injEq] at h
    obtain ⟨h1, h2⟩ := h
    subst h2
    exact ⟨fr, fs', getFragment_ok hfr, hr, .inl h1.symm⟩
  · obtain ⟨fld, hfld, h⟩ := bind_ok h
    simp only [pure, Except.pure, Except.ok.injEq, Prod.mk.injEq] at h
    obtain ⟨h1, h2⟩ := h
    subst h2
    exact ⟨fr, fs', getFragment_ok hfr, hr, .inr ⟨fld, hfld, h1.symm⟩⟩

/-! ## 3. the `calc*` block emits closed item lists -/

theorem calcSelection_defines_name {c : Ctx} {fuel : Nat} {name pfx : String} {ty : TypeId} {sels : List Sel}
    {items : List Item} (h : calcSelection c fuel name pfx ty sels = .ok items) : name ∈ Scope.defines items := by
  cases fuel with
  | zero => rw [calcSelection.eq_1] at h; cases h
  | succ f =>
    by_cases hsp : ∃ g, sels = [Sel.spread g]
    · obtain ⟨g, rfl⟩ := hsp
      obtain ⟨fr, _, rfl⟩ := calcSelection_single_ok h
      simp [Scope.defines, aliasItem_defines]
    · obtain ⟨rv, vi, rf, fi, _, _, rfl⟩ := calcSelection_ok (fun g hg => hsp ⟨g, hg⟩) h
      simp only [defines_append, List.mem_append]
      exact .inl (.inl (renderType_defines c name rf rv))

theorem variantSels_origin {q : Query} {ty : TypeId} {sels : List Sel} {vsels : List VariantSel}
    (h : sels.filterMapM (variantSelOf q ty) = .ok vsels) :
    (∀ t sub, VariantSel.inline t sub ∈ vsels → Sel.inline t sub ∈ sels) ∧
    (∀ g fr, VariantSel.spread g fr ∈ vsels → Sel.spread g ∈ sels ∧ q.fragments[g]? = some fr ∧ fr.on ≠ ty) := by
  refine ⟨fun t sub hm => ?_, fun g fr hm => ?_⟩
  · obtain ⟨x, hx, hfx⟩ := filterMapM_ok_mem h _ hm
    cases x with
    | inline t' sub' =>
      simp only [variantSelOf, pure, Except.pure, Except.ok.injEq, Option.some.injEq, VariantSel.inline.injEq] at hfx
      rw [← hfx.1, ← hfx.2]; exact hx
    | spread g =>
      simp only [variantSelOf] at hfx
      obtain ⟨fr, _, hfx⟩ := bind_ok hfx
      simp only [pure, Except.pure, Except.ok.injEq] at hfx
      split at hfx <;> simp at hfx
    | field a b c' => simp [variantSelOf, pure, Except.pure] at hfx
    | typename => simp [variantSelOf, pure, Except.pure] at hfx
  · obtain ⟨x, hx, hfx⟩ := filterMapM_ok_mem h _ hm
    cases x with
    | inline t' sub' => simp [variantSelOf, pure, Except.pure] at hfx
    | spread g' =>
      simp only [variantSelOf] at hfx
      obtain ⟨fr', hfr', hfx⟩ := bind_ok hfx
      simp only [pure, Except.pure, Except.ok.injEq] at hfx
      split at hfx
      · simp at hfx
      · rename_i hne
        simp only [Option.some.injEq, VariantSel.spread.injEq] at hfx
        obtain ⟨rfl, rfl⟩ := hfx
        exact ⟨hx, getFragment_ok hfr', by simpa using hne⟩
    | field a b c' => simp [variantSelOf, pure, Except.pure] at hfx
    | typename => simp [variantSelOf, pure, Except.pure] at hfx

section Calc
variable (c : Ctx) (u : UsedTypes) (G : String → Prop)

/-- the used set accounts for every node below these selections (spreads are not entered) -/
def Cov (sels : List Sel) : Prop := ∀ x ∈ sels, Covered c.s u x

/-- the selections attached to the variants of an abstract type are accounted for in the used set -/
structure VOK (vsels : List VariantSel) : Prop where
  inl : ∀ t sub, VariantSel.inline t sub ∈ vsels → Cov c u sub
  spr : ∀ g fr, VariantSel.spread g fr ∈ vsels → g ∈ u.fragments ∧ c.q.fragments[g]? = some fr

/-- the global part of the module resolves the names of the used enums, scalars and fragments -/
structure GOK : Prop where
  enum : ∀ k en, TypeId.enum k ∈ u.types → c.s.enums[k]? = some en →
    G (c.o.normalization.fieldType c.cs en.name)
  scalar : ∀ k sn, TypeId.scalar k ∈ u.types → c.s.scalars[k]? = some sn →
    G (c.o.normalization.fieldType c.cs sn)
  frag : ∀ g fr, g ∈ u.fragments → c.q.fragments[g]? = some fr → G fr.name

variable {c u G}

theorem Cov.tail {x : Sel} {rest : List Sel} (h : Cov c u (x :: rest)) : Cov c u rest :=
  fun y hy => h y (List.mem_cons_of_mem _ hy)

theorem Cov.field {sels : List Sel} {a : Option String} {fid : Nat} {sub : List Sel} (h : Cov c u sels)
    (hm : .field a fid sub ∈ sels) : Cov c u sub :=
  fun _ hy z hz => h _ hm z (.field hy hz)

theorem Cov.inline {sels : List Sel} {t : TypeId} {sub : List Sel} (h : Cov c u sels)
    (hm : .inline t sub ∈ sels) : Cov c u sub :=
  fun _ hy z hz => h _ hm z (.inline hy hz)

theorem Cov.fieldType {sels : List Sel} {a : Option String} {fid : Nat} {sub : List Sel} (h : Cov c u sels)
    (hm : .field a fid sub ∈ sels) {sf : StoredField} (hsf : c.s.fields[fid]? = some sf) : sf.ty.id ∈ u.types :=
  h _ hm _ (.refl _) sf hsf

theorem Cov.spread {sels : List Sel} {g : Nat} (h : Cov c u sels) (hm : .spread g ∈ sels) : g ∈ u.fragments :=
  h _ hm _ (.refl _)

theorem Cov.vok {sels : List Sel} {ty : TypeId} {vsels : List VariantSel} (h : Cov c u sels)
    (hv : sels.filterMapM (variantSelOf c.q ty) = .ok vsels) : VOK c u vsels := by
  have ⟨h1, h2⟩ := variantSels_origin hv
  exact ⟨fun t sub hm => h.inline (h1 t sub hm), fun g fr hm => ⟨h.spread (h2 g fr hm).1, (h2 g fr hm).2.1⟩⟩

theorem VOK.tail {x : VariantSel} {rest : List VariantSel} (h : VOK c u (x :: rest)) : VOK c u rest :=
  ⟨fun t sub hm => h.inl t sub (List.mem_cons_of_mem _ hm), fun g fr hm => h.spr g fr (List.mem_cons_of_mem _ hm)⟩

theorem VOK.filter {l : List VariantSel} (p : VariantSel → Bool) (h : VOK c u l) : VOK c u (l.filter p) :=
  ⟨fun t sub hm => h.inl t sub (List.mem_filter.mp hm).1, fun g fr hm => h.spr g fr (List.mem_filter.mp hm).1⟩

variable (c u G)

def RStmt1 (fuel : Nat) : Prop := ∀ name pfx ty sels items, Cov c u sels →
  calcSelection c fuel name pfx ty sels = .ok items → ClosedIn G items items
def RStmt2 (fuel : Nat) : Prop := ∀ name pfx vsels vts vs items, VOK c u vsels →
  calcVariants c fuel name pfx vsels vts = .ok (vs, items) →
  (∀ v ∈ vs, ∀ t, v.payload = some t → Res G items (Scope.leaf t)) ∧ ClosedIn G items items
def RStmt3 (fuel : Nat) : Prop := ∀ sname pfx vt mine fs items al, VOK c u mine →
  calcVariantSels c fuel sname pfx vt mine = .ok (fs, items, al) →
  (∀ f ∈ fs, Res G items (Scope.leaf f.ty)) ∧ ClosedIn G items items ∧
  ∀ a ∈ al, ∃ tgt b, a = aliasItem sname tgt b ∧ G tgt
def RStmt4 (fuel : Nat) : Prop := ∀ pfx ty sels fs items, Cov c u sels →
  calcFields c fuel pfx ty sels = .ok (fs, items) →
  (∀ f ∈ fs, Res G items (Scope.leaf f.ty)) ∧ ClosedIn G items items

variable {c u G}

theorem mem_defines_left {a b : List Item} : ∀ m ∈ Scope.defines a, m ∈ Scope.defines (a ++ b) :=
  fun m hm => by rw [defines_append]; exact List.mem_append_left _ hm
theorem mem_defines_right {a b : List Item} : ∀ m ∈ Scope.defines b, m ∈ Scope.defines (a ++ b) :=
  fun m hm => by rw [defines_append]; exact List.mem_append_right _ hm

theorem rstep4 (hG : GOK c u G) (f : Nat) (H1 : RStmt1 c u G f) (H4 : RStmt4 c u G f) : RStmt4 c u G (f + 1) := by
  intro pfx ty sels fs items hcov h
  cases sels with
  | nil =>
    rw [calcFields.eq_2 _ _ _ _ (by omega)] at h
    simp only [pure, Except.pure, Except.ok.injEq, Prod.mk.injEq] at h
    obtain ⟨rfl, rfl⟩ := h
    exact ⟨fun f hf => (by cases hf), ClosedIn.nil⟩
  | cons x rest =>
    cases x with
    | field a fid sub =>
      obtain ⟨sf, fld, its, fs', items', hsf, hr, rfl, rfl, hstep⟩ := calcFields_field_ok h
      have ⟨ih1, ih2⟩ := H4 pfx ty rest fs' items' hcov.tail hr
      have hused := hcov.fieldType (List.mem_cons_self) hsf
      have key : (∀ f ∈ fld.toList, Res G its (Scope.leaf f.ty)) ∧ ClosedIn G its its := by
        rcases hstep with ⟨e, en, he, hen, rfl, hfld⟩ | ⟨k, sn, hk, hsn, rfl, hfld⟩ | ⟨_, _, _, hfld, hits⟩
        · refine ⟨fun f hf => ?_, ClosedIn.nil⟩
          rw [renderField_leaf hfld f hf]
          exact .inr (hG.enum e en (he ▸ hused) hen)
        · refine ⟨fun f hf => ?_, ClosedIn.nil⟩
          rw [renderField_leaf hfld f hf]
          exact .inr (hG.scalar k sn (hk ▸ hused) hsn)
        · refine ⟨fun f hf => ?_, H1 _ _ _ _ _ (hcov.field List.mem_cons_self) hits⟩
          rw [renderField_leaf hfld f hf]
          exact .inl (calcSelection_defines_name hits)
      refine ⟨fun f hf => ?_, ?_⟩
      · rcases List.mem_append.mp hf with hf | hf
        · exact (key.1 f hf).mono mem_defines_left
        · exact (ih1 f hf).mono mem_defines_right
      · exact (key.2.mono mem_defines_left).append (ih2.mono mem_defines_right)
    | spread g =>
      obtain ⟨fr, fs', hfr, hr, hfs⟩ := calcFields_spread_ok h
      have ⟨ih1, ih2⟩ := H4 pfx ty rest fs' items hcov.tail hr
      refine ⟨fun f hf => ?_, ih2⟩
      rcases hfs with rfl | ⟨fld, hfld, rfl⟩
      · exact ih1 f hf
      · rcases List.mem_append.mp hf with hf | hf
        · rw [renderField_leaf hfld f hf]
          exact .inr (hG.frag g fr (hcov.spread List.mem_cons_self) hfr)
        · exact ih1 f hf
    | inline t sub =>
      rw [calcFields.eq_5 _ _ _ _ _ _ (by simp) (by simp)] at h
      exact H4 pfx ty rest fs items hcov.tail h
    | typename =>
      rw [calcFields.eq_5 _ _ _ _ _ _ (by simp) (by simp)] at h
      exact H4 pfx ty rest fs items hcov.tail h

theorem rstep3 (hG : GOK c u G) (f : Nat) (H3 : RStmt3 c u G f) (H4 : RStmt4 c u G f) : RStmt3 c u G (f + 1) := by
  intro sname pfx vt mine fs items al hvok h
  cases mine with
  | nil =>
    rw [calcVariantSels.eq_2 _ _ _ _ _ (by omega)] at h
    simp only [pure, Except.pure, Except.ok.injEq, Prod.mk.injEq] at h
    obtain ⟨rfl, rfl, rfl⟩ := h
    exact ⟨fun f hf => (by cases hf), ClosedIn.nil, fun a ha => (by cases ha)⟩
  | cons x rest =>
    cases x with
    | inline t sub =>
      obtain ⟨tn, fs0, items0, al0, fs', items', al', _, hr, rfl, rfl, rfl, hstep⟩ := calcVariantSels_inline_ok h
      have ⟨ih1, ih2, ih3⟩ := H3 sname pfx vt rest fs' items' al' hvok.tail hr
      have hcov : Cov c u sub := hvok.inl t sub List.mem_cons_self
      have key : (∀ f ∈ fs0, Res G items0 (Scope.leaf f.ty)) ∧ ClosedIn G items0 items0 ∧
          ∀ a ∈ al0, ∃ tgt b, a = aliasItem sname tgt b ∧ G tgt := by
        rcases hstep with ⟨g, fr, rfl, hfr, rfl, rfl, rfl⟩ | ⟨_, hfl, rfl⟩
        · refine ⟨fun f hf => (by cases hf), ClosedIn.nil, fun a ha => ?_⟩
          simp only [List.mem_singleton] at ha
          exact ⟨fr.name, _, ha, hG.frag g fr (hcov.spread List.mem_cons_self) hfr⟩
        · have ⟨k1, k2⟩ := H4 _ _ _ _ _ hcov hfl
          exact ⟨k1, k2, fun a ha => (by cases ha)⟩
      refine ⟨fun f hf => ?_, ?_, fun a ha => ?_⟩
      · rcases List.mem_append.mp hf with hf | hf
        · exact (key.1 f hf).mono mem_defines_left
        · exact (ih1 f hf).mono mem_defines_right
      · exact (key.2.1.mono mem_defines_left).append (ih2.mono mem_defines_right)
      · rcases List.mem_append.mp ha with ha | ha
        · exact key.2.2 a ha
        · exact ih3 a ha
    | spread g fr =>
      obtain ⟨fld, fs', hfld, hr, rfl⟩ := calcVariantSels_spread_ok h
      have ⟨ih1, ih2, ih3⟩ := H3 sname pfx vt rest fs' items al hvok.tail hr
      refine ⟨fun f hf => ?_, ih2, ih3⟩
      rcases List.mem_append.mp hf with hf | hf
      · rw [renderField_leaf hfld f hf]
        have ⟨hg, hfr⟩ := hvok.spr g fr List.mem_cons_self
        exact .inr (hG.frag g fr hg hfr)
      · exact ih1 f hf

theorem rstep2 (hG : GOK c u G) (f : Nat) (H2 : RStmt2 c u G f) (H3 : RStmt3 c u G f) : RStmt2 c u G (f + 1) := by
  intro name pfx vsels vts vs items hvok h
  cases vts with
  | nil =>
    rw [calcVariants.eq_2 _ _ _ _ _ (by omega)] at h
    simp only [pure, Except.pure, Except.ok.injEq, Prod.mk.injEq] at h
    obtain ⟨rfl, rfl⟩ := h
    exact ⟨fun v hv => (by cases hv), ClosedIn.nil⟩
  | cons vt rest =>
    obtain ⟨vname, thisV, thisItems, vs', items', _, hr, rfl, rfl, hstep⟩ := calcVariants_ok h
    have ⟨ih1, ih2⟩ := H2 name pfx vsels rest vs' items' hvok hr
    have hmine : VOK c u (vsels.filter (fun v => v.typeId == vt)) := hvok.filter _
    have key : (∀ t, thisV.payload = some t → Res G thisItems (Scope.leaf t)) ∧ ClosedIn G thisItems thisItems := by
      rcases hstep with ⟨_, rfl, rfl⟩ | ⟨rfl, hstep⟩
      · exact ⟨fun t ht => (by cases ht), ClosedIn.nil⟩
      · simp only [Option.some.injEq]
        rcases hstep with ⟨g, fr, hm, rfl⟩ | ⟨r, hr0, hstep⟩
        · refine ⟨fun t ht => ?_, fun it hit n hn => ?_⟩
          · subst ht
            exact .inl (by simp [Scope.defines, aliasItem_defines, Scope.leaf])
          · simp only [List.mem_singleton] at hit
            subst hit
            rw [aliasItem_mentions, List.mem_singleton] at hn
            subst hn
            have ⟨hg, hfr⟩ := hmine.spr g fr (by rw [hm]; exact List.mem_cons_self)
            exact .inr (hG.frag g fr hg hfr)
        · obtain ⟨r1, r2, r3⟩ := H3 _ _ _ _ r.1 r.2.1 r.2.2 hmine hr0
          rcases hstep with ⟨a, tl, hal, rfl⟩ | ⟨hal, rfl⟩
          · obtain ⟨tgt, b, rfl, htgt⟩ := r3 a (by rw [hal]; exact List.mem_cons_self)
            refine ⟨fun t ht => ?_, fun it hit n hn => ?_⟩
            · subst ht
              exact .inl (by simp [defines_cons, aliasItem_defines, Scope.leaf])
            · rcases List.mem_cons.mp hit with rfl | hit
              · rw [aliasItem_mentions, List.mem_singleton] at hn
                subst hn
                exact .inr htgt
              · exact (r2 it hit n hn).mono (fun m hm => by simp [defines_cons, hm])
          · refine ⟨fun t ht => ?_, ?_⟩
            · subst ht
              exact .inl (mem_defines_left _ (renderType_defines c _ _ _))
            · exact (renderType_closed c _ r.1 [] r.2.1 r1 (fun v hv => (by cases hv))).append
                (r2.mono mem_defines_right)
    refine ⟨fun v hv t ht => ?_, (key.2.mono mem_defines_left).append (ih2.mono mem_defines_right)⟩
    rcases List.mem_cons.mp hv with rfl | hv
    · exact (key.1 t ht).mono mem_defines_left
    · exact (ih1 v hv t ht).mono mem_defines_right

theorem rstep1 (hG : GOK c u G) (f : Nat) (H2 : RStmt2 c u G f) (H4 : RStmt4 c u G f) : RStmt1 c u G (f + 1) := by
  intro name pfx ty sels items hcov h
  by_cases hsp : ∃ g, sels = [Sel.spread g]
  · obtain ⟨g, rfl⟩ := hsp
    obtain ⟨fr, hfr, rfl⟩ := calcSelection_single_ok h
    intro it hit n hn
    simp only [List.mem_singleton] at hit
    subst hit
    rw [aliasItem_mentions, List.mem_singleton] at hn
    subst hn
    exact .inr (hG.frag g fr (hcov.spread List.mem_cons_self) hfr)
  · obtain ⟨rv, vi, rf, fi, hvp, hfl, rfl⟩ := calcSelection_ok (fun g hg => hsp ⟨g, hg⟩) h
    have ⟨f1, f2⟩ := H4 _ _ _ _ _ hcov hfl
    have hv : (∀ v ∈ rv, ∀ t, v.payload = some t → Res G vi (Scope.leaf t)) ∧ ClosedIn G vi vi := by
      rcases hvp with ⟨_, rfl, rfl⟩ | ⟨vts, vsels, r, _, hvs, hr, rfl, rfl⟩
      · exact ⟨fun v hv => (by cases hv), ClosedIn.nil⟩
      · have ⟨v1, v2⟩ := H2 _ _ _ _ r.1 r.2 (hcov.vok hvs) hr
        refine ⟨fun v hv t ht => ?_, v2⟩
        rcases List.mem_append.mp hv with hv | hv
        · exact v1 v hv t ht
        · split at hv
          · simp only [List.mem_singleton] at hv
            subst hv; cases ht
          · cases hv
    have h1 := renderType_closed c name rf rv (vi ++ fi)
      (fun f hf => (f1 f hf).mono mem_defines_right)
      (fun v hv' t ht => (hv.1 v hv' t ht).mono mem_defines_left)
    rw [List.append_assoc]
    refine h1.append (ClosedIn.mono mem_defines_right ?_)
    exact (hv.2.mono mem_defines_left).append (f2.mono mem_defines_right)

/-- **the `calc*` block emits closed item lists**: whenever the used set accounts for the selections
    at hand and the global part of the module resolves the names of the used enums, scalars and fragments,
    every mention of every item returned by `calcSelection` is resolved by an item of the same list or
    globally -/
theorem calc_closed (hG : GOK c u G) :
    ∀ fuel, RStmt1 c u G fuel ∧ RStmt2 c u G fuel ∧ RStmt3 c u G fuel ∧ RStmt4 c u G fuel := by
  intro fuel
  induction fuel with
  | zero =>
    refine ⟨?_, ?_, ?_, ?_⟩
    · intro _ _ _ _ _ _ h; rw [calcSelection.eq_1] at h; cases h
    · intro _ _ _ _ _ _ _ h; rw [calcVariants.eq_1] at h; cases h
    · intro _ _ _ _ _ _ _ _ h; rw [calcVariantSels.eq_1] at h; cases h
    · intro _ _ _ _ _ _ h; rw [calcFields.eq_1] at h; cases h
  | succ f ih =>
    obtain ⟨H1, H2, H3, H4⟩ := ih
    exact ⟨rstep1 hG f H2 H4, rstep2 hG f H2 H3, rstep3 hG f H3 H4, rstep4 hG f H1 H4⟩

end Calc

/-! ## 4. the response items inside the module -/

/-- the items `responseForQuery` emits, decomposed (with the fragment and response parts) -/
theorem responseForQuery_ok_full {c : Ctx} {op : Nat} {items : List Item} (h : responseForQuery c op = .ok items) :
    ∃ u S E F I V o R, allUsedTypes c.s c.q op = .ok u ∧ scalarItems c u = .ok S ∧ enumItems c u = .ok E ∧
      (sortNat u.fragments).mapM (fragmentItems c) = .ok F ∧
      inputItems c u = .ok I ∧ variablesItems c op = .ok V ∧
      c.q.operations[op]? = some o ∧ responseItems c o = .ok R ∧
      items = builtinAliases ++ S ++ E ++ I ++ V ++ F.flatten ++ R := by
  unfold responseForQuery at h
  obtain ⟨u, hu, h⟩ := bind_ok h
  obtain ⟨S, hS, h⟩ := bind_ok h
  obtain ⟨E, hE, h⟩ := bind_ok h
  obtain ⟨F, hF, h⟩ := bind_ok h
  obtain ⟨I, hI, h⟩ := bind_ok h
  obtain ⟨V, hV, h⟩ := bind_ok h
  obtain ⟨o, ho, h⟩ := bind_ok h
  obtain ⟨R, hR, h⟩ := bind_ok h
  simp only [pure, Except.pure, Except.ok.injEq] at h
  exact ⟨u, S, E, F, I, V, o, R, hu, hS, hE, hF, hI, hV, getOperation_ok ho, hR, h.symm⟩

/-- the used set accounts for the operation's selection set and for the body of every used fragment -/
theorem used_covered {s : Schema} {q : Query} {op : Nat} {u : UsedTypes} (h : allUsedTypes s q op = .ok u)
    {o : ROperation} (ho : q.operations[op]? = some o) :
    (∀ x ∈ o.sels, Covered s u x) ∧
    (∀ g ∈ u.fragments, ∀ f, q.fragments[g]? = some f → ∀ x ∈ f.sels, Covered s u x) := by
  obtain ⟨o', u0, ho', hsel, hvar⟩ := allUsedTypes_ok h
  rw [ho] at ho'; cases ho'
  have ⟨hroot, hfr⟩ := selPhase_spec s q o (List.mem_of_getElem? ho) u0 hsel
  have ⟨hle, _⟩ := collectVars_spec s _ u0 u hvar
  have hfrag : ∀ g ∈ u0.fragments, g ∈ u.fragments := fun g hg => by rw [hle.frags]; exact hg
  refine ⟨fun x hx y hy => (hroot x hx y hy).mono hle.types hfrag, ?_⟩
  intro g hg f hf x hx y hy
  exact (hfr g (by rw [← hle.frags]; exact hg) f hf x hx y hy).mono hle.types hfrag

theorem defines_flatten {F : List (List Item)} {its : List Item} (h : its ∈ F) :
    ∀ m ∈ Scope.defines its, m ∈ Scope.defines F.flatten := by
  intro m hm
  simp only [Scope.defines, List.mem_filterMap, List.mem_flatten] at hm ⊢
  obtain ⟨it, hit, hd⟩ := hm
  exact ⟨it, ⟨its, h, hit⟩, hd⟩

theorem fragmentItems_ok {c : Ctx} {g : Nat} {its : List Item} (h : fragmentItems c g = .ok its) :
    ∃ fr, c.q.fragments[g]? = some fr ∧
      calcSelection c (calcFuel c.s c.q) fr.name (c.cs.camel fr.name) fr.on fr.sels = .ok its := by
  unfold fragmentItems at h
  obtain ⟨fr, hfr, h⟩ := bind_ok h
  exact ⟨fr, getFragment_ok hfr, h⟩

theorem resolved_of_defines {items : List Item} {supplied : List String} {n : String}
    (h : n ∈ Scope.defines items) : Scope.resolved items supplied n = true := by
  unfold Scope.resolved
  simp only [Bool.or_eq_true, List.contains_iff_mem]
  exact .inl (.inl h)

theorem resolved_mono_supplied {items : List Item} {sup sup' : List String} {n : String}
    (hs : ∀ x ∈ sup, x ∈ sup') (h : Scope.resolved items sup n = true) : Scope.resolved items sup' n = true := by
  unfold Scope.resolved at h ⊢
  simp only [Bool.or_eq_true, List.contains_iff_mem] at h ⊢
  rcases h with h | h
  · exact .inl h
  · exact .inr (hs _ h)

/-- **response items are resolved in the emitted module.**  For every operation for which
    `responseForQuery` succeeds (normalization `none`), every type name mentioned by an item emitted for
    the response (`responseItems`: `ResponseData` and its nested structs / variant enums / aliases) or for a
    used fragment (`fragmentItems`) is an item of the same module, a Rust prelude type or an extern enum
    the consumer supplies.  No well-formedness hypothesis on schema or query is needed: an ill-formed
    query makes `responseForQuery` fail. -/
theorem response_mentions_resolved (c : Ctx) (op : Nat) (items : List Item)
    (hnorm : c.o.normalization = .none)
    (h : responseForQuery c op = .ok items) :
    ∃ u o F R, allUsedTypes c.s c.q op = .ok u ∧ c.q.operations[op]? = some o ∧
      (sortNat u.fragments).mapM (fragmentItems c) = .ok F ∧ responseItems c o = .ok R ∧
      (∀ it ∈ F.flatten ++ R, it ∈ items) ∧
      ∀ it ∈ F.flatten ++ R, ∀ n ∈ Scope.itemMentions it, Scope.resolved items c.o.externEnums n = true := by
  obtain ⟨u, S, E, F, I, V, o, R, hu, hS, hE, hF, hI, hV, ho, hR, rfl⟩ := responseForQuery_ok_full h
  refine ⟨u, o, F, R, hu, ho, hF, hR, fun it hit => ?_, ?_⟩
  · rcases List.mem_append.mp hit with hit | hit <;> simp [hit]
  have ⟨hroot, hfrs⟩ := used_covered hu ho
  -- the global part
  have hdef : ∀ n, Defined c S E I n →
      Scope.resolved (builtinAliases ++ S ++ E ++ I ++ V ++ F.flatten ++ R) c.o.externEnums n = true := by
    intro n hn
    have := defined_resolved (V ++ F.flatten) R hS hE hI n hn
    simpa [List.append_assoc] using this
  have hG : GOK c u (fun n => Scope.resolved (builtinAliases ++ S ++ E ++ I ++ V ++ F.flatten ++ R)
      c.o.externEnums n = true) := by
    refine ⟨fun k en hk hen => ?_, fun k sn hk hsn => ?_, fun g fr hg hfr => ?_⟩
    · rw [hnorm, fieldType_none]
      apply hdef
      by_cases hx : en.name ∈ c.o.externEnums
      · exact .inr (.inl hx)
      · obtain ⟨it, hit, hname⟩ := enumItems_defines hE hk hen hx
        refine .inr (.inr ⟨it, by simp [hit], ?_⟩)
        rw [hname, hnorm]; rfl
    · rw [hnorm, fieldType_none]
      apply hdef
      by_cases hd : sn ∈ Schema.defaultScalars
      · exact .inl hd
      · obtain ⟨it, hit, hname⟩ := scalarItems_defines hS hk hsn hd
        refine .inr (.inr ⟨it, by simp [hit], ?_⟩)
        rw [hname, hnorm]; rfl
    · have hmem : g ∈ sortNat u.fragments := (mem_sortNat _ _).mpr hg
      obtain ⟨its, hits, hfi⟩ := mapM_ok_of_mem hF g hmem
      obtain ⟨fr', hfr', hcalc⟩ := fragmentItems_ok hfi
      rw [hfr] at hfr'; cases hfr'
      apply resolved_of_defines
      have := defines_flatten hits _ (calcSelection_defines_name hcalc)
      simp only [defines_append, List.mem_append]
      exact .inl (.inr this)
  have hclosed := fun fuel => (calc_closed hG fuel).1
  intro it hit n hn
  rcases List.mem_append.mp hit with hit | hit
  · obtain ⟨its, hits, hit⟩ := List.mem_flatten.mp hit
    obtain ⟨g, hg, hfi⟩ := mapM_ok_mem hF its hits
    obtain ⟨fr, hfr, hcalc⟩ := fragmentItems_ok hfi
    have hcov : Cov c u fr.sels := hfrs g ((mem_sortNat _ _).mp hg) fr hfr
    rcases hclosed _ _ _ _ _ _ hcov hcalc it hit n hn with hd | hd
    · apply resolved_of_defines
      have := defines_flatten hits _ hd
      simp only [defines_append, List.mem_append]
      exact .inl (.inr this)
    · exact hd
  · unfold responseItems at hR
    rcases hclosed _ _ _ _ _ _ hroot hR it hit n hn with hd | hd
    · apply resolved_of_defines
      simp only [defines_append, List.mem_append]
      exact .inr hd
    · exact hd

end C02
end GqlVerif
