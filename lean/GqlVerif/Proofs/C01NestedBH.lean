import GqlVerif.Proofs.C01NestedBF
/-!
# C01 end to end (`NestedBOp`), part H: losslessness (generic environment, parametric)

As `C01NestedH` (parametric in `cent`, tied together by `C01N.FragRT`), for the class `aSel`.

* `canonTagA` / `canonAbsB` — what is written at a field of abstract type of the new kind: the `__typename` entry, then
  **the entries the struct of the fragment selected on the runtime type writes** (`cent g kvs`);
* `canonFieldA` / `canonEntriesA` / `canonSelA` — the allowed differences;
* `sideOkSelA` — Rust field names distinct (as `sideOkSelA`), and at a position of the new kind no selected fragment reads the
  key `__typename`;
* `rtMembersA` (a struct of flattened members: `deStructN_finds` of `C01NestedG`, `ser_flat` of `C01AbstractI`), `rtVariantA`,
  **`rtAbsB`** (`tagged_roundtrip` of `C01Layers`), `rtStructA`, `rtBodyA`, **`bodyA_lossless`**.

Copy of `C01NestedGenXH` for the class `NestedBOp`; what differs: `canonTagB` (in selection order the interface-level fields'
entries and, at the position of each (b)-spread, the entries the fragment's own types write — `canonEntriesBD` of
`C01VariantSpreadD` —, then the tag entry and the payload of `NestedGen2Op` on the selection set without its (b)-spreads; the shared
`__typename` is written once per (b)-fragment and once by the tagged enum, `normJson` keeps one), the side conditions of
`sideOkSelA` at an abstract position (`rustNamesB`, `rustOkFragB`; `bDisjOk` is defined, not required) and **`rtAbsB`**: the struct all of whose flattened
members borrow (`deStruct_borrow_finds`, `ser_flat`), each (b)-member by `rtAbsV_w`, the flattened `on` by `C01NX.rtTagX`.
-/
set_option linter.unusedSimpArgs false
set_option linter.unusedVariables false
set_option linter.unusedSectionVars false
set_option linter.unnecessarySimpa false

namespace GqlVerif
namespace C01NB
open Serde Spec C13 C03 Codegen C01 C01.E2E C01M C01N C01NA C01NG C01NX

/-- what the type(s) of an abstract position of the class write for a conforming response object: in selection order the
    interface-level fields' entries and, **at the position of every (b)-spread, the entries that fragment's own type(s) write**
    (`canonAbsV` of its body on the entries the own fields left: its fields and `__typename`), then the tag entry, then what
    the payload of the variant of the runtime type writes.  With (b)-spreads `__typename` occurs several times in what the
    serializer writes; `serde_json::to_value` keeps one (`normJson`). -/
def canonTagB (cent : Nat → List (String × Json) → List (String × Json)) (s : Schema) (q : Query) (o : Options)
    (ty : TypeId) (sub : List Sel) : Json → Json
  | .obj kvs =>
    (match Json.lookup "__typename" kvs with
     | some (.str n) =>
       (match (vtsOfTy s ty).find? (fun vt => objName s vt == n) with
        | some vt => .obj (canonEntriesBD s q o.skipNone ty (restG s sub kvs) sub kvs ++
            ("__typename", .str n) :: payCanonX cent s q o (unB q ty sub) vt kvs)
        | none => .obj kvs)
     | _ => .obj kvs)
  | j => j

/-- … and the field of abstract type -/
def canonAbsB (cent : Nat → List (String × Json) → List (String × Json)) (s : Schema) (q : Query) (o : Options)
    (sf : StoredField) (sub : List Sel) (v : Json) : Json :=
  canon (canonTagB cent s q o sf.ty.id sub) (gtyOf sf.ty.quals) v

mutual
  def canonFieldA (cent : Nat → List (String × Json) → List (String × Json)) (s : Schema) (q : Query) (o : Options) :
      Sel → Json → Json
    | .field a fid sub, v =>
      match s.fields[fid]? with
      | none => v
      | some sf =>
        match sf.ty.id with
        | .object _ => canon (fun j =>
            match sub with
            | [.spread g] => cwhole cent g j
            | _ => match j with
              | .obj kvs => .obj (canonEntriesA cent s q o sub kvs)
              | j => j) (gtyOf sf.ty.quals) v
        | _ => if sSel s q o false (.field a fid sub) then canonFieldD s q o.skipNone (.field a fid sub) v
               else canonAbsB cent s q o sf sub v
    | _, v => v
  /-- own entries and, **at the position of each spread**, the entries the fragment struct writes, in selection order -/
  def canonEntriesA (cent : Nat → List (String × Json) → List (String × Json)) (s : Schema) (q : Query) (o : Options) :
      List Sel → List (String × Json) → List (String × Json)
    | [], _ => []
    | .field a fid sub :: xs, kvs =>
      (match s.fields[fid]? with
       | none => []
       | some sf =>
         match Json.lookup (a.getD sf.name) kvs with
         | some v =>
           if o.skipNone && skipQ sf.ty.quals && v.isNull then []
           else [(a.getD sf.name, canonFieldA cent s q o (.field a fid sub) v)]
         | none => if o.skipNone && skipQ sf.ty.quals then [] else [(a.getD sf.name, Json.null)]) ++
        canonEntriesA cent s q o xs kvs
    | .spread g :: xs, kvs => cent g kvs ++ canonEntriesA cent s q o xs kvs
    | _ :: xs, kvs => canonEntriesA cent s q o xs kvs
end

/-- **`canonSelA`**: what the serializer writes for a conforming response `j` (before `serde_json::to_value` merges
    repeated keys) -/
def canonSelA (cent : Nat → List (String × Json) → List (String × Json)) (s : Schema) (q : Query) (o : Options)
    (sels : List Sel) (j : Json) : Json :=
  match sels with
  | [.spread g] => cwhole cent g j
  | _ => match j with
    | .obj kvs => .obj (canonEntriesA cent s q o sels kvs)
    | j => j

theorem canonLambdaA (cent : Nat → List (String × Json) → List (String × Json)) (s : Schema) (q : Query) (o : Options)
    (sub : List Sel) :
    (fun j =>
      match sub with
      | [.spread g] => cwhole cent g j
      | _ => match j with
        | .obj kvs => .obj (canonEntriesA cent s q o sub kvs)
        | j => j) = canonSelA cent s q o sub := by
  funext j; unfold canonSelA; rfl

theorem canonSelA_not_lone {cent : Nat → List (String × Json) → List (String × Json)} {s : Schema} {q : Query}
    {o : Options} {sels : List Sel} (h : ∀ g, sels ≠ [Sel.spread g]) (j : Json) :
    canonSelA cent s q o sels j =
      (match j with | .obj kvs => .obj (canonEntriesA cent s q o sels kvs) | j => j) := by
  unfold canonSelA
  split
  · exact absurd rfl (h _)
  · rfl

theorem canonFieldA_old {cent : Nat → List (String × Json) → List (String × Json)} {s : Schema} {q : Query}
    {o : Options} {a : Option String} {fid : Nat}
    {sub : List Sel} {sf : StoredField} (hsf : s.fields[fid]? = some sf) (hno : ∀ i, sf.ty.id ≠ .object i)
    (hs : sSel s q o false (.field a fid sub) = true) (v : Json) :
    canonFieldA cent s q o (.field a fid sub) v = canonFieldD s q o.skipNone (.field a fid sub) v := by
  rw [canonFieldA]
  simp only [hsf]
  cases hid : sf.ty.id with
  | object i => exact absurd hid (hno i)
  | scalar k => simp only [hs, if_true]
  | «enum» k => simp only [hs, if_true]
  | interface k => simp only [hs, if_true]
  | union k => simp only [hs, if_true]
  | input k => simp only [hs, if_true]

theorem canonFieldA_new {cent : Nat → List (String × Json) → List (String × Json)} {s : Schema} {q : Query}
    {o : Options} {a : Option String} {fid : Nat}
    {sub : List Sel} {sf : StoredField} (hsf : s.fields[fid]? = some sf) (hno : ∀ i, sf.ty.id ≠ .object i)
    (hs : sSel s q o false (.field a fid sub) = false) (v : Json) :
    canonFieldA cent s q o (.field a fid sub) v = canonAbsB cent s q o sf sub v := by
  rw [canonFieldA]
  simp only [hsf]
  cases hid : sf.ty.id with
  | object i => exact absurd hid (hno i)
  | scalar k => simp only [hs, Bool.false_eq_true, if_false]
  | «enum» k => simp only [hs, Bool.false_eq_true, if_false]
  | interface k => simp only [hs, Bool.false_eq_true, if_false]
  | union k => simp only [hs, Bool.false_eq_true, if_false]
  | input k => simp only [hs, Bool.false_eq_true, if_false]

/-- **no key has two readers** at a position with (b)-spreads: for every possible type, the field keys selected through
    the (b)-fragments (`bKeys` of `VariantSpreadOp`) are pairwise distinct and distinct from the keys read on the variant (the
    fields of its inline fragments and the keys of its — nested — fragments); the keys of a (b)-fragment against the position's
    own fields are part of the class (`bOk`); vacuous without (b)-spreads.  **Not a hypothesis of the theorems**: all flattened
    members *borrow* (each reads all the entries the own fields left), so reading and writing back do not need it; it says that
    `normJson` merges no two entries other than the repeated `__typename` (`disjOkA`, `nestedBDisjOk`). -/
def bDisjOk (KN : String → List String) (c : Ctx) (ty : TypeId) (sub : List Sel) : Bool :=
  (bSels c.q ty sub).isEmpty || (vtsOfTy c.s ty).all (fun vt =>
    EnumSpec.nodup (bKeys c.s c.q ty vt sub ++
      (if (mineOf c.q vt (unB c.q ty sub)).any isBody then expKeysN KN c (varSels c.q vt (unB c.q ty sub))
       else memKeys KN c vt (strip (unbody (unB c.q ty sub))))))

/-! ## Rust field names -/

mutual
  /-- side conditions for the round trip: Rust field names pairwise distinct in every struct (`sideOkSelsA`); at a position
      of the new kind: no selected fragment reads the key `__typename` (the tagged enum consumes that entry) -/
  def sideOkSelA (KN : String → List String) (c : Ctx) : Sel → Bool
    | .field a fid sub =>
      (match (c.s.fields[fid]?).map (fun sf => sf.ty.id) with
       | some (TypeId.object _) =>
         (match sub with
          | [.spread _] => true
          | _ => EnumSpec.nodup (rustNamesF c sub) && sideOkSelsA KN c sub)
       | some ty =>
         if sSel c.s c.q c.o false (.field a fid sub) then rustOkSelD c (.field a fid sub)
         else ((unB c.q ty sub).filterMap selFrag).all (fun g =>
                  (posKeys c.s (unB c.q ty sub)).all (fun k => !(KN (fragName c g)).contains k)) &&
                EnumSpec.nodup (rustNamesB c ty sub ++ ["on"]) &&
                (vtsOfTy c.s ty).all (fun vt => varSideOk c vt (unB c.q ty sub)) &&
                (bSels c.q ty sub).all (fun x => match x with | .spread g => rustOkFragB c g | _ => true)
       | none => true)
    | _ => true
  def sideOkSelsA (KN : String → List String) (c : Ctx) : List Sel → Bool
    | [] => true
    | x :: xs => sideOkSelA KN c x && sideOkSelsA KN c xs
end

mutual
  /-- `bDisjOk` at every abstract position of the class -/
  def disjOkA (KN : String → List String) (c : Ctx) : Sel → Bool
    | .field a fid sub =>
      (match (c.s.fields[fid]?).map (fun sf => sf.ty.id) with
       | some (TypeId.object _) => disjOksA KN c sub
       | some ty => if sSel c.s c.q c.o false (.field a fid sub) then true else bDisjOk KN c ty sub
       | none => true)
    | _ => true
  def disjOksA (KN : String → List String) (c : Ctx) : List Sel → Bool
    | [] => true
    | x :: xs => disjOkA KN c x && disjOksA KN c xs
end

theorem sideOkSelsA_mem {KN : String → List String} {c : Ctx} : ∀ {sels : List Sel}, sideOkSelsA KN c sels = true →
    ∀ x ∈ sels, sideOkSelA KN c x = true
  | [], _, _, hx => by simp at hx
  | y :: ys, h, x, hx => by
    rw [sideOkSelsA, Bool.and_eq_true] at h
    rcases List.mem_cons.mp hx with rfl | hx'
    · exact h.1
    · exact sideOkSelsA_mem h.2 x hx'

theorem sideOkSelA_obj {KN : String → List String} {c : Ctx} {a : Option String} {fid : Nat} {sub : List Sel} {sf : StoredField} {i : Nat}
    (hsf : c.s.fields[fid]? = some sf) (hid : sf.ty.id = .object i) (hnl : ∀ g, sub ≠ [Sel.spread g])
    (h : sideOkSelA KN c (.field a fid sub) = true) :
    sideOkSelsA KN c sub = true ∧ EnumSpec.nodup (rustNamesF c sub) = true := by
  unfold sideOkSelA at h
  simp only [hsf, hid, Option.map_some] at h
  have : (EnumSpec.nodup (rustNamesF c sub) && sideOkSelsA KN c sub) = true := by
    revert h
    exact id
  rw [Bool.and_eq_true] at this
  exact ⟨this.2, this.1⟩

theorem sideOkSelA_old {KN : String → List String} {c : Ctx} {a : Option String} {fid : Nat} {sub : List Sel}
    {sf : StoredField}
    (hsf : c.s.fields[fid]? = some sf) (hno : ∀ i, sf.ty.id ≠ .object i)
    (hs : sSel c.s c.q c.o false (.field a fid sub) = true) (h : sideOkSelA KN c (.field a fid sub) = true) :
    rustOkSelD c (.field a fid sub) = true := by
  unfold sideOkSelA at h
  simp only [hsf, Option.map_some] at h
  cases hid : sf.ty.id with
  | object i => exact absurd hid (hno i)
  | scalar k => simpa only [hid, hs, if_true] using h
  | «enum» k => simpa only [hid, hs, if_true] using h
  | interface k => simpa only [hid, hs, if_true] using h
  | union k => simpa only [hid, hs, if_true] using h
  | input k => simpa only [hid, hs, if_true] using h

theorem sideOkSelA_new {KN : String → List String} {c : Ctx} {a : Option String} {fid : Nat} {sub : List Sel}
    {sf : StoredField}
    (hsf : c.s.fields[fid]? = some sf) (hno : ∀ i, sf.ty.id ≠ .object i)
    (hs : sSel c.s c.q c.o false (.field a fid sub) = false) (h : sideOkSelA KN c (.field a fid sub) = true) :
    (∀ g ∈ (unB c.q sf.ty.id sub).filterMap selFrag, ∀ k ∈ posKeys c.s (unB c.q sf.ty.id sub), k ∉ KN (fragName c g)) ∧
      EnumSpec.nodup (rustNamesB c sf.ty.id sub ++ ["on"]) = true ∧
      (∀ vt ∈ vtsOfTy c.s sf.ty.id, varSideOk c vt (unB c.q sf.ty.id sub) = true) ∧
      (∀ g, Sel.spread g ∈ bSels c.q sf.ty.id sub → rustOkFragB c g = true) := by
  unfold sideOkSelA at h
  simp only [hsf, Option.map_some] at h
  have h' : (((unB c.q sf.ty.id sub).filterMap selFrag).all (fun g =>
        (posKeys c.s (unB c.q sf.ty.id sub)).all (fun k => !(KN (fragName c g)).contains k)) &&
      EnumSpec.nodup (rustNamesB c sf.ty.id sub ++ ["on"]) &&
      (vtsOfTy c.s sf.ty.id).all (fun vt => varSideOk c vt (unB c.q sf.ty.id sub)) &&
      (bSels c.q sf.ty.id sub).all (fun x => match x with | .spread g => rustOkFragB c g | _ => true)) = true := by
    cases hid : sf.ty.id with
    | object i => exact absurd hid (hno i)
    | scalar k => simpa only [hid, hs, Bool.false_eq_true, if_false] using h
    | «enum» k => simpa only [hid, hs, Bool.false_eq_true, if_false] using h
    | interface k => simpa only [hid, hs, Bool.false_eq_true, if_false] using h
    | union k => simpa only [hid, hs, Bool.false_eq_true, if_false] using h
    | input k => simpa only [hid, hs, Bool.false_eq_true, if_false] using h
  simp only [Bool.and_eq_true, List.all_eq_true, Bool.not_eq_true'] at h'
  refine ⟨fun g hg k hk hmem => ?_, h'.1.1.2, h'.1.2, fun g hg => h'.2 _ hg⟩
  have := h'.1.1.1 g hg k hk
  rw [← List.contains_iff_mem] at hmem
  rw [this] at hmem
  cases hmem

theorem keysOksA_mem {KN : String → List String} {c : Ctx} : ∀ {sels : List Sel}, keysOksA KN c sels = true →
    ∀ x ∈ sels, keysOkA KN c x = true
  | [], _, _, hx => by simp at hx
  | y :: ys, h, x, hx => by
    rw [keysOksA, Bool.and_eq_true] at h
    rcases List.mem_cons.mp hx with rfl | hx'
    · exact h.1
    · exact keysOksA_mem h.2 x hx'

theorem filter_tag_eq (kvs : List (String × Json)) :
    kvs.filter (fun kv => !["__typename"].contains kv.1) = kvs.filter (fun kv => kv.1 != "__typename") := by
  congr 1
  funext kv
  by_cases hkv : kv.1 = "__typename" <;> simp [hkv]

/-- the canonical form of the value of the own field whose wire name is `f.wire` -/
def fcanonOfA (cent : Nat → List (String × Json) → List (String × Json)) (s : Schema) (q : Query) (o : Options)
    (sels : List Sel) (f : RField) (v : Json) : Json :=
  match sels.find? (fun x => fieldKey s x == some f.wire) with
  | some x => canonFieldA cent s q o x v
  | none => v

section XLemH
variable {e : Env} {c : Ctx} {ok : TypeId → Nat → Bool} {KN : String → List String} {fenv : Nat → Prop}
  {ex : Nat → Sel} {cent : Nat → List (String × Json) → List (String × Json)}

theorem canonEntriesA_leaf {s : Schema} {q : Query} {o : Options} (kvs : List (String × Json)) : ∀ (sels : List Sel),
    (∀ x ∈ sels, leafSel s q o x = true) →
    canonEntriesA cent s q o sels kvs = canonVarX cent s q o.skipNone sels kvs
  | [], _ => rfl
  | x :: xs, h => by
    have ih := canonEntriesA_leaf kvs xs (fun y hy => h y (List.mem_cons_of_mem _ hy))
    cases x with
    | field a fid sub' =>
      obtain ⟨sf, hsf, hno, hs⟩ := leaf_facts (h _ (List.mem_cons_self))
      rw [canonEntriesA.eq_2, canonVarX, canonEntriesD.eq_2, ih]
      · simp only [hsf]
        cases Json.lookup (a.getD sf.name) kvs with
        | none => simp [canonEntriesD]
        | some v => simp only [canonFieldA_old hsf hno hs]; simp [canonEntriesD]
      · intro g hg; cases hg
    | spread g => rw [canonEntriesA.eq_3, canonVarX, ih]
    | inline t sub' => simp [canonEntriesA, canonVarX, canonEntriesD, ih]
    | typename => simp [canonEntriesA, canonVarX, canonEntriesD, ih]

theorem rustOkSelD_leaf (a : Option String) (fid : Nat) : rustOkSelD c (.field a fid []) = true := by
  rw [rustOkSelD]
  have h1 : rustOkSelsD c [] = true := by simp [rustOkSelsD]
  have h2 : ∀ vt, varRust c vt [] = [] := fun vt => by simp [varRust]
  have h3 : ∀ ty, rustNamesB c ty [] = [] := fun ty => rfl
  simp only [h1, h2, h3, Bool.and_true, List.nil_append]
  cases isAbsField c fid <;> simp <;> exact ⟨by decide, fun _ _ => by decide⟩

theorem sideOkSelsA_of_mem : ∀ {sels : List Sel}, (∀ x ∈ sels, sideOkSelA KN c x = true) → sideOkSelsA KN c sels = true
  | [], _ => rfl
  | x :: xs, h => by
    rw [sideOkSelsA, h x (List.mem_cons_self), sideOkSelsA_of_mem (fun y hy => h y (List.mem_cons_of_mem _ hy))]; rfl

theorem sideOkSelA_leaf {a : Option String} {fid : Nat}
    (h : leafSel c.s c.q c.o (.field a fid []) = true) : sideOkSelA KN c (.field a fid []) = true := by
  obtain ⟨sf, hsf, hno, hs⟩ := leaf_facts h
  unfold sideOkSelA
  simp only [hsf, Option.map_some]
  cases hid : sf.ty.id with
  | object i => exact absurd hid (hno i)
  | scalar k => simp [hs, rustOkSelD_leaf]
  | «enum» k => simp [hs, rustOkSelD_leaf]
  | interface k => simp [hs, rustOkSelD_leaf]
  | union k => simp [hs, rustOkSelD_leaf]
  | input k => simp [hs, rustOkSelD_leaf]

theorem confSelsV_all {s : Schema} {rt : Nat} {kvs : List (String × Json)} : ∀ {l : List Sel},
    (∀ y ∈ l, confSelV s rt y kvs = true) → confSelsV s rt l kvs = true
  | [], _ => rfl
  | y :: ys, h => by
    rw [confSelsV, h y (List.mem_cons_self), confSelsV_all (fun z hz => h z (List.mem_cons_of_mem _ hz))]; rfl

theorem mem_expandSelsW : ∀ {l : List Sel} {y : Sel}, y ∈ expandSelsW ex l → ∃ x ∈ l, y = expandSelW ex x
  | [], _, h => by simp [expandSelsW] at h
  | x :: xs, y, h => by
    rw [expandSelsW] at h
    rcases List.mem_cons.mp h with rfl | h'
    · exact ⟨x, List.mem_cons_self, rfl⟩
    · obtain ⟨x', hx', e'⟩ := mem_expandSelsW h'
      exact ⟨x', List.mem_cons_of_mem _ hx', e'⟩

theorem mem_expKeysN {k : String} : ∀ {sels : List Sel}, k ∈ expKeysN KN c sels →
    k ∈ fieldKeys c.s sels ∨ ∃ g, Sel.spread g ∈ sels ∧ k ∈ KN (fragName c g)
  | [], h => by simp [expKeysN] at h
  | x :: xs, h => by
    cases x with
    | field a fid sub' =>
      rw [expKeysN, List.mem_append] at h
      rcases h with h | h
      · left
        cases hsf : c.s.fields[fid]? with
        | none => simp [hsf] at h
        | some sf =>
          simp only [hsf, List.mem_singleton] at h
          simp [fieldKeys, List.filterMap_cons, fieldKey, hsf, h]
      · rcases mem_expKeysN h with h' | ⟨g, hg, hk⟩
        · left
          simp only [fieldKeys, List.filterMap_cons] at h' ⊢
          cases fieldKey c.s (Sel.field a fid sub') <;> simp [h']
        · exact .inr ⟨g, List.mem_cons_of_mem _ hg, hk⟩
    | spread g =>
      rw [expKeysN, List.mem_append] at h
      rcases h with h | h
      · exact .inr ⟨g, List.mem_cons_self, h⟩
      · rcases mem_expKeysN h with h' | ⟨g', hg, hk⟩
        · left; simpa [fieldKeys, List.filterMap_cons, fieldKey] using h'
        · exact .inr ⟨g', List.mem_cons_of_mem _ hg, hk⟩
    | inline t sub' =>
      simp only [expKeysN] at h
      rcases mem_expKeysN h with h' | ⟨g', hg, hk⟩
      · left; simpa [fieldKeys, List.filterMap_cons, fieldKey] using h'
      · exact .inr ⟨g', List.mem_cons_of_mem _ hg, hk⟩
    | typename =>
      simp only [expKeysN] at h
      rcases mem_expKeysN h with h' | ⟨g', hg, hk⟩
      · left; simpa [fieldKeys, List.filterMap_cons, fieldKey] using h'
      · exact .inr ⟨g', List.mem_cons_of_mem _ hg, hk⟩

end XLemH

section RTA
variable (e : Env) (c : Ctx) (ok : TypeId → Nat → Bool) (whole : Nat → Bool → Json → Bool) (KN : String → List String)
  (fenv : Nat → Prop) (ex : Nat → Sel) (cent : Nat → List (String × Json) → List (String × Json))

section Fields2
variable {ok} {c} (hok : OkSpec c.q ok)

include hok in
theorem rust_fieldsOfA (pfx : String) (p : TypeId) : ∀ (sels : List Sel), aSels ok c.s c.q c.o p sels = true →
    (fieldsOfF c pfx sels).map (·.rust) = rustNamesF c sels
  | [], _ => rfl
  | x :: xs, ht => by
    obtain ⟨hx, hxs⟩ := aSels_cons ht
    have ih := rust_fieldsOfA pfx p xs hxs
    rw [fieldsOfF_cons, List.map_append, ih]
    cases x with
    | field a fid sub =>
      obtain ⟨sf, ft, hsf, _, hf, _⟩ := fieldOfSelV_a pfx p a fid sub hx
      rw [fieldOfSelF_field, hf]
      simp [rustNamesF, List.filterMap_cons, rustNameF, rustName, hsf, fieldOf]
    | spread g =>
      have hokg : ok p g = true := by simpa [aSel] using hx
      obtain ⟨fr, hfr, _⟩ := hok _ _ hokg
      simp [fieldOfSelF, hfr, spreadField, rustNamesF, List.filterMap_cons, rustNameF, fragName]
    | inline t sub => simp [aSel] at hx
    | typename => simp [fieldOfSelF, fieldOfSelV, rustNamesF, List.filterMap_cons, rustNameF, rustName]

theorem mem_fieldsOfV_a {pfx : String} {p : TypeId} {sels : List Sel} {f : RField}
    (hf : f ∈ fieldsOfV c pfx sels) (ht : aSels ok c.s c.q c.o p sels = true) :
    ∃ a fid sub sf ft, Sel.field a fid sub ∈ sels ∧ c.s.fields[fid]? = some sf ∧
      fieldOfSelV c pfx (.field a fid sub) = some f ∧
      f = fieldOf c (a.getD sf.name) ft sf.ty.quals sf.deprecation ∧ wfQuals sf.ty.quals = true := by
  obtain ⟨x, hx, hfx⟩ := List.mem_filterMap.mp hf
  cases x with
  | field a fid sub =>
    obtain ⟨sf, ft, hsf, _, hf', hw⟩ := fieldOfSelV_a pfx p a fid sub (aSels_mem ht _ hx)
    rw [hf'] at hfx
    exact ⟨a, fid, sub, sf, ft, hx, hsf, by rw [hf', hfx], (Option.some.inj hfx).symm, hw⟩
  | spread g => cases hfx
  | inline t sub => cases hfx
  | typename => cases hfx

include hok in
theorem mem_fieldsOfA_flatten {pfx : String} {p : TypeId} : ∀ {sels : List Sel} {g : RField},
    g ∈ fieldsOfF c pfx sels → aSels ok c.s c.q c.o p sels = true → g.flatten = true →
    ∃ gid fr, Sel.spread gid ∈ sels ∧ c.q.fragments[gid]? = some fr ∧ g = spreadField c fr
  | [], g, hg, _, _ => by simp [fieldsOfF] at hg
  | x :: xs, g, hg, ht, hfl => by
    obtain ⟨hx, hxs⟩ := aSels_cons ht
    rw [fieldsOfF_cons, List.mem_append] at hg
    rcases hg with hg | hg
    · cases x with
      | field a fid sub =>
        obtain ⟨sf, ft, _, _, hf, _⟩ := fieldOfSelV_a pfx p a fid sub hx
        rw [fieldOfSelF_field, hf] at hg
        simp only [Option.toList, List.mem_singleton] at hg
        subst hg; simp [fieldOf] at hfl
      | spread gid =>
        have hokg : ok p gid = true := by simpa [aSel] using hx
        obtain ⟨fr, hfr, _⟩ := hok _ _ hokg
        simp only [fieldOfSelF, hfr, Option.map_some, Option.toList, List.mem_singleton] at hg
        exact ⟨gid, fr, by simp, hfr, hg⟩
      | inline t sub => simp [aSel] at hx
      | typename => simp [fieldOfSelF, fieldOfSelV] at hg
    · obtain ⟨gid, fr, h1, h2, h3⟩ := mem_fieldsOfA_flatten hg hxs hfl
      exact ⟨gid, fr, List.mem_cons_of_mem _ h1, h2, h3⟩

include hok in
/-- the entries the struct writes are `canonEntriesA` (the struct was read from `kvs'`, which agrees with `kvs` on the own
    keys) -/
theorem flatMap_entriesA_canon (cent : Nat → List (String × Json) → List (String × Json)) (pfx : String) (p : TypeId)
    (fc : RField → Json → Json) (mc : RField → List (String × Json)) (kvs' kvs : List (String × Json)) :
    ∀ (sels : List Sel), aSels ok c.s c.q c.o p sels = true →
    (∀ k ∈ fieldKeys c.s sels, Json.lookup k kvs' = Json.lookup k kvs) →
    (∀ a fid sub, Sel.field a fid sub ∈ sels → ∀ f, fieldOfSelV c pfx (.field a fid sub) = some f →
      ∀ v, fc f v = canonFieldA cent c.s c.q c.o (.field a fid sub) v) →
    (∀ g fr, Sel.spread g ∈ sels → c.q.fragments[g]? = some fr → mc (spreadField c fr) = cent g kvs) →
    (fieldsOfF c pfx sels).flatMap (entriesF fc mc kvs') = canonEntriesA cent c.s c.q c.o sels kvs
  | [], _, _, _, _ => by simp [fieldsOfF, canonEntriesA]
  | x :: xs, ht, hlk, hfc, hmc => by
    obtain ⟨hx, hxs⟩ := aSels_cons ht
    have ih := flatMap_entriesA_canon cent pfx p fc mc kvs' kvs xs hxs
      (fun k hk => hlk k (by
        simp only [fieldKeys, List.filterMap_cons] at hk ⊢
        cases fieldKey c.s x <;> simp [hk]))
      (fun a fid sub hm => hfc a fid sub (List.mem_cons_of_mem _ hm))
      (fun g fr hm => hmc g fr (List.mem_cons_of_mem _ hm))
    rw [fieldsOfF_cons, List.flatMap_append, ih]
    cases x with
    | field a fid sub =>
      obtain ⟨sf, ft, hsf, _, hf, _⟩ := fieldOfSelV_a pfx p a fid sub hx
      rw [fieldOfSelF_field, hf, canonEntriesA.eq_2]
      simp only [Option.toList, List.flatMap_cons, List.flatMap_nil, List.append_nil, entriesF, fieldOf,
        Bool.false_eq_true, ↓reduceIte]
      have := expectOut_cons fc (fieldOf c (a.getD sf.name) ft sf.ty.quals sf.deprecation) [] kvs'
      simp only [fieldOf] at this
      rw [this]
      simp only [hsf, expectOut, List.filterMap_nil, List.append_nil]
      have hw := fieldOf_wire c (a.getD sf.name) ft sf.ty.quals sf.deprecation
      simp only [fieldOf] at hw
      simp only [hw, Bool.and_assoc]
      have hfc' := hfc a fid sub (by simp) _ hf
      simp only [fieldOf] at hfc'
      rw [hlk (a.getD sf.name) (by simp [fieldKeys, fieldKey, hsf])]
      cases Json.lookup (a.getD sf.name) kvs with
      | none => rfl
      | some v => simp only [hfc' v]
    | spread g =>
      have hokg : ok p g = true := by simpa [aSel] using hx
      obtain ⟨fr, hfr, _⟩ := hok _ _ hokg
      rw [canonEntriesA.eq_3]
      simp [fieldOfSelF, hfr, entriesF, spreadField, hmc g fr (by simp) hfr]
      rw [← hmc g fr (by simp) hfr]; rfl
    | inline t sub => simp [aSel] at hx
    | typename => simp [fieldOfSelF, fieldOfSelV, canonEntriesA]

end Fields2

variable (hok : OkSpec c.q ok) (hfa : ∀ p g, ok p g = true → fenv g → FragAcc e c whole KN g)
  (hfr : ∀ p g, ok p g = true → fenv g → FragRT e c ex cent KN g)
  (hexA : ∀ g, FragOkAny c.s c.q c.o g → ex g = expandSel c.q (.spread g))

include hok hfr in
/-- the round trips of the spread fragments of a selection set, with one bound on the fuel -/
theorem rtMemA (pfx : String) (i : Nat) : ∀ (sels : List Sel), aSels ok c.s c.q c.o (.object i) sels = true →
    envSelsA fenv e c pfx sels → ∃ N, ∀ g, Sel.spread g ∈ sels → ∀ fd fs, N ≤ fd → N ≤ fs →
      ∀ b kvs (L : List String) v, (kvs.map (·.1)).Nodup → (∀ k ∈ L, k ∉ KN (fragName c g)) →
      confSelV c.s i (ex g) kvs = true →
      dePath e b fd (fragName c g) (.obj (kvs.filter (fun kv => !L.contains kv.1))) = .ok v →
      serPath e fs (fragName c g) v = .ok (.obj (cent g kvs))
  | [], _, _ => ⟨0, fun g hg => by simp at hg⟩
  | x :: xs, ht, henv => by
    obtain ⟨hx, hxs⟩ := aSels_cons ht
    rw [envSelsA] at henv
    obtain ⟨N, ih⟩ := rtMemA pfx i xs hxs henv.2
    cases x with
    | spread g =>
      have hokg : ok (.object i) g = true := by simpa [aSel] using hx
      obtain ⟨fr, hfrg, hon, _, _⟩ := hok _ _ hokg
      have hfon : fragOn c.q g = .object i := by simp [fragOn, hfrg, hon]
      have hfg : fenv g := by have := henv.1; rwa [envSelA] at this
      obtain ⟨Ng, hrt⟩ := (hfr _ g hokg hfg).rt
      refine ⟨max N Ng, fun g' hg' fd fs hfd hfs b kvs L v hnd hL hc hd => ?_⟩
      rcases List.mem_cons.mp hg' with heq | hg''
      · cases heq
        exact hrt fd fs (by omega) (by omega) b i kvs L v hfon hnd hL hc hd
      · exact ih g' hg'' fd fs (by omega) (by omega) b kvs L v hnd hL hc hd
    | field a fid sub =>
      refine ⟨N, fun g' hg' => ?_⟩
      rcases List.mem_cons.mp hg' with heq | hg''
      · cases heq
      · exact ih g' hg''
    | inline t sub => simp [aSel] at hx
    | typename =>
      refine ⟨N, fun g' hg' => ?_⟩
      rcases List.mem_cons.mp hg' with heq | hg''
      · cases heq
      · exact ih g' hg''

def RTSelA (pfx : String) (x : Sel) : Prop :=
  ∀ p, aSel ok c.s c.q c.o p x = true → envSelA fenv e c pfx x → keysOkA KN c x = true → sideOkSelA KN c x = true →
    ∀ f, fieldOfSelV c pfx x = some f → ∃ N, ∀ b fd fs, N ≤ fd → N ≤ fs →
      ∀ v y, strictFieldV c.s (expandSelW ex x) v = true → deFieldWith (dePath e b fd) f v = .ok y →
        serTyWith (serPath e fs) f.ty y = .ok (canonFieldA cent c.s c.q c.o x v)

def RTSelsA (pfx : String) (sels : List Sel) : Prop :=
  ∀ p, aSels ok c.s c.q c.o p sels = true → envSelsA fenv e c pfx sels → keysOksA KN c sels = true →
    sideOkSelsA KN c sels = true → ∃ N, ∀ x ∈ sels, ∀ f, fieldOfSelV c pfx x = some f → ∀ b fd fs, N ≤ fd → N ≤ fs →
      ∀ v y, strictFieldV c.s (expandSelW ex x) v = true → deFieldWith (dePath e b fd) f v = .ok y →
        serTyWith (serPath e fs) f.ty y = .ok (canonFieldA cent c.s c.q c.o x v)

include hok hfa hfr in
/-- **round trip of the struct of an object-level selection set with spreads of fragments of the class** -/
theorem rtStructA (pfx name : String) (i : Nat) (sels : List Sel) (H : RTSelsA e c ok KN fenv ex cent pfx sels)
    (ht : aSels ok c.s c.q c.o (.object i) sels = true) (henv : envSelsA fenv e c pfx sels)
    (hko : keysOksA KN c sels = true) (hkeys : EnumSpec.nodup (expKeysN KN c sels) = true)
    (hro : sideOkSelsA KN c sels = true) (hrn : EnumSpec.nodup (rustNamesF c sels) = true)
    (hs : StructEnv e name (fieldsOfF c pfx sels)) :
    ∃ N, ∀ b fd fs, N ≤ fd → N ≤ fs → ∀ kvs (L0 : List String) v, (kvs.map (·.1)).Nodup →
      (∀ k ∈ L0, k ∉ expKeysN KN c sels) → confSelsV c.s i (expandSelsW ex sels) kvs = true →
      dePath e b fd name (.obj (kvs.filter (fun kv => !L0.contains kv.1))) = .ok v →
      serPath e fs name v = .ok (.obj (canonEntriesA cent c.s c.q c.o sels kvs)) := by
  obtain ⟨hp, _, n, d, cr, hfind⟩ := hs
  obtain ⟨N0, H0⟩ := H (.object i) ht henv hko hro
  obtain ⟨N1, H1⟩ := accMemA e c ok whole KN fenv hok hfa pfx (.object i) sels ht henv
  obtain ⟨N2, H2⟩ := rtMemA e c ok KN fenv ex cent hok hfr pfx i sels ht henv
  refine ⟨max (max N0 N1) N2 + 2, fun b fd fs hfd hfs kvs L0 v hnd hL0 hconf hd => ?_⟩
  obtain ⟨fuel, rfl⟩ : ∃ k, fd = k + 2 := ⟨fd - 2, by omega⟩
  obtain ⟨fs', rfl⟩ : ∃ k, fs = k + 2 := ⟨fs - 2, by omega⟩
  have hnd' : ((kvs.filter (fun kv => !L0.contains kv.1)).map (·.1)).Nodup :=
    ((List.filter_sublist).map _).nodup hnd
  have hcnt := countKey_le_one_of_nodup hnd'
  obtain ⟨_, _, h3, h4⟩ := flat_hypsA hok KN pfx (.object i) sels ht (nodup_iff'.mp hkeys)
  have hrust : ((fieldsOfF c pfx sels).map (·.rust)).Nodup := by
    rw [rust_fieldsOfA hok pfx _ sels ht]; exact nodup_iff'.mp hrn
  obtain ⟨M1, _⟩ := H1 fuel (by omega)
  have hfk : (fieldKeys c.s sels).Nodup := (fieldKeys_sublist_expKeysN KN c sels).nodup (nodup_iff'.mp hkeys)
  have hlk : ∀ k ∈ fieldKeys c.s sels,
      Json.lookup k (kvs.filter (fun kv => !L0.contains kv.1)) = Json.lookup k kvs := by
    intro k hk
    exact lookup_filter (fun kv => !L0.contains kv.1) k
      (keep_notin L0 (fun hkL => hL0 k hkL (fieldKeys_sub_expKeysN KN c sels k hk))) kvs
  rw [dePath_struct e b (fuel + 1) name n d cr _ hp hfind, deStruct_obj] at hd
  obtain ⟨vals, rfl, hownf, hmemf⟩ := deStructN_finds e fuel _ _ _ (kOf KN) hcnt hrust
    (fun g hg hf => (M1 g hg hf).1) (fun g hg hf => (M1 g hg hf).2.1) (fun g hg hf k hk hkK => h3 g hg hf k hkK hk) h4 v hd
  -- the members
  have hmemrt : ∀ gid fr, Sel.spread gid ∈ sels → c.q.fragments[gid]? = some fr →
      ∃ x, vals.find? (·.1 == (spreadField c fr).rust) = some ((spreadField c fr).rust, x) ∧
        serTyWith (serPath e (fs' + 1)) (spreadField c fr).ty x = .ok (.obj (cent gid kvs)) := by
    intro gid fr hm hfrg
    have hname : fragName c gid = fr.name := by simp [fragName, hfrg]
    have hgmem : spreadField c fr ∈ fieldsOfF c pfx sels :=
      List.mem_filterMap.mpr ⟨_, hm, by simp [fieldOfSelF, hfrg]⟩
    obtain ⟨L', x, hL', hval, hfindg⟩ := hmemf _ hgmem rfl
    obtain ⟨⟨q, n', d', c', hty, hnp, hfindq⟩, _, _⟩ := M1 _ hgmem rfl
    have hq : q = fr.name := by
      have : RTy.path fr.name = RTy.path q := hty
      injection this with h; exact h.symm
    subst hq
    rw [memberVal_eq_dePath e fuel _ fr.name n' d' c' hty hnp hfindq, filter_not_append] at hval
    refine ⟨x, hfindg, ?_⟩
    have hconfg : confSelV c.s i (ex gid) kvs = true := by
      have := confSelsV_mem hconf _ (C01NA.expandSelsW_mem ex hm)
      simpa [expandSelW] using this
    have := H2 gid hm (fuel + 1) (fs' + 1) (by omega) (by omega) true kvs (L0 ++ L') x hnd
      (by
        intro k hk hkK
        rcases List.mem_append.mp hk with hk | hk
        · exact hL0 k hk (spreadKeys_sub_expKeysN KN c sels gid hm k hkK)
        · rw [hname] at hkK; exact hL' k hk hkK)
      hconfg (by rw [hname]; exact hval)
    rw [hname] at this
    exact this
  -- the entries a member writes, as a function of the member
  let mc : RField → List (String × Json) := fun g =>
    match vals.find? (·.1 == g.rust) with
    | some (_, x) => (match serTyWith (serPath e (fs' + 1)) g.ty x with | .ok (.obj o) => o | _ => [])
    | none => []
  have hmc : ∀ gid fr, Sel.spread gid ∈ sels → c.q.fragments[gid]? = some fr →
      mc (spreadField c fr) = cent gid kvs := by
    intro gid fr hm hfrg
    obtain ⟨x, hf, hser⟩ := hmemrt gid fr hm hfrg
    simp only [mc, hf, hser]
  rw [serPath_struct e (fs' + 1) name n d cr _ hfind,
    ser_flat (dePath e b (fuel + 1)) (serPath e (fs' + 1)) (fcanonOfA cent c.s c.q c.o sels) mc _ vals
      (fieldsOfF c pfx sels) hownf ?_ ?_ ?_ ?_]
  · rw [flatMap_entriesA_canon hok cent pfx (.object i) _ mc _ kvs sels ht hlk ?_ hmc]
    · rfl
    · intro a fid sub hx f hfx v
      obtain ⟨sf, ft, hsf, _, hf', _⟩ := fieldOfSelV_a pfx _ a fid sub (aSels_mem ht _ hx)
      rw [hf'] at hfx
      cases hfx
      unfold fcanonOfA
      rw [fieldOf_wire, find_fieldKey c.s _ sels hfk _ hx (by simp [fieldKey, hsf])]
  · intro f hf hfl j x hl hdx
    have hfV : f ∈ fieldsOfV c pfx sels := by
      rw [← own_fieldsOfA hok pfx _ sels ht]; exact List.mem_filter.mpr ⟨hf, by simp [hfl]⟩
    obtain ⟨a, fid, sub, sf, ft, hx, hsf, hfx, rfl, _⟩ := mem_fieldsOfV_a hfV ht
    rw [fieldOf_wire] at hl
    rw [hlk _ (by
      have : fieldKey c.s (.field a fid sub) = some (a.getD sf.name) := by simp [fieldKey, hsf]
      exact List.mem_filterMap.mpr ⟨_, hx, this⟩)] at hl
    have hst : strictFieldV c.s (expandSelW ex (.field a fid sub)) j = true := by
      have := confSelsV_mem hconf _ (C01NA.expandSelsW_mem ex hx)
      rw [expandSelW, confSelV_field] at this
      rw [expandSelW]
      simpa [hsf, hl] using this
    have hfc : fcanonOfA cent c.s c.q c.o sels (fieldOf c (a.getD sf.name) ft sf.ty.quals sf.deprecation) j =
        canonFieldA cent c.s c.q c.o (.field a fid sub) j := by
      unfold fcanonOfA
      rw [fieldOf_wire, find_fieldKey c.s _ sels hfk _ hx (by simp [fieldKey, hsf])]
    rw [hfc]
    exact H0 _ hx _ hfx b (fuel + 1) (fs' + 1) (by omega) (by omega) j x hst hdx
  · intro f hf hfl hskip j x _ hdx
    have hfV : f ∈ fieldsOfV c pfx sels := by
      rw [← own_fieldsOfA hok pfx _ sels ht]; exact List.mem_filter.mpr ⟨hf, by simp [hfl]⟩
    obtain ⟨a, fid, sub, sf, ft, _, _, _, rfl, _⟩ := mem_fieldsOfV_a hfV ht
    refine field_unit_iff _ _ (.inr ?_) j x hdx
    rw [fieldOf_skipNone, Bool.and_eq_true] at hskip
    exact (isOption_rustOf ft sf.ty.quals).trans (skipQ_nullable hskip.2)
  · intro f hf hfl hdef
    have hfV : f ∈ fieldsOfV c pfx sels := by
      rw [← own_fieldsOfA hok pfx _ sels ht]; exact List.mem_filter.mpr ⟨hf, by simp [hfl]⟩
    obtain ⟨a, fid, sub, sf, ft, _, _, _, rfl, _⟩ := mem_fieldsOfV_a hfV ht
    have : (decide (ft = "ID") && nullableQ sf.ty.quals) = true := hdef
    rw [Bool.and_eq_true] at this
    exact (isOption_rustOf ft sf.ty.quals).trans this.2
  · intro g hg hfl
    obtain ⟨gid, fr, hm, hfrg, rfl⟩ := mem_fieldsOfA_flatten hok hg ht hfl
    obtain ⟨x, hf, hser⟩ := hmemrt gid fr hm hfrg
    exact ⟨x, hf, by rw [hser, hmc gid fr hm hfrg]⟩

include hok hfa hfr in
/-- round trip of the type emitted for an object-level selection set, from the round trips of its fields -/
theorem rtBodyA (pfx name : String) (i : Nat) (sels : List Sel) (H : RTSelsA e c ok KN fenv ex cent pfx sels)
    (ht : aBody ok c.s c.q c.o (.object i) sels = true) (henv : BodyEnvA fenv e c name pfx sels)
    (hko : keysOksA KN c sels = true) (hkeys : EnumSpec.nodup (expKeysN KN c sels) = true)
    (hro : sideOkSelsA KN c sels = true) (hrn : EnumSpec.nodup (rustNamesF c sels) = true) :
    ∃ N, ∀ b fd fs, N ≤ fd → N ≤ fs → ∀ j v, conformsV c.s i (expandSelsW ex sels) j = true →
      dePath e b fd name j = .ok v → serPath e fs name v = .ok (canonSelA cent c.s c.q c.o sels j) := by
  by_cases hsp : ∃ g, sels = [Sel.spread g]
  · obtain ⟨g, rfl⟩ := hsp
    unfold BodyEnvA at henv
    simp only at henv
    have hokg : ok (.object i) g = true := ht
    obtain ⟨fr, hfrg, hon, _, _⟩ := hok _ _ hokg
    have hfon : fragOn c.q g = .object i := by simp [fragOn, hfrg, hon]
    obtain ⟨Ng, hrt⟩ := (hfr _ g hokg henv.2).rt
    obtain ⟨hp, _, n, pub, hfind⟩ := henv.1
    refine ⟨Ng + 2, fun b fd fs hfd hfs j v hc hd => ?_⟩
    obtain ⟨fd', rfl⟩ : ∃ k, fd = k + 1 := ⟨fd - 1, by omega⟩
    obtain ⟨fs', rfl⟩ : ∃ k, fs = k + 2 := ⟨fs - 2, by omega⟩
    have hd' : dePath e b fd' (fragName c g) j = .ok v := by
      rw [dePath] at hd; simpa only [dePrim_none hp, hfind, deTyWith] using hd
    rw [serPath_alias e name (fragName c g) n pub hfind]
    cases j with
    | obj kvs =>
      simp only [expandSelsW, expandSelW, conformsV, confSelsV, Bool.and_true, Bool.and_eq_true] at hc
      rw [← filter_not_nil kvs] at hd'
      simp only [canonSelA, cwhole]
      exact hrt fd' (fs' + 1) (by omega) (by omega) b i kvs [] v hfon (nodup_iff'.mp hc.1.1) (by simp) hc.2 hd'
    | null => simp [conformsV] at hc
    | bool _ => simp [conformsV] at hc
    | int _ => simp [conformsV] at hc
    | num _ => simp [conformsV] at hc
    | str _ => simp [conformsV] at hc
    | arr _ => simp [conformsV] at hc
  · have hnl : ∀ g, sels ≠ [Sel.spread g] := fun g hg => hsp ⟨g, hg⟩
    have henv' := bodyEnvA_not_lone hnl henv
    rw [aBody_not_lone hnl] at ht
    obtain ⟨N, hN⟩ := rtStructA e c ok whole KN fenv ex cent hok hfa hfr pfx name i sels H ht henv'.2 hko hkeys hro hrn
      henv'.1
    refine ⟨N, fun b fd fs hfd hfs j v hc hd => ?_⟩
    rw [canonSelA_not_lone hnl]
    cases j with
    | obj kvs =>
      simp only [conformsV, Bool.and_eq_true] at hc
      rw [← filter_not_nil kvs] at hd
      exact hN b fd fs hfd hfs kvs [] v (nodup_iff'.mp hc.1.1) (by simp) hc.2 hd
    | null => simp [conformsV] at hc
    | bool _ => simp [conformsV] at hc
    | int _ => simp [conformsV] at hc
    | num _ => simp [conformsV] at hc
    | str _ => simp [conformsV] at hc
    | arr _ => simp [conformsV] at hc

theorem flatMap_congr_mem {α β : Type} {f g : α → List β} : ∀ {l : List α}, (∀ a ∈ l, f a = g a) →
    l.flatMap f = l.flatMap g
  | [], _ => rfl
  | a :: l, h => by
    rw [List.flatMap_cons, List.flatMap_cons, h a (List.mem_cons_self),
      flatMap_congr_mem (fun b hb => h b (List.mem_cons_of_mem _ hb))]

/-- **round trip of a struct that consists of flattened members for the structs of the fragments `gs`** (a variant struct):
    the members' entries, in member order -/
theorem rtMembersA (name : String) (i : Nat) (gs : List Nat) (hne : gs ≠ []) (hs : StructEnv e name (gs.map (memField c)))
    (hfa' : ∀ g ∈ gs, FragAcc e c whole KN g) (hfr' : ∀ g ∈ gs, FragRT e c ex cent KN g)
    (hon : ∀ g ∈ gs, fragOn c.q g = .object i)
    (hkeys : (gs.flatMap (fun g => KN (fragName c g))).Nodup)
    (hrust : (gs.map (fun g => c.cs.snake (fragName c g))).Nodup) :
    ∃ N, ∀ b fd fs, N ≤ fd → N ≤ fs → ∀ kvs (L0 : List String) v, (kvs.map (·.1)).Nodup →
      (∀ k ∈ L0, ∀ g ∈ gs, k ∉ KN (fragName c g)) → (∀ g ∈ gs, confSelV c.s i (ex g) kvs = true) →
      dePath e b fd name (.obj (kvs.filter (fun kv => !L0.contains kv.1))) = .ok v →
      serPath e fs name v = .ok (.obj (gs.flatMap (fun g => cent g kvs))) := by
  obtain ⟨hp, _, n, d, cr, hfind⟩ := hs
  have hmem : ∀ g ∈ gs, ∃ n' d' cr' G, notPrim (fragName c g) ∧
      e.find (fragName c g) = some (.struct n' d' cr' G) ∧ memberFields e (memField c g) = G ∧
      (∀ f ∈ G, f.flatten = false → f.wire ∈ KN (fragName c g)) := by
    intro g hg
    obtain ⟨n', d', cr', G, hnp, hf, hG⟩ := (hfa' g hg).str
    exact ⟨n', d', cr', G, hnp, hf, by simp [memberFields, memField, hf], hG⟩
  have hrt : ∃ N, ∀ g ∈ gs, ∀ fd fs, N ≤ fd → N ≤ fs → ∀ b i' kvs (L : List String) v, fragOn c.q g = .object i' →
      (kvs.map (·.1)).Nodup → (∀ k ∈ L, k ∉ KN (fragName c g)) → confSelV c.s i' (ex g) kvs = true →
      dePath e b fd (fragName c g) (.obj (kvs.filter (fun kv => !L.contains kv.1))) = .ok v →
      serPath e fs (fragName c g) v = .ok (.obj (cent g kvs)) := by
    apply exists_uniform (fun g N => ∀ fd fs, N ≤ fd → N ≤ fs → ∀ b i' kvs (L : List String) v,
      fragOn c.q g = .object i' →
      (kvs.map (·.1)).Nodup → (∀ k ∈ L, k ∉ KN (fragName c g)) → confSelV c.s i' (ex g) kvs = true →
      dePath e b fd (fragName c g) (.obj (kvs.filter (fun kv => !L.contains kv.1))) = .ok v →
      serPath e fs (fragName c g) v = .ok (.obj (cent g kvs)))
    · intro g n m hnm h fd fs hfd hfs; exact h fd fs (by omega) (by omega)
    · intro g hg; exact (hfr' g hg).rt
  obtain ⟨N, hN⟩ := hrt
  refine ⟨N + 2, fun b fd fs hfd hfs kvs L0 v hnd hL0 hconf hd => ?_⟩
  obtain ⟨fuel, rfl⟩ : ∃ k, fd = k + 2 := ⟨fd - 2, by omega⟩
  obtain ⟨fs', rfl⟩ : ∃ k, fs = k + 2 := ⟨fs - 2, by omega⟩
  have hnd' : ((kvs.filter (fun kv => !L0.contains kv.1)).map (·.1)).Nodup :=
    ((List.filter_sublist).map _).nodup hnd
  have hcnt := countKey_le_one_of_nodup hnd'
  have hown0 : (gs.map (memField c)).filter (fun f => !f.flatten) = [] := by
    rw [List.filter_eq_nil_iff]
    intro f hf
    obtain ⟨g, _, rfl⟩ := List.mem_map.mp hf
    simp [memField]
  have hrust' : ((gs.map (memField c)).map (·.rust)).Nodup := by
    rw [List.map_map]; exact hrust
  rw [dePath_struct e b (fuel + 1) name n d cr _ hp hfind, deStruct_obj] at hd
  obtain ⟨vals, rfl, _, hmemf⟩ := deStructN_finds e fuel _ _ _ (kOf KN) hcnt hrust'
    (fun f hf _ => by
      obtain ⟨g, hg, rfl⟩ := List.mem_map.mp hf
      obtain ⟨n', d', cr', G, hnp, hf', hmf, _⟩ := hmem g hg
      exact ⟨fragName c g, n', d', cr', rfl, hnp, by rw [hmf]; exact hf'⟩)
    (fun f hf _ => by
      obtain ⟨g, hg, rfl⟩ := List.mem_map.mp hf
      obtain ⟨n', d', cr', G, hnp, hf', hmf, hG⟩ := hmem g hg
      rw [hmf]; exact hG)
    (fun f hf _ k hk => by rw [hown0] at hk; simp at hk)
    ((pairwise_of_nodup_flatMap _ gs hkeys).map (memField c) (fun a b h _ _ k hk => h k hk)) v hd
  -- the members
  have hmemrt : ∀ g ∈ gs, ∃ x, vals.find? (·.1 == (memField c g).rust) = some ((memField c g).rust, x) ∧
      serTyWith (serPath e (fs' + 1)) (memField c g).ty x = .ok (.obj (cent g kvs)) := by
    intro g hg
    obtain ⟨L', x, hL', hval, hfindg⟩ := hmemf _ (List.mem_map_of_mem hg) rfl
    obtain ⟨n', d', cr', G, hnp, hf', hmf, _⟩ := hmem g hg
    rw [memberVal_eq_dePath e fuel _ (fragName c g) n' d' cr' rfl hnp (by rw [hmf]; exact hf'), filter_not_append] at hval
    refine ⟨x, hfindg, ?_⟩
    exact hN g hg (fuel + 1) (fs' + 1) (by omega) (by omega) true i kvs (L0 ++ L') x (hon g hg) hnd
      (by
        intro k hk hkK
        rcases List.mem_append.mp hk with hk | hk
        · exact hL0 k hk g hg hkK
        · exact hL' k hk hkK)
      (hconf g hg) hval
  let mc : RField → List (String × Json) := fun g =>
    match vals.find? (·.1 == g.rust) with
    | some (_, x) => (match serTyWith (serPath e (fs' + 1)) g.ty x with | .ok (.obj o) => o | _ => [])
    | none => []
  have hmc : ∀ g ∈ gs, mc (memField c g) = cent g kvs := by
    intro g hg
    obtain ⟨x, hf, hser⟩ := hmemrt g hg
    simp only [mc, hf, hser]
  rw [serPath_struct e (fs' + 1) name n d cr _ hfind,
    ser_flat (dePath e b (fuel + 1)) (serPath e (fs' + 1)) (fun _ j => j) mc
      (kvs.filter (fun kv => !L0.contains kv.1)) vals (gs.map (memField c)) ?_ ?_ ?_ ?_ ?_]
  · have : (gs.map (memField c)).flatMap (entriesF (fun _ j => j) mc (kvs.filter (fun kv => !L0.contains kv.1))) =
        gs.flatMap (fun g => cent g kvs) := by
      rw [List.flatMap_map]
      apply flatMap_congr_mem
      intro g hg
      simp only [entriesF, memField, ↓reduceIte]
      exact hmc g hg
    rw [this]; rfl
  · intro f hf hfl
    obtain ⟨g, _, rfl⟩ := List.mem_map.mp hf
    simp [memField] at hfl
  · intro f hf hfl
    obtain ⟨g, _, rfl⟩ := List.mem_map.mp hf
    simp [memField] at hfl
  · intro f hf hfl
    obtain ⟨g, _, rfl⟩ := List.mem_map.mp hf
    simp [memField] at hfl
  · intro f hf hfl
    obtain ⟨g, _, rfl⟩ := List.mem_map.mp hf
    simp [memField] at hfl
  · intro f hf _
    obtain ⟨g, hg, rfl⟩ := List.mem_map.mp hf
    obtain ⟨x, hfx, hser⟩ := hmemrt g hg
    exact ⟨x, hfx, by rw [hser, hmc g hg]⟩

omit hok hfa hfr hexA in
theorem rustOkSelS_leaf (a : Option String) (fid : Nat) : rustOkSelS c (.field a fid []) = true := by
  rw [rustOkSelS]
  have h1 : rustOkSelsS c [] = true := by simp [rustOkSelsS]
  have h2 : ∀ vt, varRust c vt [] = [] := fun vt => by simp [varRust]
  have h3 : rustNames c [] = [] := rfl
  simp only [h1, h2, h3, Bool.and_true, List.nil_append]
  cases isAbsField c fid <;> simp <;> exact ⟨by decide, fun _ _ => by decide⟩

omit hok hfa hfr hexA in
theorem noBSel_leaf {s : Schema} {q : Query} {o : Options} {a : Option String} {fid : Nat}
    (h : leafSel s q o (.field a fid []) = true) : noBSel s q (.field a fid []) = true := by
  obtain ⟨sf, hsf, _, _, _, hty⟩ := leafSel_field h
  rw [noBSel]
  rcases hty with ⟨k, sn, hid, hk⟩ | ⟨k, en, hid, hk⟩ <;> simp [hsf, hid, TypeId.isAbstract, noBSels]

omit hok hfa hfr hexA in
theorem respKeys_ownSels (s : Schema) : ∀ (sub : List Sel), respKeys s (C01NG.ownSels sub) = fieldKeys s (C01NG.ownSels sub)
  | [] => rfl
  | x :: xs => by
    have ih := respKeys_ownSels s xs
    cases x with
    | field a fid sub' =>
      rw [ownSels_cons_field]; unfold respKeys fieldKeys at ih ⊢
      rw [List.filterMap_cons, List.filterMap_cons, ih]; rfl
    | spread g => rw [ownSels_cons_other rfl]; exact ih
    | inline t sub' => rw [ownSels_cons_other rfl]; exact ih
    | typename => rw [ownSels_cons_other rfl]; exact ih

omit hok hfa hfr hexA in
theorem filter_pos_eq (K : List String) (kvs : List (String × Json)) :
    (kvs.filter (fun kv => !K.contains kv.1)).filter (fun kv => kv.1 != "__typename") =
      kvs.filter (fun kv => !("__typename" :: K).contains kv.1) := by
  rw [List.filter_filter]
  congr 1
  funext kv
  by_cases hkv : kv.1 = "__typename" <;> simp [hkv, List.contains_cons, Bool.and_comm]

include hok hfa hfr in
/-- **round trip of the payload of the variant of `vt`**, read from the entries with no key in `L` (`rtVariantA` with a
    general `L`) -/
theorem rtVariantG (name : String) (ty : TypeId) (sub : List Sel) (hsp : SpecialAbs ok c.s c.q c.o ty sub)
    (i : Nat) (hvt : TypeId.object i ∈ vtsOfTy c.s ty) (hve : VarEnvA fenv e c name (.object i) sub)
    (hkeys : (memKeys KN c (.object i) sub).Nodup)
    (hrn : EnumSpec.nodup (memRust c (.object i) sub) = true) (L : List String)
    (htagk : ∀ g ∈ memFrags c.q (.object i) sub, ∀ k ∈ L, k ∉ KN (fragName c g))
    (hne : memFrags c.q (.object i) sub ≠ []) :
    ∃ N, ∀ fd fs, N ≤ fd → N ≤ fs → ∀ kvs x, (kvs.map (·.1)).Nodup →
      (∀ g ∈ memFrags c.q (.object i) sub, confSelV c.s i (ex g) kvs = true) →
      dePath e true fd (name ++ "On" ++ objName c.s (.object i))
        (.obj (kvs.filter (fun kv => !L.contains kv.1))) = .ok x →
      serPath e fs (name ++ "On" ++ objName c.s (.object i)) x =
        .ok (.obj ((memFrags c.q (.object i) sub).flatMap (fun g => cent g kvs))) := by
  have hmem : ∀ g ∈ memFrags c.q (.object i) sub, ok (.object i) g = true := fun g hg => (hsp.mem hok hvt hg).1
  unfold VarEnvA at hve
  cases hmf : memFrags c.q (.object i) sub with
  | nil => exact absurd hmf hne
  | cons g gs =>
    cases gs with
    | nil =>
      rw [hmf] at hve
      simp only at hve
      have hokg := hmem g (by rw [hmf]; simp)
      obtain ⟨fr, hfrg, hfon', _, _⟩ := hok _ _ hokg
      have hfon : fragOn c.q g = .object i := by simp [fragOn, hfrg, hfon']
      obtain ⟨N, hN⟩ := (hfr _ g hokg hve.2).rt
      obtain ⟨hpa, _, na, puba, hfinda⟩ := hve.1
      refine ⟨N + 2, fun fd fs hfd hfs kvs x hnd hconf hd => ?_⟩
      obtain ⟨fd', rfl⟩ : ∃ k, fd = k + 1 := ⟨fd - 1, by omega⟩
      obtain ⟨fs', rfl⟩ : ∃ k, fs = k + 2 := ⟨fs - 2, by omega⟩
      have hd' : dePath e true fd' (fragName c g) (.obj (kvs.filter (fun kv => !L.contains kv.1))) = .ok x := by
        rw [dePath] at hd; simpa only [dePrim_none hpa, hfinda, deTyWith] using hd
      rw [serPath_alias e _ (fragName c g) na puba hfinda]
      simp only [List.flatMap_cons, List.flatMap_nil, List.append_nil]
      exact hN fd' (fs' + 1) (by omega) (by omega) true i kvs L x hfon hnd
        (fun k hk => htagk g (by rw [hmf]; simp) k hk) (hconf g (by simp)) hd'
    | cons g' gs' =>
      rw [hmf] at hve
      simp only at hve
      obtain ⟨hs, hfenv⟩ := hve
      rw [hmf] at hmem htagk
      unfold memKeys at hkeys
      unfold memRust at hrn
      rw [hmf] at hkeys hrn
      obtain ⟨N, hN⟩ := rtMembersA e c whole KN ex cent (name ++ "On" ++ objName c.s (.object i)) i (g :: g' :: gs')
        (by simp) hs
        (fun g0 hg0 => hfa _ g0 (hmem g0 hg0) (hfenv g0 hg0)) (fun g0 hg0 => hfr _ g0 (hmem g0 hg0) (hfenv g0 hg0))
        (fun g0 hg0 => by
          obtain ⟨fr, hfrg, hfon', _, _⟩ := hok _ _ (hmem g0 hg0)
          simp [fragOn, hfrg, hfon'])
        hkeys (nodup_iff'.mp hrn)
      refine ⟨N, fun fd fs hfd hfs kvs x hnd hconf hd => ?_⟩
      exact hN true fd fs hfd hfs kvs L x hnd (fun k hk g0 hg0 => htagk g0 hg0 k hk) hconf hd

/-- round trips of the own fields of a selection set whose fields are leaves -/
theorem rtSelsLeafA (pfx : String) (sels : List Sel) (hl : ∀ x ∈ sels, leafSel c.s c.q c.o x = true) :
    RTSelsA e c ok KN fenv ex cent pfx sels := by
  intro p _ henv _ _
  refine ⟨2 * depthsF c.q sels + 1, fun x hx f hf b fd fs hfd hfs v y hst hd => ?_⟩
  cases x with
  | field a fid sub' =>
    have hlx := hl _ hx
    obtain ⟨_, _, _, _, hnil, _⟩ := leafSel_field hlx
    subst hnil
    obtain ⟨sf, hsf, hno, hs⟩ := leaf_facts hlx
    rw [canonFieldA_old hsf hno hs]
    have hdep := depthsF_mem c.q hx
    have hst' : strictFieldV c.s (expandSel c.q (.field a fid [])) v = true := by
      simpa [expandSelW, expandSelsW, expandSel, expandSels] using hst
    exact rtSelD e c _ pfx false hs (envSelA_old hsf hno hs (envSelsA_mem henv _ hx)) (rustOkSelD_leaf a fid) f hf b fd fs
      (by omega) (by omega) v y hst' hd
  | spread g => simp [fieldOfSelV] at hf
  | inline t sub' => simp [fieldOfSelV] at hf
  | typename => simp [fieldOfSelV] at hf

include hok hfa hfr in
/-- **round trip of the payload of the variant of `vt`** (stage 2) -/
theorem rtVariantX (name : String) (ty : TypeId) (sub : List Sel) (hsx : SpecialX ok c.s c.q c.o ty sub)
    (i : Nat) (hvt : TypeId.object i ∈ vtsOfTy c.s ty) (hve : VarEnvX fenv e c name (.object i) sub)
    (hkeys : varKeysOk KN c (.object i) sub = true) (hrn : varSideOk c (.object i) sub = true) (L : List String)
    (htagk : ∀ g ∈ memFrags c.q (.object i) sub, ∀ k ∈ L, k ∉ KN (fragName c g))
    (hLb : ∀ k ∈ L, k ∉ fieldKeys c.s (varSels c.q (.object i) sub))
    (hne : mineOf c.q (.object i) sub ≠ []) :
    ∃ N, ∀ fd fs, N ≤ fd → N ≤ fs → ∀ kvs x, (kvs.map (·.1)).Nodup →
      (∀ y ∈ mineOf c.q (.object i) sub, confSelV c.s i (expandSelW ex y) kvs = true) →
      dePath e true fd (name ++ "On" ++ objName c.s (.object i))
        (.obj (kvs.filter (fun kv => !L.contains kv.1))) = .ok x →
      serPath e fs (name ++ "On" ++ objName c.s (.object i)) x =
        .ok (.obj (payCanonX cent c.s c.q c.o sub (.object i) kvs)) := by
  have hsp := hsx.gen.abs
  have hmineX := hsx.mine hok hvt
  -- conformance of the selected fragments
  have hconfg : ∀ kvs, (∀ y ∈ mineOf c.q (.object i) sub, confSelV c.s i (expandSelW ex y) kvs = true) →
      ∀ g ∈ memFrags c.q (.object i) sub, confSelV c.s i (ex g) kvs = true := by
    intro kvs hconf g hg
    unfold memFrags at hg
    rcases List.mem_append.mp hg with hg | hg
    · obtain ⟨x, hx, hxg⟩ := List.mem_filterMap.mp hg
      cases x with
      | spread g' =>
        simp only [spreadId, Option.some.injEq] at hxg; subst hxg
        simpa [expandSelW] using hconf _ hx
      | field a fid sub' => simp [spreadId] at hxg
      | inline t sub' => simp [spreadId] at hxg
      | typename => simp [spreadId] at hxg
    · obtain ⟨x, hx, hxg⟩ := List.mem_filterMap.mp hg
      obtain ⟨t, rfl⟩ := aliasInl_some hxg
      have ht : t = .object i := by
        have := (mem_mineOf hx).2
        simpa [selOn] using this
      subst ht
      have := hconf _ hx
      simpa [expandSelW, expandSelsW, confSelV, confSelsV, fragApplies] using this
  cases hbody : (mineOf c.q (.object i) sub).any isBody with
  | false =>
    have hmeq := mineOf_unbody hbody
    have hmfeq : memFrags c.q (.object i) (strip (unbody sub)) = memFrags c.q (.object i) sub := by
      unfold memFrags; rw [hmeq]
    unfold VarEnvX at hve
    rw [hbody] at hve
    simp only [Bool.false_eq_true, if_false] at hve
    unfold varKeysOk at hkeys
    rw [hbody] at hkeys
    simp only [Bool.false_eq_true, if_false] at hkeys
    unfold varSideOk at hrn
    rw [hbody] at hrn
    simp only [Bool.false_eq_true, if_false] at hrn
    have hne' : memFrags c.q (.object i) (strip (unbody sub)) ≠ [] := by
      intro h0
      have hlen := memFrags_length hsp hok hvt
      rw [h0, hmeq] at hlen
      cases hmm : mineOf c.q (.object i) sub with
      | nil => exact hne hmm
      | cons _ _ => rw [hmm] at hlen; simp at hlen
    obtain ⟨N, hN⟩ := rtVariantG e c ok whole KN fenv ex cent hok hfa hfr name ty (strip (unbody sub)) hsp i hvt hve
      (nodup_iff'.mp hkeys) hrn L (by rw [hmfeq]; exact htagk) hne'
    refine ⟨N, fun fd fs hfd hfs kvs x hnd hconf hd => ?_⟩
    rw [hN fd fs hfd hfs kvs x hnd (by rw [hmfeq]; exact hconfg kvs hconf) hd]
    unfold payCanonX
    rw [hbody]
    rfl
  | true =>
    unfold VarEnvX at hve
    simp only [hbody, if_true] at hve
    obtain ⟨hs, henvF, hfenv⟩ := hve
    unfold varKeysOk at hkeys
    simp only [hbody, if_true, Bool.and_eq_true, List.all_eq_true] at hkeys
    obtain ⟨hkn, hkw⟩ := hkeys
    unfold varSideOk at hrn
    simp only [hbody, if_true] at hrn
    obtain ⟨hleafall, ht, henvA, hko, hnl, hsF, hokm, hsrc⟩ := varSels_facts e c ok KN fenv hok name ty sub hsx i hvt hbody hs
      henvF hfenv hkw
    have hro : sideOkSelsA KN c (varSels c.q (.object i) sub) = true := by
      apply sideOkSelsA_of_mem
      intro x hx
      rcases hsrc x hx with ⟨g, rfl, _⟩ | ⟨hf, _⟩
      · simp [sideOkSelA]
      · cases x with
        | field a fid sub' =>
          have hlx := hleafall _ hx
          obtain ⟨_, _, _, _, hnil, _⟩ := leafSel_field hlx
          subst hnil
          exact sideOkSelA_leaf hlx
        | spread g => simp [isFieldSel] at hf
        | inline t sub' => simp [isFieldSel] at hf
        | typename => simp [isFieldSel] at hf
    obtain ⟨N, hN⟩ := rtStructA e c ok whole KN fenv ex cent hok hfa hfr name (name ++ "On" ++ objName c.s (.object i)) i
      (varSels c.q (.object i) sub) (rtSelsLeafA e c ok KN fenv ex cent name _ hleafall) ht henvA hko hkn hro hrn hsF
    refine ⟨N, fun fd fs hfd hfs kvs x hnd hconf hd => ?_⟩
    have hL0 : ∀ k ∈ L, k ∉ expKeysN KN c (varSels c.q (.object i) sub) := by
      intro k hk hmem
      rcases mem_expKeysN hmem with h1 | ⟨g, hg, hkg⟩
      · exact hLb k hk h1
      · rcases hsrc _ hg with ⟨g', h0, hg'⟩ | ⟨hf, _⟩
        · cases h0; exact htagk g hg' k hk hkg
        · simp [isFieldSel] at hf
    have hcv : confSelsV c.s i (expandSelsW ex (varSels c.q (.object i) sub)) kvs = true := by
      apply confSelsV_all
      intro y hy
      obtain ⟨x', hx', rfl⟩ := mem_expandSelsW hy
      rcases hsrc x' hx' with ⟨g, rfl, hg⟩ | ⟨hf, t, isub, hm, hxi⟩
      · simpa [expandSelW] using hconfg kvs hconf g hg
      · have ht' : t = .object i := by
          have := (mem_mineOf hm).2
          simpa [selOn] using this
        subst ht'
        have hci := hconf _ hm
        have hci' : confSelsV c.s i (expandSelsW ex isub) kvs = true := by
          simpa [expandSelW, confSelV, fragApplies] using hci
        exact confSelsV_mem hci' _ (C01NA.expandSelsW_mem ex hxi)
    rw [hN true fd fs hfd hfs kvs L x hnd hL0 hcv hd, canonEntriesA_leaf kvs _ hleafall]
    unfold payCanonX
    rw [hbody]
    rfl

include hok hfa hfr in
/-- **round trip of the tagged enum of a position of the general kind**, read from the entries the interface-level
    fields (keys `K`) left: it writes the tag entry, then the entries of the structs of the fragments selected on the
    runtime type -/
theorem rtTagX (name tname : String) (ty : TypeId) (sub : List Sel) (hty : absHyp c.s ty)
    (hsx : SpecialX ok c.s c.q c.o ty sub)
    (hT : TaggedEnv e tname (variantsV c name ty (marks c.q sub)))
    (hvar : ∀ vt ∈ vtsOfTy c.s ty, VarEnvX fenv e c name vt sub)
    (hkeys : ∀ vt ∈ vtsOfTy c.s ty, varKeysOk KN c vt sub = true)
    (hrn : ∀ vt ∈ vtsOfTy c.s ty, varSideOk c vt sub = true)
    (K : List String) (hK : "__typename" ∉ K)
    (hside : ∀ g ∈ sub.filterMap selFrag, ∀ k ∈ "__typename" :: K, k ∉ KN (fragName c g))
    (hKb : ∀ vt ∈ vtsOfTy c.s ty, ∀ k ∈ "__typename" :: K, k ∉ fieldKeys c.s (varSels c.q vt sub)) :
    ∃ N, ∀ b fd fs, N ≤ fd → N ≤ fs → ∀ rt kvs w, rt < c.s.objects.length → fragApplies c.s rt ty = true →
      (kvs.map (·.1)).Nodup → confSelsV c.s rt (expandSelsW ex sub) kvs = true →
      dePath e b fd tname (.obj (kvs.filter (fun kv => !K.contains kv.1))) = .ok w →
      serPath e fs tname w = .ok (.obj (("__typename", .str (rtName c.s rt)) ::
        payCanonX cent c.s c.q c.o sub (.object rt) kvs)) := by
  have hsp := hsx.gen.abs
  obtain ⟨hp, hID, n, d, cr, hfind⟩ := hT
  have hpayrt : ∃ N, ∀ vt ∈ vtsOfTy c.s ty, ∀ i, vt = .object i → mineOf c.q vt sub ≠ [] →
      ∀ fd fs, N ≤ fd → N ≤ fs → ∀ kvs x, (kvs.map (·.1)).Nodup →
      (∀ y ∈ mineOf c.q vt sub, confSelV c.s i (expandSelW ex y) kvs = true) →
      dePath e true fd (name ++ "On" ++ objName c.s vt)
        (.obj (kvs.filter (fun kv => !("__typename" :: K).contains kv.1))) = .ok x →
      serPath e fs (name ++ "On" ++ objName c.s vt) x =
        .ok (.obj (payCanonX cent c.s c.q c.o sub vt kvs)) := by
    apply exists_uniform (fun vt N => ∀ i, vt = .object i → mineOf c.q vt sub ≠ [] →
      ∀ fd fs, N ≤ fd → N ≤ fs → ∀ kvs x, (kvs.map (·.1)).Nodup →
      (∀ y ∈ mineOf c.q vt sub, confSelV c.s i (expandSelW ex y) kvs = true) →
      dePath e true fd (name ++ "On" ++ objName c.s vt)
        (.obj (kvs.filter (fun kv => !("__typename" :: K).contains kv.1))) = .ok x →
      serPath e fs (name ++ "On" ++ objName c.s vt) x =
        .ok (.obj (payCanonX cent c.s c.q c.o sub vt kvs)))
    · intro vt n m hnm h i hvi hne fd fs hfd hfs
      exact h i hvi hne fd fs (by omega) (by omega)
    · intro vt hvt
      by_cases hne : mineOf c.q vt sub = []
      · exact ⟨0, fun i _ hne' => absurd hne hne'⟩
      · obtain ⟨i, rfl, _⟩ := hsp.obj vt hvt
        obtain ⟨N, hN⟩ := rtVariantX e c ok whole KN fenv ex cent hok hfa hfr name ty
          sub hsx i hvt (hvar _ hvt) (hkeys _ hvt) (hrn _ hvt) ("__typename" :: K)
          (fun g hg => hside g (memFrags_mem_selFrag hg)) (hKb _ hvt) hne
        refine ⟨N, fun i' hi' _ => ?_⟩
        cases hi'
        exact hN
  obtain ⟨N, hN⟩ := hpayrt
  refine ⟨N + 2, fun b fd fs hfd hfs rt kvs w hrt happ hnd' hconf hdw => ?_⟩
  obtain ⟨fd', rfl⟩ : ∃ k, fd = k + 1 := ⟨fd - 1, by omega⟩
  obtain ⟨fs', rfl⟩ : ∃ k, fs = k + 1 := ⟨fs - 1, by omega⟩
  have hcnt := countKey_le_one_of_nodup hnd'
  have htn : Sel.typename ∈ expandSelsW ex sub := by
    have := C01NA.expandSelsW_mem ex (typename_mem hsx.tn)
    simpa [expandSelW] using this
  have htag : Json.lookup "__typename" kvs = some (.str (rtName c.s rt)) := by
    have := confSelsV_mem hconf _ htn
    simp only [confSelV] at this
    split at this
    · rename_i n hl; rw [hl]; simp only [beq_iff_eq] at this; rw [this]
    · cases this
  have hc1 : countKey "__typename" kvs = 1 := by
    have := countKey_pos_of_lookup htag
    have := hcnt "__typename"
    omega
  have hq : ∀ v : Json, (fun kv : String × Json => !K.contains kv.1) ("__typename", v) = true := by
    intro v; simp [hK]
  have htagR : Json.lookup "__typename" (kvs.filter (fun kv => !K.contains kv.1)) = some (.str (rtName c.s rt)) := by
    rw [lookup_filter _ _ hq]; exact htag
  have hc1R : countKey "__typename" (kvs.filter (fun kv => !K.contains kv.1)) = 1 := by
    rw [countKey_filter _ _ hq]; exact hc1
  have hmemv := mem_vtsOfTy happ hrt hty
  obtain ⟨hw1, hw2, hw3⟩ := variantOf_wire c name (marks c.q sub) (.object rt)
  have hvmem : variantOf c name (marks c.q sub) (.object rt) ∈
      variantsV c name ty (marks c.q sub) := by
    unfold variantsV
    exact List.mem_append_left _ (List.mem_map_of_mem hmemv)
  have hconfg : ∀ y ∈ mineOf c.q (.object rt) sub, confSelV c.s rt (expandSelW ex y) kvs = true :=
    fun y hy => confSelsV_mem hconf _ (C01NA.expandSelsW_mem ex (mem_mineOf hy).1)
  rw [dePath_tagged e b fd' _ n d cr _ _ hp hfind] at hdw
  have hrtg := tagged_roundtrip e fd' fs' b tname n d cr "__typename"
    (variantsV c name ty (marks c.q sub)) (kvs.filter (fun kv => !K.contains kv.1))
    (variantOf c name (marks c.q sub) (.object rt))
    (fun _ => payCanonX cent c.s c.q c.o sub (.object rt) kvs) hfind
    (by rw [(variantsV_wire c _ ty _).1]; exact hsp.nd) (by rw [(variantsV_wire c _ ty _).2]; exact hsp.nd)
    hvmem hw3 hc1R (by rw [hw1]; exact htagR)
    (by
      intro t hpl x hx
      unfold variantOf at hpl
      rw [marks_contains] at hpl
      split at hpl
      · rename_i hcont
        simp only [Option.some.injEq] at hpl
        subst hpl
        have hne : mineOf c.q (.object rt) sub ≠ [] := by
          intro h0
          rw [h0] at hcont
          simp at hcont
        rw [filter_pos_eq] at hx
        exact hN _ hmemv rt rfl hne fd' fs' (by omega) (by omega) kvs x hnd' hconfg hx
      · cases hpl)
  obtain ⟨_, hval⟩ := hrtg
  obtain ⟨_, out, hser, hout, _⟩ := hval w hdw
  rw [hser, hout, hw1]
  congr 3
  unfold variantOf
  rw [marks_contains]
  split
  · rfl
  · rename_i hcont
    have hm : mineOf c.q (.object rt) sub = [] := by
      cases hmm : mineOf c.q (.object rt) sub with
      | nil => rfl
      | cons y ys => rw [hmm] at hcont; simp at hcont
    have hb : (mineOf c.q (.object rt) sub).any isBody = false := by rw [hm]; rfl
    have hm' := mineOf_unbody hb
    rw [hm] at hm'
    simp [payCanonX, hb, memFrags_nil hm']

omit hok hfa hfr hexA in
theorem rust_fieldsB_leaf (pfx : String) (ty : TypeId) : ∀ (sub : List Sel), (∀ x ∈ sub, leafSel c.s c.q c.o x = true) →
    (fieldsB c pfx ty sub).map (·.rust) = rustNamesB c ty sub
  | [], _ => rfl
  | x :: xs, hl => by
    have ih := rust_fieldsB_leaf pfx ty xs (fun y hy => hl y (List.mem_cons_of_mem _ hy))
    rw [fieldsB_cons, List.map_append, ih]
    cases x with
    | field a fid sub =>
      have hx : sSel c.s c.q c.o true (.field a fid sub) = true := by
        have := hl _ (List.mem_cons_self)
        simp only [leafSel, Bool.and_eq_true] at this
        exact this.1
      obtain ⟨sf, ft, hsf, _, hf, _⟩ := fieldOfSelV_s c pfx true a fid sub hx
      simp [fieldOfSelB, hf, rustNamesB, List.filterMap_cons, rustNameB, rustName, hsf, fieldOf]
    | spread g =>
      cases hf : c.q.fragments[g]? with
      | none => simp [fieldOfSelB, hf, rustNamesB, List.filterMap_cons, rustNameB]
      | some f =>
        by_cases hon : f.on = ty
        · simp [fieldOfSelB, hf, hon, rustNamesB, List.filterMap_cons, rustNameB, spreadField]
        · have hne : (f.on == ty) = false := by simpa using hon
          simp [fieldOfSelB, hf, hne, rustNamesB, List.filterMap_cons, rustNameB]
    | inline t sub => simp [fieldOfSelB, fieldOfSelV, rustNamesB, List.filterMap_cons, rustNameB, rustName]
    | typename => simp [fieldOfSelB, fieldOfSelV, rustNamesB, List.filterMap_cons, rustNameB, rustName]

omit hok hfa hfr hexA in
/-- `flatMap_entriesF_B` of `C01VariantSpreadD` for a selection set whose fields are leaves -/
theorem flatMap_entriesF_B_leaf (pfx : String) (ty : TypeId) (rest : List (String × Json))
    (fc : RField → Json → Json) (mc : RField → List (String × Json)) (kvs : List (String × Json)) : ∀ (sub : List Sel),
    (∀ x ∈ sub, leafSel c.s c.q c.o x = true) →
    (∀ a fid sub', Sel.field a fid sub' ∈ sub → ∀ f, fieldOfSelV c pfx (.field a fid sub') = some f →
      ∀ v, fc f v = canonFieldD c.s c.q c.o.skipNone (.field a fid sub') v) →
    (∀ g fr, Sel.spread g ∈ sub → c.q.fragments[g]? = some fr → fr.on = ty →
      mc (spreadField c fr) = absEntries (canonAbsV c.s c.o.skipNone fr.sels (.obj rest))) →
    (fieldsB c pfx ty sub).flatMap (entriesF fc mc kvs) = canonEntriesBD c.s c.q c.o.skipNone ty rest sub kvs
  | [], _, _, _ => by simp [fieldsB, canonEntriesBD]
  | x :: xs, hl, hfc, hmc => by
    have ih := flatMap_entriesF_B_leaf pfx ty rest fc mc kvs xs (fun y hy => hl y (List.mem_cons_of_mem _ hy))
      (fun a fid sub hm => hfc a fid sub (List.mem_cons_of_mem _ hm))
      (fun g fr hm => hmc g fr (List.mem_cons_of_mem _ hm))
    rw [fieldsB_cons, List.flatMap_append, ih]
    cases x with
    | field a fid sub =>
      have hx : sSel c.s c.q c.o true (.field a fid sub) = true := by
        have := hl _ (List.mem_cons_self)
        simp only [leafSel, Bool.and_eq_true] at this
        exact this.1
      obtain ⟨sf, ft, hsf, _, hf, _⟩ := fieldOfSelV_s c pfx true a fid sub hx
      rw [canonEntriesBD.eq_2]
      simp only [fieldOfSelB, hf, Option.toList, List.flatMap_cons, List.flatMap_nil, List.append_nil, entriesF, fieldOf,
        Bool.false_eq_true, ↓reduceIte]
      have := expectOut_cons fc (fieldOf c (a.getD sf.name) ft sf.ty.quals sf.deprecation) [] kvs
      simp only [fieldOf] at this
      rw [this]
      simp only [hsf, expectOut, List.filterMap_nil, List.append_nil]
      have hw := fieldOf_wire c (a.getD sf.name) ft sf.ty.quals sf.deprecation
      simp only [fieldOf] at hw
      simp only [hw, Bool.and_assoc]
      have hfc' := hfc a fid sub (by simp) _ hf
      simp only [fieldOf] at hfc'
      cases Json.lookup (a.getD sf.name) kvs with
      | none => rfl
      | some v => simp only [hfc' v]
    | spread g =>
      rw [canonEntriesBD.eq_3]
      cases hf : c.q.fragments[g]? with
      | none => simp [fieldOfSelB, hf]
      | some fr =>
        by_cases hon : fr.on = ty
        · have := hmc g fr (by simp) hf hon
          simp only [spreadField] at this
          simp [fieldOfSelB, hf, hon, entriesF, spreadField, this]
        · have hne : (fr.on == ty) = false := by simpa using hon
          simp [fieldOfSelB, hf, hne]
    | inline t sub => simp [fieldOfSelB, fieldOfSelV, canonEntriesBD]
    | typename => simp [fieldOfSelB, fieldOfSelV, canonEntriesBD]

omit hok hfa hfr hexA in
theorem canonEntriesBD_nil (s : Schema) (q : Query) (skip : Bool) (ty : TypeId) (rest kvs : List (String × Json)) :
    ∀ (sub : List Sel), (∀ x ∈ sub, isFieldSel x = false ∧ isBSpread q ty x = false) →
    canonEntriesBD s q skip ty rest sub kvs = []
  | [], _ => by simp [canonEntriesBD]
  | x :: xs, h => by
    have ih := canonEntriesBD_nil s q skip ty rest kvs xs (fun y hy => h y (List.mem_cons_of_mem _ hy))
    obtain ⟨h1, h2⟩ := h x (List.mem_cons_self)
    cases x with
    | field a fid sub => simp [isFieldSel] at h1
    | spread g =>
      rw [canonEntriesBD.eq_3, ih]
      cases hf : q.fragments[g]? with
      | none => rfl
      | some f =>
        simp only [isBSpread, hf] at h2
        simp [h2]
    | inline t sub => simpa [canonEntriesBD] using ih
    | typename => simpa [canonEntriesBD] using ih

include hok hfa hfr hexA in
/-- **round trip at a field of abstract type of the class**: the struct writes, in selection order, the interface-level
    fields and the entries of the (b)-fragments' own types, then the flattened tagged enum writes the tag entry and the entries
    of the structs of the fragments selected on the runtime type -/
theorem rtAbsB (pfx : String) (a : Option String) (fid : Nat) (sub : List Sel) (sf : StoredField)
    (hsf : c.s.fields[fid]? = some sf) (hnew : absFieldB ok c.s c.q c.o sf sub = true)
    (henv : EnvAbsB fenv e c (pfx ++ c.cs.camel (a.getD sf.name)) sf.ty.id sub)
    (hkeys : ∀ vt ∈ vtsOfTy c.s sf.ty.id, varKeysOk KN c vt (unB c.q sf.ty.id sub) = true)
    (hside : (∀ g ∈ (unB c.q sf.ty.id sub).filterMap selFrag, ∀ k ∈ posKeys c.s (unB c.q sf.ty.id sub),
        k ∉ KN (fragName c g)) ∧
      EnumSpec.nodup (rustNamesB c sf.ty.id sub ++ ["on"]) = true ∧
      (∀ vt ∈ vtsOfTy c.s sf.ty.id, varSideOk c vt (unB c.q sf.ty.id sub) = true) ∧
      (∀ g, Sel.spread g ∈ bSels c.q sf.ty.id sub → rustOkFragB c g = true)) :
    ∃ N, ∀ b fd fs, N ≤ fd → N ≤ fs → ∀ v y,
      accepts (conformsAt c.s sf.ty.id (expandSelsW ex sub)) (gtyOf sf.ty.quals) v = true →
      deFieldWith (dePath e b fd)
        (fieldOf c (a.getD sf.name) (pfx ++ c.cs.camel (a.getD sf.name)) sf.ty.quals sf.deprecation) v = .ok y →
      serTyWith (serPath e fs)
        (fieldOf c (a.getD sf.name) (pfx ++ c.cs.camel (a.getD sf.name)) sf.ty.quals sf.deprecation).ty y =
        .ok (canonAbsB cent c.s c.q c.o sf sub v) := by
  obtain ⟨hw, _, hty, hsubG⟩ := absFieldB_parts hnew
  have hsb := absSubB_parts hsubG
  have hsg := hsb.x
  have hsp := hsg.gen.abs
  have hownU : C01NG.ownSels (unB c.q sf.ty.id sub) = C01NG.ownSels sub := ownSels_unB c.q sf.ty.id sub
  have hown_eq : C01NG.ownSels (unbody (unB c.q sf.ty.id sub)) = C01NG.ownSels (unB c.q sf.ty.id sub) := by
    unfold C01NG.ownSels unbody
    rw [List.filter_filter]
    apply List.filter_congr
    intro x _
    cases hf : isFieldSel x with
    | false => simp
    | true =>
      have : isBody x = false := by cases x <;> simp_all [isFieldSel, isBody]
      simp [this]
  have hbkeys : ∀ vt ∈ vtsOfTy c.s sf.ty.id, ∀ k ∈ posKeys c.s (unB c.q sf.ty.id sub),
      k ∉ fieldKeys c.s (varSels c.q vt (unB c.q sf.ty.id sub)) := by
    intro vt hvt k hk hmem
    obtain ⟨x, hx, hxk⟩ := List.mem_filterMap.mp hmem
    rcases mem_varSelsOf hx with ⟨g, rfl, _⟩ | ⟨t, isub, hm, hb, hxi⟩
    · simp [fieldKey] at hxk
    · have hbk := hsg.body _ (mem_mineOf hm).1 hb
      simp only [bodyOk, Bool.and_eq_true, List.all_eq_true, Bool.not_eq_true'] at hbk
      have := hbk.2 k (List.mem_filterMap.mpr ⟨x, hxi, hxk⟩)
      have hk' : k ∈ "__typename" :: fieldKeys c.s (C01NG.ownSels (unB c.q sf.ty.id sub)) := by simpa [posKeys] using hk
      rw [← List.contains_iff_mem] at hk'
      rw [this] at hk'
      cases hk'
  have hwf : wf (gtyOf sf.ty.quals) = true := by rw [wf_gtyOf]; exact hw
  obtain ⟨habs, henvF, henvB, hvar⟩ := henv
  generalize hname : pfx ++ c.cs.camel (a.getD sf.name) = name at *
  have hTKU : "__typename" ∉ fieldKeys c.s (C01NG.ownSels (unB c.q sf.ty.id sub)) :=
    (by rw [← hown_eq]; exact (List.nodup_cons.mp (nodup_iff'.mp hsg.gen.nd)).1)
  have hTK : "__typename" ∉ fieldKeys c.s (C01NG.ownSels sub) := by rw [← hownU]; exact hTKU
  have hsS := sSels_ownSels sub hsb.leaf
  have hemp := fieldsB_isEmpty name sf.ty.id hsb.leaf
  -- what is known of a conforming response object
  have hfacts : ∀ j, conformsAt c.s sf.ty.id (expandSelsW ex sub) j = true → ∃ rt kvs, j = .obj kvs ∧
      rt < c.s.objects.length ∧ fragApplies c.s rt sf.ty.id = true ∧ (kvs.map (·.1)).Nodup ∧
      confSelsV c.s rt (expandSelsW ex sub) kvs = true ∧
      Json.lookup "__typename" kvs = some (.str (rtName c.s rt)) ∧
      (vtsOfTy c.s sf.ty.id).find? (fun vt => objName c.s vt == rtName c.s rt) = some (.object rt) := by
    intro j hc
    simp only [conformsAt, List.any_eq_true, List.mem_range, Bool.and_eq_true] at hc
    obtain ⟨rt, hrt, happ, hcv⟩ := hc
    cases j with
    | obj kvs =>
      simp only [conformsV, Bool.and_eq_true] at hcv
      obtain ⟨⟨hnd, _⟩, hconf⟩ := hcv
      have htn : Sel.typename ∈ expandSelsW ex sub := by
        have := C01NA.expandSelsW_mem ex (typename_mem hsb.tn)
        simpa [expandSelW] using this
      have htag : Json.lookup "__typename" kvs = some (.str (rtName c.s rt)) := by
        have := confSelsV_mem hconf _ htn
        simp only [confSelV] at this
        split at this
        · rename_i n hl; rw [hl]; simp only [beq_iff_eq] at this; rw [this]
        · cases this
      have hnames : ((vtsOfTy c.s sf.ty.id).map (objName c.s)).Nodup := by
        have := hsp.nd
        unfold variantNames at this
        exact (List.nodup_append.mp this).1
      exact ⟨rt, kvs, rfl, hrt, happ, nodup_iff'.mp hnd, hconf, htag,
        find_by_name c.s _ hnames _ (mem_vtsOfTy happ hrt hty)⟩
    | null => simp [conformsV] at hcv
    | bool _ => simp [conformsV] at hcv
    | int _ => simp [conformsV] at hcv
    | num _ => simp [conformsV] at hcv
    | str _ => simp [conformsV] at hcv
    | arr _ => simp [conformsV] at hcv
  unfold AbsEnv at habs
  cases hown : ((C01NG.ownSels sub).isEmpty && (bSels c.q sf.ty.id sub).isEmpty) with
  | true =>
    have hoe : C01NG.ownSels sub = [] := by
      simp only [Bool.and_eq_true, List.isEmpty_iff] at hown; exact hown.1
    have hbe : bSels c.q sf.ty.id sub = [] := by
      simp only [Bool.and_eq_true, List.isEmpty_iff] at hown; exact hown.2
    have hoeU : C01NG.ownSels (unB c.q sf.ty.id sub) = [] := by rw [hownU]; exact hoe
    rw [hown] at hemp
    simp only [hemp, if_true] at habs
    have hT := habs
    obtain ⟨hp, hID, n, d, cr, hfind⟩ := habs
    obtain ⟨N, hN⟩ := rtTagX e c ok whole KN fenv ex cent hok hfa hfr name name sf.ty.id (unB c.q sf.ty.id sub) hty hsg hT
      hvar hkeys hside.2.2.1 [] (by simp)
      (fun g hg k hk => hside.1 g hg k (by simpa [posKeys, hoeU, fieldKeys] using hk))
      (fun vt hvt k hk => hbkeys vt hvt k (by simpa [posKeys, hoeU, fieldKeys] using hk))
    refine ⟨N, fun b fd fs hfd hfs v y hst hd => ?_⟩
    have hleaf : ∀ j w, conformsAt c.s sf.ty.id (expandSelsW ex sub) j = true →
        dePath e b fd name j = .ok w →
        serPath e fs name w = .ok (canonTagB cent c.s c.q c.o sf.ty.id sub j) := by
      intro j w hc hdw
      obtain ⟨rt, kvs, rfl, hrt, happ, hnd', hconf, htag, hfindv⟩ := hfacts j hc
      have hconfU := confSelsV_expand_filter c.s ex rt kvs (fun x => !isBSpread c.q sf.ty.id x) sub hconf
      have hkf : kvs.filter (fun kv => !([] : List String).contains kv.1) = kvs := by simp
      rw [← hkf] at hdw
      have := hN b fd fs hfd hfs rt kvs w hrt happ hnd' hconfU hdw
      rw [this]
      have hnilE : canonEntriesBD c.s c.q c.o.skipNone sf.ty.id (restG c.s sub kvs) sub kvs = [] := by
        apply canonEntriesBD_nil
        intro x hx
        refine ⟨?_, ?_⟩
        · have := List.filter_eq_nil_iff.mp hoe x hx
          simpa using this
        · have := List.filter_eq_nil_iff.mp hbe x hx
          simpa using this
      simp only [canonTagB, htag, hfindv, hnilE, List.nil_append]
    rw [deField_plain _ _ _ _ hID] at hd
    exact (leaf_roundtrip_on (dePath e b fd) (serPath e fs) _
      (conformsAt c.s sf.ty.id (expandSelsW ex sub)) (canonTagB cent c.s c.q c.o sf.ty.id sub) hleaf _ hwf).2 v y hst hd
  | false =>
    rw [hown] at hemp
    simp only [hemp, Bool.false_eq_true, if_false] at habs
    obtain ⟨⟨hp, hID, n, d, cr, hfind⟩, hsT⟩ := habs
    have hsT' := hsT
    obtain ⟨hpT, _, n', d', cr', hfind'⟩ := hsT'
    obtain ⟨N, hN⟩ := rtTagX e c ok whole KN fenv ex cent hok hfa hfr name (name ++ "On") sf.ty.id (unB c.q sf.ty.id sub)
      hty hsg hsT hvar hkeys hside.2.2.1 (fieldKeys c.s (C01NG.ownSels (unB c.q sf.ty.id sub))) hTKU hside.1 hbkeys
    refine ⟨max (max N (2 * depthsF c.q (C01NG.ownSels sub) + 3)) (2 * depthsF c.q (bSels c.q sf.ty.id sub) + 3) + 2,
      fun b fd fs hfd hfs v y hst hd => ?_⟩
    obtain ⟨fd', rfl⟩ : ∃ k, fd = k + 2 := ⟨fd - 2, by omega⟩
    obtain ⟨fs', rfl⟩ : ∃ k, fs = k + 2 := ⟨fs - 2, by omega⟩
    have hleaf : ∀ j w, conformsAt c.s sf.ty.id (expandSelsW ex sub) j = true →
        dePath e b (fd' + 2) name j = .ok w →
        serPath e (fs' + 2) name w = .ok (canonTagB cent c.s c.q c.o sf.ty.id sub j) := by
      intro j w hc hdw
      obtain ⟨rt, kvs, rfl, hrt, happ, hnd', hconf, htag, hfindv⟩ := hfacts j hc
      have hconfU := confSelsV_expand_filter c.s ex rt kvs (fun x => !isBSpread c.q sf.ty.id x) sub hconf
      have hmemv := mem_vtsOfTy happ hrt hty
      have hcnt := countKey_le_one_of_nodup hnd'
      have hpl := plain_fieldsOfV c name sub
      have hflB := fieldsB_filter_fl c name sf.ty.id sub
      have hownB := fieldsB_filter_own c name sf.ty.id sub
      have hany : (fieldsB c name sf.ty.id sub ++ [onField name]).any (·.flatten) = true := by simp [onField]
      have hbB := (accMemB e c name sf.ty.id hty (bSels c.q sf.ty.id sub) (spreadsA_bSels hsb) henvB fd'
        (by omega) (restG c.s sub kvs)).1
      have hb : ∀ g ∈ fieldsB c name sf.ty.id sub ++ [onField name], g.flatten = true → Borrows e g := by
        intro g hg hfl
        rcases List.mem_append.mp hg with hg | hg
        · apply hbB g _ hfl
          rw [← hflB]
          exact List.mem_filter.mpr ⟨hg, hfl⟩
        · simp only [List.mem_singleton] at hg
          subst hg
          exact ⟨name ++ "On", rfl, hpT, .inl ⟨n', d', cr', _, _, hfind'⟩⟩
      have hownF : (fieldsB c name sf.ty.id sub ++ [onField name]).filter (fun f => !f.flatten) = fieldsOfV c name sub := by
        rw [List.filter_append, hownB]; simp [onField]
      have hrest : kvs.filter (fun kv => !((fieldsOfV c name sub).map (·.wire)).contains kv.1) = restG c.s sub kvs := by
        rw [← fieldsOfV_ownSels, wire_fieldsOfS c name true _ hsS]; rfl
      have hrust : ((fieldsB c name sf.ty.id sub ++ [onField name]).map (·.rust)).Nodup := by
        rw [List.map_append, rust_fieldsB_leaf c name sf.ty.id sub hsb.leaf]
        exact nodup_iff'.mp hside.2.1
      rw [dePath_struct e b (fd' + 1) name n d cr _ hp hfind, deStruct_obj] at hdw
      obtain ⟨vals, rfl, hownf, hmemf⟩ := deStruct_borrow_finds e fd' _ _ kvs hcnt hrust hany hb w hdw
      rw [hownF, hrest] at hmemf
      have hqt : ∀ v : Json, (fun kv : String × Json => !(fieldKeys c.s (C01NG.ownSels sub)).contains kv.1) ("__typename", v) = true := by
        intro v; simpa using hTK
      have hrestq : restG c.s sub kvs = kvs.filter (fun kv => !(fieldKeys c.s (C01NG.ownSels sub)).contains kv.1) := rfl
      have hndr : ((restG c.s sub kvs).map (·.1)).Nodup := by
        rw [hrestq]; exact (List.filter_sublist.map _).nodup hnd'
      have htagr : Json.lookup "__typename" (restG c.s sub kvs) = some (.str (rtName c.s rt)) := by
        rw [hrestq, lookup_filter _ _ hqt]; exact htag
      -- the members for the (b)-fragments
      have hmemrt : ∀ gid fr, Sel.spread gid ∈ sub → c.q.fragments[gid]? = some fr → fr.on = sf.ty.id →
          ∃ y, vals.find? (·.1 == (spreadField c fr).rust) = some ((spreadField c fr).rust, y) ∧
            serTyWith (serPath e (fs' + 1)) (spreadField c fr).ty y =
              .ok (.obj (absEntries (canonAbsV c.s c.o.skipNone fr.sels (.obj (restG c.s sub kvs))))) := by
        intro gid fr hm hfr hon
        have hisb : isBSpread c.q sf.ty.id (.spread gid) = true := by simp [isBSpread, hfr, hon]
        have hbf := hsb.b gid hm hisb
        have hmB : Sel.spread gid ∈ bSels c.q sf.ty.id sub := mem_bSels.mpr ⟨hm, hisb⟩
        obtain ⟨fr', hfr', _, _, hv, hokf⟩ := fragOkB_parts hbf.okB
        rw [hfr] at hfr'; cases hfr'
        have hfe : FragEnvS e c gid := envSelsS_mem henvB _ hmB
        unfold FragEnvS at hfe
        rw [hfr] at hfe
        have hisabs : fr.on.isAbstract = true := by
          rw [hon]; revert hty; cases sf.ty.id <;> simp [absHyp, TypeId.isAbstract]
        simp only [hisabs, ↓reduceIte] at hfe
        rw [hon] at hfe
        have hrog := hside.2.2.2 gid hmB
        have hsels : fragSels c.q gid = fr.sels := by simp [fragSels, hfr]
        simp only [rustOkFragB, hsels, Bool.and_eq_true] at hrog
        have hgmem : spreadField c fr ∈ fieldsB c name sf.ty.id sub ++ [onField name] :=
          List.mem_append_left _ (List.mem_filterMap.mpr ⟨_, hm, by simp [fieldOfSelB, hfr, hon]⟩)
        obtain ⟨y, hy, hfindg⟩ := hmemf _ hgmem rfl
        refine ⟨y, hfindg, ?_⟩
        have hdep := depthsF_mem c.q hmB
        rw [depthF, hsels] at hdep
        have hconf_g : confSelsV c.s rt fr.sels kvs = true := by
          have := confSelsV_mem hconf _ (C01NA.expandSelsW_mem ex hm)
          rw [expandSelW, hexA gid (.inr ⟨sf.ty.id, hty, hbf.okB⟩)] at this
          simpa [expandSel, hfr, confSelV, hon, happ] using this
        have hconf_r : confSelsV c.s rt fr.sels (restG c.s sub kvs) = true := by
          rw [hrestq, confSelsV_filter c.s rt _ kvs hqt fr.sels (fun k hk v => by
            have hk' : k ∈ fieldKeys c.s (fragSels c.q gid) := by
              rw [hsels]; exact deepKeys_sub_fieldKeys c.s c.q c.o fr.sels (by rw [← hsels]; exact hbf.body) k hk
            have := hbf.keys k hk'
            simpa using this)]
          exact hconf_g
        have hy' : dePath e true (fd' + 1) fr.name (.obj (restG c.s sub kvs)) = .ok y := hy
        have := rtAbsV_w e c (c.cs.camel fr.name) fr.name sf.ty.id fr.sels
          (fun x hx => (rtSelsV e c fr.sels _ x hx).1) (fun x hx => (rtSelsV e c fr.sels _ x hx).2)
          hty hv hokf hfe.2 hrog.2 hrog.1 hfe.1 true (fd' + 1) (fs' + 1) (by omega) (by omega) rt
          (restG c.s sub kvs) hndr hconf_r htagr hmemv y hy'
        rw [show serTyWith (serPath e (fs' + 1)) (spreadField c fr).ty y = serPath e (fs' + 1) fr.name y from rfl, this]
        rfl
      -- the flattened `on`
      have honrt : ∃ y, vals.find? (·.1 == (onField name).rust) = some ((onField name).rust, y) ∧
          serTyWith (serPath e (fs' + 1)) (onField name).ty y =
            .ok (.obj (("__typename", .str (rtName c.s rt)) ::
              payCanonX cent c.s c.q c.o (unB c.q sf.ty.id sub) (.object rt) kvs)) := by
        obtain ⟨y, hy, hfindg⟩ := hmemf (onField name) (by simp) rfl
        refine ⟨y, hfindg, ?_⟩
        have hy' : dePath e true (fd' + 1) (name ++ "On")
            (.obj (kvs.filter (fun kv => !(fieldKeys c.s (C01NG.ownSels (unB c.q sf.ty.id sub))).contains kv.1))) = .ok y := by
          rw [hownU]; exact hy
        exact hN true (fd' + 1) (fs' + 1) (by omega) (by omega) rt kvs y hrt happ hnd' hconfU hy'
      let mc : RField → List (String × Json) := fun g =>
        match vals.find? (·.1 == g.rust) with
        | some (_, y) => (match serTyWith (serPath e (fs' + 1)) g.ty y with | .ok (.obj o) => o | _ => [])
        | none => []
      have hmc : ∀ gid fr, Sel.spread gid ∈ sub → c.q.fragments[gid]? = some fr → fr.on = sf.ty.id →
          mc (spreadField c fr) = absEntries (canonAbsV c.s c.o.skipNone fr.sels (.obj (restG c.s sub kvs))) := by
        intro gid fr hm hfr hon
        obtain ⟨y, hf, hser⟩ := hmemrt gid fr hm hfr hon
        simp only [mc, hf, hser]
      have hmcon : mc (onField name) = ("__typename", .str (rtName c.s rt)) ::
          payCanonX cent c.s c.q c.o (unB c.q sf.ty.id sub) (.object rt) kvs := by
        obtain ⟨y, hf, hser⟩ := honrt
        simp only [mc, hf, hser]
      have hkn : (respKeys c.s (C01NG.ownSels sub)).Nodup := by
        rw [respKeys_ownSels, ← hownU, ← hown_eq]; exact (List.nodup_cons.mp (nodup_iff'.mp hsg.gen.nd)).2
      have hfcanon : ∀ a' fid' sub', Sel.field a' fid' sub' ∈ sub → ∀ f,
          fieldOfSelV c name (.field a' fid' sub') = some f →
          ∀ v, fcanonOfD c.s c.q c.o.skipNone (C01NG.ownSels sub) f v =
            canonFieldD c.s c.q c.o.skipNone (.field a' fid' sub') v := by
        intro a' fid' sub' hx f hfx v
        have hxo : Sel.field a' fid' sub' ∈ C01NG.ownSels sub := List.mem_filter.mpr ⟨hx, rfl⟩
        obtain ⟨sf', ft, hsf', _, hf', _⟩ := fieldOfSelV_s c name true a' fid' sub' (sSels_mem hsS _ hxo)
        rw [hf'] at hfx
        cases hfx
        unfold fcanonOfD
        rw [fieldOf_wire, find_respKey c.s _ _ hkn _ hxo (by simp [respKey, hsf'])]
      have hnonfl : ∀ f ∈ fieldsB c name sf.ty.id sub ++ [onField name], f.flatten = false →
          f ∈ fieldsOfV c name (C01NG.ownSels sub) := by
        intro f hf hfl
        rw [fieldsOfV_ownSels, ← hownF]; exact List.mem_filter.mpr ⟨hf, by simp [hfl]⟩
      rw [serPath_struct e (fs' + 1) name n d cr _ hfind,
        ser_flat (dePath e b (fd' + 1)) (serPath e (fs' + 1)) (fcanonOfD c.s c.q c.o.skipNone (C01NG.ownSels sub)) mc kvs vals
          (fieldsB c name sf.ty.id sub ++ [onField name]) hownf ?_ ?_ ?_ ?_]
      · rw [List.flatMap_append, flatMap_entriesF_B_leaf c name sf.ty.id _ _ mc kvs sub hsb.leaf hfcanon hmc]
        simp only [List.flatMap_cons, List.flatMap_nil, List.append_nil, entriesF, onField, ↓reduceIte]
        have := hmcon
        simp only [onField] at this
        rw [this]
        simp only [canonTagB, htag, hfindv]
        rfl
      · intro f hf hfl jv x hl hdx
        obtain ⟨a', fid', sub', sf', ft, hx, hsf', hfx, rfl, _⟩ := mem_fieldsOfS (hnonfl f hf hfl) hsS
        rw [fieldOf_wire] at hl
        have hxs : Sel.field a' fid' sub' ∈ sub := (List.mem_filter.mp hx).1
        have hlf := hsb.leaf _ hxs
        obtain ⟨_, _, _, _, hnil, _⟩ := leafSel_field hlf
        subst hnil
        have hst' : strictFieldV c.s (expandSel c.q (.field a' fid' [])) jv = true := by
          have := confSelsV_mem hconf _ (C01NA.expandSelsW_mem ex hxs)
          rw [expandSelW, confSelV_field] at this
          simpa [hsf', hl, expandSel, expandSels, expandSelsW] using this
        rw [hfcanon a' fid' [] hxs _ hfx jv]
        have hdep := depthsF_mem c.q hx
        exact rtSelD e c _ name true (sSels_mem hsS _ hx) (envSelsS_mem henvF _ hx) (rustOkSelD_leaf (c := c) a' fid')
          _ hfx b (fd' + 1) (fs' + 1) (by omega) (by omega) jv x hst' hdx
      · intro f hf hfl hskip jv x _ hdx
        obtain ⟨a', fid', sub', sf', ft, _, _, _, rfl, _⟩ := mem_fieldsOfS (hnonfl f hf hfl) hsS
        refine field_unit_iff _ _ (.inr ?_) jv x hdx
        rw [fieldOf_skipNone, Bool.and_eq_true] at hskip
        exact (isOption_rustOf ft sf'.ty.quals).trans (skipQ_nullable hskip.2)
      · intro f hf hfl hdef
        obtain ⟨a', fid', sub', sf', ft, _, _, _, rfl, _⟩ := mem_fieldsOfS (hnonfl f hf hfl) hsS
        have : (decide (ft = "ID") && nullableQ sf'.ty.quals) = true := hdef
        rw [Bool.and_eq_true] at this
        exact (isOption_rustOf ft sf'.ty.quals).trans this.2
      · intro g hg hfl
        rcases List.mem_append.mp hg with hg | hg
        · obtain ⟨gid, fr, hm, hfr, hon, rfl⟩ := mem_fieldsB_flatten hg hfl
          obtain ⟨y, hf, hser⟩ := hmemrt gid fr hm hfr hon
          exact ⟨y, hf, by rw [hser, hmc gid fr hm hfr hon]⟩
        · simp only [List.mem_singleton] at hg
          subst hg
          obtain ⟨y, hf, hser⟩ := honrt
          exact ⟨y, hf, by rw [hser, hmcon]⟩
    rw [deField_plain _ _ _ _ hID] at hd
    exact (leaf_roundtrip_on (dePath e b (fd' + 2)) (serPath e (fs' + 2)) _
      (conformsAt c.s sf.ty.id (expandSelsW ex sub)) (canonTagB cent c.s c.q c.o sf.ty.id sub) hleaf _ hwf).2 v y hst hd

mutual
  theorem rtSelA : ∀ (x : Sel) (pfx : String), OkSpec c.q ok →
      (∀ p g, ok p g = true → fenv g → FragAcc e c whole KN g) →
      (∀ p g, ok p g = true → fenv g → FragRT e c ex cent KN g) →
      (∀ g, FragOkAny c.s c.q c.o g → ex g = expandSel c.q (.spread g)) → RTSelA e c ok KN fenv ex cent pfx x
    | .field a fid sub, pfx => by
      intro hok hfa hfr hexA p ht henv hko hro f hf
      have IH := rtSelsA sub
      obtain ⟨sf, ft, hsf, hleafn, hf', hw⟩ := fieldOfSelV_a pfx p a fid sub ht
      by_cases hobj : ∃ i, sf.ty.id = .object i
      · obtain ⟨i, hid⟩ := hobj
        have hwf : wf (gtyOf sf.ty.quals) = true := by rw [wf_gtyOf]; exact hw
        obtain ⟨_, _, _, hbody⟩ := aSel_obj hsf hid ht
        have henvB := envSelA_obj hsf hid henv
        have hko := keysOkA_obj hsf hid hko
        simp only [fieldOfSelV, hsf, leafNameV, hid, Option.some.injEq] at hf
        subst hf
        have hID : pfx ++ c.cs.camel (a.getD sf.name) ≠ "ID" := by
          unfold BodyEnvA at henvB
          split at henvB
          · exact henvB.1.2.1
          · exact henvB.1.2.1
        have hleaf : ∃ N, ∀ b fd fs, N ≤ fd → N ≤ fs → ∀ j w,
            conformsV c.s i (expandSelsW ex sub) j = true →
            dePath e b fd (pfx ++ c.cs.camel (a.getD sf.name)) j = .ok w →
            serPath e fs (pfx ++ c.cs.camel (a.getD sf.name)) w =
              .ok (canonSelA cent c.s c.q c.o sub j) := by
          by_cases hsp : ∃ g, sub = [Sel.spread g]
          · obtain ⟨g, rfl⟩ := hsp
            exact rtBodyA e c ok whole KN fenv ex cent hok hfa hfr _ _ i [Sel.spread g]
              (fun _ _ _ _ _ => ⟨0, fun x hx f hf => by
                simp only [List.mem_singleton] at hx; subst hx; cases hf⟩)
              hbody henvB (by simp [keysOksA, keysOkA]) (by
                have : expKeysN KN c [Sel.spread g] = KN (fragName c g) := by simp [expKeysN]
                rw [this]; exact hko.1 ▸ (by simp [expKeysN])) (by simp [sideOkSelsA, sideOkSelA])
              (by simp [rustNamesF, rustNameF, EnumSpec.nodup])
          · have hnl : ∀ g, sub ≠ [Sel.spread g] := fun g hg => hsp ⟨g, hg⟩
            have hroB := sideOkSelA_obj hsf hid hnl hro
            exact rtBodyA e c ok whole KN fenv ex cent hok hfa hfr _ _ i sub (IH _ hok hfa hfr hexA) hbody henvB hko.2
              hko.1 hroB.1 hroB.2
        obtain ⟨N, hN⟩ := hleaf
        refine ⟨N, fun b fd fs hfd hfs v y hst hd => ?_⟩
        simp only [expandSelW, strictFieldV] at hst
        rw [canonFieldA]
        simp only [hsf, hid] at hst ⊢
        rw [canonLambdaA]
        rw [deField_plain _ _ _ _ hID] at hd
        refine (leaf_roundtrip_on (dePath e b fd) (serPath e fs) _
          (conformsAt c.s (.object i) (expandSelsW ex sub)) (canonSelA cent c.s c.q c.o sub) ?_ _ hwf).2 v y hst hd
        intro j w hc hdw
        simp only [conformsAt, List.any_eq_true, List.mem_range, Bool.and_eq_true, fragApplies, beq_iff_eq] at hc
        obtain ⟨rt, _, hrt, hcv⟩ := hc
        subst hrt
        exact hN b fd fs hfd hfs j w hcv hdw
      · have hno : ∀ i, sf.ty.id ≠ .object i := fun i h => hobj ⟨i, h⟩
        rcases aSel_nonobj hsf hno ht with hs | ⟨hs, hnew⟩
        · refine ⟨2 * depthF c.q (.field a fid sub) + 1, fun b fd fs hfd hfs v y hst hd => ?_⟩
          rw [canonFieldA_old hsf hno hs]
          have hexp : expandSelW ex (.field a fid sub) = expandSel c.q (.field a fid sub) :=
            expandSelW_congr c.q ex _ (fun g hg => hexA g (fragOk_of_spreadIdS c.s c.q c.o _ false hs g hg (by simp)))
          rw [hexp] at hst
          exact rtSelD e c _ pfx false hs (envSelA_old hsf hno hs henv)
            (sideOkSelA_old hsf hno hs hro) f hf b fd fs hfd (by omega) v y hst hd
        · have hf'' := hf'
          rw [hf] at hf''
          simp only [Option.some.injEq] at hf''
          subst hf''
          obtain ⟨_, _, hty, _⟩ := absFieldB_parts hnew
          have hft : ft = pfx ++ c.cs.camel (a.getD sf.name) := by
            cases hid : sf.ty.id with
            | object i => exact absurd hid (hno i)
            | scalar k => rw [hid] at hty; exact absurd hty (by simp [absHyp])
            | «enum» k => rw [hid] at hty; exact absurd hty (by simp [absHyp])
            | input k => rw [hid] at hty; exact absurd hty (by simp [absHyp])
            | interface k => simpa [leafNameV, hid] using hleafn.symm
            | union k => simpa [leafNameV, hid] using hleafn.symm
          subst hft
          obtain ⟨N, hN⟩ := rtAbsB e c ok whole KN fenv ex cent hok hfa hfr hexA pfx a fid sub sf hsf hnew
            (envSelA_new hsf hno hs henv) (keysOkA_new hsf hno hs hko) (sideOkSelA_new hsf hno hs hro)
          refine ⟨N, fun b fd fs hfd hfs v y hst hd => ?_⟩
          rw [canonFieldA_new hsf hno hs]
          simp only [expandSelW, strictFieldV, hsf] at hst
          have hst' : accepts (conformsAt c.s sf.ty.id (expandSelsW ex sub)) (gtyOf sf.ty.quals) v = true := by
            cases hid : sf.ty.id with
            | object i => exact absurd hid (hno i)
            | scalar k => rw [hid] at hty; exact absurd hty (by simp [absHyp])
            | «enum» k => rw [hid] at hty; exact absurd hty (by simp [absHyp])
            | input k => rw [hid] at hty; exact absurd hty (by simp [absHyp])
            | interface k => simp only [hid] at hst; exact hst
            | union k => simp only [hid] at hst; exact hst
          exact hN b fd fs hfd hfs v y hst' hd
    | .spread g, pfx => by intro _ _ _ _ _ _ _ _ _ f hf; cases hf
    | .inline t sub, pfx => by intro _ _ _ _ _ _ _ _ _ f hf; cases hf
    | .typename, pfx => by intro _ _ _ _ _ _ _ _ _ f hf; cases hf
  theorem rtSelsA : ∀ (sels : List Sel) (pfx : String), OkSpec c.q ok →
      (∀ p g, ok p g = true → fenv g → FragAcc e c whole KN g) →
      (∀ p g, ok p g = true → fenv g → FragRT e c ex cent KN g) →
      (∀ g, FragOkAny c.s c.q c.o g → ex g = expandSel c.q (.spread g)) → RTSelsA e c ok KN fenv ex cent pfx sels
    | [], _ => by
      intro _ _ _ _ _ _ _ _ _
      exact ⟨0, fun x hx => by simp at hx⟩
    | y :: ys, pfx => by
      intro hok hfa hfr hexA p ht henv hko hro
      obtain ⟨hy, hys⟩ := aSels_cons ht
      rw [envSelsA] at henv
      rw [keysOksA, Bool.and_eq_true] at hko
      rw [sideOkSelsA, Bool.and_eq_true] at hro
      obtain ⟨N2, I2⟩ := rtSelsA ys pfx hok hfa hfr hexA p hys henv.2 hko.2 hro.2
      have IY := rtSelA y pfx hok hfa hfr hexA p hy henv.1 hko.1 hro.1
      cases hfy : fieldOfSelV c pfx y with
      | none =>
        refine ⟨N2, fun x hx f hf => ?_⟩
        rcases List.mem_cons.mp hx with heq | hx'
        · rw [heq, hfy] at hf; cases hf
        · exact I2 x hx' f hf
      | some fy =>
        obtain ⟨N1, I1⟩ := IY fy hfy
        refine ⟨max N1 N2, fun x hx f hf b fd fs hfd hfs => ?_⟩
        rcases List.mem_cons.mp hx with heq | hx'
        · subst heq
          rw [hfy] at hf; cases hf
          exact I1 b fd fs (by omega) (by omega)
        · exact I2 x hx' f hf b fd fs (by omega) (by omega)
end

include hok hfa hfr hexA in
/-- **round trip of the type emitted for an object-level selection set of `NestedOp`** (from some fuel on) -/
theorem bodyA_lossless (pfx name : String) (i : Nat) (sels : List Sel)
    (ht : aBody ok c.s c.q c.o (.object i) sels = true) (henv : BodyEnvA fenv e c name pfx sels)
    (hko : keysOksA KN c sels = true) (hkeys : EnumSpec.nodup (expKeysN KN c sels) = true)
    (hro : sideOkSelsA KN c sels = true) (hrn : EnumSpec.nodup (rustNamesF c sels) = true) :
    ∃ N, ∀ b fd fs, N ≤ fd → N ≤ fs → ∀ j v, conformsV c.s i (expandSelsW ex sels) j = true →
      dePath e b fd name j = .ok v → serPath e fs name v = .ok (canonSelA cent c.s c.q c.o sels j) :=
  rtBodyA e c ok whole KN fenv ex cent hok hfa hfr pfx name i sels
    (rtSelsA e c ok whole KN fenv ex cent sels pfx hok hfa hfr hexA) ht henv hko hkeys hro hrn

end RTA

end C01NB
end GqlVerif
