import GqlVerif.Proofs.C09NormSerde
import GqlVerif.Proofs.C02Response
/-!
# Composed C09 — the non-vacuity instance is a generated module; `FieldsWF` of generated modules (finding 16)

* `moduleParts_exParts` — the hand-written `C09.exParts` (non-vacuity instance of `scalars_module_wire_invariant`) **is**
  `moduleParts` of a concrete context (`exCtx9`: custom scalar `DateTime`, `query Q { at ...Frag } fragment Frag on Query { id }`);
  `scalars_module_wire_invariant_generated` — hence the wire statement, all side conditions discharged, for the module
  `responseForQuery exCtx9 0` and the one generated with `custom_scalars_module = crate::scalars`;
* `fieldsWF_of_members_nodup`, `fieldsWF_of_wellScoped`, **`fieldsWF_of_generated`** — `FieldsWF` (hypothesis of the
  normalization wire theorems) holds of every module on which the executable scope check `Scope.wellScoped` — or just its
  "no two members with one identifier" component — succeeds; that is a decidable class of contexts
  (`GeneratedMembersDistinct`), and it contains every module rustc accepts;
* **`fieldsWF_fails_on_generated`** — it cannot be proved of *all* generated modules: `C02.onCtx` (a field named `on`
  next to the flattened variant member `on`) generates a struct with two members `on` of different types; why no
  input-side (schema / query only) class is given: the Rust identifiers are images under the case functions, which are
  parameters of the model.
-/
namespace GqlVerif
namespace Composed
open Codegen Serde C09 C09N

deriving instance DecidableEq for Item

/-- `scalar DateTime  type Query { at: DateTime!  id: ID }`;
    `query Q { at ...Frag }  fragment Frag on Query { id }`; default options, identity case functions -/
def exCtx9 : Ctx :=
  { s := { objects := [{ name := "Query", fields := [0, 1], implements := [] }],
           fields := [{ name := "at", ty := { id := .scalar 5, quals := [.required] }, parent := .object 0, deprecation := none },
                      { name := "id", ty := { id := .scalar 0, quals := [] }, parent := .object 0, deprecation := none }],
           scalars := Schema.defaultScalars ++ ["DateTime"] },
    q := { fragments := [{ name := "Frag", on := .object 0, sels := [.field none 1 []] }],
           operations := [{ name := "Q", kind := .query, objectId := 0, sels := [.field none 0 [], .spread 0] }] },
    o := {}, cs := ⟨id, id⟩ }

theorem toOption_eq_some {ε α} {x : Except ε α} {a : α} (h : x.toOption = some a) : x = .ok a := by
  cases x with
  | error e => cases h
  | ok b => simp only [Except.toOption, Option.some.injEq] at h; rw [h]

/-- **the hand-written instance is generated**: `exParts` is what `moduleParts` computes on `exCtx9` -/
theorem moduleParts_exParts : moduleParts exCtx9 0 = .ok exParts :=
  toOption_eq_some (by decide +kernel)

/-- … so the wire statement holds, with every side condition discharged, between the two *generated* modules -/
theorem scalars_module_wire_invariant_generated :
    let e : Env := { items := assemble none exParts, externs := exExterns }
    let e' : Env := { items := assemble (some "crate::scalars") exParts, externs := exExterns }
    responseForQuery exCtx9 0 = .ok e.items ∧
    responseForQuery (withScalarsModule exCtx9 (some "crate::scalars")) 0 = .ok e'.items ∧
    (∀ t j, Serde.de e t j = Serde.de e' t j) ∧ (∀ t v, Serde.ser e t v = Serde.ser e' t v) ∧
    (∀ t j, Serde.roundtrip e t j = Serde.roundtrip e' t j) := by
  intro e e'
  obtain ⟨h1, h2, h3⟩ := scalars_module_wire_invariant exCtx9 (some "crate::scalars") 0 exParts moduleParts_exParts exExterns
  have hw := h3
    (by
      intro i hi
      have : i = "DateTime" := by simpa [exParts] using hi
      subst this
      exact ⟨by decide, by decide, by decide, by decide, ⟨.path "String", by decide, by decide⟩⟩)
    (by decide)
  exact ⟨h1, h2, hw.2.2.1, hw.2.2.2.1, hw.2.2.2.2⟩

/-! ## `FieldsWF` of generated modules -/

theorem eq_of_nodup_map {α β : Type} (f : α → β) : ∀ {l : List α}, (l.map f).Nodup → ∀ {a b : α}, a ∈ l → b ∈ l →
    f a = f b → a = b
  | [], _, _, _, ha, _, _ => by cases ha
  | x :: xs, h, a, b, ha, hb, hab => by
    rw [List.map_cons, List.nodup_cons] at h
    rcases List.mem_cons.mp ha with rfl | ha' <;> rcases List.mem_cons.mp hb with rfl | hb'
    · rfl
    · exact absurd (List.mem_map.mpr ⟨b, hb', hab.symm⟩) h.1
    · exact absurd (List.mem_map.mpr ⟨a, ha', hab⟩) h.1
    · exact eq_of_nodup_map f h.2 ha' hb' hab

theorem sameTy_of_nodup {fs : List RField} (h : (fs.map (·.rust)).Nodup) : SameTy fs := by
  intro f hf g hg hfg
  have : f = g := eq_of_nodup_map _ h hf hg hfg
  rw [this]

theorem samePayload_of_nodup {vs : List RVariant} (h : (vs.map (·.name)).Nodup) : SamePayload vs := by
  intro v hv w hw hvw
  have : v = w := eq_of_nodup_map _ h hv hw hvw
  rw [this]

/-- members with pairwise distinct identifiers: `FieldsWF` holds -/
theorem fieldsWF_of_members_nodup (items : List Item) (externs : List (String × RTy))
    (h : ∀ it ∈ items, (C02.memberIdents it).Nodup) : FieldsWF { items := items, externs := externs } := by
  intro it hit
  have hn := h it hit
  cases it with
  | struct n d sc fs => exact sameTy_of_nodup hn
  | tagged n d sc tag vs => exact samePayload_of_nodup hn
  | oneOf n d sc vs => exact samePayload_of_nodup hn
  | unitStruct n d sc => trivial
  | alias n p t => trivial
  | gqlEnum n d sp vs ser de => trivial
  | defaults fns => trivial

/-- the executable scope check (the harness evaluates it on the IR extracted from the real token stream) implies `FieldsWF` -/
theorem fieldsWF_of_wellScoped (items : List Item) (supplied : List String) (externs : List (String × RTy))
    (h : Scope.wellScoped items supplied = true) : FieldsWF { items := items, externs := externs } :=
  fieldsWF_of_members_nodup items externs ((C02.wellScoped_iff items supplied).mp h).2.2.1

/-- the decidable class: generation succeeds and no emitted item has two members with one identifier -/
def GeneratedMembersDistinct (c : Ctx) (op : Nat) : Bool :=
  match responseForQuery c op with
  | .ok items => items.all (fun it => Scope.itemMemberDups it == [])
  | .error _ => false

/-- **`FieldsWF` of generated modules**, from the decidable class `GeneratedMembersDistinct` -/
theorem fieldsWF_of_generated (c : Ctx) (op : Nat) (items : List Item) (externs : List (String × RTy))
    (hgen : responseForQuery c op = .ok items) (h : GeneratedMembersDistinct c op = true) :
    FieldsWF { items := items, externs := externs } := by
  unfold GeneratedMembersDistinct at h
  rw [hgen] at h
  simp only [List.all_eq_true, beq_iff_eq] at h
  exact fieldsWF_of_members_nodup items externs (fun it hit => (C02.itemMemberDups_nil_iff it).mp (h it hit))

/-- the class is inhabited by non-trivial contexts: the rich context of `C02Response` (interface, union, fragments,
    extern enum, custom scalar, input variable) and `exCtx9` -/
example : GeneratedMembersDistinct C02.richCtx 0 = true ∧ GeneratedMembersDistinct exCtx9 0 = true := by
  constructor <;> decide +kernel

/-- **not every generated module satisfies `FieldsWF`**: on `C02.onCtx` (`query Q { i { on ... on O { on } } }`, interface
    field named `on`) generation succeeds and the struct `Qi` has two members `on`, of types `Option<String>` and
    `QiOn` — outside `GeneratedMembersDistinct`, and `FieldsWF` is false (such a module does not compile) -/
theorem fieldsWF_fails_on_generated :
    ∃ items, responseForQuery C02.onCtx 0 = .ok items ∧ GeneratedMembersDistinct C02.onCtx 0 = false ∧
      ∀ externs, ¬ FieldsWF { items := items, externs := externs } := by
  cases h : responseForQuery C02.onCtx 0 with
  | error e =>
    have : (responseForQuery C02.onCtx 0).toOption.isSome = true := by decide +kernel
    rw [h] at this; cases this
  | ok items =>
    refine ⟨items, rfl, by decide +kernel, fun externs hwf => ?_⟩
    have hbad : ((responseForQuery C02.onCtx 0).toOption.getD []).all (fun it => decide (ItemWF it)) = false := by
      decide +kernel
    rw [h] at hbad
    have : items.all (fun it => decide (ItemWF it)) = true := by
      simp only [List.all_eq_true, decide_eq_true_eq]
      exact fun it hit => hwf it hit
    simp only [Except.toOption, Option.getD_some] at hbad
    rw [this] at hbad
    cases hbad

end Composed
end GqlVerif
