import GqlVerif.Proofs.C01VariantSpreadD
/-!
# C01 end to end: fragment spreads at abstract positions (`VariantSpreadOp`), part E: losslessness for the whole class

* `rtAbsD` — round trip of the type(s) emitted at an abstract position **with flattened members for fragments on the
  abstract type itself**: `deStruct_borrow_finds` (reading), `rtAbsV_w` (each member, read from the entries the own fields
  left), `rtTaggedD` (the flattened `on`), `ser_flat` (writing `own ++ members ++ [on]` in declaration order);
* `structD_lossless` — by mutual induction over the selection tree (`rtSelD` / `rtSelsD` / `rtInlD`);
* **`variantspread_lossless` / `variantspread_roundtrip`**, for the whole class `VariantSpreadOp` (parts (a) and (b)):
  `Serde.roundtrip (moduleEnv c items) ResponseData j = .ok (normJson (canonSelD … j))`;
* a lone spread of a fragment on the abstract type itself (`hero { ...CF }`): through the type alias (`rtAliasB`);
* `canonSelD_noB`: without spreads of fragments on the abstract type itself `canonSelD = canonSelS` (part C's closed form,
  a `to_value` normal form);
* `variantspread_b_rust_names_needed`, `variantspread_b_merge_loses_fields`, `variantspread_b_inline_merge_loses_fields`:
  the side conditions are needed (the last two: a key with two readers — the fourth part of `absOkS` — loses data).
What `normJson (canonSelD … j)` is relative to `j`: `variantspread_content` of `C01VariantSpreadH`.
-/
set_option linter.unusedSimpArgs false
set_option linter.unusedVariables false
set_option linter.unusedSectionVars false

namespace GqlVerif
namespace C01
namespace E2E
open Serde Spec C13 C03 Codegen

section RTE
variable (e : Env) (c : Ctx)

/-- **round trip of the type(s) emitted at an abstract position**, members for fragments on the abstract type itself
    included -/
theorem rtAbsD (pfx name : String) (ty : TypeId) (sub : List Sel) (H : ∀ x ∈ sub, RTSelD e c pfx x)
    (HI : ∀ t isub, Sel.inline t isub ∈ sub → ∀ x ∈ isub, RTSelD e c (pfx ++ "On" ++ c.cs.camel (objName c.s t)) x)
    (hty : absHyp c.s ty) (ht : sSels c.s c.q c.o true sub = true) (hok : absOkS c.s c.q c.o ty sub = true)
    (henv : envSelsS e c pfx sub) (hve : ∀ vt ∈ vtsOfTy c.s ty, VarEnv e c pfx vt sub)
    (hro : rustOkSelsD c sub = true) (hrn : EnumSpec.nodup (rustNamesB c ty sub ++ ["on"]) = true)
    (hrv : ∀ vt ∈ vtsOfTy c.s ty, (varRust c vt sub).Nodup)
    (hs : AbsEnv e name (fieldsB c pfx ty sub) (variantsV c pfx ty (marks c.q sub))) (b : Bool) (fd fs : Nat)
    (hfd : 2 * depthsF c.q sub + 3 ≤ fd) (hfs : 2 * depthsF c.q sub + 2 ≤ fs) (j : Json) (w : Val)
    (hc : conformsAt c.s ty (expandSels c.q sub) j = true) (hd : dePath e b fd name j = .ok w) :
    serPath e fs name w = .ok (canonAbsD c.s c.q c.o.skipNone ty sub j) := by
  obtain ⟨hok1, hspP, _⟩ := absOkS_parts hok
  have hsp := spreadsA_abs hty hok
  obtain ⟨rt, kvs, rfl, hnd, hconf, htag, hmem, happ⟩ := abs_conf_factsD hty hok1 hc
  obtain ⟨htn, hrk, _, _, _, _, _, hexcl⟩ := absOk2_parts hok1
  have hemp := isEmpty_fieldsB c pfx ty sub ht
  have htagName : tagName kvs = rtName c.s rt := by simp [tagName, htag]
  unfold AbsEnv at hs
  simp only [canonAbsD, htagName]
  cases hF : hasStruct c.q ty sub
  · -- the tagged enum alone
    rw [hF] at hemp
    simp only [hemp, Bool.not_false, ↓reduceIte] at hs
    obtain ⟨fd', rfl⟩ : ∃ k, fd = k + 1 := ⟨fd - 1, by omega⟩
    obtain ⟨fs', rfl⟩ : ∃ k, fs = k + 1 := ⟨fs - 1, by omega⟩
    rw [dePath_tagged e b fd' name _ _ _ _ _ hs.1 hs.2.2.choose_spec.choose_spec.choose_spec] at hd
    have hkf : kvs = kvs.filter (fun _ => true) := (List.filter_eq_self.mpr (fun _ _ => rfl)).symm
    rw [hkf] at hd
    have := (rtTaggedD e c pfx name ty sub HI hty ht hok henv hve hro hrv hs rt kvs hnd hconf htag hmem (fun _ => true)
      (fun _ => rfl) (fun _ _ _ => rfl) b fd' fs' (by omega) (by omega) w hd).2
    rw [this, canonEntriesBD_nostruct c.s c.q _ ty _ kvs sub hF]; rfl
  · -- the struct: own fields, members for fragments on the abstract type itself, the flattened `on`
    rw [hF] at hemp
    simp only [hemp, Bool.not_true, Bool.false_eq_true, ↓reduceIte] at hs
    obtain ⟨⟨hp, _, n, d, cr, hfind⟩, hsT⟩ := hs
    have hsT' := hsT
    obtain ⟨hpT, _, n', d', cr', hfind'⟩ := hsT'
    obtain ⟨fd', rfl⟩ : ∃ k, fd = k + 2 := ⟨fd - 2, by omega⟩
    obtain ⟨fs', rfl⟩ : ∃ k, fs = k + 2 := ⟨fs - 2, by omega⟩
    have hpl := plain_fieldsOfV c pfx sub
    have hcnt := countKey_le_one_of_nodup hnd
    have hkn := nodup_iff'.mp hrk
    have hnf := typename_not_fieldKey c.s sub htn hrk
    have hany : (fieldsB c pfx ty sub ++ [onField name]).any (·.flatten) = true := by simp [onField]
    have hbm := (accMemB e c pfx ty hty sub hsp henv fd' (by omega) (absRest c.s c.q ty sub kvs)).1
    have hb : ∀ g ∈ fieldsB c pfx ty sub ++ [onField name], g.flatten = true → Borrows e g := by
      intro g hg hfl
      rcases List.mem_append.mp hg with hg | hg
      · exact hbm g hg hfl
      · simp only [List.mem_singleton] at hg
        subst hg
        exact ⟨name ++ "On", rfl, hpT, .inl ⟨n', d', cr', _, _, hfind'⟩⟩
    have hown : (fieldsB c pfx ty sub ++ [onField name]).filter (fun f => !f.flatten) = fieldsOfV c pfx sub := by
      rw [List.filter_append, own_fieldsB c pfx ty sub ht]; simp [onField]
    have hrest : kvs.filter (fun kv => !((fieldsOfV c pfx sub).map (·.wire)).contains kv.1) =
        absRest c.s c.q ty sub kvs := by
      rw [wire_fieldsOfS c pfx true sub ht]; simp [absRest, hF]
    have hrestq : absRest c.s c.q ty sub kvs = kvs.filter (fun kv => !(fieldKeys c.s sub).contains kv.1) := by
      simp [absRest, hF]
    have hrust : ((fieldsB c pfx ty sub ++ [onField name]).map (·.rust)).Nodup := by
      rw [List.map_append, rust_fieldsB c pfx ty sub ht]
      exact nodup_iff'.mp hrn
    rw [dePath_struct e b (fd' + 1) name n d cr _ hp hfind, deStruct_obj] at hd
    obtain ⟨vals, rfl, hownf, hmemf⟩ := deStruct_borrow_finds e fd' _ _ kvs hcnt hrust hany hb w hd
    rw [hown, hrest] at hmemf
    -- the filter of what the members see
    have hqt : ∀ v : Json, (fun kv : String × Json => !(fieldKeys c.s sub).contains kv.1) ("__typename", v) = true := by
      intro v; simpa using hnf
    have hndr : ((absRest c.s c.q ty sub kvs).map (·.1)).Nodup := by
      rw [hrestq]; exact (List.filter_sublist.map _).nodup hnd
    have htagr : Json.lookup "__typename" (absRest c.s c.q ty sub kvs) = some (.str (rtName c.s rt)) := by
      rw [hrestq, lookup_filter _ _ hqt]; exact htag
    -- the members for fragments on the abstract type itself
    have hmemrt : ∀ gid fr, Sel.spread gid ∈ sub → c.q.fragments[gid]? = some fr → fr.on = ty →
        ∃ y, vals.find? (·.1 == (spreadField c fr).rust) = some ((spreadField c fr).rust, y) ∧
          serTyWith (serPath e (fs' + 1)) (spreadField c fr).ty y =
            .ok (.obj (absEntries (canonAbsV c.s c.o.skipNone fr.sels (.obj (absRest c.s c.q ty sub kvs))))) := by
      intro gid fr hm hfr hon
      have hokB : fragOkB c.s c.q c.o ty gid = true ∧ ∀ k ∈ deepKeys c.s fr.sels, k ∉ fieldKeys c.s sub := by
        rcases hspP gid hm with ⟨vt, f', hvt, _, hf', hon', _⟩ | ⟨f', hokB, hf', _, hkeys⟩
        · rw [hfr] at hf'; cases hf'
          obtain ⟨_, _, hobj, _⟩ := absOk2_parts hok1
          obtain ⟨i, rfl, _⟩ := hobj vt hvt
          exact absurd (hon'.symm.trans hon) (obj_ne_abs hty i)
        · rw [hfr] at hf'; cases hf'
          exact ⟨hokB, hkeys⟩
      obtain ⟨fr', hfr', _, _, hv, hokf⟩ := fragOkB_parts hokB.1
      rw [hfr] at hfr'; cases hfr'
      have hfe : FragEnvS e c gid := envSelsS_mem henv _ hm
      unfold FragEnvS at hfe
      rw [hfr] at hfe
      have hisabs : fr.on.isAbstract = true := by
        rw [hon]; cases ty <;> simp_all [absHyp, TypeId.isAbstract]
      simp only [hisabs, ↓reduceIte] at hfe
      rw [hon] at hfe
      have hrog : rustOkFragB c gid = true := by
        have := rustOkSelsD_mem hro _ hm
        simpa [rustOkSelD, hfr, hisabs] using this
      have hsels : fragSels c.q gid = fr.sels := by simp [fragSels, hfr]
      simp only [rustOkFragB, hsels, Bool.and_eq_true] at hrog
      have hgmem : spreadField c fr ∈ fieldsB c pfx ty sub ++ [onField name] :=
        List.mem_append_left _ (List.mem_filterMap.mpr ⟨_, hm, by simp [fieldOfSelB, hfr, hon]⟩)
      obtain ⟨y, hy, hfindg⟩ := hmemf _ hgmem rfl
      refine ⟨y, hfindg, ?_⟩
      have hdep := depthsF_mem c.q hm
      rw [depthF, hsels] at hdep
      have hconf_g : confSelsV c.s rt fr.sels kvs = true := by
        have := confSelsV_mem hconf _ (expandSels_mem c.q hm)
        simpa [expandSel, hfr, confSelV, hon, happ] using this
      have hconf_r : confSelsV c.s rt fr.sels (absRest c.s c.q ty sub kvs) = true := by
        rw [hrestq, confSelsV_filter c.s rt _ kvs hqt fr.sels (fun k hk v => by
          have := hokB.2 k hk
          simpa using this)]
        exact hconf_g
      have hy' : dePath e true (fd' + 1) fr.name (.obj (absRest c.s c.q ty sub kvs)) = .ok y := hy
      have := rtAbsV_w e c (c.cs.camel fr.name) fr.name ty fr.sels
        (fun x hx => (rtSelsV e c fr.sels _ x hx).1) (fun x hx => (rtSelsV e c fr.sels _ x hx).2)
        hty hv hokf hfe.2 hrog.2 hrog.1 hfe.1 true (fd' + 1) (fs' + 1) (by omega) (by omega) rt
        (absRest c.s c.q ty sub kvs) hndr hconf_r htagr hmem y hy'
      rw [show serTyWith (serPath e (fs' + 1)) (spreadField c fr).ty y = serPath e (fs' + 1) fr.name y from rfl, this]
      rfl
    -- the flattened `on`
    have honrt : ∃ y, vals.find? (·.1 == (onField name).rust) = some ((onField name).rust, y) ∧
        serTyWith (serPath e (fs' + 1)) (onField name).ty y =
          .ok (.obj (("__typename", .str (rtName c.s rt)) ::
            canonVarD c.s c.q c.o.skipNone (rtName c.s rt) sub kvs)) := by
      obtain ⟨y, hy, hfindg⟩ := hmemf (onField name) (by simp) rfl
      refine ⟨y, hfindg, ?_⟩
      have hy' : dePath e true (fd' + 1) (name ++ "On") (.obj (absRest c.s c.q ty sub kvs)) = .ok y := hy
      rw [dePath_tagged e true fd' _ n' d' cr' _ _ hpT hfind', hrestq] at hy'
      exact (rtTaggedD e c pfx (name ++ "On") ty sub HI hty ht hok henv hve hro hrv hsT rt kvs hnd hconf htag hmem
        (fun kv => !(fieldKeys c.s sub).contains kv.1) hqt
        (by
          intro k hk v
          have : k ∉ fieldKeys c.s sub := fun h' => hk (fieldKeys_sub_respKeys c.s sub k h')
          simpa using this)
        true fd' fs' (by omega) (by omega) y hy').2
    let mc : RField → List (String × Json) := fun g =>
      match vals.find? (·.1 == g.rust) with
      | some (_, y) => (match serTyWith (serPath e (fs' + 1)) g.ty y with | .ok (.obj o) => o | _ => [])
      | none => []
    have hmc : ∀ gid fr, Sel.spread gid ∈ sub → c.q.fragments[gid]? = some fr → fr.on = ty →
        mc (spreadField c fr) = absEntries (canonAbsV c.s c.o.skipNone fr.sels (.obj (absRest c.s c.q ty sub kvs))) := by
      intro gid fr hm hfr hon
      obtain ⟨y, hf, hser⟩ := hmemrt gid fr hm hfr hon
      simp only [mc, hf, hser]
    have hmcon : mc (onField name) = ("__typename", .str (rtName c.s rt)) ::
        canonVarD c.s c.q c.o.skipNone (rtName c.s rt) sub kvs := by
      obtain ⟨y, hf, hser⟩ := honrt
      simp only [mc, hf, hser]
    have hfcanon : ∀ a fid sub', Sel.field a fid sub' ∈ sub → ∀ f,
        fieldOfSelV c pfx (.field a fid sub') = some f →
        ∀ v, fcanonOfD c.s c.q c.o.skipNone sub f v = canonFieldD c.s c.q c.o.skipNone (.field a fid sub') v := by
      intro a fid sub' hx f hfx v
      obtain ⟨sf, ft, hsf, _, hf', _⟩ := fieldOfSelV_s c pfx true a fid sub' (sSels_mem ht _ hx)
      rw [hf'] at hfx
      cases hfx
      unfold fcanonOfD
      rw [fieldOf_wire, find_respKey c.s _ sub hkn _ hx (by simp [respKey, hsf])]
    have hnonfl : ∀ f ∈ fieldsB c pfx ty sub ++ [onField name], f.flatten = false → f ∈ fieldsOfV c pfx sub := by
      intro f hf hfl
      rw [← hown]; exact List.mem_filter.mpr ⟨hf, by simp [hfl]⟩
    rw [serPath_struct e (fs' + 1) name n d cr _ hfind,
      ser_flat (dePath e b (fd' + 1)) (serPath e (fs' + 1)) (fcanonOfD c.s c.q c.o.skipNone sub) mc kvs vals
        (fieldsB c pfx ty sub ++ [onField name]) hownf ?_ ?_ ?_ ?_]
    · rw [List.flatMap_append, flatMap_entriesF_B c pfx ty _ _ mc kvs sub ht hfcanon hmc]
      simp only [List.flatMap_cons, List.flatMap_nil, List.append_nil, entriesF, onField, ↓reduceIte]
      have := hmcon
      simp only [onField] at this
      rw [this]
      rfl
    · intro f hf hfl jv x hl hdx
      obtain ⟨a, fid, sub', sf, ft, hx, hsf, hfx, rfl, _⟩ := mem_fieldsOfS (hnonfl f hf hfl) ht
      rw [fieldOf_wire] at hl
      have hst : strictFieldV c.s (expandSel c.q (.field a fid sub')) jv = true :=
        (fieldsOkS_of_conf hnd hconf).2 a fid sub' hx sf hsf jv hl
      rw [hfcanon a fid sub' hx _ hfx jv]
      have hdep := depthsF_mem c.q hx
      exact H _ hx true (sSels_mem ht _ hx) (envSelsS_mem henv _ hx) (rustOkSelsD_mem hro _ hx) _ hfx b (fd' + 1)
        (fs' + 1) (by omega) (by omega) jv x hst hdx
    · intro f hf hfl hskip jv x _ hdx
      obtain ⟨a, fid, sub', sf, ft, _, _, _, rfl, _⟩ := mem_fieldsOfS (hnonfl f hf hfl) ht
      refine field_unit_iff _ _ (.inr ?_) jv x hdx
      rw [fieldOf_skipNone, Bool.and_eq_true] at hskip
      exact (isOption_rustOf ft sf.ty.quals).trans (skipQ_nullable hskip.2)
    · intro f hf hfl hdef
      obtain ⟨a, fid, sub', sf, ft, _, _, _, rfl, _⟩ := mem_fieldsOfS (hnonfl f hf hfl) ht
      have : (decide (ft = "ID") && nullableQ sf.ty.quals) = true := hdef
      rw [Bool.and_eq_true] at this
      exact (isOption_rustOf ft sf.ty.quals).trans this.2
    · intro g hg hfl
      rcases List.mem_append.mp hg with hg | hg
      · obtain ⟨gid, fr, hm, hfr, hon, rfl⟩ := mem_fieldsB_flatten hg hfl
        obtain ⟨y, hf, hser⟩ := hmemrt gid fr hm hfr hon
        exact ⟨y, hf, by rw [hser, hmc gid fr hm hfr hon]⟩
      · simp only [List.mem_singleton] at hg
        subst hg
        obtain ⟨y, hf, hser⟩ := honrt
        exact ⟨y, hf, by rw [hser, hmcon]⟩

end RTE


section RTE2
variable (e : Env) (c : Ctx)

theorem fieldTy_of {c : Ctx} {fid : Nat} {sf : StoredField} (hsf : c.s.fields[fid]? = some sf) :
    fieldTy c fid = sf.ty.id := by
  simp [fieldTy, hsf]

/-- a response object of a lone spread of a fragment on the abstract type itself is one of the fragment's body -/
theorem conformsAt_lone (ty : TypeId) (g : Nat) (fr : RFragment) (hfr : c.q.fragments[g]? = some fr) (hon : fr.on = ty)
    (j : Json) (hc : conformsAt c.s ty (expandSels c.q [Sel.spread g]) j = true) : conformsAt c.s ty fr.sels j = true := by
  simp only [conformsAt, List.any_eq_true, List.mem_range, Bool.and_eq_true] at hc ⊢
  obtain ⟨rt, hrt, happ, hc⟩ := hc
  refine ⟨rt, hrt, happ, ?_⟩
  cases j with
  | obj kvs =>
    simpa only [expandSels, expandSel, hfr, conformsV, keysSelsV, keysSelV, hon, happ, ↓reduceIte, List.append_nil,
      confSelsV, confSelV, Bool.not_true, Bool.false_or, Bool.and_true] using hc
  | null => simp [conformsV] at hc
  | bool _ => simp [conformsV] at hc
  | int _ => simp [conformsV] at hc
  | num _ => simp [conformsV] at hc
  | str _ => simp [conformsV] at hc
  | arr _ => simp [conformsV] at hc

/-- round trip through the type alias of a lone spread of a fragment on the abstract type itself -/
theorem rtAliasB (name : String) (ty : TypeId) (g : Nat) (fr : RFragment) (hfr : c.q.fragments[g]? = some fr)
    (hty : absHyp c.s ty) (hok : fragOkB c.s c.q c.o ty g = true)
    (ha : AliasEnv e name (fragName c g)) (hf : FragEnvS e c g) (hro : rustOkFragB c g = true) (b : Bool) (fd fs : Nat)
    (hfd : 2 * selsDepth fr.sels + 4 ≤ fd) (hfs : 2 * selsDepth fr.sels + 4 ≤ fs) (j : Json) (w : Val)
    (hc : conformsAt c.s ty (expandSels c.q [Sel.spread g]) j = true) (hd : dePath e b fd name j = .ok w) :
    serPath e fs name w = .ok (canonAbsV c.s c.o.skipNone fr.sels j) := by
  obtain ⟨fr', hfr', hon, _, hv, hokf⟩ := fragOkB_parts hok
  rw [hfr] at hfr'; cases hfr'
  obtain ⟨hp, _, n, pub, hfind⟩ := ha
  unfold FragEnvS at hf
  rw [hfr] at hf
  have hisabs : fr.on.isAbstract = true := by
    rw [hon]; cases ty <;> simp_all [absHyp, TypeId.isAbstract]
  rw [hon] at hisabs
  simp only [hon, hisabs, ↓reduceIte] at hf
  have hsels : fragSels c.q g = fr.sels := by simp [fragSels, hfr]
  have hname : fragName c g = fr.name := by simp [fragName, hfr]
  simp only [rustOkFragB, hsels, Bool.and_eq_true] at hro
  rw [hname] at hfind
  obtain ⟨fd', rfl⟩ : ∃ k, fd = k + 1 := ⟨fd - 1, by omega⟩
  obtain ⟨fs', rfl⟩ : ∃ k, fs = k + 2 := ⟨fs - 2, by omega⟩
  have hd' : dePath e b fd' fr.name j = .ok w := by
    rw [dePath] at hd; simpa only [dePrim_none hp, hfind, deTyWith] using hd
  rw [serPath_alias e name fr.name n pub hfind]
  exact rtAbsV e c (c.cs.camel fr.name) fr.name ty fr.sels
    (fun x hx => (rtSelsV e c fr.sels _ x hx).1) (fun x hx => (rtSelsV e c fr.sels _ x hx).2) hty hv hokf hf.2 hro.2 hro.1
    hf.1 b fd' (fs' + 1) (by omega) (by omega) j w (conformsAt_lone c ty g fr hfr hon j hc) hd'

mutual
  theorem rtSelD : ∀ (x : Sel) (pfx : String), RTSelD e c pfx x
    | .field a fid sub, pfx => by
      intro abs ht henv hro f hf b fd fs hfd hfs v y hst hd
      have IH := rtSelsD sub
      have IHI := rtInlD sub
      rw [depthF] at hfd hfs
      obtain ⟨fd', rfl⟩ : ∃ k, fd = k + 3 := ⟨fd - 3, by omega⟩
      obtain ⟨fs', rfl⟩ : ∃ k, fs = k + 1 := ⟨fs - 1, by omega⟩
      rw [sSel] at ht
      rw [envSelS] at henv
      rw [rustOkSelD, Bool.and_eq_true, Bool.and_eq_true] at hro
      simp only [expandSel, strictFieldV] at hst
      rw [canonFieldD]
      cases hsf : c.s.fields[fid]? with
      | none => simp [hsf] at ht
      | some sf =>
        simp only [hsf, Bool.and_eq_true] at ht henv hst ⊢
        obtain ⟨⟨hw, _⟩, hty⟩ := ht
        have hwf : wf (gtyOf sf.ty.quals) = true := by rw [wf_gtyOf]; exact hw
        rw [isAbsField_of hsf, vtsOfField_of hsf, fieldTy_of hsf] at hro
        cases hid : sf.ty.id with
        | scalar k =>
          simp only [hid, Bool.and_eq_true] at hty henv hst ⊢
          cases hk : c.s.scalars[k]? with
          | none => simp [hk] at hty
          | some sn =>
            simp only [hk] at henv hst ⊢
            simp only [fieldOfSelV, hsf, leafNameV, hid, hk, Option.some.injEq] at hf
            subst hf
            by_cases hID : sn = "ID"
            · subst hID
              simp only [↓reduceIte]
              exact field_roundtrip_id _ _ (fun s => serPath_prim e fs' "ID" (.str s) (.str s) rfl) _
                (gtyOf sf.ty.quals) (by simp [fieldOf]) rfl hwf v y hd
            · simp only [hID, ↓reduceIte]
              have := field_roundtrip_plain (dePath e b (fd' + 3)) (serPath e (fs' + 1)) _ sn (gtyOf sf.ty.quals) id
                (by simp [fieldOf, hID]) rfl hwf (leaf_scalar_rt e sn henv hID b fd' fs') v y hd
              rwa [(canon_id _).2 v] at this
        | «enum» k =>
          simp only [hid, Bool.and_eq_true] at hty henv hst ⊢
          cases hk : c.s.enums[k]? with
          | none => simp [hk] at hty
          | some en =>
            simp only [hk] at henv hst
            simp only [fieldOfSelV, hsf, leafNameV, hid, hk, Option.some.injEq, Option.map_some] at hf
            subst hf
            obtain ⟨hp, hID, n', d, sp, vs, ser, de, hfind, hwft⟩ := henv
            have := field_roundtrip_plain (dePath e b (fd' + 3)) (serPath e (fs' + 1)) _ en.name (gtyOf sf.ty.quals) id
              (by simp [fieldOf, hID]) rfl hwf
              (leaf_enum_rt e b (fd' + 2) fs' en.name n' d sp vs ser de hp hfind hwft) v y hd
            rwa [(canon_id _).2 v] at this
        | object i =>
          simp only [hid, Bool.and_eq_true] at hty henv hst ⊢
          simp only [fieldOfSelV, hsf, leafNameV, hid, Option.some.injEq] at hf
          subst hf
          obtain ⟨hs, hesub⟩ := henv
          rw [deField_plain _ _ _ _ hs.2.1] at hd
          rw [canonLambdaD]
          simp only [hid, TypeId.isAbstract, Bool.false_eq_true, ↓reduceIte, List.append_nil] at hro
          refine (leaf_roundtrip_on (dePath e b (fd' + 3)) (serPath e (fs' + 1)) _
            (conformsAt c.s (.object i) (expandSels c.q sub)) (canonSelD c.s c.q c.o.skipNone sub) ?_ _ hwf).2 v y hst hd
          intro j w hc hdw
          simp only [conformsAt, List.any_eq_true, List.mem_range, Bool.and_eq_true] at hc
          obtain ⟨rt, _, _, hcv⟩ := hc
          cases j with
          | obj kvs =>
            simp only [conformsV, Bool.and_eq_true] at hcv
            rw [rustNamesB_noSpread c _ sub (no_spread_of_sSels hty.1.2)] at hro
            exact rtStructD e c _ _ sub (fun x hx => IH _ x hx) false hty.1.2 hesub hro.1.2 hro.1.1 hty.2 hs b _ _
              (by omega) (by omega) kvs (fieldsOkS_of_conf (nodup_iff'.mp hcv.1.1) hcv.2) w hdw
          | null => simp [conformsV] at hcv
          | bool _ => simp [conformsV] at hcv
          | int _ => simp [conformsV] at hcv
          | num _ => simp [conformsV] at hcv
          | str _ => simp [conformsV] at hcv
          | arr _ => simp [conformsV] at hcv
        | interface k =>
          simp only [hid, Bool.and_eq_true] at hty henv hst ⊢
          simp only [fieldOfSelV, hsf, leafNameV, hid, Option.some.injEq] at hf
          subst hf
          rcases absOkL_cases hty.2 with ⟨hok, hlg⟩ | ⟨g, rfl, hokB⟩
          · simp only [hlg] at henv ⊢
            obtain ⟨hs, hve, hesub⟩ := henv
            have hID : pfx ++ c.cs.camel (a.getD sf.name) ≠ "ID" := by
              unfold AbsEnv at hs; split at hs
              · exact hs.2.1
              · exact hs.1.2.1
            rw [deField_plain _ _ _ _ hID] at hd
            rw [canonLambdaAbsD]
            simp only [hid, TypeId.isAbstract, ↓reduceIte, List.all_eq_true] at hro
            refine (leaf_roundtrip_on (dePath e b (fd' + 3)) (serPath e (fs' + 1)) _
              (conformsAt c.s (.interface k) (expandSels c.q sub)) (canonAbsD c.s c.q c.o.skipNone (.interface k) sub) ?_ _ hwf).2 v y hst hd
            intro j w hc hdw
            exact rtAbsD e c _ _ (.interface k) sub (fun x hx => IH _ x hx) (fun t isub hm x hx => IHI t isub hm _ x hx)
              hty.1.1 hty.1.2 hok hesub hve hro.1.2 hro.1.1 (fun vt hvt => nodup_iff'.mp (hro.2 vt hvt)) hs b _ _
              (by omega) (by omega) j w hc hdw
          · -- a lone spread of a fragment on the abstract type itself: through the type alias
            simp only [loneG_lone] at henv ⊢
            obtain ⟨fr, hfr, hon, _⟩ := fragOkB_parts hokB
            simp only [hfr]
            rw [deField_plain _ _ _ _ henv.1.2.1] at hd
            have hdep : depthsF c.q [Sel.spread g] = selsDepth fr.sels + 1 := by simp [depthsF, depthF, fragSels, hfr]
            rw [hdep] at hfd hfs
            have hisabs : fr.on.isAbstract = true := by rw [hon]; rfl
            have hrog : rustOkFragB c g = true := by
              have := hro.1.2
              simpa [rustOkSelsD, rustOkSelD, hfr, hisabs] using this
            refine (leaf_roundtrip_on (dePath e b (fd' + 3)) (serPath e (fs' + 1)) _
              (conformsAt c.s (.interface k) (expandSels c.q [Sel.spread g])) (canonAbsV c.s c.o.skipNone fr.sels) ?_ _ hwf).2 v y hst hd
            intro j w hc hdw
            exact rtAliasB e c _ (.interface k) g fr hfr hty.1.1 hokB henv.1 henv.2 hrog b _ _ (by omega) (by omega) j w hc hdw
        | union k =>
          simp only [hid, Bool.and_eq_true] at hty henv hst ⊢
          simp only [fieldOfSelV, hsf, leafNameV, hid, Option.some.injEq] at hf
          subst hf
          rcases absOkL_cases hty.2 with ⟨hok, hlg⟩ | ⟨g, rfl, hokB⟩
          · simp only [hlg] at henv ⊢
            obtain ⟨hs, hve, hesub⟩ := henv
            have hID : pfx ++ c.cs.camel (a.getD sf.name) ≠ "ID" := by
              unfold AbsEnv at hs; split at hs
              · exact hs.2.1
              · exact hs.1.2.1
            rw [deField_plain _ _ _ _ hID] at hd
            rw [canonLambdaAbsD]
            simp only [hid, TypeId.isAbstract, ↓reduceIte, List.all_eq_true] at hro
            refine (leaf_roundtrip_on (dePath e b (fd' + 3)) (serPath e (fs' + 1)) _
              (conformsAt c.s (.union k) (expandSels c.q sub)) (canonAbsD c.s c.q c.o.skipNone (.union k) sub) ?_ _ hwf).2 v y hst hd
            intro j w hc hdw
            exact rtAbsD e c _ _ (.union k) sub (fun x hx => IH _ x hx) (fun t isub hm x hx => IHI t isub hm _ x hx)
              hty.1.1 hty.1.2 hok hesub hve hro.1.2 hro.1.1 (fun vt hvt => nodup_iff'.mp (hro.2 vt hvt)) hs b _ _
              (by omega) (by omega) j w hc hdw
          · -- a lone spread of a fragment on the abstract type itself: through the type alias
            simp only [loneG_lone] at henv ⊢
            obtain ⟨fr, hfr, hon, _⟩ := fragOkB_parts hokB
            simp only [hfr]
            rw [deField_plain _ _ _ _ henv.1.2.1] at hd
            have hdep : depthsF c.q [Sel.spread g] = selsDepth fr.sels + 1 := by simp [depthsF, depthF, fragSels, hfr]
            rw [hdep] at hfd hfs
            have hisabs : fr.on.isAbstract = true := by rw [hon]; rfl
            have hrog : rustOkFragB c g = true := by
              have := hro.1.2
              simpa [rustOkSelsD, rustOkSelD, hfr, hisabs] using this
            refine (leaf_roundtrip_on (dePath e b (fd' + 3)) (serPath e (fs' + 1)) _
              (conformsAt c.s (.union k) (expandSels c.q [Sel.spread g])) (canonAbsV c.s c.o.skipNone fr.sels) ?_ _ hwf).2 v y hst hd
            intro j w hc hdw
            exact rtAliasB e c _ (.union k) g fr hfr hty.1.1 hokB henv.1 henv.2 hrog b _ _ (by omega) (by omega) j w hc hdw
        | input k => simp [hid] at hty
    | .spread g, pfx => by intro _ _ _ _ f hf; cases hf
    | .inline t isub, pfx => by intro _ _ _ _ f hf; cases hf
    | .typename, pfx => by intro _ _ _ _ f hf; cases hf
  theorem rtSelsD : ∀ (sels : List Sel) (pfx : String), ∀ x ∈ sels, RTSelD e c pfx x
    | [], _, x, hx => by simp at hx
    | y :: ys, pfx, x, hx => by
      rcases List.mem_cons.mp hx with h | hx'
      · rw [h]; exact rtSelD y pfx
      · exact rtSelsD ys pfx x hx'
  /-- the fields of the bodies of the inline fragments of a selection set -/
  theorem rtInlD : ∀ (sels : List Sel) (t : TypeId) (isub : List Sel), Sel.inline t isub ∈ sels →
      ∀ pfx, ∀ x ∈ isub, RTSelD e c pfx x
    | [], _, _, h => by simp at h
    | y :: ys, t, isub, hm => by
      rcases List.mem_cons.mp hm with heq | hm'
      · cases y with
        | inline t' isub' =>
          cases heq
          exact fun pfx => rtSelsD isub pfx
        | field a fid sub => cases heq
        | spread g => cases heq
        | typename => cases heq
      · exact rtInlD ys t isub hm'
end

/-- **round trip of the struct emitted for an object-level selection set** of the class `VariantSpreadOp` -/
theorem structD_lossless (pfx name : String) (sels : List Sel)
    (ht : sSels c.s c.q c.o false sels = true) (henv : envSelsS e c pfx sels)
    (hro : rustOkSelsD c sels = true)
    (hrn : EnumSpec.nodup (rustNames c sels) = true)
    (hkeys : EnumSpec.nodup (respKeys c.s sels) = true)
    (hs : StructEnv e name (fieldsOfV c pfx sels)) (b : Bool) (fd fs : Nat)
    (hfd : 2 * depthsF c.q sels + 2 ≤ fd) (hfs : 2 * depthsF c.q sels + 1 ≤ fs) (rt : Nat) (j : Json) (v : Val)
    (hc : conformsV c.s rt (expandSels c.q sels) j = true) (hd : dePath e b fd name j = .ok v) :
    serPath e fs name v = .ok (canonSelD c.s c.q c.o.skipNone sels j) := by
  cases j with
  | obj kvs =>
    simp only [conformsV, Bool.and_eq_true] at hc
    exact rtStructD e c pfx name sels (fun x hx => rtSelsD e c sels pfx x hx) false ht henv hro hrn hkeys hs b fd fs
      hfd hfs kvs (fieldsOkS_of_conf (nodup_iff'.mp hc.1.1) hc.2) v hd
  | null => simp [conformsV] at hc
  | bool _ => simp [conformsV] at hc
  | int _ => simp [conformsV] at hc
  | num _ => simp [conformsV] at hc
  | str _ => simp [conformsV] at hc
  | arr _ => simp [conformsV] at hc


end RTE2

/-! ## top level -/

/-- Rust field names pairwise distinct in every emitted struct, members for fragments on abstract types and `on` included
    (decidable; implies `spreadRustOk`'s `rustOkSelsS` part on the class) -/
def spreadRustOkD (c : Ctx) (op : ROperation) : Bool :=
  rustOkSelsD c op.sels && EnumSpec.nodup (rustNames c op.sels)

/-- **losslessness at the top level** (generic environment), for the whole class -/
theorem top_losslessD (e : Env) (c : Ctx) (op : ROperation) (ht : VariantSpreadOp c op = true) (he : TopEnvS e c op)
    (hro : rustOkSelsD c op.sels = true) (hrn : EnumSpec.nodup (rustNames c op.sels) = true)
    (rt : Nat) (j : Json) (v : Val) (hc : conformsV c.s rt (expandSels c.q op.sels) j = true)
    (hd : Serde.de e (.path "ResponseData") j = .ok v) :
    Serde.ser e (.path "ResponseData") v = .ok (normJson (canonSelD c.s c.q c.o.skipNone op.sels j)) := by
  obtain ⟨_, _, hsels, hkeys⟩ := variantSpreadOp_parts ht
  rw [de_top] at hd
  have h1 := he.size
  have hser := structD_lossless e c _ "ResponseData" op.sels hsels he.sub hro hrn hkeys he.root false _
    ((valSize v + 2) * (e.items.length + e.externs.length + 2))
    (deFuel_depthS e c op he.size j)
    (by
      have h2 : 2 * (e.items.length + e.externs.length + 2) ≤
          (valSize v + 2) * (e.items.length + e.externs.length + 2) := Nat.mul_le_mul_right _ (by omega)
      omega)
    rt j v hc hd
  unfold Serde.ser serTy
  rw [show serTyWith (serPath e ((valSize v + 2) * (e.items.length + e.externs.length + 2))) (.path "ResponseData") v =
    serPath e ((valSize v + 2) * (e.items.length + e.externs.length + 2)) "ResponseData" v from rfl, hser]
  rfl

/-- **`variantspread_lossless`**, for the whole class `VariantSpreadOp` (spreads of fragments on possible types *and* on the
    abstract type itself).  A conforming response that was read is written back as `normJson (canonSelD … j)`:
    `canonSelD` is what the serializer writes (at an abstract position: interface-level entries and, at the position of each
    spread of a fragment on the abstract type itself, that fragment's entries — its fields, `__typename`, its inline
    fragment's entries for the runtime type — then `__typename` and the entries of the selections on the runtime type);
    `normJson` is `serde_json::to_value`'s "a repeated key keeps its first position and its last value". -/
theorem variantspread_lossless (c : Ctx) (opIdx : Nat) (op : ROperation) (items : List Item)
    (hop : c.q.operations[opIdx]? = some op) (ht : VariantSpreadOp c op = true)
    (hgen : responseForQuery c opIdx = .ok items) (hok : moduleOk c items = true)
    (hr : spreadRustOkD c op = true)
    (j : Json) (hc : conformsOpS c op j = true) (v : Val)
    (hd : Serde.de (moduleEnv c items) (.path "ResponseData") j = .ok v) :
    Serde.ser (moduleEnv c items) (.path "ResponseData") v =
      .ok (normJson (canonSelD c.s c.q c.o.skipNone op.sels j)) := by
  simp only [spreadRustOkD, Bool.and_eq_true] at hr
  exact top_losslessD (moduleEnv c items) c op ht (topEnvS_of_module hop ht hgen hok) hr.1 hr.2 _ j v hc hd

/-- **`variantspread_roundtrip`**: both in one statement -/
theorem variantspread_roundtrip (c : Ctx) (opIdx : Nat) (op : ROperation) (items : List Item)
    (hop : c.q.operations[opIdx]? = some op) (ht : VariantSpreadOp c op = true)
    (hgen : responseForQuery c opIdx = .ok items) (hok : moduleOk c items = true)
    (hr : spreadRustOkD c op = true) (j : Json) (hc : conformsOpS c op j = true) :
    Serde.roundtrip (moduleEnv c items) (.path "ResponseData") j =
      .ok (normJson (canonSelD c.s c.q c.o.skipNone op.sels j)) := by
  obtain ⟨v, hv⟩ := variantspread_accepts c opIdx op items hop ht hgen hok j hc
  unfold Serde.roundtrip
  rw [hv]
  exact variantspread_lossless c opIdx op items hop ht hgen hok hr j hc v hv

/-! ## the module with spreads of fragments on the interface itself (`bsSels` of `C01VariantSpread`) -/

theorem bs_rustD : spreadRustOkD (bsCtx bsSels) (wsOp bsSels) = true := by decide +kernel

set_option maxRecDepth 8000 in
theorem bs_canonD :
    normJson (canonSelD vxSchema (bsQuery bsSels) false (wsOp bsSels).sels bsJsonH) =
      .obj [("hero", .obj [("name", .str "x"), ("__typename", .str "Human"), ("height", .num "1.8"),
                           ("h2", .num "1.8"), ("buddy", .null)])] := by
  simp [canonSelD, canonEntriesD, canonFieldD, loneG, canonEntriesBD, canonVarD, onNamed, absEntries, absRest, hasStruct,
    isBSpread, isFieldSel, canonAbsV, canonEntriesV, canonFieldV, canonInlV, tagName, wsOp, bsQuery, bsSels, bsJsonH,
    vxSchema, objName, rtName, fieldKeys, fieldKey, Json.lookup, canon, canonNN, gtyOf, Json.isNull, skipQ,
    normJson, normKvs, normList, Json.normObj, Json.insert]

/-- `variantspread_roundtrip` on the module with spreads of fragments on the interface itself: the fragments' entries at
    the positions of their spreads, `__typename` and `height` (selected through `CI`'s inline fragment only here) written once.
    `variantspread_b_roundtrip` of `C01VariantSpread` (there by evaluation) is this instance. -/
theorem bs_roundtripH :
    Serde.roundtrip (moduleEnv (bsCtx bsSels) bsItems) (.path "ResponseData") bsJsonH =
      .ok (.obj [("hero", .obj [("name", .str "x"), ("__typename", .str "Human"), ("height", .num "1.8"),
                                ("h2", .num "1.8"), ("buddy", .null)])]) := by
  rw [variantspread_roundtrip (bsCtx bsSels) 0 (wsOp bsSels) bsItems rfl bs_class bs_gen bs_ok bs_rustD bsJsonH
    bs_conformsH]
  exact congrArg Except.ok bs_canonD

/-! ## part (a) again: the theorem of this file on the module `wsSels` of `C01VariantSpread` -/

theorem ws_rustD : spreadRustOkD (wsCtx wsSels) (wsOp wsSels) = true := by decide +kernel

set_option maxRecDepth 8000 in
/-- without spreads of fragments on the abstract type itself nothing is repeated: the same closed form as `ws_canonH` -/
theorem ws_canonD :
    normJson (canonSelD vxSchema (wsQuery wsSels) false (wsOp wsSels).sels wsJsonH) =
      .obj [("hero", .obj [("name", .str "x"), ("__typename", .str "Human"), ("h2", .num "1.8"), ("height", .num "1.8"),
                           ("buddy", .obj [("__typename", .str "Droid")])])] := by
  simp [canonSelD, canonEntriesD, canonFieldD, loneG, canonEntriesBD, canonVarD, onNamed, absEntries, absRest, hasStruct,
    isBSpread, isFieldSel, canonAbsV, canonEntriesV, canonFieldV, canonInlV, tagName, wsOp, wsQuery, wsSels, wsJsonH,
    vxSchema, objName, rtName, fieldKeys, fieldKey, Json.lookup, canon, canonNN, gtyOf, Json.isNull, skipQ,
    normJson, normKvs, normList, Json.normObj, Json.insert]

example :
    Serde.roundtrip (moduleEnv (wsCtx wsSels) wsItems) (.path "ResponseData") wsJsonH =
      .ok (.obj [("hero", .obj [("name", .str "x"), ("__typename", .str "Human"), ("h2", .num "1.8"),
                                ("height", .num "1.8"), ("buddy", .obj [("__typename", .str "Droid")])])]) := by
  rw [variantspread_roundtrip (wsCtx wsSels) 0 (wsOp wsSels) wsItems rfl ws_class ws_gen ws_ok ws_rustD wsJsonH
    ws_conformsH]
  exact congrArg Except.ok ws_canonD

/-! ## the new part of the side condition `spreadRustOkD` is needed -/

/-- `fragment on on Character { name __typename }`, `query Q { hero { __typename ...on } }` (case functions: identity):
    the member for the fragment and the flattened tagged enum are both called `on` -/
def onQuery (sels : List Sel) : Query :=
  { operations := [{ name := "Q", kind := .query, objectId := 0, sels := [.field none 0 sels] }]
    fragments := [{ name := "on", on := .interface 0, sels := [.field none 1 [], .typename] }] }

def onCtx (sels : List Sel) : Ctx := { s := vxSchema, q := onQuery sels, o := {}, cs := ⟨id, id⟩ }

def onSels : List Sel := [.typename, .spread 0]

/-- the operation is in the class, `spreadRustOk` (which does not look at the members for fragments on the abstract type
    itself) holds, `spreadRustOkD` does not … -/
example : VariantSpreadOp (onCtx onSels) (wsOp onSels) = true ∧ spreadRustOk (onCtx onSels) (wsOp onSels) = true ∧
    spreadRustOkD (onCtx onSels) (wsOp onSels) = false := by
  refine ⟨by decide +kernel, by decide +kernel, by decide +kernel⟩

/-- … and `variantspread_roundtrip` fails: the module is generated and `moduleOk`, the response conforms and is accepted, but
    the struct `Qhero { on: on, on: QheroOn }` (which does not compile as Rust) cannot be written back in the model — the
    value found under the name `on` for the second member is the first member's -/
theorem variantspread_b_rust_names_needed :
    isOkO (responseForQuery (onCtx onSels) 0) = true ∧
    moduleOk (onCtx onSels) (okOr (responseForQuery (onCtx onSels) 0)) = true ∧
    conformsOpS (onCtx onSels) (wsOp onSels) wsJsonN = true ∧
    okB (Serde.roundtrip (moduleEnv (onCtx onSels) (okOr (responseForQuery (onCtx onSels) 0))) (.path "ResponseData")
      wsJsonN) = false := by
  refine ⟨by decide +kernel, by decide +kernel, ?_, by decide +kernel⟩
  simp only [onSels, wsJsonN]
  simp [conformsOpS, onCtx, wsOp, onQuery, expandSels, expandSel, conformsV, confSelsV, confSelV, keysSelsV, keysSelV,
    fragApplies, rtName, vxSchema, Json.lookup, accepts, acceptsNN, gtyOf, scalarOk, floatOk, stringOk,
    Json.isNull, EnumSpec.nodup, List.range, List.range.loop, conformsAt]

/-! ## "no field key has two readers" (fourth part of `absOkS`) is needed

The emitted types do not merge fields (known finding `C01-overlap`), and neither does the specification `conformsOpS`: a
key selected twice with different sub-selections is read by the first reader only, whose type drops what the other
sub-selection asked for. -/

/-- `fragment CI on Character { __typename ... on Human { buddy { __typename } } }`,
    `fragment CJ on Character { __typename ... on Human { buddy { __typename ... on Droid { primaryFunction } } } }` -/
def mgQuery (sels : List Sel) : Query :=
  { operations := [{ name := "Q", kind := .query, objectId := 0, sels := [.field none 0 sels] }]
    fragments := [{ name := "CI", on := .interface 0,
                    sels := [.typename, .inline (.object 1) [.field none 5 [.typename]]] },
                  { name := "CJ", on := .interface 0,
                    sels := [.typename, .inline (.object 1) [.field none 5 [.typename,
                      .inline (.object 2) [.field none 3 []]]]] }] }

def mgCtx (sels : List Sel) : Ctx := { s := vxSchema, q := mgQuery sels, o := {}, cs := ⟨id, id⟩ }

/-- `hero { __typename ...CJ ...CI }` -/
def mgSels : List Sel := [.typename, .spread 1, .spread 0]

/-- `hero { __typename ...CJ ... on Human { buddy { __typename } } }` -/
def mgSelsI : List Sel := [.typename, .spread 1, .inline (.object 1) [.field none 5 [.typename]]]

/-- what a GraphQL server returns for a `Human` hero with a `Droid` buddy (the two selections of `buddy` merged) -/
def mgJson : Json :=
  .obj [("hero", .obj [("__typename", .str "Human"),
    ("buddy", .obj [("__typename", .str "Droid"), ("primaryFunction", .str "beep")])])]

/-- **two fragments on the abstract type itself that select the same key** (`buddy`, with different sub-selections): the
    class excludes the operation — only by its fourth condition (for `Human` the key `buddy` has two readers); the module
    is generated, `moduleOk`, `spreadRustOkD`; the server's (merged) payload is not even described by the specification
    without field merging; and the emitted types **lose data**: `primaryFunction` is gone after the round trip (both members
    read `buddy`, each with its own type; both write it, and `serde_json::to_value` keeps the last value — that of `CI`.
    With the spreads in the order `...CI ...CJ` the value of `CJ` is kept) -/
theorem variantspread_b_merge_loses_fields :
    VariantSpreadOp (mgCtx mgSels) (wsOp mgSels) = false ∧
    EnumSpec.nodup (bKeys vxSchema (mgQuery mgSels) (.interface 0) (.object 1) mgSels ++
      varKeys vxSchema (mgQuery mgSels) (.object 1) mgSels) = false ∧
    isOkO (responseForQuery (mgCtx mgSels) 0) = true ∧
    moduleOk (mgCtx mgSels) (okOr (responseForQuery (mgCtx mgSels) 0)) = true ∧
    spreadRustOkD (mgCtx mgSels) (wsOp mgSels) = true ∧
    conformsOpS (mgCtx mgSels) (wsOp mgSels) mgJson = false ∧
    (match Serde.roundtrip (moduleEnv (mgCtx mgSels) (okOr (responseForQuery (mgCtx mgSels) 0))) (.path "ResponseData")
        mgJson with
     | .ok (.obj [("hero", .obj [("__typename", .str "Human"), ("buddy", .obj [("__typename", .str "Droid")])])]) => true
     | _ => false) = true := by
  refine ⟨by decide +kernel, by decide +kernel, by decide +kernel, by decide +kernel, by decide +kernel, ?_,
    by decide +kernel⟩
  simp only [mgSels, mgJson]
  simp [conformsOpS, mgCtx, wsOp, mgQuery, expandSels, expandSel, conformsV, confSelsV, confSelV, keysSelsV, keysSelV,
    fragApplies, rtName, vxSchema, Json.lookup, accepts, acceptsNN, gtyOf, scalarOk, floatOk, stringOk,
    Json.isNull, EnumSpec.nodup, List.range, List.range.loop, conformsAt]

/-- **… and a fragment on the abstract type itself and an inline fragment that select the same key**: excluded by the
    same condition; the variant struct's own field `buddy` (without `primaryFunction`) is written last: the same loss -/
theorem variantspread_b_inline_merge_loses_fields :
    VariantSpreadOp (mgCtx mgSelsI) (wsOp mgSelsI) = false ∧
    EnumSpec.nodup (bKeys vxSchema (mgQuery mgSelsI) (.interface 0) (.object 1) mgSelsI ++
      varKeys vxSchema (mgQuery mgSelsI) (.object 1) mgSelsI) = false ∧
    isOkO (responseForQuery (mgCtx mgSelsI) 0) = true ∧
    moduleOk (mgCtx mgSelsI) (okOr (responseForQuery (mgCtx mgSelsI) 0)) = true ∧
    spreadRustOkD (mgCtx mgSelsI) (wsOp mgSelsI) = true ∧
    conformsOpS (mgCtx mgSelsI) (wsOp mgSelsI) mgJson = false ∧
    (match Serde.roundtrip (moduleEnv (mgCtx mgSelsI) (okOr (responseForQuery (mgCtx mgSelsI) 0))) (.path "ResponseData")
        mgJson with
     | .ok (.obj [("hero", .obj [("__typename", .str "Human"), ("buddy", .obj [("__typename", .str "Droid")])])]) => true
     | _ => false) = true := by
  refine ⟨by decide +kernel, by decide +kernel, by decide +kernel, by decide +kernel, by decide +kernel, ?_,
    by decide +kernel⟩
  simp only [mgSelsI, mgJson]
  simp [conformsOpS, mgCtx, wsOp, mgQuery, expandSels, expandSel, conformsV, confSelsV, confSelV, keysSelsV, keysSelV,
    fragApplies, rtName, vxSchema, Json.lookup, accepts, acceptsNN, gtyOf, scalarOk, floatOk, stringOk,
    Json.isNull, EnumSpec.nodup, List.range, List.range.loop, conformsAt]

/-! ## without spreads of fragments on the abstract type itself: the closed form of part C -/

theorem canonEntriesD_eq (s : Schema) (q : Query) (skip : Bool) (kvs : List (String × Json)) : ∀ (sels : List Sel),
    (∀ a fid sub, Sel.field a fid sub ∈ sels → ∀ v, canonFieldD s q skip (.field a fid sub) v =
      canonFieldS s q skip (.field a fid sub) v) →
    canonEntriesD s q skip sels kvs = canonEntriesS s q skip sels kvs
  | [], _ => by simp [canonEntriesD, canonEntriesS]
  | x :: xs, h => by
    have ih := canonEntriesD_eq s q skip kvs xs (fun a fid sub hm => h a fid sub (List.mem_cons_of_mem _ hm))
    cases x with
    | field a fid sub =>
      rw [canonEntriesD.eq_2, canonEntriesS.eq_2, ih]
      cases hsf : s.fields[fid]? with
      | none => rfl
      | some sf =>
        simp only []
        cases hl : Json.lookup (a.getD sf.name) kvs with
        | none => rfl
        | some v => simp only [h a fid sub (by simp) v]
    | spread g => simpa [canonEntriesD, canonEntriesS] using ih
    | inline t sub => simpa [canonEntriesD, canonEntriesS] using ih
    | typename => simpa [canonEntriesD, canonEntriesS] using ih

theorem canonEntriesBD_eq (s : Schema) (q : Query) (skip : Bool) (ty : TypeId) (rest kvs : List (String × Json)) :
    ∀ (sub : List Sel), noBAt q ty sub = true →
    (∀ a fid sub', Sel.field a fid sub' ∈ sub → ∀ v, canonFieldD s q skip (.field a fid sub') v =
      canonFieldS s q skip (.field a fid sub') v) →
    canonEntriesBD s q skip ty rest sub kvs = canonEntriesS s q skip sub kvs
  | [], _, _ => by simp [canonEntriesBD, canonEntriesS]
  | x :: xs, hnb, h => by
    simp only [noBAt, List.any_cons, Bool.not_or, Bool.and_eq_true, Bool.not_eq_true'] at hnb
    have ih := canonEntriesBD_eq s q skip ty rest kvs xs (by simp [noBAt, hnb.2])
      (fun a fid sub hm => h a fid sub (List.mem_cons_of_mem _ hm))
    cases x with
    | field a fid sub =>
      rw [canonEntriesBD.eq_2, canonEntriesS.eq_2, ih]
      cases hsf : s.fields[fid]? with
      | none => rfl
      | some sf =>
        simp only []
        cases hl : Json.lookup (a.getD sf.name) kvs with
        | none => rfl
        | some v => simp only [h a fid sub (by simp) v]
    | spread g =>
      have h1 := hnb.1
      rw [canonEntriesBD.eq_3, ih]
      cases hf : q.fragments[g]? with
      | none => simp [canonEntriesS]
      | some f =>
        simp only [isBSpread, hf] at h1
        simp [h1, canonEntriesS]
    | inline t sub => simpa [canonEntriesBD, canonEntriesS] using ih
    | typename => simpa [canonEntriesBD, canonEntriesS] using ih

theorem canonVarD_eq_S (s : Schema) (q : Query) (skip : Bool) (n : String) (kvs : List (String × Json)) :
    ∀ (sub : List Sel),
    (∀ t isub, Sel.inline t isub ∈ sub → canonEntriesD s q skip isub kvs = canonEntriesS s q skip isub kvs) →
    (∀ g f, Sel.spread g ∈ sub → q.fragments[g]? = some f → ∃ i, f.on = .object i) →
    canonVarD s q skip n sub kvs = canonVarS s q skip n sub kvs
  | [], _, _ => rfl
  | x :: xs, hi, hs => by
    have ih := canonVarD_eq_S s q skip n kvs xs (fun t isub hm => hi t isub (List.mem_cons_of_mem _ hm))
      (fun g f hm => hs g f (List.mem_cons_of_mem _ hm))
    cases x with
    | inline t isub => rw [canonVarD, canonVarS, ih, hi t isub (by simp)]
    | spread g =>
      rw [canonVarD, canonVarS, ih]
      cases hf : q.fragments[g]? with
      | none => rfl
      | some f =>
        obtain ⟨i, hon⟩ := hs g f (by simp) hf
        simp [onNamed, hon]
    | field a fid sub => simpa [canonVarD, canonVarS] using ih
    | typename => simpa [canonVarD, canonVarS] using ih

section NoB
variable (s : Schema) (q : Query) (o : Options) (skip : Bool)

theorem canonAbs_noB (ty : TypeId) (sub : List Sel) (hty : absHyp s ty) (hok : absOkS s q o ty sub = true)
    (hnb : noBAt q ty sub = true)
    (hF : ∀ a fid sub', Sel.field a fid sub' ∈ sub → ∀ v, canonFieldD s q skip (.field a fid sub') v =
      canonFieldS s q skip (.field a fid sub') v)
    (hI : ∀ t isub, Sel.inline t isub ∈ sub → ∀ kvs, canonEntriesD s q skip isub kvs = canonEntriesS s q skip isub kvs) :
    canonAbsD s q skip ty sub = canonAbsS s q skip sub := by
  funext j
  cases j with
  | obj kvs =>
    simp only [canonAbsD, canonAbsS]
    rw [canonEntriesBD_eq s q skip ty _ kvs sub hnb hF,
      canonVarD_eq_S s q skip _ kvs sub (fun t isub hm => hI t isub hm kvs) (fun g f hg hf => by
        obtain ⟨vt, f', hvt, _, hf', hon, _⟩ := spread_onA hty hok hnb g hg
        rw [hf] at hf'; cases hf'
        obtain ⟨hok1, _, _⟩ := absOkS_parts hok
        obtain ⟨_, _, hobj, _⟩ := absOk2_parts hok1
        obtain ⟨i, rfl, _⟩ := hobj vt hvt
        exact ⟨i, hon⟩)]
  | null => rfl
  | bool _ => rfl
  | int _ => rfl
  | num _ => rfl
  | str _ => rfl
  | arr _ => rfl

mutual
  theorem canonD_noB_sel : ∀ (x : Sel) (abs : Bool), sSel s q o abs x = true → noBSel s q x = true →
      (∀ v, canonFieldD s q skip x v = canonFieldS s q skip x v) ∧
      (∀ t isub, x = .inline t isub → ∀ kvs, canonEntriesD s q skip isub kvs = canonEntriesS s q skip isub kvs)
    | .field a fid sub, abs => by
      intro ht hnbx
      refine ⟨?_, fun t isub h => by cases h⟩
      intro v
      have IH := canonD_noB_sels sub
      rw [sSel] at ht
      rw [noBSel, Bool.and_eq_true] at hnbx
      rw [canonFieldD, canonFieldS]
      cases hsf : s.fields[fid]? with
      | none => rfl
      | some sf =>
        simp only [hsf, Bool.and_eq_true] at ht hnbx ⊢
        obtain ⟨_, hty⟩ := ht
        cases hid : sf.ty.id with
        | scalar k => rfl
        | «enum» k => rfl
        | input k => rfl
        | object i =>
          simp only [hid, Bool.and_eq_true] at hty ⊢
          obtain ⟨hF, _⟩ := IH false hty.1.2 hnbx.2
          rw [canonLambdaD, canonLambdaS]
          congr 1
          funext j
          cases j with
          | obj kvs => simp only [canonSelD, canonSelS, canonEntriesD_eq s q skip kvs sub hF]
          | null => rfl
          | bool _ => rfl
          | int _ => rfl
          | num _ => rfl
          | str _ => rfl
          | arr _ => rfl
        | interface k =>
          simp only [hid, Bool.and_eq_true] at hty ⊢
          obtain ⟨hF, hI⟩ := IH true hty.1.2 hnbx.2
          have hlg : loneG sub = none ∧ absOkS s q o (.interface k) sub = true := by
            rcases absOkL_cases hty.2 with ⟨hok, hlg⟩ | ⟨g, rfl, hokB⟩
            · exact ⟨hlg, hok⟩
            · have := noBAt_lone_false hokB
              simp [hid, TypeId.isAbstract, this] at hnbx
          obtain ⟨hlg, hok⟩ := hlg
          simp only [hlg]
          rw [canonLambdaAbsD, canonLambdaAbsS,
            canonAbs_noB s q o skip (.interface k) sub hty.1.1 hok (by simpa [hid, TypeId.isAbstract] using hnbx.1) hF hI]
        | union k =>
          simp only [hid, Bool.and_eq_true] at hty ⊢
          obtain ⟨hF, hI⟩ := IH true hty.1.2 hnbx.2
          have hlg : loneG sub = none ∧ absOkS s q o (.union k) sub = true := by
            rcases absOkL_cases hty.2 with ⟨hok, hlg⟩ | ⟨g, rfl, hokB⟩
            · exact ⟨hlg, hok⟩
            · have := noBAt_lone_false hokB
              simp [hid, TypeId.isAbstract, this] at hnbx
          obtain ⟨hlg, hok⟩ := hlg
          simp only [hlg]
          rw [canonLambdaAbsD, canonLambdaAbsS,
            canonAbs_noB s q o skip (.union k) sub hty.1.1 hok (by simpa [hid, TypeId.isAbstract] using hnbx.1) hF hI]
    | .spread g, _ => by
      intro _ _
      exact ⟨fun v => by simp [canonFieldD, canonFieldS], fun t isub h => by cases h⟩
    | .inline t isub, abs => by
      intro ht hnbx
      simp only [sSel, Bool.and_eq_true] at ht
      rw [noBSel] at hnbx
      refine ⟨fun v => by simp [canonFieldD, canonFieldS], ?_⟩
      intro t' isub' h kvs
      cases h
      exact canonEntriesD_eq s q skip kvs isub (canonD_noB_sels isub false ht.1.2 hnbx).1
    | .typename, _ => by
      intro _ _
      exact ⟨fun v => by simp [canonFieldD, canonFieldS], fun t isub h => by cases h⟩
  theorem canonD_noB_sels : ∀ (sels : List Sel) (abs : Bool), sSels s q o abs sels = true → noBSels s q sels = true →
      (∀ a fid sub, Sel.field a fid sub ∈ sels → ∀ v, canonFieldD s q skip (.field a fid sub) v =
        canonFieldS s q skip (.field a fid sub) v) ∧
      (∀ t isub, Sel.inline t isub ∈ sels → ∀ kvs, canonEntriesD s q skip isub kvs = canonEntriesS s q skip isub kvs)
    | [], _ => by intro _ _; exact ⟨fun _ _ _ h => by simp at h, fun _ _ h => by simp at h⟩
    | x :: xs, abs => by
      intro ht hnbs
      obtain ⟨hx, hxs⟩ := sSels_cons ht
      rw [noBSels, Bool.and_eq_true] at hnbs
      obtain ⟨h1, h2⟩ := canonD_noB_sel x abs hx hnbs.1
      obtain ⟨i1, i2⟩ := canonD_noB_sels xs abs hxs hnbs.2
      constructor
      · intro a fid sub hm v
        rcases List.mem_cons.mp hm with heq | hm'
        · rw [heq]; exact h1 v
        · exact i1 a fid sub hm' v
      · intro t isub hm kvs
        rcases List.mem_cons.mp hm with heq | hm'
        · exact h2 t isub heq.symm kvs
        · exact i2 t isub hm' kvs
end

end NoB

/-- without spreads of fragments on the abstract type itself, `canonSelD` is the closed form `canonSelS` of part C -/
theorem canonSelD_noB (c : Ctx) (op : ROperation) (ht : VariantSpreadOp c op = true) (hnb : noBSpreads c op = true)
    (j : Json) : canonSelD c.s c.q c.o.skipNone op.sels j = canonSelS c.s c.q c.o.skipNone op.sels j := by
  obtain ⟨_, _, hsels, _⟩ := variantSpreadOp_parts ht
  cases j with
  | obj kvs =>
    simp only [canonSelD, canonSelS,
      canonEntriesD_eq c.s c.q c.o.skipNone kvs op.sels (canonD_noB_sels c.s c.q c.o c.o.skipNone op.sels false hsels hnb).1]
  | null => rfl
  | bool _ => rfl
  | int _ => rfl
  | num _ => rfl
  | str _ => rfl
  | arr _ => rfl

/-- … which `serde_json::to_value` leaves alone: for part (a) the theorem of this file gives the closed form of
    `variantspread_roundtrip_partial` -/
theorem variantspread_roundtrip_noB (c : Ctx) (opIdx : Nat) (op : ROperation) (items : List Item)
    (hop : c.q.operations[opIdx]? = some op) (ht : VariantSpreadOp c op = true) (hnb : noBSpreads c op = true)
    (hgen : responseForQuery c opIdx = .ok items) (hok : moduleOk c items = true)
    (hr : spreadRustOkD c op = true) (j : Json) (hc : conformsOpS c op j = true) :
    Serde.roundtrip (moduleEnv c items) (.path "ResponseData") j = .ok (canonSelS c.s c.q c.o.skipNone op.sels j) := by
  obtain ⟨_, _, hsels, hkeys⟩ := variantSpreadOp_parts ht
  rw [variantspread_roundtrip c opIdx op items hop ht hgen hok hr j hc, canonSelD_noB c op ht hnb j,
    norm_canonSelS c.s c.q c.o c.o.skipNone _ op.sels j hsels hnb hkeys hc]

end E2E
end C01
end GqlVerif
