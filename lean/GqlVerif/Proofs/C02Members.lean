import GqlVerif.Proofs.C02Response
import GqlVerif.Proofs.ComposedC11
/-!
# C02 — the member identifiers of the response items, computed from the selection tree

`Proofs/C02Response.lean` characterises `Scope.wellScoped` on the emitted module as `NoClash` (a decidable
predicate on schema + query) **and** "no emitted item has two members of one identifier" — the latter still
stated on the OUTPUT.  This file reduces it to the input for the `calc*` block (`Model/Codegen.lean`):

* `selectionMembers c ty sels` — the list of member-identifier lists (one entry per emitted item, in emission
  order) of the items `calcSelection c _ name pfx ty sels` emits, computed from the schema, the resolved
  selection tree, the options and the case functions only (it does not depend on `name` / `pfx`);
* `calc_members` — for every fuel, name, prefix, type and selection list for which `calcSelection` succeeds,
  `items.map C02.memberIdents = selectionMembers c ty sels` (list equality: same order, same multiplicity; no
  hypothesis).  Four-way induction over the mutual `calc*` block, as `C02.calc_names`.

Per selection set the entry is: `keywordReplace (snake (alias-or-name))` of every kept (not denied) field
selection and `keywordReplace (snake F)` of every spread of a fragment on the same type, in order, followed by
`on` when the type has both members and variants; the entry of the variant enum is the type names of the possible
types (plus `Unknown` under `fragments_other_variant`); per variant struct: the members of every inline fragment
on the variant (all of them contribute), `snake F` (not keyword-escaped) of every spread of a fragment on the
variant, then `snake F` of every inline fragment that is a lone spread.

The module-level statement (`MembersOK`, `members_iff`) is in `Proofs/C02MembersModule.lean`.
-/
namespace GqlVerif
namespace C02M
open Codegen C02

/-! ## 1. the member lists, computed from the selection tree -/

/-- is the field selection kept (`deny` omits deprecated fields)? -/
def kept (c : Ctx) (sf : StoredField) : Bool := !(sf.deprecation.isSome && c.o.deprecation == .deny)

/-- the member a selection contributes to the struct of type `ty` (field loop of `calculate_selection`) -/
def selIdent (c : Ctx) (ty : TypeId) : Sel → List String
  | .field a fid _ =>
    match c.s.fields[fid]? with
    | some sf => if kept c sf then [keywordReplace (c.cs.snake (a.getD sf.name))] else []
    | none => []
  | .spread g =>
    match c.q.fragments[g]? with
    | some fr => if fr.on == ty then [keywordReplace (c.cs.snake fr.name)] else []
    | none => []
  | _ => []

/-- Rust identifiers of the members the field loop emits for the struct of type `ty`, in order -/
def fieldIdents (c : Ctx) (ty : TypeId) (sels : List Sel) : List String := sels.flatMap (selIdent c ty)

/-- identifiers of the variants of the tagged enum emitted for an abstract type (`[]` for a concrete type) -/
def variantIdents (c : Ctx) (ty : TypeId) : List String :=
  match variantsOf c.s ty with
  | .ok (some vts) => vts.map (tnOf c) ++ (if c.o.otherVariant then ["Unknown"] else [])
  | _ => []

/-- the member lists of the items `renderType` emits: the variant enum alone, the struct alone, or the struct
    with the flattened `on` member followed by the variant enum -/
def headMembers (fs vs : List String) : List (List String) :=
  if fs.isEmpty && !vs.isEmpty then [vs]
  else if vs.isEmpty then [fs]
  else [fs ++ ["on"], vs]

/-- `VariantSelection::from_selection`, total (the fragment lookup cannot fail when generation succeeds) -/
def toVsel (c : Ctx) (ty : TypeId) : Sel → Option VariantSel
  | .inline t sub => some (.inline t sub)
  | .spread g =>
    match c.q.fragments[g]? with
    | some fr => if fr.on == ty then none else some (.spread g fr)
    | none => none
  | _ => none

/-- the selections of a selection set on the abstract type `ty` that are attached to the variant `vt` -/
def mineOf (c : Ctx) (ty vt : TypeId) (sels : List Sel) : List VariantSel :=
  (sels.filterMap (toVsel c ty)).filter (fun v => v.typeId == vt)

def loneSpread? : List Sel → Option Nat
  | [.spread g] => some g
  | _ => none

def isSingleSpread : List VariantSel → Bool
  | [.spread _ _] => true
  | _ => false

/-- members a selection on the variant `vt` contributes to the variant struct directly -/
def vselF (c : Ctx) (vt : TypeId) : VariantSel → List String
  | .inline _ sub => if isLoneSpread sub then [] else fieldIdents c vt sub
  | .spread _ fr => [c.cs.snake fr.name]

def vselFs (c : Ctx) (vt : TypeId) (mine : List VariantSel) : List String := mine.flatMap (vselF c vt)

/-- the aliased fragments (`... on T { ...F }`): fragment name and boxing, in order -/
def vselA (c : Ctx) : VariantSel → List (String × Bool)
  | .inline _ sub =>
    match loneSpread? sub with
    | some g =>
      (match c.q.fragments[g]? with
       | some fr => [(fr.name, fragmentIsRecursive c.q g)]
       | none => [])
    | none => []
  | .spread _ _ => []

def vselAl (c : Ctx) (mine : List VariantSel) : List (String × Bool) := mine.flatMap (vselA c)

/-- the member list of the item emitted under the variant's struct name: nothing for a type alias (a single
    spread, or nothing but one aliased fragment — (P41) "nothing but": no field was *pushed* for the struct,
    `pushedAny`, the generator's `has_fields`; a field pushed and then omitted under `deny` still makes it a struct),
    otherwise the members of all selections on the variant followed by one flattened member per aliased fragment -/
def stepHead (c : Ctx) (vt : TypeId) (mine : List VariantSel) : List String :=
  if isSingleSpread mine then []
  else if !pushedAny c.q vt mine && (vselAl c mine).length == 1 then []
  else vselFs c vt mine ++ (vselAl c mine).map (fun p => c.cs.snake p.1)

mutual
  /-- member lists of the items the field loop emits for one selection -/
  def selMembers (c : Ctx) : Sel → List (List String)
    | .field _ fid sub =>
      match c.s.fields[fid]? with
      | none => []
      | some sf =>
        match sf.ty.id with
        | .enum _ => []
        | .scalar _ => []
        | .input _ => []
        | t =>
          if isLoneSpread sub then [[]] else
          headMembers (fieldIdents c t sub) (variantIdents c t) ++
          (vtsOf c t).flatMap (fun vt =>
            if (mineOf c t vt sub).isEmpty then [] else stepHead c vt (mineOf c t vt sub) :: inlsMembers c vt sub) ++
          selsMembers c sub
    | _ => []
  def selsMembers (c : Ctx) : List Sel → List (List String)
    | [] => []
    | x :: xs => selMembers c x ++ selsMembers c xs
  /-- member lists of the nested items emitted for an inline fragment on the variant `vt` -/
  def inlMembers (c : Ctx) (vt : TypeId) : Sel → List (List String)
    | .inline t sub =>
      if t == vt then (if isLoneSpread sub then [] else selsMembers c sub) else []
    | _ => []
  def inlsMembers (c : Ctx) (vt : TypeId) : List Sel → List (List String)
    | [] => []
    | x :: xs => inlMembers c vt x ++ inlsMembers c vt xs
end

/-- **member lists of the items `calcSelection c _ name pfx ty sels` emits**, computed from the selection tree
    (one entry per item, in emission order; independent of `name` and `pfx`) -/
def selectionMembers (c : Ctx) (ty : TypeId) (sels : List Sel) : List (List String) :=
  if isLoneSpread sels then [[]] else
  headMembers (fieldIdents c ty sels) (variantIdents c ty) ++
  (vtsOf c ty).flatMap (fun vt =>
    if (mineOf c ty vt sels).isEmpty then [] else stepHead c vt (mineOf c ty vt sels) :: inlsMembers c vt sels) ++
  selsMembers c sels

/-- member lists of the nested items of one selection on a variant -/
def vselMembers (c : Ctx) : VariantSel → List (List String)
  | .inline _ sub => if isLoneSpread sub then [] else selsMembers c sub
  | .spread _ _ => []

def vselsMembers (c : Ctx) (mine : List VariantSel) : List (List String) := mine.flatMap (vselMembers c)

/-- member lists of the items the per-variant loop emits -/
def variantsMembers (c : Ctx) (vsels : List VariantSel) (vts : List TypeId) : List (List String) :=
  vts.flatMap (fun vt =>
    if (vsels.filter (fun v => v.typeId == vt)).isEmpty then []
    else stepHead c vt (vsels.filter (fun v => v.typeId == vt)) ::
      vselsMembers c (vsels.filter (fun v => v.typeId == vt)))

/-! ## 2. auxiliary facts -/

theorem memberIdents_aliasItem (n t : String) (b : Bool) : memberIdents (aliasItem n t b) = [] := rfl

theorem members_renderType (c : Ctx) (name : String) (fs : List RField) (vs : List RVariant) :
    (renderType c name fs vs).map memberIdents = headMembers (fs.map (·.rust)) (vs.map (·.name)) := by
  unfold renderType headMembers
  cases fs <;> cases vs <;> simp [memberIdents]

theorem headMembers_nil_right (fs : List String) : headMembers fs [] = [fs] := by
  unfold headMembers
  cases fs <;> simp

/-- the Rust identifier `renderField` gives the member, when it emits one -/
theorem renderField_rust {c : Ctx} {g : Option String} {r ft : String} {quals : List Qual} {fl bx : Bool}
    {dep : Option (Option String)} {o : Option RField}
    (h : renderField c g r ft quals fl bx dep = .ok o) :
    o.toList.map (·.rust) = if !(dep.isSome && c.o.deprecation == .deny) then [r] else [] := by
  rcases Composed.renderField_ok h with ⟨rfl, h1, h2⟩ | ⟨f, rfl, hn, hr, _, _⟩
  · simp [h1, h2]
  · have : (!(dep.isSome && c.o.deprecation == .deny)) = true := by
      cases h1 : dep.isSome
      · rfl
      · by_cases h2 : c.o.deprecation = .deny
        · exact absurd ⟨h1, h2⟩ hn
        · simp [h2]
    rw [this]
    simp [hr]

theorem renderField_rust_nodep {c : Ctx} {g : Option String} {r ft : String} {quals : List Qual} {fl bx : Bool}
    {o : Option RField} (h : renderField c g r ft quals fl bx none = .ok o) :
    o.toList.map (·.rust) = [r] := by
  rw [renderField_rust h]; rfl

theorem loneSpread?_none {sub : List Sel} (h : ∀ g, sub ≠ [Sel.spread g]) : loneSpread? sub = none := by
  unfold loneSpread?
  split
  · rename_i g; exact absurd rfl (h g)
  · rfl

/-- the variant selections `calcSelection` computes are `toVsel` of the selections -/
theorem vsels_eq {c : Ctx} {ty : TypeId} : ∀ {sels : List Sel} {vsels : List VariantSel},
    sels.filterMapM (variantSelOf c.q ty) = .ok vsels → vsels = sels.filterMap (toVsel c ty)
  | [], vsels, h => by
    simp only [List.filterMapM_nil, pure, Except.pure, Except.ok.injEq] at h
    subst h; rfl
  | x :: xs, vsels, h => by
    rw [List.filterMapM_cons] at h
    obtain ⟨o, ho, h⟩ := bind_ok h
    have hx : toVsel c ty x = o := by
      cases x with
      | inline t sub =>
        simp only [variantSelOf, pure, Except.pure, Except.ok.injEq] at ho
        rw [← ho]; rfl
      | spread g =>
        simp only [variantSelOf] at ho
        obtain ⟨fr, hfr, ho⟩ := bind_ok ho
        simp only [pure, Except.pure, Except.ok.injEq] at ho
        rw [← ho]
        simp only [toVsel, getFragment_ok hfr]
      | field a b c' =>
        simp only [variantSelOf, pure, Except.pure, Except.ok.injEq] at ho
        rw [← ho]; rfl
      | typename =>
        simp only [variantSelOf, pure, Except.pure, Except.ok.injEq] at ho
        rw [← ho]; rfl
    cases o with
    | none =>
      simp only [] at h
      rw [List.filterMap_cons, hx]
      exact vsels_eq h
    | some v =>
      simp only [] at h
      obtain ⟨r, hr, h⟩ := bind_ok h
      simp only [pure, Except.pure, Except.ok.injEq] at h
      subst h
      rw [List.filterMap_cons, hx, vsels_eq hr]

/-- the nested member lists of the selections attached to a variant, seen from the selection set -/
theorem vselsMembers_mineOf (c : Ctx) (ty vt : TypeId) : ∀ sels : List Sel,
    vselsMembers c (mineOf c ty vt sels) = inlsMembers c vt sels
  | [] => by simp [vselsMembers, mineOf, inlsMembers]
  | x :: xs => by
    have ih := vselsMembers_mineOf c ty vt xs
    unfold mineOf vselsMembers at ih ⊢
    rw [inlsMembers.eq_2, List.filterMap_cons]
    cases x with
    | inline t sub =>
      simp only [toVsel]
      rw [filter_typeId_inline, inlMembers.eq_1]
      cases htv : (t == vt)
      · simpa using ih
      · simp only [if_true, List.flatMap_cons, vselMembers, ih]
    | spread g =>
      rw [inlMembers.eq_2 _ _ _ (by simp)]
      simp only [toVsel]
      cases hfr : c.q.fragments[g]? with
      | none => simpa using ih
      | some fr =>
        simp only []
        cases hon : (fr.on == ty)
        · simp only [Bool.false_eq_true, if_false]
          rw [filter_typeId_spread]
          cases (fr.on == vt)
          · simpa using ih
          · simpa [List.flatMap_cons, vselMembers] using ih
        · simpa using ih
    | field a b c' =>
      rw [inlMembers.eq_2 _ _ _ (by simp)]
      simpa [toVsel] using ih
    | typename =>
      rw [inlMembers.eq_2 _ _ _ (by simp)]
      simpa [toVsel] using ih

theorem selMembers_composite {c : Ctx} {a : Option String} {fid : Nat} {sub : List Sel}
    {sf : StoredField} (hsf : c.s.fields[fid]? = some sf)
    (h1 : ∀ e, sf.ty.id ≠ .enum e) (h2 : ∀ k, sf.ty.id ≠ .scalar k) (h3 : ∀ i, sf.ty.id ≠ .input i) :
    selMembers c (.field a fid sub) = selectionMembers c sf.ty.id sub := by
  rw [selMembers.eq_1]
  simp only [hsf]
  rfl

/-- the aliased fragments rendered as flattened members: `snake F` each -/
theorem aliasMembers_rust {c : Ctx} {sname : String} : ∀ {specs : List (String × Bool)} {extra : List (List RField)},
    (specs.map (fun p => aliasItem sname p.1 p.2)).mapM (aliasMember c) = .ok extra →
    extra.flatten.map (·.rust) = specs.map (fun p => c.cs.snake p.1)
  | [], extra, h => by
    simp only [List.map_nil, List.mapM_nil, pure, Except.pure, Except.ok.injEq] at h
    subst h; rfl
  | p :: ps, extra, h => by
    rw [List.map_cons, List.mapM_cons] at h
    obtain ⟨fs, hfs, h⟩ := bind_ok h
    obtain ⟨rest, hrest, h⟩ := bind_ok h
    simp only [pure, Except.pure, Except.ok.injEq] at h
    subst h
    rw [aliasMember_aliasItem] at hfs
    obtain ⟨fld, hfld, hfs⟩ := bind_ok hfs
    simp only [pure, Except.pure, Except.ok.injEq] at hfs
    subst hfs
    rw [List.flatten_cons, List.map_append, renderField_rust_nodep hfld, aliasMembers_rust hrest]
    rfl

/-! ## 3. one step of the per-variant loop, with the two alias cases separated -/

/-- what one iteration of the per-variant loop contributes (`C02.VariantStep`, with the lone-spread case
    excluded from the general one) -/
def VariantStep' (c : Ctx) (f : Nat) (pfx : String) (vt : TypeId) (mine : List VariantSel) (vname : String)
    (thisV : RVariant) (thisItems : List Item) : Prop :=
  let sname := pfx ++ "On" ++ vname
  thisV.name = vname ∧
  ((mine = [] ∧ thisItems = []) ∨
   (mine ≠ [] ∧
    ((∃ fid fr, mine = [.spread fid fr] ∧ thisItems = [aliasItem sname fr.name (fragmentIsRecursive c.q fid)]) ∨
     ((∀ fid fr, mine ≠ [.spread fid fr]) ∧ ∃ r, calcVariantSels c f sname pfx vt mine = .ok r ∧
        ((∃ a, pushedAny c.q vt mine = false ∧ r.2.2 = [a] ∧ thisItems = a :: r.2.1) ∨
         ((∀ a, pushedAny c.q vt mine = false → r.2.2 = [a] → False) ∧ ∃ extra, r.2.2.mapM (aliasMember c) = .ok extra ∧
            thisItems = renderType c sname (r.1 ++ extra.flatten) [] ++ r.2.1))))))

theorem calcVariants_ok' {c : Ctx} {f : Nat} {name pfx : String} {vsels : List VariantSel} {vt : TypeId}
    {rest : List TypeId} {vs : List RVariant} {items : List Item}
    (h : calcVariants c (f + 1) name pfx vsels (vt :: rest) = .ok (vs, items)) :
    ∃ vname thisV thisItems vs' items', c.s.typeName vt = .ok vname ∧
      calcVariants c f name pfx vsels rest = .ok (vs', items') ∧ vs = thisV :: vs' ∧ items = thisItems ++ items' ∧
      VariantStep' c f pfx vt (vsels.filter (fun v => v.typeId == vt)) vname thisV thisItems := by
  rw [calcVariants.eq_3] at h
  obtain ⟨vname, hvn, h⟩ := bind_ok h
  simp only [] at h
  have fin : ∀ {thisV : RVariant} {thisItems : List Item},
      (do let x ← calcVariants c f name pfx vsels rest
          (pure (thisV :: x.fst, thisItems ++ x.snd) : Outcome _)) = .ok (vs, items) →
      ∃ vs' items', calcVariants c f name pfx vsels rest = .ok (vs', items') ∧ vs = thisV :: vs' ∧
        items = thisItems ++ items' := by
    intro thisV thisItems h
    obtain ⟨⟨vs', items'⟩, hr, h⟩ := bind_ok h
    simp only [pure, Except.pure, Except.ok.injEq, Prod.mk.injEq] at h
    exact ⟨vs', items', hr, h.1.symm, h.2.symm⟩
  split at h
  · rename_i hm
    simp only [pure_bind] at h
    obtain ⟨vs', items', hr, h1, h2⟩ := fin h
    exact ⟨vname, _, _, vs', items', hvn, hr, h1, h2, rfl, .inl ⟨hm, rfl⟩⟩
  · rename_i first tl hm
    split at h
    · rename_i fid fr hs
      simp only [pure_bind] at h
      obtain ⟨vs', items', hr, h1, h2⟩ := fin h
      refine ⟨vname, _, _, vs', items', hvn, hr, h1, h2, rfl, .inr ⟨by simp [hm], .inl ⟨fid, fr, ?_, rfl⟩⟩⟩
      split at hs
      · rename_i fid' fr' hm'
        simp only [Option.some.injEq, Prod.mk.injEq] at hs
        rw [← hs.1, ← hs.2]; exact hm'
      · cases hs
    · rename_i hs
      have hns : ∀ fid fr, vsels.filter (fun v => v.typeId == vt) ≠ [.spread fid fr] := by
        intro fid fr he
        rw [he] at hs
        cases hs
      obtain ⟨r, hr0, h⟩ := bind_ok h
      split at h
      · rename_i a hfs hal
        simp only [pure_bind] at h
        obtain ⟨vs', items', hr, h1, h2⟩ := fin h
        exact ⟨vname, _, _, vs', items', hvn, hr, h1, h2, rfl,
          .inr ⟨by simp [hm], .inr ⟨hns, r, hr0, .inl ⟨a, hfs, hal, rfl⟩⟩⟩⟩
      · rename_i hal
        obtain ⟨extra, hex, h⟩ := bind_ok h
        simp only [pure_bind] at h
        obtain ⟨vs', items', hr, h1, h2⟩ := fin h
        exact ⟨vname, _, _, vs', items', hvn, hr, h1, h2, rfl,
          .inr ⟨by simp [hm], .inr ⟨hns, r, hr0, .inr ⟨hal, extra, hex, rfl⟩⟩⟩⟩

theorem isSingleSpread_false {mine : List VariantSel} (h : ∀ fid fr, mine ≠ [.spread fid fr]) :
    isSingleSpread mine = false := by
  unfold isSingleSpread
  split
  · rename_i fid fr; exact absurd rfl (h fid fr)
  · rfl

/-! ## 4. the four-way induction -/

section Members
variable (c : Ctx)

def MStmt1 (fuel : Nat) : Prop := ∀ name pfx ty sels items,
  calcSelection c fuel name pfx ty sels = .ok items → items.map memberIdents = selectionMembers c ty sels
def MStmt2 (fuel : Nat) : Prop := ∀ name pfx vsels vts vs items,
  calcVariants c fuel name pfx vsels vts = .ok (vs, items) →
  items.map memberIdents = variantsMembers c vsels vts ∧ vs.map (·.name) = vts.map (tnOf c)
def MStmt3 (fuel : Nat) : Prop := ∀ sname pfx vt mine fs items al,
  calcVariantSels c fuel sname pfx vt mine = .ok (fs, items, al) →
  fs.map (·.rust) = vselFs c vt mine ∧ items.map memberIdents = vselsMembers c mine ∧
  al = (vselAl c mine).map (fun p => aliasItem sname p.1 p.2)
def MStmt4 (fuel : Nat) : Prop := ∀ pfx ty sels fs items,
  calcFields c fuel pfx ty sels = .ok (fs, items) →
  fs.map (·.rust) = fieldIdents c ty sels ∧ items.map memberIdents = selsMembers c sels

variable {c}

theorem mstep4 (f : Nat) (H1 : MStmt1 c f) (H4 : MStmt4 c f) : MStmt4 c (f + 1) := by
  intro pfx ty sels fs items h
  cases sels with
  | nil =>
    rw [calcFields.eq_2 _ _ _ _ (by omega)] at h
    simp only [pure, Except.pure, Except.ok.injEq, Prod.mk.injEq] at h
    obtain ⟨rfl, rfl⟩ := h
    simp [selsMembers, fieldIdents]
  | cons x rest =>
    rw [selsMembers.eq_2]
    unfold fieldIdents
    rw [List.flatMap_cons]
    cases x with
    | field a fid sub =>
      obtain ⟨sf, fld, its, fs', items', hsf, hr, rfl, rfl, hstep⟩ := calcFields_field_ok h
      have ⟨ih1, ih2⟩ := H4 pfx ty rest fs' items' hr
      unfold fieldIdents at ih1
      rw [List.map_append, List.map_append, ih1, ih2]
      have hsel : ∀ {ft : String} {o : Option RField},
          renderField c (some (a.getD sf.name)) (keywordReplace (c.cs.snake (a.getD sf.name))) ft sf.ty.quals false false
            sf.deprecation = .ok o → o.toList.map (·.rust) = selIdent c ty (.field a fid sub) := by
        intro ft o ho
        rw [renderField_rust ho]
        simp only [selIdent, hsf, kept]
        rfl
      rcases hstep with ⟨e, en, he, _, rfl, hfld⟩ | ⟨k, sn, hk, _, rfl, hfld⟩ | ⟨h1, h2, h3, hfld, hits⟩
      · rw [hsel hfld, selMembers.eq_1]
        simp [hsf, he]
      · rw [hsel hfld, selMembers.eq_1]
        simp [hsf, hk]
      · rw [hsel hfld, selMembers_composite hsf h1 h2 h3, H1 _ _ _ _ _ hits]
        exact ⟨rfl, rfl⟩
    | spread g =>
      obtain ⟨fr, fs', hfr, hr, hfs⟩ := calcFields_spread_ok h
      have ⟨ih1, ih2⟩ := H4 pfx ty rest fs' items hr
      unfold fieldIdents at ih1
      rw [ih2, selMembers.eq_2 _ _ (by simp)]
      refine ⟨?_, by simp⟩
      rcases hfs with ⟨hc, rfl⟩ | ⟨hc, fld, hfld, rfl⟩
      · have : (fr.on == ty) = false := by simpa using hc
        rw [ih1]
        simp [selIdent, hfr, this]
      · have : (fr.on == ty) = true := by simpa using hc
        rw [List.map_append, renderField_rust_nodep hfld, ih1]
        simp [selIdent, hfr, this]
    | inline t sub =>
      rw [calcFields.eq_5 _ _ _ _ _ _ (by simp) (by simp)] at h
      have ⟨ih1, ih2⟩ := H4 pfx ty rest fs items h
      unfold fieldIdents at ih1
      rw [ih1, ih2, selMembers.eq_2 _ _ (by simp)]
      simp [selIdent]
    | typename =>
      rw [calcFields.eq_5 _ _ _ _ _ _ (by simp) (by simp)] at h
      have ⟨ih1, ih2⟩ := H4 pfx ty rest fs items h
      unfold fieldIdents at ih1
      rw [ih1, ih2, selMembers.eq_2 _ _ (by simp)]
      simp [selIdent]

theorem mstep3 (f : Nat) (H3 : MStmt3 c f) (H4 : MStmt4 c f) : MStmt3 c (f + 1) := by
  intro sname pfx vt mine fs items al h
  cases mine with
  | nil =>
    rw [calcVariantSels.eq_2 _ _ _ _ _ (by omega)] at h
    simp only [pure, Except.pure, Except.ok.injEq, Prod.mk.injEq] at h
    obtain ⟨rfl, rfl, rfl⟩ := h
    exact ⟨rfl, rfl, rfl⟩
  | cons x rest =>
    unfold vselFs vselsMembers vselAl
    rw [List.flatMap_cons, List.flatMap_cons, List.flatMap_cons]
    cases x with
    | inline t sub =>
      obtain ⟨tn, fs0, items0, al0, fs', items', al', htn, hr, rfl, rfl, rfl, hstep⟩ := calcVariantSels_inline_ok h
      have ⟨ih1, ih2, ih3⟩ := H3 sname pfx vt rest fs' items' al' hr
      unfold vselFs at ih1
      unfold vselsMembers at ih2
      unfold vselAl at ih3
      rw [List.map_append, List.map_append, ih1, ih2, ih3, List.map_append]
      rcases hstep with ⟨g, fr, rfl, hfr, rfl, rfl, rfl⟩ | ⟨hns, hfl, rfl⟩
      · refine ⟨by simp [vselF, isLoneSpread], by simp [vselMembers, isLoneSpread], ?_⟩
        simp [vselA, loneSpread?, hfr]
      · have ⟨g1, g2⟩ := H4 _ _ _ _ _ hfl
        refine ⟨?_, ?_, ?_⟩
        · rw [g1]; simp [vselF, isLoneSpread_false hns]
        · rw [g2]; simp [vselMembers, isLoneSpread_false hns]
        · simp [vselA, loneSpread?_none hns]
    | spread g fr =>
      obtain ⟨fld, fs', hfld, hr, rfl⟩ := calcVariantSels_spread_ok h
      have ⟨ih1, ih2, ih3⟩ := H3 sname pfx vt rest fs' items al hr
      unfold vselFs at ih1
      unfold vselsMembers at ih2
      unfold vselAl at ih3
      refine ⟨?_, ?_, ?_⟩
      · rw [List.map_append, renderField_rust_nodep hfld, ih1]; rfl
      · rw [ih2]; rfl
      · rw [ih3]; rfl

theorem mstep2 (f : Nat) (H2 : MStmt2 c f) (H3 : MStmt3 c f) : MStmt2 c (f + 1) := by
  intro name pfx vsels vts vs items h
  cases vts with
  | nil =>
    rw [calcVariants.eq_2 _ _ _ _ _ (by omega)] at h
    simp only [pure, Except.pure, Except.ok.injEq, Prod.mk.injEq] at h
    obtain ⟨rfl, rfl⟩ := h
    exact ⟨rfl, rfl⟩
  | cons vt rest =>
    obtain ⟨vname, thisV, thisItems, vs', items', hvn, hr, rfl, rfl, hname, hstep⟩ := calcVariants_ok' h
    have ⟨ih1, ih2⟩ := H2 name pfx vsels rest vs' items' hr
    refine ⟨?_, by rw [List.map_cons, List.map_cons, ih2, hname, tnOf_ok hvn]⟩
    rw [List.map_append, ih1]
    unfold variantsMembers
    rw [List.flatMap_cons]
    congr 1
    rcases hstep with ⟨hm, rfl⟩ | ⟨hm, hstep⟩
    · simp [hm]
    · have hne : (vsels.filter (fun v => v.typeId == vt)).isEmpty = false := by
        cases hmm : vsels.filter (fun v => v.typeId == vt) with
        | nil => exact absurd hmm hm
        | cons _ _ => rfl
      rw [hne]
      simp only [Bool.false_eq_true, if_false]
      rcases hstep with ⟨g, fr, hmine, rfl⟩ | ⟨hns, r, hr0, hstep⟩
      · rw [hmine]
        simp [memberIdents_aliasItem, stepHead, isSingleSpread, vselsMembers, vselMembers]
      · obtain ⟨r1, r2, r3⟩ := H3 _ _ _ _ r.1 r.2.1 r.2.2 hr0
        unfold stepHead
        rw [isSingleSpread_false hns]
        simp only [Bool.false_eq_true, if_false]
        rcases hstep with ⟨a, hfs, hal, rfl⟩ | ⟨hnot, extra, hex, rfl⟩
        · have hF : (!pushedAny c.q vt (vsels.filter (fun v => v.typeId == vt))) = true := by
            rw [hfs]; rfl
          have hL : (vselAl c (vsels.filter (fun v => v.typeId == vt))).length = 1 := by
            have := congrArg List.length r3
            rw [hal] at this
            simpa using this.symm
          have ha : memberIdents a = [] := by
            have : a ∈ r.2.2 := by rw [hal]; exact List.mem_cons_self
            rw [r3] at this
            obtain ⟨p, _, rfl⟩ := List.mem_map.mp this
            rfl
          rw [hF, hL, List.map_cons, ha, r2]
          simp
        · have hcond : ((!pushedAny c.q vt (vsels.filter (fun v => v.typeId == vt))) &&
              (vselAl c (vsels.filter (fun v => v.typeId == vt))).length == 1) = false := by
            rw [Bool.and_eq_false_iff]
            cases hF : pushedAny c.q vt (vsels.filter (fun v => v.typeId == vt)) with
            | false =>
              right
              cases hL : (vselAl c (vsels.filter (fun v => v.typeId == vt))) with
              | nil => rfl
              | cons p ps =>
                cases ps with
                | cons _ _ => rfl
                | nil =>
                  exfalso
                  rw [hL] at r3
                  exact hnot _ hF r3
            | true => left; rfl
          rw [hcond]
          simp only [Bool.false_eq_true, if_false]
          rw [List.map_append, members_renderType, List.map_nil, headMembers_nil_right, List.map_append, r1, r2]
          rw [r3] at hex
          rw [aliasMembers_rust hex]
          rfl

theorem mstep1 (f : Nat) (H2 : MStmt2 c f) (H4 : MStmt4 c f) : MStmt1 c (f + 1) := by
  intro name pfx ty sels items h
  by_cases hsp : ∃ g, sels = [Sel.spread g]
  · obtain ⟨g, rfl⟩ := hsp
    obtain ⟨fr, _, rfl⟩ := calcSelection_single_ok h
    simp [memberIdents_aliasItem, selectionMembers, isLoneSpread]
  · obtain ⟨rv, vi, rf, fi, hvp, hfl, rfl⟩ := calcSelection_ok (fun g hg => hsp ⟨g, hg⟩) h
    have ⟨f1, f2⟩ := H4 _ _ _ _ _ hfl
    unfold selectionMembers
    rw [isLoneSpread_false (fun g hg => hsp ⟨g, hg⟩)]
    simp only [Bool.false_eq_true, if_false]
    rw [List.map_append, List.map_append, members_renderType, f1, f2]
    rcases hvp with ⟨hv, rfl, rfl⟩ | ⟨vts, vsels, r, hv, hvs, hr, rfl, rfl⟩
    · simp [variantIdents, vtsOf, hv]
    · have ⟨v1, v2⟩ := H2 _ _ _ _ r.1 r.2 hr
      have hV : (r.1 ++ if c.o.otherVariant = true then [({ name := "Unknown", other := true } : RVariant)] else []).map
          (·.name) = variantIdents c ty := by
        simp only [variantIdents, hv, List.map_append, v2]
        cases c.o.otherVariant <;> rfl
      rw [hV, v1]
      congr 2
      unfold variantsMembers
      simp only [vtsOf, hv]
      congr 1
      funext vt
      have hmine : vsels.filter (fun v => v.typeId == vt) = mineOf c ty vt sels := by
        rw [vsels_eq hvs]; rfl
      rw [hmine, vselsMembers_mineOf]

/-- **the member identifiers of the items of `calcSelection`** are the lists computed from the selection tree
    (one per item, same order) — for every context, fuel, name, prefix, type and selection list -/
theorem calc_members : ∀ fuel, MStmt1 c fuel ∧ MStmt2 c fuel ∧ MStmt3 c fuel ∧ MStmt4 c fuel := by
  intro fuel
  induction fuel with
  | zero =>
    refine ⟨?_, ?_, ?_, ?_⟩
    · intro _ _ _ _ _ h; rw [calcSelection.eq_1] at h; cases h
    · intro _ _ _ _ _ _ h; rw [calcVariants.eq_1] at h; cases h
    · intro _ _ _ _ _ _ _ h; rw [calcVariantSels.eq_1] at h; cases h
    · intro _ _ _ _ _ h; rw [calcFields.eq_1] at h; cases h
  | succ f ih =>
    obtain ⟨H1, H2, H3, H4⟩ := ih
    exact ⟨mstep1 f H2 H4, mstep2 f H2 H3, mstep3 f H3 H4, mstep4 f H1 H4⟩

end Members

end C02M
end GqlVerif
