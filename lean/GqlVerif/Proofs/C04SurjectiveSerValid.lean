import GqlVerif.Proofs.C04SurjectiveModule
/-!
# C04 — `ser_valid`: what a value of the generated type is written as is valid for the declared type

`ser_valid_named` (induction on the fuel of `serPath`, i.e. on the nesting of named types in the value) with
`wrap_valid` (induction on the type expression) and `struct_valid` (the key set and the members of a plain struct);
`HasTy` inversion lemmas.  Needs the **wire** leaves: `inI64 n → L.intOk n` and `L.enumOpen = true` — for the
specification's 32-bit `Int` and closed enums the statement is false (`int64_not_graphql_int`,
`enum_other_not_declared` in the examples file).  A declared enum variant is written as a declared value name.
-/
namespace GqlVerif
namespace C04S
open Codegen Serde C13

/-! ## 14. inversion of `HasTy` -/

theorem hasTy_opt {e : Env} {r : RTy} {x : Val} (h : HasTy e (.opt r) x) :
    x = .unit ∨ ∃ y, x = .some y ∧ HasTy e r y := by
  cases h with
  | none => exact .inl rfl
  | some h => exact .inr ⟨_, rfl, h⟩

theorem hasTy_vec {e : Env} {r : RTy} {x : Val} (h : HasTy e (.vec r) x) :
    ∃ xs, x = .list xs ∧ ∀ y ∈ xs, HasTy e r y := by
  cases h with
  | vec h => exact ⟨_, rfl, h⟩

theorem hasTy_box {e : Env} {r : RTy} {x : Val} (h : HasTy e (.box r) x) : HasTy e r x := by
  cases h with
  | box h => exact h

theorem hasTy_string {e : Env} {p : String} {x : Val} (hp : p = "String") (h : HasTy e (.path p) x) :
    ∃ v, x = .str v := by
  generalize hr : RTy.path p = r at h
  cases h <;> cases hr
  case string => exact ⟨_, rfl⟩
  all_goals first
    | exact absurd hp (by decide)
    | exact absurd hp (by assumption : C01.notPrim _).1


theorem hasTy_i64 {e : Env} {p : String} {x : Val} (hp : p = "i64") (h : HasTy e (.path p) x) :
    ∃ n, x = .int n ∧ inI64 n = true := by
  generalize hr : RTy.path p = r at h
  cases h <;> cases hr
  case i64 hn => exact ⟨_, rfl, hn⟩
  all_goals first
    | exact absurd hp (by decide)
    | exact absurd hp (by assumption : C01.notPrim _).2.1

theorem hasTy_f64 {e : Env} {p : String} {x : Val} (hp : p = "f64") (h : HasTy e (.path p) x) :
    ∃ j, x = .float j ∧ Spec.floatOk j = true := by
  generalize hr : RTy.path p = r at h
  cases h <;> cases hr
  case f64 hn => exact ⟨_, rfl, hn⟩
  all_goals first
    | exact absurd hp (by decide)
    | exact absurd hp (by assumption : C01.notPrim _).2.2.1

theorem hasTy_bool {e : Env} {p : String} {x : Val} (hp : p = "bool") (h : HasTy e (.path p) x) :
    ∃ b, x = .bool b := by
  generalize hr : RTy.path p = r at h
  cases h <;> cases hr
  case bool => exact ⟨_, rfl⟩
  all_goals first
    | exact absurd hp (by decide)
    | exact absurd hp (by assumption : C01.notPrim _).2.2.2

/-- the shape of a value at a named type that is not one of the four leaves, by what the name resolves to -/
theorem hasTy_named {e : Env} {p : String} {x : Val} (hnp : C01.notPrim p) (h : HasTy e (.path p) x) :
    (∃ n pub t, e.find p = some (.alias n pub t) ∧ HasTy e t x) ∨
    (∃ q t, e.find p = none ∧ e.externs.find? (·.1 == p) = some (q, t) ∧ HasTy e t x) ∨
    (∃ n d sc fs vals, e.find p = some (.struct n d sc fs) ∧ x = .record vals ∧ vals.map (·.1) = fs.map (·.rust) ∧
      ∀ f ∈ fs, HasTy e f.ty (C01.valOf vals f.rust)) ∨
    (∃ n d sc, e.find p = some (.unitStruct n d sc) ∧ x = .unit) ∨
    (∃ n d sp vs ser de, e.find p = some (.gqlEnum n d sp vs ser de) ∧
      ((∃ name, name ∈ vs ∧ x = .variant name none) ∨ ∃ v, x = .enumOther v)) ∨
    (∃ n d sc vs var t y, e.find p = some (.oneOf n d sc vs) ∧ var ∈ vs ∧ var.payload = some t ∧ HasTy e t y ∧
      x = .variant var.name (some y)) := by
  generalize hr : RTy.path p = r at h
  cases h <;> cases hr
  case string => exact absurd rfl hnp.1
  case i64 => exact absurd rfl hnp.2.1
  case f64 => exact absurd rfl hnp.2.2.1
  case bool => exact absurd rfl hnp.2.2.2
  case «alias» => exact .inl ⟨_, _, _, by assumption, by assumption⟩
  case «extern» => exact .inr (.inl ⟨_, _, by assumption, by assumption, by assumption⟩)
  case struct => exact .inr (.inr (.inl ⟨_, _, _, _, _, by assumption, rfl, by assumption, by assumption⟩))
  case unitStruct => exact .inr (.inr (.inr (.inl ⟨_, _, _, by assumption, rfl⟩)))
  case enumVariant =>
    exact .inr (.inr (.inr (.inr (.inl ⟨_, _, _, _, _, _, by assumption, .inl ⟨_, by assumption, rfl⟩⟩))))
  case enumOther =>
    exact .inr (.inr (.inr (.inr (.inl ⟨_, _, _, _, _, _, by assumption, .inr ⟨_, rfl⟩⟩))))
  case oneOf =>
    exact .inr (.inr (.inr (.inr (.inr ⟨_, _, _, _, _, _, _, by assumption, by assumption, by assumption,
      by assumption, rfl⟩))))

theorem hasTy_alias {e : Env} {p n : String} {pub : Bool} {t : RTy} {x : Val} (hnp : C01.notPrim p)
    (hf : e.find p = some (.alias n pub t)) (h : HasTy e (.path p) x) : HasTy e t x := by
  rcases hasTy_named hnp h with ⟨_, _, _, hf', h'⟩ | ⟨_, _, hf', _⟩ | ⟨_, _, _, _, _, hf', _⟩ | ⟨_, _, _, hf', _⟩ |
    ⟨_, _, _, _, _, _, hf', _⟩ | ⟨_, _, _, _, _, _, _, hf', _⟩ <;> rw [hf] at hf' <;> cases hf'
  exact h'

theorem hasTy_extern {e : Env} {p q : String} {t : RTy} {x : Val} (hnp : C01.notPrim p)
    (hf : e.find p = none) (hx : e.externs.find? (·.1 == p) = some (q, t)) (h : HasTy e (.path p) x) : HasTy e t x := by
  rcases hasTy_named hnp h with ⟨_, _, _, hf', h'⟩ | ⟨_, _, hf', hx', h'⟩ | ⟨_, _, _, _, _, hf', _⟩ | ⟨_, _, _, hf', _⟩ |
    ⟨_, _, _, _, _, _, hf', _⟩ | ⟨_, _, _, _, _, _, _, hf', _⟩ <;> rw [hf] at hf' <;> cases hf'
  rw [hx] at hx'; cases hx'
  exact h'

theorem hasTy_struct {e : Env} {p n : String} {d : List String} {sc : Option String} {fs : List RField} {x : Val}
    (hnp : C01.notPrim p) (hf : e.find p = some (.struct n d sc fs)) (h : HasTy e (.path p) x) :
    ∃ vals, x = .record vals ∧ vals.map (·.1) = fs.map (·.rust) ∧ ∀ f ∈ fs, HasTy e f.ty (C01.valOf vals f.rust) := by
  rcases hasTy_named hnp h with ⟨_, _, _, hf', h'⟩ | ⟨_, _, hf', _⟩ | ⟨_, _, _, _, vals, hf', h1, h2, h3⟩ | ⟨_, _, _, hf', _⟩ |
    ⟨_, _, _, _, _, _, hf', _⟩ | ⟨_, _, _, _, _, _, _, hf', _⟩ <;> rw [hf] at hf' <;> cases hf'
  exact ⟨vals, h1, h2, h3⟩

theorem hasTy_enum {e : Env} {p n : String} {d : List String} {sp : String} {vs : List String}
    {ser de : List (String × String)} {x : Val}
    (hnp : C01.notPrim p) (hf : e.find p = some (.gqlEnum n d sp vs ser de)) (h : HasTy e (.path p) x) :
    (∃ name, name ∈ vs ∧ x = .variant name none) ∨ ∃ v, x = .enumOther v := by
  rcases hasTy_named hnp h with ⟨_, _, _, hf', h'⟩ | ⟨_, _, hf', _⟩ | ⟨_, _, _, _, _, hf', _⟩ | ⟨_, _, _, hf', _⟩ |
    ⟨_, _, _, _, _, _, hf', h'⟩ | ⟨_, _, _, _, _, _, _, hf', _⟩ <;> rw [hf] at hf' <;> cases hf'
  exact h'

theorem hasTy_oneOf {e : Env} {p n : String} {d : List String} {sc : Option String} {vs : List RVariant} {x : Val}
    (hnp : C01.notPrim p) (hf : e.find p = some (.oneOf n d sc vs)) (h : HasTy e (.path p) x) :
    ∃ var t y, var ∈ vs ∧ var.payload = some t ∧ HasTy e t y ∧ x = .variant var.name (some y) := by
  rcases hasTy_named hnp h with ⟨_, _, _, hf', h'⟩ | ⟨_, _, hf', _⟩ | ⟨_, _, _, _, _, hf', _⟩ | ⟨_, _, _, hf', _⟩ |
    ⟨_, _, _, _, _, _, hf', _⟩ | ⟨_, _, _, _, var, t, y, hf', h1, h2, h3, h4⟩ <;> rw [hf] at hf' <;> cases hf'
  exact ⟨var, t, y, h1, h2, h3, h4⟩


/-! ## 15. what is written is valid -/

theorem all2_right_mem {α β} {R : α → β → Prop} : ∀ {xs : List α} {ys : List β}, C01.All2 R xs ys →
    ∀ y ∈ ys, ∃ x ∈ xs, R x y
  | _, _, .nil, y, hy => by simp at hy
  | _, _, .cons h rest, y, hy => by
    rcases List.mem_cons.mp hy with rfl | hy
    · exact ⟨_, by simp, h⟩
    · obtain ⟨x, hx, hr⟩ := all2_right_mem rest y hy
      exact ⟨x, by simp [hx], hr⟩

/-- wrappers: if the named type only writes valid values, so does every `Option` / `Vec` nesting over it -/
theorem wrap_valid (L : Leaves) (s : Schema) (e : Env) (pathS : String → Val → D Json) (id : TypeId) (tn : String)
    (hleaf : ∀ x j nm, HasTy e (.path tn) x → pathS tn x = .ok j → Valid L s id true (.named nm) j) :
    ∀ t : GTy, wf t = true →
      (∀ x j, HasTy e (rustOfNN (.path tn) t) x → serTyWith pathS (rustOfNN (.path tn) t) x = .ok j →
        Valid L s id true t j) ∧
      (∀ x j, HasTy e (rustOf (.path tn) t) x → serTyWith pathS (rustOf (.path tn) t) x = .ok j →
        Valid L s id false t j) := by
  intro t
  have lift : ∀ (t : GTy), isNN t = false →
      (∀ x j, HasTy e (rustOfNN (.path tn) t) x → serTyWith pathS (rustOfNN (.path tn) t) x = .ok j →
        Valid L s id true t j) →
      ∀ x j, HasTy e (rustOf (.path tn) t) x → serTyWith pathS (rustOf (.path tn) t) x = .ok j →
        Valid L s id false t j := by
    intro t hn hnn x j hx hs
    rw [rustOf_opt _ hn] at hx hs
    rcases hasTy_opt hx with rfl | ⟨y, rfl, hy⟩
    · simp only [serTyWith, pure, Except.pure, Except.ok.injEq] at hs
      subst hs
      exact .null hn
    · exact .some hn (hnn y j hy hs)
  induction t with
  | named n =>
    intro _
    have hnn : ∀ x j, HasTy e (rustOfNN (.path tn) (.named n)) x →
        serTyWith pathS (rustOfNN (.path tn) (.named n)) x = .ok j → Valid L s id true (.named n) j :=
      fun x j hx hs => by
        simp only [rustOfNN] at hx hs
        exact hleaf x j n hx hs
    exact ⟨hnn, lift _ rfl hnn⟩
  | list t ih =>
    intro hw
    obtain ⟨_, ih2⟩ := ih (by simpa [wf] using hw)
    have hnn : ∀ x j, HasTy e (rustOfNN (.path tn) (.list t)) x →
        serTyWith pathS (rustOfNN (.path tn) (.list t)) x = .ok j → Valid L s id true (.list t) j := by
      intro x j hx hs
      simp only [rustOfNN] at hx hs
      obtain ⟨xs, rfl, hall⟩ := hasTy_vec hx
      obtain ⟨vs, js, hv, rfl, h2⟩ := C01.ser_vec_ok pathS _ _ j hs
      cases hv
      refine .list ?_
      intro y hy
      obtain ⟨v, hv, hvy⟩ := all2_right_mem h2 y hy
      exact ih2 v y (hall v hv) hvy
    exact ⟨hnn, lift _ rfl hnn⟩
  | nonNull t ih =>
    intro hw
    obtain ⟨ih1, _⟩ := ih (wf_nonNull hw)
    refine ⟨fun x j hx hs => ?_, fun x j hx hs => ?_⟩
    · simp only [rustOfNN] at hx hs
      exact .bang (ih1 x j hx hs)
    · simp only [rustOf] at hx hs
      exact .bang (ih1 x j hx hs)

theorem lookup_mem : ∀ {kvs : List (String × Json)} {k : String} {v : Json}, Json.lookup k kvs = some v → (k, v) ∈ kvs
  | [], _, _, h => by simp [Json.lookup] at h
  | (k', v') :: rest, k, v, h => by
    simp only [Json.lookup] at h
    split at h
    · rename_i hk
      have : k' = k := by simpa using hk
      cases h; subst this; simp
    · exact List.mem_cons_of_mem _ (lookup_mem h)

theorem lookup_isSome_of_mem : ∀ {kvs : List (String × Json)} {k : String}, k ∈ kvs.map (·.1) →
    ∃ v, Json.lookup k kvs = some v
  | [], _, h => by simp at h
  | (k', v') :: rest, k, h => by
    simp only [Json.lookup]
    by_cases hk : k' = k
    · subst hk; exact ⟨v', by simp⟩
    · have : (k' == k) = false := by simpa using hk
      simp only [this, Bool.false_eq_true, ↓reduceIte]
      simp only [List.map_cons, List.mem_cons] at h
      rcases h with rfl | h
      · exact absurd rfl hk
      · exact lookup_isSome_of_mem h

theorem eq_of_key_eq {α} (key : α → String) : ∀ {l : List α}, (l.map key).Nodup → ∀ {a b : α}, a ∈ l → b ∈ l →
    key a = key b → a = b
  | [], _, _, _, ha, _, _ => by simp at ha
  | x :: l, hnd, a, b, ha, hb, hk => by
    simp only [List.map_cons, List.nodup_cons] at hnd
    rcases List.mem_cons.mp ha with ha' | ha' <;> rcases List.mem_cons.mp hb with hb' | hb'
    · rw [ha', hb']
    · rw [ha'] at hk; exact absurd (hk ▸ List.mem_map_of_mem hb') hnd.1
    · rw [hb'] at hk; exact absurd (hk ▸ List.mem_map_of_mem ha') hnd.1
    · exact eq_of_key_eq key hnd.2 ha' hb' hk

theorem serPath_zero (e : Env) (p : String) (x : Val) (j : Json) : serPath e 0 p x ≠ .ok j := by
  unfold serPath; simp [unmodelled]


theorem typeName_enum {s : Schema} {k : Nat} {tn : String} (h : s.typeName (.enum k) = .ok tn) :
    ∃ en, s.enums[k]? = some en ∧ en.name = tn := by
  simp only [Schema.typeName] at h
  cases hg : s.getEnum k with
  | error err => simp [hg, Functor.map, Except.map] at h
  | ok en =>
    simp only [hg, Functor.map, Except.map, Except.ok.injEq] at h
    exact ⟨en, C02.getEnum_ok hg, h⟩

theorem typeName_input {s : Schema} {k : Nat} {tn : String} (h : s.typeName (.input k) = .ok tn) :
    ∃ i, s.inputs[k]? = some i ∧ i.name = tn := by
  simp only [Schema.typeName] at h
  cases hg : s.getInput k with
  | error err => simp [hg, Functor.map, Except.map] at h
  | ok i =>
    simp only [hg, Functor.map, Except.map, Except.ok.injEq] at h
    exact ⟨i, C02.getInput_ok hg, h⟩

theorem serPath_prim_inv (e : Env) (f : Nat) (p : String) (x : Val) (out j : Json) (hx : serPrim x = some out)
    (h : serPath e (f + 1) p x = .ok j) : j = out := by
  rw [C01.serPath_prim e f p x out hx] at h
  cases h; rfl

/-- a field / member type: through the optional `Box` -/
theorem field_valid (L : Leaves) (c : Ctx) (e : Env) (pathS : String → Val → D Json) (id : TypeId) (tn : String)
    (htn : c.s.typeName id = .ok tn)
    (hleaf : ∀ x j nm, HasTy e (.path tn) x → pathS tn x = .ok j → Valid L c.s id true (.named nm) j)
    (t : GTy) (hw : wf t = true) (x : Val) (j : Json)
    (hx : HasTy e (fieldRTy c id t) x) (hs : serTyWith pathS (fieldRTy c id t) x = .ok j) :
    Valid L c.s id false t j := by
  unfold fieldRTy at hx hs
  rw [C02.tnOf_ok htn] at hx hs
  cases hb : boxed c id
  · simp only [hb, Bool.false_eq_true, ↓reduceIte] at hx hs
    exact (wrap_valid L c.s e pathS id tn hleaf t hw).2 x j hx hs
  · simp only [hb, ↓reduceIte] at hx hs
    exact (wrap_valid L c.s e pathS id tn hleaf t hw).2 x j (hasTy_box hx) hs

/-- **what a plain struct over the field list `fields` writes is a valid input object**: distinct keys, all of them
    declared, every absent member nullable, every written member valid -/
theorem struct_valid (L : Leaves) (s : Schema) (e : Env) (pathS : String → Val → D Json)
    (fields : List (String × FieldType)) (F : String × FieldType → RField)
    (hF : ∀ p ∈ fields, (F p).wire = p.1 ∧ (F p).flatten = false ∧ ((F p).skipNone = true → isNN (gty p.2) = false))
    (hnames : (fields.map (·.1)).Nodup) (vals : List (String × Val))
    (hall : ∀ p ∈ fields, HasTy e (F p).ty (C01.valOf vals (F p).rust))
    (out : List (String × Json)) (hout : serFieldsWith pathS (fields.map F) vals = .ok out)
    (hfield : ∀ p ∈ fields, ∀ x j, HasTy e (F p).ty x → serTyWith pathS (F p).ty x = .ok j →
      Valid L s p.2.id false (gty p.2) j) :
    (keys out).Nodup ∧ (∀ key ∈ keys out, key ∈ fields.map (·.1)) ∧
    (∀ p ∈ fields, Json.lookup p.1 out = none → isNN (gty p.2) = false) ∧
    (∀ p ∈ fields, ∀ v, Json.lookup p.1 out = some v → Valid L s p.2.id false (gty p.2) v) := by
  have hplain : C01.plain (fields.map F) = true := plain_map _ _ (fun p hp => (hF p hp).2.1)
  have hwire : (fields.map F).map (·.wire) = fields.map (·.1) := by
    rw [List.map_map]; exact List.map_congr_left (fun p hp => (hF p hp).1)
  have hkeys := C01.ser_keys_exact _ _ vals out hplain hout
  have hall2 := ((C01.ser_fields_iff _ vals _ out hplain).mp hout).2
  refine ⟨?_, ?_, ?_, ?_⟩
  · exact C01.ser_keys_nodup _ _ vals out hplain (by rw [hwire]; exact hnames) hout
  · intro key hkey
    rw [← hwire]
    have : key ∈ out.map (·.1) := hkey
    rw [hkeys] at this
    obtain ⟨g, hg, rfl⟩ := List.mem_map.mp this
    exact List.mem_map_of_mem (List.mem_filter.mp hg).1
  · intro p hpm hl
    have hnk : p.1 ∉ out.map (·.1) := fun hk => by
      obtain ⟨v, hv⟩ := lookup_isSome_of_mem hk
      rw [hl] at hv; cases hv
    rw [hkeys] at hnk
    have hsk : C01.skipped vals (F p) = true := by
      cases hsk : C01.skipped vals (F p)
      · exfalso
        apply hnk
        rw [← (hF p hpm).1]
        exact List.mem_map_of_mem (List.mem_filter.mpr ⟨List.mem_map_of_mem hpm, by simp [hsk]⟩)
      · rfl
    have : (F p).skipNone = true := by
      simp only [C01.skipped, Bool.and_eq_true] at hsk; exact hsk.1
    exact (hF p hpm).2.2 this
  · intro p hpm v hl
    obtain ⟨g, hg, hgk, hgs⟩ := all2_right_mem hall2 (p.1, v) (lookup_mem hl)
    obtain ⟨p', hp', rfl⟩ := List.mem_map.mp (List.mem_filter.mp hg).1
    rw [(hF p' hp').1] at hgk
    have hpp : p' = p := eq_of_key_eq (·.1) hnames hp' hpm hgk.symm
    subst hpp
    exact hfield p' hpm _ v (hall p' hpm) hgs

/-- **core of `ser_valid`**: a value of the Rust type emitted for a used named type is written as a JSON value
    that is valid for that type (64-bit `Int`, open-world enums) -/
theorem ser_valid_named (L : Leaves) (c : Ctx) (e : Env) (U : TypeId → Prop) (env : InputEnv c e U)
    (hL : ∀ n, inI64 n = true → L.intOk n = true) (hopen : L.enumOpen = true) :
    ∀ (fuel : Nat) (id : TypeId) (tn : String) (x : Val) (j : Json) (nm : String), U id → C02.Relevant id →
      c.s.typeName id = .ok tn → HasTy e (.path tn) x → serPath e fuel tn x = .ok j →
      Valid L c.s id true (.named nm) j := by
  intro fuel
  induction fuel with
  | zero => intro id tn x j nm _ _ _ _ h; exact absurd h (serPath_zero e tn x j)
  | succ f ih =>
    intro id tn x j nm hU hr htn hx hs
    cases id with
    | object k => exact absurd hr (by simp [C02.Relevant])
    | interface k => exact absurd hr (by simp [C02.Relevant])
    | union k => exact absurd hr (by simp [C02.Relevant])
    | scalar k =>
      have hn := C02.getScalar_ok htn
      by_cases h1 : tn = "Int"
      · subst h1
        obtain ⟨m, rfl, hm⟩ := hasTy_i64 rfl (hasTy_alias (by decide) env.int hx)
        cases serPath_prim_inv e f _ _ _ j rfl hs
        exact .scalar hn (by simpa [scalarOk] using hL m hm)
      by_cases h2 : tn = "Float"
      · subst h2
        obtain ⟨m, rfl, hm⟩ := hasTy_f64 rfl (hasTy_alias (by decide) env.float hx)
        cases serPath_prim_inv e f _ _ _ j rfl hs
        exact .scalar hn (by simpa [scalarOk] using hm)
      by_cases h3 : tn = "Boolean"
      · subst h3
        obtain ⟨m, rfl⟩ := hasTy_bool rfl (hasTy_alias (by decide) env.boolean hx)
        cases serPath_prim_inv e f _ _ _ j rfl hs
        exact .scalar hn (by simp [scalarOk, Spec.boolOk])
      by_cases h4 : tn = "ID"
      · subst h4
        obtain ⟨m, rfl⟩ := hasTy_string rfl (hasTy_alias (by decide) env.id hx)
        cases serPath_prim_inv e f _ _ _ j rfl hs
        exact .scalar hn (by simp [scalarOk])
      have hstr : ∃ m, x = .str m := by
        by_cases h5 : tn = "String"
        · exact hasTy_string h5 hx
        · have hnd : tn ∉ Schema.defaultScalars := by simp [Schema.defaultScalars, h1, h2, h3, h4, h5]
          obtain ⟨hp, q, hq, hfn, hfq, hxq⟩ := env.custom k tn hU hn hnd
          exact hasTy_string rfl (hasTy_extern hq hfq hxq (hasTy_alias hp hfn hx))
      obtain ⟨m, rfl⟩ := hstr
      cases serPath_prim_inv e f _ _ _ j rfl hs
      exact .scalar hn (by simp [scalarOk, h1, h2, h3, h4, Spec.stringOk])
    | «enum» k =>
      obtain ⟨en, hen, rfl⟩ := typeName_enum htn
      obtain ⟨hp, hcase⟩ := env.enums k en hU hen
      rcases hcase with ⟨hitem, _⟩ | ⟨hnone, hext⟩
      · rw [enumItem_eq] at hitem
        rcases hasTy_enum hp hitem hx with ⟨name, hname, rfl⟩ | ⟨v, rfl⟩
        · rw [serPath_enum e f _ _ _ _ _ _ _ _ hitem] at hs
          cases hfd : (en.variants.map fun v => (variantIdent c v, v)).find? (·.1 == name) with
          | none => simp [hfd, unmodelled] at hs
          | some ab =>
            obtain ⟨a, b⟩ := ab
            simp only [hfd, Except.ok.injEq] at hs
            subst hs
            have := List.mem_of_find?_eq_some hfd
            obtain ⟨v, hv, hvab⟩ := List.mem_map.mp this
            cases hvab
            exact .enum hen (.inr hv)
        · cases serPath_prim_inv e f _ _ _ j rfl hs
          exact .enum hen (.inl hopen)
      · obtain ⟨m, rfl⟩ := hasTy_string rfl (hasTy_extern hp hnone hext hx)
        cases serPath_prim_inv e f _ _ _ j rfl hs
        exact .enum hen (.inl hopen)
    | input k =>
      obtain ⟨i, hi, rfl⟩ := typeName_input htn
      obtain ⟨hp, hfind⟩ := env.inputs k i hU hi
      have hcl := env.closed k i hU hi
      have hnames := env.fieldNames k i hU hi
      have hleaf : ∀ p ∈ i.fields, ∀ tn', c.s.typeName p.2.id = .ok tn' → ∀ x j nm, HasTy e (.path tn') x →
          serPath e f tn' x = .ok j → Valid L c.s p.2.id true (.named nm) j :=
        fun p hpm tn' htn' x j nm hx hs => ih p.2.id tn' x j nm (hcl p hpm).1 (hcl p hpm).2.1 htn' hx hs
      unfold inputItemSpec at hfind
      cases hone : i.isOneOf
      · rw [if_neg (by simp [hone])] at hfind
        obtain ⟨vals, rfl, hv, hall⟩ := hasTy_struct hp hfind hx
        rw [C01.serPath_struct e f _ _ _ _ _ hfind, C01.map_ok] at hs
        obtain ⟨out, hout, rfl⟩ := hs
        obtain ⟨h1, h2, h3, h4⟩ := struct_valid L c.s e (serPath e f) i.fields (inputField c)
          (fun p _ => ⟨inputField_wire c p, rfl, fun hsk => by
            simp only [inputField, isOptional_eq, Bool.and_eq_true, Bool.not_eq_true'] at hsk
            exact hsk.2⟩)
          hnames vals (fun p hpm => hall _ (List.mem_map_of_mem hpm)) out hout
          (fun p hpm x j hx hs => by
            obtain ⟨_, _, hw, _, tn', htn'⟩ := hcl p hpm
            exact field_valid L c e (serPath e f) p.2.id tn' htn' (hleaf p hpm tn' htn') (gty p.2) hw x j hx hs)
        exact .object hi hone h1 h2 h3 h4
      · rw [if_pos hone] at hfind
        obtain ⟨var, t, y, hvar, hpay, hy, rfl⟩ := hasTy_oneOf hp hfind hx
        obtain ⟨var', t', pv, jv, hpv, hfd, hpay', hser, rfl⟩ :=
          C01.oneof_single_key e f _ _ _ _ _ _ _ j hfind hs
        cases hpv
        have hvn := (env.members k i hU hi).2 hone
        have : (i.fields.map (inputVariant c)).find? (fun y => y.name == var.name) = some var :=
          find_by_key (·.name) _ (by rw [List.map_map]; exact hvn) _ hvar
        rw [this] at hfd; cases hfd
        rw [hpay] at hpay'; cases hpay'
        obtain ⟨p, hpm, rfl⟩ := List.mem_map.mp hvar
        rw [inputVariant_wire]
        obtain ⟨_, _, hw, hnn, tn', htn'⟩ := hcl p hpm
        simp only [inputVariant, Option.some.injEq] at hpay
        subst hpay
        exact .oneOf hi hone hpm
          (field_valid L c e (serPath e f) p.2.id tn' htn' (hleaf p hpm tn' htn') _ (wf_nonNull_of hw (hnn hone)) _ jv hy hser)


/-! ## 16. `ser_valid` -/

theorem lookup_of_mem_nodup : ∀ {kvs : List (String × Json)} {k : String} {v : Json}, (keys kvs).Nodup → (k, v) ∈ kvs →
    Json.lookup k kvs = some v
  | [], _, _, _, h => by simp at h
  | (k', v') :: rest, k, v, hnd, h => by
    simp only [keys, List.map_cons, List.nodup_cons] at hnd
    simp only [Json.lookup]
    rcases List.mem_cons.mp h with h | h
    · cases h; simp
    · have hne : k' ≠ k := fun heq => hnd.1 (heq ▸ List.mem_map_of_mem (f := (·.1)) h)
      have : (k' == k) = false := by simpa using hne
      simp only [this, Bool.false_eq_true, ↓reduceIte]
      exact lookup_of_mem_nodup hnd.2 h

theorem scalarOk_norm {L : Leaves} {n : String} {j : Json} (h : scalarOk L n j = true) : normJson j = j := by
  cases j with
  | arr xs =>
    exfalso; unfold scalarOk at h
    repeat (first | (split at h <;> try cases h) | (simp [Spec.floatOk, Spec.boolOk, Spec.stringOk] at h))
  | obj kvs =>
    exfalso; unfold scalarOk at h
    repeat (first | (split at h <;> try cases h) | (simp [Spec.floatOk, Spec.boolOk, Spec.stringOk] at h))
  | null => rfl
  | bool b => rfl
  | int n => rfl
  | num t => rfl
  | str v => rfl

/-- a valid value is in `serde_json::Value` normal form (no object carries a key twice) -/
theorem valid_norm {L : Leaves} {s : Schema} {id : TypeId} {b : Bool} {t : GTy} {j : Json}
    (h : Valid L s id b t j) : normJson j = j := by
  induction h with
  | null _ => rfl
  | some _ _ ih => exact ih
  | bang _ ih => exact ih
  | list _ ih => rw [normJson, normList_eq_self _ ih]
  | scalar _ hok => exact scalarOk_norm hok
  | «enum» _ _ => rfl
  | @object k i nm kvs hi hone hk hsub habs hpres ih =>
    rw [normJson, normKvs_eq_self, C01.normObj_of_nodup _ hk]
    intro kv hkv
    obtain ⟨key, v⟩ := kv
    have hl := lookup_of_mem_nodup hk hkv
    obtain ⟨p, hp, hpk⟩ := List.mem_map.mp (hsub key (List.mem_map_of_mem (f := (·.1)) hkv))
    have hpk' : p.1 = key := hpk
    subst hpk'
    exact ih p hp v hl
  | oneOf _ _ _ _ ih =>
    rw [normJson, normKvs, normKvs, ih]
    rfl

/-- **`ser_valid`, per variable.**  Every value `x` of the Rust type of the member emitted for a declared variable
    is written by `serde_json::to_value` as a JSON value that is valid for the variable's declared type: non-null
    positions are never `null`, lists at list positions, input-object keys are distinct declared field names with
    every absent member nullable, `@oneOf` objects have exactly one non-null member, enum values are strings
    (declared names for declared variants), scalars are of their kind (`Int`: 64-bit). -/
theorem ser_valid (L : Leaves) (c : Ctx) (op : Nat) (items : List Item)
    (hnorm : c.o.normalization = .none)
    (hkwI : ∀ i ∈ c.s.inputs, keywordReplace i.name = i.name)
    (hkwS : ∀ n ∈ c.s.scalars, keywordReplace n = n)
    (hkwE : ∀ e ∈ c.s.enums, keywordReplace e.name = e.name)
    (hwf : C02.OutputOnly c.s c.q = true) (hrel : C02.InputFieldsRelevant c.s = true)
    (hvars : ∀ v ∈ c.q.opVariables op, C02.Relevant v.ty.id)
    (hdef : (Scope.defines items).Nodup) (hmem : ∀ it ∈ items, (C02.memberIdents it).Nodup)
    (hprim : ∀ it ∈ items, C01.notPrim it.name) (hfree : ExternsFree c items)
    (hL : ∀ n, inI64 n = true → L.intOk n = true) (hopen : L.enumOpen = true)
    (h : responseForQuery c op = .ok items)
    (v : RVariable) (hv : v ∈ c.q.opVariables op) (t : RTy) (ht : variableType c v = .ok t)
    (x : Val) (hx : HasTy (moduleEnv c items) t x) (j : Json) (hs : Serde.ser (moduleEnv c items) t x = .ok j) :
    Valid L c.s v.ty.id false (gty v.ty) j := by
  obtain ⟨u, hu, env⟩ := inputEnv_of_module c op items hnorm hkwI hwf hrel hdef hmem hprim hfree h
  obtain ⟨hw, rfl⟩ := variableType_inv hnorm (fun tn htn => kw_typeName hkwI hkwS hkwE (hvars v hv) htn) ht
  have hU : v.ty.id ∈ u.types := C02.variable_types_used c.s c.q op u hu v hv (hvars v hv)
  obtain ⟨tn, htn⟩ : ∃ tn, c.s.typeName v.ty.id = .ok tn := by
    unfold variableType at ht
    obtain ⟨tn, htn, _⟩ := C02.bind_ok ht
    exact ⟨tn, htn⟩
  unfold Serde.ser serTy at hs
  rw [C01.map_ok] at hs
  obtain ⟨j0, hj0, rfl⟩ := hs
  have hval : Valid L c.s v.ty.id false (gty v.ty) j0 := by
    simp only [R, Bool.false_eq_true, ↓reduceIte, C02.tnOf_ok htn] at hx hj0
    exact (wrap_valid L c.s _ _ v.ty.id tn
      (fun x j nm hx hs => ser_valid_named L c _ _ env hL hopen _ v.ty.id tn x j nm hU (hvars v hv) htn hx hs)
      (gty v.ty) hw).2 x j0 hx hj0
  rw [valid_norm hval]
  exact hval

/-- **`ser_valid`, whole struct.**  Every value of the generated `Variables` struct is written as a JSON object
    that is a valid variables assignment of the operation (`VarsValid`). -/
theorem variables_ser_valid (L : Leaves) (c : Ctx) (op : Nat) (items : List Item)
    (hnorm : c.o.normalization = .none)
    (hkwI : ∀ i ∈ c.s.inputs, keywordReplace i.name = i.name)
    (hkwS : ∀ n ∈ c.s.scalars, keywordReplace n = n)
    (hkwE : ∀ e ∈ c.s.enums, keywordReplace e.name = e.name)
    (hwf : C02.OutputOnly c.s c.q = true) (hrel : C02.InputFieldsRelevant c.s = true)
    (hvars : ∀ v ∈ c.q.opVariables op, C02.Relevant v.ty.id)
    (hdef : (Scope.defines items).Nodup) (hmem : ∀ it ∈ items, (C02.memberIdents it).Nodup)
    (hprim : ∀ it ∈ items, C01.notPrim it.name) (hfree : ExternsFree c items)
    (hL : ∀ n, inI64 n = true → L.intOk n = true) (hopen : L.enumOpen = true)
    (h : responseForQuery c op = .ok items) (hne : c.q.opVariables op ≠ [])
    (x : Val) (hx : HasTy (moduleEnv c items) (.path "Variables") x) (j : Json)
    (hs : Serde.ser (moduleEnv c items) (.path "Variables") x = .ok j) :
    ∃ kvs, j = .obj kvs ∧ VarsValid L c op kvs := by
  obtain ⟨u, hu, env⟩ := inputEnv_of_module c op items hnorm hkwI hwf hrel hdef hmem hprim hfree h
  obtain ⟨_, _, _, _, _, V, _, _, hu', _, _, _, _, hV, _, _, hitems⟩ := C02.responseForQuery_ok_full h
  obtain ⟨hhead, hwfv⟩ := variablesItems_head hnorm
    (fun v hv tn htn => kw_typeName hkwI hkwS hkwE (hvars v hv) htn) hV hne
  have hfind := find_variables c op items hdef h V _ hV hhead rfl
  have hin : variablesSpec c op ∈ items := by
    cases V with
    | nil => simp at hhead
    | cons a rest =>
      simp only [List.head?_cons, Option.some.injEq] at hhead
      rw [hitems, hhead]; simp
  have hrust : ((varFields c op).map fun p => (varMember c p).rust).Nodup := by
    have := hmem _ hin
    simpa [variablesSpec, C02.memberIdents, List.map_map, Function.comp_def] using this
  have hnames : ((varFields c op).map (·.1)).Nodup :=
    nodup_fst_of_comp (fun n => keywordReplace (c.cs.snake n)) (fun p : String × FieldType => p.1) hrust
  obtain ⟨vals, rfl, hvm, hall⟩ := hasTy_struct (by decide) hfind hx
  unfold Serde.ser serTy at hs
  rw [C01.map_ok] at hs
  obtain ⟨j0, hj0, rfl⟩ := hs
  obtain ⟨f, hf⟩ := C04Keys.ser_fuel (moduleEnv c items) (.record vals)
  rw [hf] at hj0
  change serPath (moduleEnv c items) (f + 1) "Variables" (.record vals) = .ok j0 at hj0
  rw [C01.serPath_struct _ f _ _ _ _ _ hfind, C01.map_ok] at hj0
  obtain ⟨out, hout, rfl⟩ := hj0
  obtain ⟨h1, h2, h3, h4⟩ := struct_valid L c.s (moduleEnv c items) (serPath (moduleEnv c items) f) (varFields c op)
    (varMember c)
    (fun p _ => ⟨C11.input_wire_is_graphql_name _ _ _ _, rfl, fun hsk => by
      simp only [varMember, Bool.and_eq_true, Bool.not_eq_true'] at hsk
      exact hsk.2⟩)
    hnames vals (fun p hpm => hall _ (List.mem_map_of_mem hpm)) out hout
    (by
      intro p hpm x j hx hs
      obtain ⟨v, hv, rfl⟩ := List.mem_map.mp hpm
      have hU : v.ty.id ∈ u.types := C02.variable_types_used c.s c.q op u hu v hv (hvars v hv)
      obtain ⟨fs, _, hallm⟩ := C04Keys.variables_struct c op V hV hne
      obtain ⟨_, t, ht, _⟩ := all2_left_mem hallm v hv
      obtain ⟨tn, htn⟩ : ∃ tn, c.s.typeName v.ty.id = .ok tn := by
        unfold variableType at ht
        obtain ⟨tn, htn, _⟩ := C02.bind_ok ht
        exact ⟨tn, htn⟩
      simp only [varMember, R, Bool.false_eq_true, ↓reduceIte, C02.tnOf_ok htn] at hx hs
      exact (wrap_valid L c.s _ _ v.ty.id tn
        (fun x j nm hx hs => ser_valid_named L c _ _ env hL hopen _ v.ty.id tn x j nm hU (hvars v hv) htn hx hs)
        (gty v.ty) (hwfv _ hpm)).2 x j hx hs)
  refine ⟨out, ?_, ⟨h1, h2, h3, h4⟩⟩
  rw [normJson, normKvs_eq_self, C01.normObj_of_nodup _ h1]
  intro kv hkv
  obtain ⟨key, v⟩ := kv
  have hl := lookup_of_mem_nodup h1 hkv
  obtain ⟨p, hp, hpk⟩ := List.mem_map.mp (h2 key (List.mem_map_of_mem (f := (·.1)) hkv))
  have hpk' : p.1 = key := hpk
  subst hpk'
  exact valid_norm (h4 p hp v hl)

end C04S
end GqlVerif
