import GqlVerif.Props.C06
namespace GqlVerif
namespace C06Sound
open Resolve

mutual
inductive Corr (s : Schema) (ff : String → Option Nat) : TypeId → QSel → Sel → Prop
  | typename {p alias name} : name = "__typename" → Corr s ff p (.field alias name []) .typename
  | field {p alias name sub fid f rs} : name ≠ "__typename" → Valid.lookupField s p name = some f →
      s.fields[fid]? = some f → (Valid.isComposite f.ty.id = false → sub = []) →
      CorrL s ff f.ty.id sub rs → Corr s ff p (.field alias name sub) (.field alias fid rs)
  | inline {p on t sub rs} : s.findType on = some t → (Valid.isComposite t = false → sub = []) →
      CorrL s ff t sub rs → Corr s ff p (.inline (some on) sub) (.inline t rs)
  | spread {p n fid} : ff n = some fid → Corr s ff p (.spread n) (.spread fid)
inductive CorrL (s : Schema) (ff : String → Option Nat) : TypeId → List QSel → List Sel → Prop
  | nil {p} : CorrL s ff p [] []
  | cons {p x r xs rs} : Corr s ff p x r → CorrL s ff p xs rs → CorrL s ff p (x :: xs) (r :: rs)
end

/-- the field ids of an object / interface type, as `Valid.lookupField` reads them -/
def fieldsOf (s : Schema) : TypeId → List Nat
  | .object i => match s.objects[i]? with | some o => o.fields | none => []
  | .interface i => match s.interfaces[i]? with | some o => o.fields | none => []
  | _ => []

theorem lookupField_eq (s : Schema) (p : TypeId) (name : String) :
    Valid.lookupField s p name = ((fieldsOf s p).filterMap (fun id => s.fields[id]?)).find? (·.name == name) := by
  unfold Valid.lookupField fieldsOf
  cases p <;> rfl

theorem getObject_ok {s : Schema} {i : Nat} {o} (h : s.getObject i = .ok o) : s.objects[i]? = some o := by
  unfold Schema.getObject at h; split at h <;> simp_all [pure, Except.pure, panic']
theorem getInterface_ok {s : Schema} {i : Nat} {o} (h : s.getInterface i = .ok o) : s.interfaces[i]? = some o := by
  unfold Schema.getInterface at h; split at h <;> simp_all [pure, Except.pure, panic']

theorem mapM_getField_ok (s : Schema) : ∀ (ids : List Nat) (fs : List (Nat × StoredField)),
    (ids.mapM fun id => do pure (id, ← s.getField id) : Outcome _) = .ok fs →
    fs.map (·.2) = ids.filterMap (fun id => s.fields[id]?) ∧ ∀ p ∈ fs, s.fields[p.1]? = some p.2 := by
  intro ids
  induction ids with
  | nil => intro fs h; simp [pure, Except.pure] at h; subst h; simp
  | cons id ids ih =>
    intro fs h
    rw [List.mapM_cons] at h
    simp only [bind, Except.bind, pure, Except.pure] at h
    cases hf : s.getField id with
    | error e => simp [hf] at h
    | ok f =>
      simp only [hf] at h
      split at h
      · simp at h
      · rename_i fs' hfs'
        simp only [Except.ok.injEq] at h
        subst h
        have := ih fs' hfs'
        have hf' := C06.getField_ok hf
        simp [hf', this.1]
        exact fun a b hab => this.2 (a, b) hab

theorem getFieldByName_some {s : Schema} {ids : List Nat} {name : String} {fid : Nat} {sf : StoredField}
    (h : getFieldByName s ids name = .ok (some (fid, sf))) :
    (ids.filterMap (fun id => s.fields[id]?)).find? (·.name == name) = some sf ∧ s.fields[fid]? = some sf := by
  unfold getFieldByName at h
  simp only [bind, Except.bind] at h
  split at h
  · simp at h
  · rename_i fs hfs
    simp only [pure, Except.pure, Except.ok.injEq] at h
    have := mapM_getField_ok s ids fs hfs
    rw [← this.1]
    refine ⟨?_, ?_⟩
    · rw [List.find?_map]; simp [Function.comp_def, h]
    · exact this.2 _ (List.mem_of_find?_eq_some h)

theorem map_ok {α β} {x : Outcome α} {f : α → β} {b : β} (h : Except.map f x = .ok b) :
    ∃ a, x = .ok a ∧ b = f a := by
  cases x with
  | error e => simp [Except.map] at h
  | ok a => simp [Except.map] at h; exact ⟨a, rfl, h.symm⟩

theorem fieldsOf_object {s : Schema} {i o} (h : s.objects[i]? = some o) : fieldsOf s (.object i) = o.fields := by
  simp [fieldsOf, h]
theorem fieldsOf_interface {s : Schema} {i o} (h : s.interfaces[i]? = some o) : fieldsOf s (.interface i) = o.fields := by
  simp [fieldsOf, h]

theorem isEmpty_nil {α} {l : List α} (h : l.isEmpty = true) : l = [] := by
  cases l <;> simp_all

mutual
  theorem objSel_corr (s : Schema) (q : Query) (p : TypeId) (pname : String) :
      ∀ (x : QSel) (r : Sel), resolveObjectSel s q pname (fieldsOf s p) x = .ok r → Corr s q.findFragment p x r
    | .field alias name sub, r, h => by
      unfold resolveObjectSel at h
      split at h
      · rename_i hn
        split at h
        · simp [fail'] at h
        · rename_i he
          simp only [pure, Except.pure, Except.ok.injEq] at h
          subst h
          have : sub = [] := isEmpty_nil (by simpa using he)
          subst this
          exact .typename (by simpa [typenameField] using hn)
      · rename_i hn
        have hn' : name ≠ "__typename" := by simpa [typenameField] using hn
        split at h
        · simp at h
        · simp [fail'] at h
        · rename_i fid sf hg
          obtain ⟨hfind, hfid⟩ := getFieldByName_some hg
          have hl : Valid.lookupField s p name = some sf := by rw [lookupField_eq]; exact hfind
          split at h
          · rename_i oid hty
            cases hO : s.getObject oid with
            | error e => simp [hO] at h
            | ok o =>
              simp only [hO] at h
              obtain ⟨rs, hrs, rfl⟩ := map_ok h
              rw [← fieldsOf_object (getObject_ok hO)] at hrs
              exact .field hn' hl hfid (by simp [hty, Valid.isComposite]) (hty ▸ objSels_corr s q _ _ sub rs hrs)
          · rename_i iid hty
            cases hO : s.getInterface iid with
            | error e => simp [hO] at h
            | ok o =>
              simp only [hO] at h
              obtain ⟨rs, hrs, rfl⟩ := map_ok h
              rw [← fieldsOf_interface (getInterface_ok hO)] at hrs
              exact .field hn' hl hfid (by simp [hty, Valid.isComposite]) (hty ▸ objSels_corr s q _ _ sub rs hrs)
          · rename_i uid hty
            obtain ⟨rs, hrs, rfl⟩ := map_ok h
            exact .field hn' hl hfid (by simp [hty, Valid.isComposite]) (unionSels_corr s q _ sub rs hrs)
          · split at h
            · rename_i he
              simp only [pure, Except.pure, Except.ok.injEq] at h
              subst h
              have : sub = [] := isEmpty_nil he
              subst this
              exact .field hn' hl hfid (fun _ => rfl) .nil
            · simp [fail'] at h
    | .inline on sub, r, h => by
      unfold resolveObjectSel at h
      split at h
      · simp [panic'] at h
      · rename_i on
        split at h
        · simp [fail'] at h
        · rename_i t ht
          split at h
          · rename_i oid
            cases hO : s.getObject oid with
            | error e => simp [hO] at h
            | ok o =>
              simp only [hO] at h
              obtain ⟨rs, hrs, rfl⟩ := map_ok h
              rw [← fieldsOf_object (getObject_ok hO)] at hrs
              exact .inline ht (by simp [Valid.isComposite]) (objSels_corr s q _ _ sub rs hrs)
          · rename_i iid
            cases hO : s.getInterface iid with
            | error e => simp [hO] at h
            | ok o =>
              simp only [hO] at h
              obtain ⟨rs, hrs, rfl⟩ := map_ok h
              rw [← fieldsOf_interface (getInterface_ok hO)] at hrs
              exact .inline ht (by simp [Valid.isComposite]) (objSels_corr s q _ _ sub rs hrs)
          · rename_i uid
            obtain ⟨rs, hrs, rfl⟩ := map_ok h
            exact .inline ht (by simp [Valid.isComposite]) (unionSels_corr s q _ sub rs hrs)
          · split at h
            · rename_i he
              simp only [pure, Except.pure, Except.ok.injEq] at h
              subst h
              have : sub = [] := isEmpty_nil he
              subst this
              exact .inline ht (fun _ => rfl) .nil
            · simp [fail'] at h
    | .spread name, r, h => by
      unfold resolveObjectSel at h
      split at h
      · simp [fail'] at h
      · rename_i fid hf
        simp only [pure, Except.pure, Except.ok.injEq] at h
        subst h
        exact .spread hf
  theorem objSels_corr (s : Schema) (q : Query) (p : TypeId) (pname : String) :
      ∀ (xs : List QSel) (rs : List Sel), resolveObjectSels s q pname (fieldsOf s p) xs = .ok rs →
        CorrL s q.findFragment p xs rs
    | [], rs, h => by
      unfold resolveObjectSels at h
      simp only [pure, Except.pure, Except.ok.injEq] at h
      subst h; exact .nil
    | x :: xs, rs, h => by
      unfold resolveObjectSels at h
      split at h
      · simp at h
      · rename_i a ha
        obtain ⟨rs', hrs', rfl⟩ := map_ok h
        exact .cons (objSel_corr s q p pname x a ha) (objSels_corr s q p pname xs rs' hrs')
  theorem unionSel_corr (s : Schema) (q : Query) (p : TypeId) :
      ∀ (x : QSel) (r : Sel), resolveUnionSel s q x = .ok r → Corr s q.findFragment p x r
    | .field alias name sub, r, h => by
      unfold resolveUnionSel at h
      split at h
      · rename_i hn
        split at h
        · simp [fail'] at h
        · rename_i he
          simp only [pure, Except.pure, Except.ok.injEq] at h
          subst h
          have : sub = [] := isEmpty_nil (by simpa using he)
          subst this
          exact .typename (by simpa [typenameField] using hn)
      · simp [fail'] at h
    | .inline on sub, r, h => by
      unfold resolveUnionSel at h
      split at h
      · simp [panic'] at h
      · rename_i on
        split at h
        · simp [fail'] at h
        · rename_i t ht
          split at h
          · rename_i oid
            cases hO : s.getObject oid with
            | error e => simp [hO] at h
            | ok o =>
              simp only [hO] at h
              obtain ⟨rs, hrs, rfl⟩ := map_ok h
              rw [← fieldsOf_object (getObject_ok hO)] at hrs
              exact .inline ht (by simp [Valid.isComposite]) (objSels_corr s q _ _ sub rs hrs)
          · rename_i iid
            cases hO : s.getInterface iid with
            | error e => simp [hO] at h
            | ok o =>
              simp only [hO] at h
              obtain ⟨rs, hrs, rfl⟩ := map_ok h
              rw [← fieldsOf_interface (getInterface_ok hO)] at hrs
              exact .inline ht (by simp [Valid.isComposite]) (objSels_corr s q _ _ sub rs hrs)
          · rename_i uid
            obtain ⟨rs, hrs, rfl⟩ := map_ok h
            exact .inline ht (by simp [Valid.isComposite]) (unionSels_corr s q _ sub rs hrs)
          · split at h
            · rename_i he
              simp only [pure, Except.pure, Except.ok.injEq] at h
              subst h
              have : sub = [] := isEmpty_nil he
              subst this
              exact .inline ht (fun _ => rfl) .nil
            · simp [fail'] at h
    | .spread name, r, h => by
      unfold resolveUnionSel at h
      split at h
      · simp [fail'] at h
      · rename_i fid hf
        simp only [pure, Except.pure, Except.ok.injEq] at h
        subst h
        exact .spread hf
  theorem unionSels_corr (s : Schema) (q : Query) (p : TypeId) :
      ∀ (xs : List QSel) (rs : List Sel), resolveUnionSels s q xs = .ok rs → CorrL s q.findFragment p xs rs
    | [], rs, h => by
      unfold resolveUnionSels at h
      simp only [pure, Except.pure, Except.ok.injEq] at h
      subst h; exact .nil
    | x :: xs, rs, h => by
      unfold resolveUnionSels at h
      split at h
      · simp at h
      · rename_i a ha
        obtain ⟨rs', hrs', rfl⟩ := map_ok h
        exact .cons (unionSel_corr s q p x a ha) (unionSels_corr s q p xs rs' hrs')
end

theorem bind_ok {α β} {x : Outcome α} {f : α → Outcome β} {b : β} (h : (x >>= f) = .ok b) :
    ∃ a, x = .ok a ∧ f a = .ok b := by
  cases x with
  | error e => simp [bind, Except.bind] at h
  | ok a => exact ⟨a, rfl, by simpa [bind, Except.bind] using h⟩

theorem typeConditions_field {s : Schema} {q : Query} {p a fid sub}
    (h : typeConditions s q p (.field a fid sub) = .ok ()) :
    ∃ f, s.fields[fid]? = some f ∧ typeConditionsList s q f.ty.id sub = .ok () := by
  unfold typeConditions at h
  obtain ⟨f, hf, h⟩ := bind_ok h
  exact ⟨f, C06.getField_ok hf, h⟩

theorem typeConditions_inline {s : Schema} {q : Query} {p t sub}
    (h : typeConditions s q p (.inline t sub) = .ok ()) :
    conditionOk s p t = .ok true ∧ typeConditionsList s q t sub = .ok () := by
  unfold typeConditions at h
  obtain ⟨b, hb, h⟩ := bind_ok h
  cases b with
  | false => simp [fail', bind, Except.bind] at h
  | true => exact ⟨hb, by simpa using h⟩

theorem typeConditions_spread {s : Schema} {q : Query} {p fid}
    (h : typeConditions s q p (.spread fid) = .ok ()) :
    ∃ f, q.fragments[fid]? = some f ∧ conditionOk s p f.on = .ok true := by
  unfold typeConditions at h
  obtain ⟨f, hf, h⟩ := bind_ok h
  obtain ⟨b, hb, h⟩ := bind_ok h
  have hf' : q.fragments[fid]? = some f := by
    unfold Query.getFragment at hf; split at hf <;> simp_all [pure, Except.pure, panic']
  cases b with
  | false => simp [fail'] at h
  | true => exact ⟨f, hf', hb⟩

theorem typeConditionsList_cons {s : Schema} {q : Query} {p x xs}
    (h : typeConditionsList s q p (x :: xs) = .ok ()) :
    typeConditions s q p x = .ok () ∧ typeConditionsList s q p xs = .ok () := by
  unfold typeConditionsList at h
  obtain ⟨u, hu, h⟩ := bind_ok h
  exact ⟨hu, h⟩

theorem fht_field {s : Schema} {q : Query} {a fid sub}
    (h : fieldsHaveTypename s q (.field a fid sub) = .ok ()) :
    ∃ f, s.fields[fid]? = some f ∧ (f.ty.id.isAbstract = true → containsTypename q f.ty.id sub = true) ∧
      fieldsHaveTypenameList s q sub = .ok () := by
  unfold fieldsHaveTypename at h
  obtain ⟨f, hf, h⟩ := bind_ok h
  refine ⟨f, C06.getField_ok hf, ?_⟩
  split at h
  · simp [fail'] at h
  · rename_i hc
    refine ⟨?_, h⟩
    intro ha
    cases hct : containsTypename q f.ty.id sub <;> simp_all

theorem fht_inline {s : Schema} {q : Query} {t sub}
    (h : fieldsHaveTypename s q (.inline t sub) = .ok ()) : fieldsHaveTypenameList s q sub = .ok () := by
  unfold fieldsHaveTypename at h; exact h

theorem fhtList_cons {s : Schema} {q : Query} {x xs}
    (h : fieldsHaveTypenameList s q (x :: xs) = .ok ()) :
    fieldsHaveTypename s q x = .ok () ∧ fieldsHaveTypenameList s q xs = .ok () := by
  unfold fieldsHaveTypenameList at h
  obtain ⟨u, hu, h⟩ := bind_ok h
  exact ⟨hu, h⟩

/-- the resolved fragment table `qF.fragments` corresponds, index by index, to the document's fragment
    table `ft`: a spread name resolves (through `ff`) to the index of the fragment that `Valid.findFrag`
    finds, the `on` type is the one the schema gives to the written name, and the stored selection is
    the resolved form of the written one. -/
structure TableOk (s : Schema) (ff : String → Option Nat) (ft : List (String × String × List QSel))
    (qF : Query) : Prop where
  len : qF.fragments.length = ft.length
  find : ∀ n fid, ff n = some fid → ∃ f on fsels, qF.fragments[fid]? = some f ∧
    Valid.findFrag ft n = some (on, fsels) ∧ s.findType on = some f.on ∧ CorrL s ff f.on fsels f.sels

theorem CorrL.mem_right {s ff p} : ∀ {xs rs}, CorrL s ff p xs rs → ∀ r ∈ rs, ∃ x ∈ xs, Corr s ff p x r
  | _, _, .nil, r, hr => by simp at hr
  | _, _, .cons hx hxs, r, hr => by
    rcases List.mem_cons.mp hr with rfl | hr
    · exact ⟨_, List.mem_cons_self, hx⟩
    · obtain ⟨x, hx', hc⟩ := CorrL.mem_right hxs r hr
      exact ⟨x, List.mem_cons_of_mem _ hx', hc⟩

theorem hasTypename_of_contains {s ff ft qF} (htab : TableOk s ff ft qF) (t : TypeId) :
    ∀ (fuel : Nat) (V : List Nat) (p : TypeId) (xs : List QSel) (rs : List Sel), CorrL s ff p xs rs →
      containsTypenameAux qF t fuel V rs = true → Valid.hasTypename s ft t fuel xs = true := by
  intro fuel
  induction fuel with
  | zero => intro V p xs rs _ h; simp [containsTypenameAux] at h
  | succ n ih =>
    intro V p xs rs hc h
    unfold containsTypenameAux at h
    rw [List.any_eq_true] at h
    obtain ⟨r, hmem, hr⟩ := h
    obtain ⟨x, hx, hxr⟩ := hc.mem_right r hmem
    unfold Valid.hasTypename
    rw [List.any_eq_true]
    refine ⟨x, hx, ?_⟩
    cases hxr with
    | typename hn => simp [hn]
    | field => simp at hr
    | inline => simp at hr
    | spread hff =>
      rename_i nm fid
      obtain ⟨f, on, fsels, hf, hfind, hon, hcf⟩ := htab.find _ _ hff
      simp only at hr
      split at hr
      · simp at hr
      · simp only [hf, Bool.and_eq_true, beq_iff_eq] at hr
        simp only [hfind, hon, Bool.and_eq_true, beq_iff_eq]
        refine ⟨by rw [hr.1], ih (fid :: V) _ _ _ hcf ?_⟩
        rw [← hr.1]; exact hr.2

theorem applicable_composite {s : Schema} {p t : TypeId} (hp : Valid.isComposite p = true)
    (h : Valid.applicable s p t = true) : Valid.isComposite t = true := by
  unfold Valid.applicable at h
  rcases Bool.or_eq_true_iff.mp h with h | h
  · rw [← beq_iff_eq.mp h]; exact hp
  · rw [List.any_eq_true] at h
    obtain ⟨o, _, ho⟩ := h
    cases t <;> simp_all [Valid.possibleTypes, Valid.isComposite]

mutual
  theorem validSel_of {s : Schema} {ff ft qF} (hs : C06.UnionsOfObjects s) (htab : TableOk s ff ft qF) :
      ∀ (x : QSel) (p : TypeId) (r : Sel), Corr s ff p x r → Valid.isComposite p = true →
        typeConditions s qF p r = .ok () → fieldsHaveTypename s qF r = .ok () →
        Valid.validSel s ft false p x = true
    | .field alias name sub, p, r, hc, hp, htc, hft => by
      cases hc with
      | typename hn => unfold Valid.validSel; simp [hn]
      | field hn hl hfid hleaf hsub =>
        rename_i fid f rs
        unfold Valid.validSel
        simp only [beq_iff_eq, hn, if_false, hl]
        obtain ⟨f1, hf1, htc'⟩ := typeConditions_field htc
        obtain ⟨f2, hf2, hab, hft'⟩ := fht_field hft
        have e1 : f1 = f := by rw [hfid] at hf1; exact (Option.some.inj hf1).symm
        have e2 : f2 = f := by rw [hfid] at hf2; exact (Option.some.inj hf2).symm
        subst e1; subst e2
        cases hcomp : Valid.isComposite f2.ty.id with
        | false => simp [hleaf hcomp]
        | true =>
          simp only [if_true, Bool.not_false, Bool.true_or, Bool.true_and, Bool.and_eq_true,
            Bool.or_eq_true, Bool.not_eq_true']
          refine ⟨validSels_of hs htab sub _ rs hsub hcomp htc' hft', ?_⟩
          cases ha : f2.ty.id.isAbstract with
          | false => exact Or.inl rfl
          | true =>
            right
            have := hab ha
            unfold containsTypename at this
            rw [htab.len] at this
            exact hasTypename_of_contains htab _ _ _ _ _ _ hsub this
    | .inline on sub, p, r, hc, hp, htc, hft => by
      cases hc with
      | inline ht hleaf hsub =>
        rename_i on t rs
        unfold Valid.validSel
        simp only [ht]
        obtain ⟨hcond, htc'⟩ := typeConditions_inline htc
        have happ := C06.condition_check_sound s hs p t hp hcond
        have hct := applicable_composite hp happ
        simp only [hct, happ, Bool.true_and]
        exact validSels_of hs htab sub _ rs hsub hct htc' (fht_inline hft)
    | .spread n, p, r, hc, hp, htc, hft => by
      cases hc with
      | spread hff =>
        rename_i fid
        unfold Valid.validSel
        obtain ⟨f, on, fsels, hf, hfind, hon, _⟩ := htab.find _ _ hff
        obtain ⟨f', hf', hcond⟩ := typeConditions_spread htc
        have e : f' = f := by rw [hf] at hf'; exact (Option.some.inj hf').symm
        subst e
        simp only [hfind, hon]
        exact C06.condition_check_sound s hs p _ hp hcond
  theorem validSels_of {s : Schema} {ff ft qF} (hs : C06.UnionsOfObjects s) (htab : TableOk s ff ft qF) :
      ∀ (xs : List QSel) (p : TypeId) (rs : List Sel), CorrL s ff p xs rs → Valid.isComposite p = true →
        typeConditionsList s qF p rs = .ok () → fieldsHaveTypenameList s qF rs = .ok () →
        Valid.validSels s ft false p xs = true
    | [], _, _, _, _, _, _ => by unfold Valid.validSels; rfl
    | x :: xs, p, rs, hc, hp, htc, hft => by
      cases hc with
      | cons hx hxs =>
        rename_i r rs
        unfold Valid.validSels
        obtain ⟨h1, h2⟩ := typeConditionsList_cons htc
        obtain ⟨g1, g2⟩ := fhtList_cons hft
        rw [validSel_of hs htab x p r hx hp h1 g1, validSels_of hs htab xs p rs hxs hp h2 g2]
        rfl
end

theorem resolveSelection_corr {s : Schema} {q : Query} {t : TypeId} {sels : List QSel} {rs : List Sel}
    (h : resolveSelection s q t sels = .ok rs) :
    CorrL s q.findFragment t sels rs ∧ (Valid.isComposite t = false → sels = []) := by
  unfold resolveSelection at h
  split at h
  · obtain ⟨o, ho, h⟩ := bind_ok h
    rw [← fieldsOf_object (getObject_ok ho)] at h
    exact ⟨objSels_corr s q _ _ sels rs h, by simp [Valid.isComposite]⟩
  · obtain ⟨o, ho, h⟩ := bind_ok h
    rw [← fieldsOf_interface (getInterface_ok ho)] at h
    exact ⟨objSels_corr s q _ _ sels rs h, by simp [Valid.isComposite]⟩
  · exact ⟨unionSels_corr s q _ sels rs h, by simp [Valid.isComposite]⟩
  · split at h
    · rename_i he
      have := isEmpty_nil he
      subst this
      simp only [pure, Except.pure, Except.ok.injEq] at h
      subst h
      exact ⟨.nil, fun _ => rfl⟩
    · simp [fail'] at h

theorem resolveDef_frag {s : Schema} {q q' : Query} {n on sels}
    (h : resolveDef s q (.frag n on sels) = .ok q') :
    ∃ t id f rs, s.findType on = some t ∧ q.findFragment n = some id ∧ q.fragments[id]? = some f ∧
      resolveSelection s q t sels = .ok rs ∧
      q' = { q with fragments := q.fragments.set id { f with sels := f.sels ++ rs } } := by
  simp only [resolveDef] at h
  split at h
  · simp [fail'] at h
  · rename_i t ht
    split at h
    · simp [fail'] at h
    · rename_i id hid
      obtain ⟨rs, hrs, h⟩ := bind_ok h
      split at h
      · simp [panic'] at h
      · rename_i f hf
        simp only [pure, Except.pure, Except.ok.injEq] at h
        exact ⟨t, id, f, rs, ht, hid, hf, hrs, h.symm⟩

theorem resolveDef_op_core {s : Schema} {q q' : Query} {vars sels} {root id}
    (h : (do
        let o ← s.getObject root
        let vs ← resolveVariables s id vars
        let rs ← resolveObjectSels s { q with variables := q.variables ++ vs } o.name o.fields sels
        match q.operations[id]? with
        | none => panic' "get operation"
        | some op => pure { q with variables := q.variables ++ vs,
                                   operations := q.operations.set id { op with sels := op.sels ++ rs } } : Outcome Query)
        = .ok q') :
    ∃ o vs rs op, s.objects[root]? = some o ∧ q.operations[id]? = some op ∧
      resolveObjectSels s { q with variables := q.variables ++ vs } o.name o.fields sels = .ok rs ∧
      q' = { q with variables := q.variables ++ vs,
                    operations := q.operations.set id { op with sels := op.sels ++ rs } } := by
  obtain ⟨o, ho, h⟩ := bind_ok h
  obtain ⟨vs, hvs, h⟩ := bind_ok h
  obtain ⟨rs, hrs, h⟩ := bind_ok h
  split at h
  · simp [panic'] at h
  · rename_i op hop
    simp only [pure, Except.pure, Except.ok.injEq] at h
    exact ⟨o, vs, rs, op, getObject_ok ho, hop, hrs, h.symm⟩

theorem resolveDef_op {s : Schema} {q q' : Query} {kind name vars sels}
    (h : resolveDef s q (.op kind name vars sels) = .ok q') :
    ∃ root o n id vs rs op, Valid.rootOf s kind = some root ∧ s.objects[root]? = some o ∧ name = some n ∧
      q.findOperation n = some id ∧ q.operations[id]? = some op ∧
      resolveObjectSels s { q with variables := q.variables ++ vs } o.name o.fields sels = .ok rs ∧
      q' = { q with variables := q.variables ++ vs,
                    operations := q.operations.set id { op with sels := op.sels ++ rs } } := by
  simp only [resolveDef] at h
  cases name with
  | none =>
    cases kind <;> simp only at h
    · obtain ⟨_, _, h⟩ := bind_ok h
      obtain ⟨_, _, h⟩ := bind_ok h
      obtain ⟨_, hp, _⟩ := bind_ok h
      simp [panic'] at hp
    · split at h
      · obtain ⟨_, _, h⟩ := bind_ok h
        obtain ⟨_, _, h⟩ := bind_ok h
        obtain ⟨_, hp, _⟩ := bind_ok h
        simp [panic'] at hp
      · simp [fail', bind, Except.bind] at h
    · split at h
      · obtain ⟨_, _, h⟩ := bind_ok h
        obtain ⟨_, _, h⟩ := bind_ok h
        obtain ⟨_, hp, _⟩ := bind_ok h
        simp [panic'] at hp
      · simp [fail', bind, Except.bind] at h
  | some n =>
    cases hfo : q.findOperation n with
    | none =>
      simp only [pure_bind, hfo] at h
      cases kind <;> simp only at h
      · obtain ⟨_, _, h⟩ := bind_ok h
        obtain ⟨_, _, h⟩ := bind_ok h
        obtain ⟨_, hp, _⟩ := bind_ok h
        simp [panic'] at hp
      · split at h
        · obtain ⟨_, _, h⟩ := bind_ok h
          obtain ⟨_, hp, _⟩ := bind_ok h
          simp [panic'] at hp
        · simp [fail', bind, Except.bind] at h
      · split at h
        · obtain ⟨_, _, h⟩ := bind_ok h
          obtain ⟨_, hp, _⟩ := bind_ok h
          simp [panic'] at hp
        · simp [fail', bind, Except.bind] at h
    | some id =>
      simp only [pure_bind, hfo] at h
      cases kind <;> simp only at h
      · cases hq : s.queryType with
        | none => simp [Schema.queryTypeOrPanic, hq, panic', bind, Except.bind] at h
        | some root =>
          simp only [Schema.queryTypeOrPanic, hq, pure_bind] at h
          obtain ⟨o, vs, rs, op, h1, h2, h3, h4⟩ := resolveDef_op_core (root := root) h
          exact ⟨root, o, n, id, vs, rs, op, by simp [Valid.rootOf, hq], h1, rfl, hfo, h2, h3, h4⟩
      · cases hq : s.mutationType with
        | none => simp [hq, fail', bind, Except.bind] at h
        | some root =>
          simp only [hq] at h
          obtain ⟨o, vs, rs, op, h1, h2, h3, h4⟩ := resolveDef_op_core (root := root) h
          exact ⟨root, o, n, id, vs, rs, op, by simp [Valid.rootOf, hq], h1, rfl, hfo, h2, h3, h4⟩
      · cases hq : s.subscriptionType with
        | none => simp [hq, fail', bind, Except.bind] at h
        | some root =>
          simp only [hq] at h
          obtain ⟨o, vs, rs, op, h1, h2, h3, h4⟩ := resolveDef_op_core (root := root) h
          exact ⟨root, o, n, id, vs, rs, op, by simp [Valid.rootOf, hq], h1, rfl, hfo, h2, h3, h4⟩

/-- what one step of `create_roots` does for one definition -/
def RootStep (s : Schema) (q q1 : Query) : QDef → Prop
  | .frag n on _ => ∃ t, s.findType on = some t ∧ q.findFragment n = none ∧
      q1 = { q with fragments := q.fragments ++ [{ name := n, on := t, sels := [] }] }
  | .op kind name _ sels => ∃ n root, name = some n ∧ Valid.rootOf s kind = some root ∧
      q.findOperation n = none ∧ (kind = .subscription → sels.length = 1) ∧
      q1 = { q with operations := q.operations ++ [{ name := n, kind := kind, objectId := root, sels := [] }] }
  | .selset _ => False

theorem isSome_false {α} {o : Option α} (h : ¬ o.isSome = true) : o = none := by
  cases o <;> simp_all

theorem createRoots_cons {s : Schema} {x : QDef} {rest : QDoc} {q q' : Query}
    (h : createRoots s (x :: rest) q = .ok q') :
    ∃ q1, RootStep s q q1 x ∧ createRoots s rest q1 = .ok q' := by
  cases x with
  | frag n on sels =>
    simp only [createRoots] at h
    split at h
    · simp [fail'] at h
    · rename_i hnone
      split at h
      · simp [fail'] at h
      · rename_i t ht
        exact ⟨_, ⟨t, ht, isSome_false hnone, rfl⟩, h⟩
  | selset sels => simp [createRoots, fail'] at h
  | op kind name vars sels =>
    cases name with
    | none =>
      cases kind <;> simp only [createRoots] at h
      · obtain ⟨_, _, h⟩ := bind_ok h
        simp [panic'] at h
      · split at h <;> simp [fail', panic'] at h
      · split at h
        · simp [fail'] at h
        · split at h <;> simp [fail', panic'] at h
    | some n =>
    cases kind with
    | query =>
      simp only [createRoots] at h
      obtain ⟨root, hroot, h⟩ := bind_ok h
      have hroot' : Valid.rootOf s .query = some root := by
        unfold Schema.queryTypeOrPanic at hroot
        split at hroot <;> simp_all [pure, Except.pure, panic', Valid.rootOf]
      split at h
      · simp [fail'] at h
      · rename_i hnone
        exact ⟨_, ⟨n, root, rfl, hroot', isSome_false hnone, by simp, rfl⟩, h⟩
    | mutation =>
      simp only [createRoots] at h
      split at h
      · simp [fail'] at h
      · rename_i root hroot
        split at h
        · simp [fail'] at h
        · rename_i hnone
          exact ⟨_, ⟨n, root, rfl, by simpa [Valid.rootOf] using hroot, isSome_false hnone, by simp, rfl⟩, h⟩
    | subscription =>
      simp only [createRoots] at h
      split at h
      · simp [fail'] at h
      · rename_i root hroot
        split at h
        · simp [fail'] at h
        · rename_i hlen
          split at h
          · simp [fail'] at h
          · rename_i hnone
            exact ⟨_, ⟨n, root, rfl, by simpa [Valid.rootOf] using hroot, isSome_false hnone,
              fun _ => by simpa using hlen, rfl⟩, h⟩

def fnames (q : Query) : List String := q.fragments.map (·.name)
def onames (q : Query) : List String := q.operations.map (·.name)
/-- `Query.find_fragment` / `find_operation` as a function of the list of names only -/
def ffOf (names : List String) (n : String) : Option Nat := names.findIdx? (· == n)

theorem findFragment_eq (q : Query) : q.findFragment = ffOf (fnames q) := by
  funext n; simp [Query.findFragment, ffOf, fnames, List.findIdx?_map, Function.comp_def]
theorem findOperation_eq (q : Query) : q.findOperation = ffOf (onames q) := by
  funext n; simp [Query.findOperation, ffOf, onames, List.findIdx?_map, Function.comp_def]

theorem ffOf_none {names : List String} {n : String} (h : ffOf names n = none) : n ∉ names := by
  unfold ffOf at h
  rw [List.findIdx?_eq_none_iff] at h
  intro hm
  simpa using h n hm

theorem ffOf_some {names : List String} {n : String} {i : Nat} (h : ffOf names n = some i) :
    names[i]? = some n := by
  unfold ffOf at h
  rw [List.findIdx?_eq_some_iff_getElem] at h
  obtain ⟨hlt, hp, _⟩ := h
  rw [List.getElem?_eq_getElem hlt]
  simpa using hp

theorem ffOf_of_nodup {names : List String} {n : String} {i : Nat} (hnd : names.Nodup)
    (h : names[i]? = some n) : ffOf names n = some i := by
  unfold ffOf
  rw [List.findIdx?_eq_some_iff_getElem]
  obtain ⟨hlt, hi⟩ := List.getElem?_eq_some_iff.mp h
  refine ⟨hlt, by simp [hi], ?_⟩
  intro j hji hj
  have hj' : names[j] = n := by simpa using hj
  have := (List.pairwise_iff_getElem.mp hnd) j i (by omega) hlt hji
  exact this (hj'.trans hi.symm)

/-- the part of `q'` that `create_roots` added for the document `d` -/
structure RootsOk (s : Schema) (d : QDoc) (q q' : Query) : Prop where
  fnames : fnames q' = fnames q ++ Valid.fragNames d
  onames : onames q' = onames q ++ Valid.opNames d
  fnodup : (C06Sound.fnames q).Nodup → (C06Sound.fnames q').Nodup
  onodup : (C06Sound.onames q).Nodup → (C06Sound.onames q').Nodup
  fnew : ∀ f ∈ q'.fragments, f ∈ q.fragments ∨ f.sels = []
  onew : ∀ o ∈ q'.operations, o ∈ q.operations ∨ o.sels = []
  fmono : ∀ f ∈ q.fragments, f ∈ q'.fragments
  omono : ∀ o ∈ q.operations, o ∈ q'.operations
  frag : ∀ n on sels, QDef.frag n on sels ∈ d → ∃ t, s.findType on = some t ∧
    ({ name := n, on := t, sels := [] } : RFragment) ∈ q'.fragments
  op : ∀ kind name vars sels, QDef.op kind name vars sels ∈ d → ∃ n root, name = some n ∧
    Valid.rootOf s kind = some root ∧ (kind = .subscription → sels.length = 1) ∧
    ({ name := n, kind := kind, objectId := root, sels := [] } : ROperation) ∈ q'.operations
  noselset : ∀ sels, QDef.selset sels ∉ d

theorem createRoots_ok (s : Schema) : ∀ (d : QDoc) (q q' : Query), createRoots s d q = .ok q' → RootsOk s d q q'
  | [], q, q', h => by
    simp only [createRoots, pure, Except.pure, Except.ok.injEq] at h
    subst h
    constructor <;> first | simp [Valid.fragNames, Valid.opNames] | exact fun _ h => Or.inl h
  | x :: rest, q, q', h => by
    obtain ⟨q1, hstep, hrest⟩ := createRoots_cons h
    have ih := createRoots_ok s rest q1 q' hrest
    cases x with
    | selset sels => exact hstep.elim
    | frag n on sels =>
      obtain ⟨t, ht, hnone, rfl⟩ := hstep
      have hf1 : fnames { q with fragments := q.fragments ++ [{ name := n, on := t, sels := [] }] } = fnames q ++ [n] := by
        simp [fnames]
      constructor
      · rw [ih.fnames, hf1]; simp [Valid.fragNames]
      · rw [ih.onames]; simp [Valid.opNames, onames]
      · intro hnd
        apply ih.fnodup
        rw [hf1, List.nodup_append]
        rw [findFragment_eq] at hnone
        refine ⟨hnd, by simp, ?_⟩
        intro a ha b hb
        simp at hb; subst hb
        intro hab; subst hab
        exact ffOf_none hnone ha
      · intro hnd; exact ih.onodup hnd
      · intro f hf
        rcases ih.fnew f hf with h1 | h1
        · simp at h1
          rcases h1 with h1 | h1
          · exact Or.inl h1
          · right; rw [h1]
        · exact Or.inr h1
      · intro o ho; exact ih.onew o ho
      · intro f hf; exact ih.fmono f (by simp [hf])
      · intro o ho; exact ih.omono o ho
      · intro n' on' sels' hm
        rcases List.mem_cons.mp hm with heq | hm
        · cases heq
          exact ⟨t, ht, ih.fmono _ (by simp)⟩
        · exact ih.frag _ _ _ hm
      · intro kind name vars sels' hm
        rcases List.mem_cons.mp hm with heq | hm
        · cases heq
        · exact ih.op _ _ _ _ hm
      · intro sels' hm
        rcases List.mem_cons.mp hm with heq | hm
        · cases heq
        · exact ih.noselset _ hm
    | op kind name vars sels =>
      obtain ⟨n, root, rfl, hroot, hnone, hsub, rfl⟩ := hstep
      have hf1 : onames { q with operations := q.operations ++ [{ name := n, kind := kind, objectId := root, sels := [] }] } = onames q ++ [n] := by
        simp [onames]
      constructor
      · rw [ih.fnames]; simp [Valid.fragNames, fnames]
      · rw [ih.onames, hf1]; simp [Valid.opNames]
      · intro hnd; exact ih.fnodup hnd
      · intro hnd
        apply ih.onodup
        rw [hf1, List.nodup_append]
        rw [findOperation_eq] at hnone
        refine ⟨hnd, by simp, ?_⟩
        intro a ha b hb
        simp at hb; subst hb
        intro hab; subst hab
        exact ffOf_none hnone ha
      · intro f hf; exact ih.fnew f hf
      · intro o ho
        rcases ih.onew o ho with h1 | h1
        · simp at h1
          rcases h1 with h1 | h1
          · exact Or.inl h1
          · right; rw [h1]
        · exact Or.inr h1
      · intro f hf; exact ih.fmono f hf
      · intro o ho; exact ih.omono o (by simp [ho])
      · intro n' on' sels' hm
        rcases List.mem_cons.mp hm with heq | hm
        · cases heq
        · exact ih.frag _ _ _ hm
      · intro kind' name' vars' sels' hm
        rcases List.mem_cons.mp hm with heq | hm
        · cases heq
          exact ⟨n, root, rfl, hroot, hsub, ih.omono _ (by simp)⟩
        · exact ih.op _ _ _ _ hm
      · intro sels' hm
        rcases List.mem_cons.mp hm with heq | hm
        · cases heq
        · exact ih.noselset _ hm

theorem mem_fragNames {d : QDoc} {n on sels} (h : QDef.frag n on sels ∈ d) : n ∈ Valid.fragNames d := by
  unfold Valid.fragNames
  rw [List.mem_filterMap]
  exact ⟨_, h, rfl⟩
theorem mem_opNames {d : QDoc} {k n v sels} (h : QDef.op k (some n) v sels ∈ d) : n ∈ Valid.opNames d := by
  unfold Valid.opNames
  rw [List.mem_filterMap]
  exact ⟨_, h, rfl⟩

theorem set_map_self {α β} (g : α → β) (l : List α) (i : Nat) (a b : α) (h : l[i]? = some a) (hg : g b = g a) :
    (l.set i b).map g = l.map g := by
  apply List.ext_getElem?
  intro j
  simp only [List.getElem?_map, List.getElem?_set]
  split
  · rename_i hij; subst hij
    obtain ⟨hlt, hi⟩ := List.getElem?_eq_some_iff.mp h
    simp [hlt, hi, hg]
  · rfl

/-- what the fold of `resolve_fragment` / `resolve_operation` over (a suffix of) the document does -/
structure FoldOk (s : Schema) (rest : QDoc) (q qF : Query) : Prop where
  fnames_eq : fnames qF = fnames q
  onames_eq : onames qF = onames q
  fkeep : ∀ i : Nat, (∀ n on sels, QDef.frag n on sels ∈ rest → (fnames q)[i]? ≠ some n) →
    qF.fragments[i]? = q.fragments[i]?
  okeep : ∀ i : Nat, (∀ k n v sels, QDef.op k (some n) v sels ∈ rest → (onames q)[i]? ≠ some n) →
    qF.operations[i]? = q.operations[i]?
  frag : ∀ n on sels, QDef.frag n on sels ∈ rest → ∃ t id f0 rs, s.findType on = some t ∧
    ffOf (fnames q) n = some id ∧ q.fragments[id]? = some f0 ∧
    qF.fragments[id]? = some { f0 with sels := f0.sels ++ rs } ∧
    CorrL s (ffOf (fnames q)) t sels rs ∧ (Valid.isComposite t = false → sels = [])
  op : ∀ kind name vars sels, QDef.op kind name vars sels ∈ rest → ∃ n root o id op0 rs, name = some n ∧
    Valid.rootOf s kind = some root ∧ s.objects[root]? = some o ∧
    ffOf (onames q) n = some id ∧ q.operations[id]? = some op0 ∧
    qF.operations[id]? = some { op0 with sels := op0.sels ++ rs } ∧
    CorrL s (ffOf (fnames q)) (.object root) sels rs

theorem fold_ok (s : Schema) : ∀ (rest : QDoc) (q qF : Query), rest.foldlM (resolveDef s) q = .ok qF →
    (Valid.fragNames rest).Nodup → (Valid.opNames rest).Nodup → FoldOk s rest q qF
  | [], q, qF, h, _, _ => by
    simp only [List.foldlM_nil, pure, Except.pure, Except.ok.injEq] at h
    subst h
    constructor <;> simp
  | x :: rest, q, qF, h, hfn, hon => by
    rw [List.foldlM_cons] at h
    obtain ⟨q1, hstep, hrest⟩ := bind_ok h
    cases x with
    | selset sels => simp [resolveDef, panic'] at hstep
    | frag n on sels =>
      obtain ⟨t, id, f, rs, ht, hid, hf, hrs, rfl⟩ := resolveDef_frag hstep
      have hfn' : n ∉ Valid.fragNames rest ∧ (Valid.fragNames rest).Nodup := by
        simpa [Valid.fragNames] using hfn
      have hon' : (Valid.opNames rest).Nodup := by simpa [Valid.opNames] using hon
      have ih := fold_ok s rest _ qF hrest hfn'.2 hon'
      rw [findFragment_eq] at hid
      have hnid : (fnames q)[id]? = some n := ffOf_some hid
      have hlt : id < q.fragments.length := (List.getElem?_eq_some_iff.mp hf).1
      have hf1 : fnames { q with fragments := q.fragments.set id { f with sels := f.sels ++ rs } } = fnames q := by
        simp only [fnames]; exact set_map_self _ _ _ _ _ hf rfl
      have ho1 : onames { q with fragments := q.fragments.set id { f with sels := f.sels ++ rs } } = onames q := rfl
      have hkeep_id : qF.fragments[id]? = some { f with sels := f.sels ++ rs } := by
        rw [ih.fkeep id]
        · simp [hlt]
        · intro n' on' sels' hm hc
          rw [hf1, hnid] at hc
          cases hc
          exact hfn'.1 (mem_fragNames hm)
      have hcorr := resolveSelection_corr hrs
      rw [findFragment_eq] at hcorr
      constructor
      · rw [ih.fnames_eq, hf1]
      · rw [ih.onames_eq, ho1]
      · intro i hi
        rw [ih.fkeep i]
        · have : id ≠ i := by
            intro e; subst e
            exact hi n on sels List.mem_cons_self hnid
          simp [this]
        · intro n' on' sels' hm
          rw [hf1]; exact hi n' on' sels' (List.mem_cons_of_mem _ hm)
      · intro i hi
        rw [ih.okeep i]
        intro k n' v sels' hm
        rw [ho1]; exact hi k n' v sels' (List.mem_cons_of_mem _ hm)
      · intro n' on' sels' hm
        rcases List.mem_cons.mp hm with heq | hm
        · cases heq
          exact ⟨t, id, f, rs, ht, hid, hf, hkeep_id, hcorr.1, hcorr.2⟩
        · obtain ⟨t', id', f1, rs', h1, h2, h3, h4, h5, h6⟩ := ih.frag n' on' sels' hm
          rw [hf1] at h2 h5
          have hne : id ≠ id' := by
            intro e; subst e
            have := ffOf_some h2
            rw [hnid] at this
            cases this
            exact hfn'.1 (mem_fragNames hm)
          refine ⟨t', id', f1, rs', h1, h2, ?_, h4, h5, h6⟩
          simpa [List.getElem?_set, hne] using h3
      · intro kind name vars sels' hm
        rcases List.mem_cons.mp hm with heq | hm
        · cases heq
        · obtain ⟨n', root, o, id', op0, rs', h1, h2, h3, h4, h5, h6, h7⟩ := ih.op kind name vars sels' hm
          rw [hf1] at h7
          exact ⟨n', root, o, id', op0, rs', h1, h2, h3, h4, h5, h6, h7⟩
    | op kind name vars sels =>
      obtain ⟨root, o, n, id, vs, rs, op, hroot, ho, rfl, hid, hop, hrs, rfl⟩ := resolveDef_op hstep
      have hfn' : (Valid.fragNames rest).Nodup := by simpa [Valid.fragNames] using hfn
      have hon' : n ∉ Valid.opNames rest ∧ (Valid.opNames rest).Nodup := by
        simpa [Valid.opNames] using hon
      have ih := fold_ok s rest _ qF hrest hfn' hon'.2
      rw [findOperation_eq] at hid
      have hnid : (onames q)[id]? = some n := ffOf_some hid
      have hlt : id < q.operations.length := (List.getElem?_eq_some_iff.mp hop).1
      have ho1 : onames { q with variables := q.variables ++ vs, operations := q.operations.set id { op with sels := op.sels ++ rs } } = onames q := by
        simp only [onames]; exact set_map_self _ _ _ _ _ hop rfl
      have hf1 : fnames { q with variables := q.variables ++ vs, operations := q.operations.set id { op with sels := op.sels ++ rs } } = fnames q := rfl
      have hkeep_id : qF.operations[id]? = some { op with sels := op.sels ++ rs } := by
        rw [ih.okeep id]
        · simp [hlt]
        · intro k n' v sels' hm hc
          rw [ho1, hnid] at hc
          cases hc
          exact hon'.1 (mem_opNames hm)
      rw [← fieldsOf_object ho] at hrs
      have hcorr := objSels_corr s _ _ _ sels rs hrs
      rw [findFragment_eq] at hcorr
      change CorrL s (ffOf (fnames q)) _ _ _ at hcorr
      constructor
      · rw [ih.fnames_eq, hf1]
      · rw [ih.onames_eq, ho1]
      · intro i hi
        rw [ih.fkeep i]
        intro n' on' sels' hm
        rw [hf1]; exact hi n' on' sels' (List.mem_cons_of_mem _ hm)
      · intro i hi
        rw [ih.okeep i]
        · have : id ≠ i := by
            intro e; subst e
            exact hi kind n vars sels List.mem_cons_self hnid
          simp [this]
        · intro k n' v sels' hm
          rw [ho1]; exact hi k n' v sels' (List.mem_cons_of_mem _ hm)
      · intro n' on' sels' hm
        rcases List.mem_cons.mp hm with heq | hm
        · cases heq
        · obtain ⟨t', id', f1, rs', h1, h2, h3, h4, h5, h6⟩ := ih.frag n' on' sels' hm
          rw [hf1] at h2 h5
          exact ⟨t', id', f1, rs', h1, h2, h3, h4, h5, h6⟩
      · intro kind' name' vars' sels' hm
        rcases List.mem_cons.mp hm with heq | hm
        · cases heq
          exact ⟨n, root, o, id, op, rs, rfl, hroot, ho, hid, hop, hkeep_id, hcorr⟩
        · obtain ⟨n', root', o', id', op0, rs', h1, h2, h3, h4, h5, h6, h7⟩ := ih.op kind' name' vars' sels' hm
          rw [ho1] at h4
          rw [hf1] at h7
          have hne : id ≠ id' := by
            intro e; subst e
            have := ffOf_some h4
            rw [hnid] at this
            cases this
            subst h1
            exact hon'.1 (mem_opNames hm)
          refine ⟨n', root', o', id', op0, rs', h1, h2, h3, h4, ?_, h6, h7⟩
          simpa [List.getElem?_set, hne] using h5

theorem forIn_ok {α} (body : α → PUnit → Outcome (ForInStep PUnit))
    (hy : ∀ a r, body a PUnit.unit = .ok r → r = .yield PUnit.unit) :
    ∀ (l : List α) (u : PUnit), forIn l PUnit.unit body = .ok u → ∀ a ∈ l, body a PUnit.unit = .ok (.yield PUnit.unit)
  | [], _, _, a, ha => by simp at ha
  | x :: xs, u, h, a, ha => by
    rw [List.forIn_cons] at h
    obtain ⟨r, hr, h⟩ := bind_ok h
    have := hy x r hr
    subst this
    rcases List.mem_cons.mp ha with rfl | ha
    · exact hr
    · exact forIn_ok body hy xs u h a ha

theorem forIn_check_ok {α} (g : α → Outcome Unit) (l : List α) (u : PUnit)
    (h : forIn l PUnit.unit (fun a _ => do g a; pure (ForInStep.yield PUnit.unit)) = .ok u) :
    ∀ a ∈ l, g a = .ok () := by
  intro a ha
  have := forIn_ok (fun a _ => do g a; pure (ForInStep.yield PUnit.unit)) (by
    intro a r hr
    obtain ⟨_, _, hr⟩ := bind_ok hr
    simp only [pure, Except.pure, Except.ok.injEq] at hr
    exact hr.symm) l u h a ha
  obtain ⟨_, hg, _⟩ := bind_ok this
  exact hg

theorem forIn_cond_ok {α} (c : α → Bool) (msg : α → String) (l : List α) (u : PUnit)
    (h : forIn l PUnit.unit (fun a _ => if c a = true then do
        (fail' (msg a) : Outcome PUnit); pure (ForInStep.yield PUnit.unit)
      else pure (ForInStep.yield PUnit.unit)) = .ok u) :
    ∀ a ∈ l, c a = false := by
  intro a ha
  have := forIn_ok (fun a _ => if c a = true then do
        (fail' (msg a) : Outcome PUnit); pure (ForInStep.yield PUnit.unit)
      else pure (ForInStep.yield PUnit.unit)) (by
    intro a r hr
    split at hr
    · simp [fail', bind, Except.bind] at hr
    · simp only [pure, Except.pure, Except.ok.injEq] at hr
      exact hr.symm) l u h a ha
  split at this
  · simp [fail', bind, Except.bind] at this
  · rename_i hc; simpa using hc

theorem validateTypenamePresence_ok {s : Schema} {q : Query} (h : validateTypenamePresence s q = .ok ()) :
    (∀ f ∈ q.fragments, f.on.isAbstract = true → containsTypename q f.on f.sels = true) ∧
    (∀ f ∈ q.fragments, fieldsHaveTypenameList s q f.sels = .ok ()) ∧
    (∀ o ∈ q.operations, fieldsHaveTypenameList s q o.sels = .ok ()) := by
  unfold validateTypenamePresence at h
  obtain ⟨u1, h1, h⟩ := bind_ok h
  obtain ⟨u2, h2, h⟩ := bind_ok h
  obtain ⟨u3, h3, h⟩ := bind_ok h
  refine ⟨?_, forIn_check_ok _ _ _ h2, forIn_check_ok _ _ _ h3⟩
  intro f hf ha
  have := forIn_cond_ok (fun f : RFragment => f.on.isAbstract && !containsTypename q f.on f.sels) _ _ _ h1 f hf
  simp only [ha, Bool.true_and, Bool.not_eq_false'] at this
  exact this

theorem validateTypeConditions_ok {s : Schema} {q : Query} (h : validateTypeConditions s q = .ok ()) :
    (∀ f ∈ q.fragments, typeConditionsList s q f.on f.sels = .ok ()) ∧
    (∀ o ∈ q.operations, typeConditionsList s q (.object o.objectId) o.sels = .ok ()) := by
  unfold validateTypeConditions at h
  obtain ⟨u1, h1, h⟩ := bind_ok h
  obtain ⟨u2, h2, h⟩ := bind_ok h
  exact ⟨forIn_check_ok _ _ _ h1, forIn_check_ok _ _ _ h2⟩

theorem validateSubscriptions_ok {q : Query} (h : validateSubscriptions q = .ok ()) :
    ∀ o ∈ q.operations, o.kind = .subscription → (rootFieldCount q (depthFuel q) [] o.sels).1 = 1 := by
  unfold validateSubscriptions at h
  obtain ⟨u1, h1, h⟩ := bind_ok h
  intro o ho hk
  have := forIn_cond_ok (fun o : ROperation => o.kind == OpKind.subscription &&
    (rootFieldCount q (depthFuel q) [] o.sels).fst != 1) _ _ _ h1 o ho
  simpa [hk] using this

/-! ## subscription root: the depth-first count with a shared visited set -/

/-- number of fragment indices below `nf` not yet visited -/
def unvisited (nf : Nat) (V : List Nat) : Nat := (List.range nf).countP (fun i => !V.contains i)

theorem unvisited_mono {nf : Nat} {V V' : List Nat} (h : ∀ x ∈ V, x ∈ V') : unvisited nf V' ≤ unvisited nf V := by
  unfold unvisited
  apply List.countP_mono_left
  intro x _ hx
  simp only [Bool.not_eq_true', List.contains_eq_mem, decide_eq_false_iff_not] at hx ⊢
  exact fun hm => hx (h x hm)

theorem countP_cons_visited (fid : Nat) (V : List Nat) (hV : fid ∉ V) : ∀ (l : List Nat), fid ∈ l →
    l.countP (fun i => !(fid :: V).contains i) + 1 ≤ l.countP (fun i => !V.contains i)
  | [], h => by simp at h
  | a :: l, h => by
    have hmono : l.countP (fun i => !(fid :: V).contains i) ≤ l.countP (fun i => !V.contains i) := by
      apply List.countP_mono_left
      intro x _ hx
      simp only [Bool.not_eq_true', List.contains_eq_mem, decide_eq_false_iff_not, List.mem_cons, not_or] at hx ⊢
      exact hx.2
    by_cases ha : a = fid
    · subst ha
      have e1 : (!(a :: V).contains a) = false := by simp
      have e2 : (!V.contains a) = true := by simp [hV]
      rw [List.countP_cons, List.countP_cons, e1, e2]
      simp only [Bool.false_eq_true, if_false, if_true]
      omega
    · have hl : fid ∈ l := by
        rcases List.mem_cons.mp h with h | h
        · exact absurd h.symm ha
        · exact h
      have ih := countP_cons_visited fid V hV l hl
      have : (!(fid :: V).contains a) = (!V.contains a) := by
        simp [ha]
      rw [List.countP_cons, List.countP_cons, this]
      omega

theorem unvisited_cons {nf fid : Nat} {V : List Nat} (hlt : fid < nf) (hV : fid ∉ V) :
    unvisited nf (fid :: V) + 1 ≤ unvisited nf V :=
  countP_cons_visited fid V hV _ (List.mem_range.mpr hlt)

end C06Sound
end GqlVerif
