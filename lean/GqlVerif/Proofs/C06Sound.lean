import GqlVerif.Props.C06
/-!
# C06 — soundness of `Resolve.resolve` against the declarative specification `Valid.validDoc`

Main theorem (every schema, every document, no bound on sizes):

    resolve_sound_partial : SchemaOk s = true → Resolve.resolve s d = .ok q → Valid.validDoc s false d = true

`strict = false` is the rule catalogue minus "a composite field needs a sub-selection", which the code
does not enforce (known finding `C06-no-selection`, `C06.no_selection_accepted`); the full statement
`… → Valid.validDoc s true d = true` is **false** on that witness, hence the name `_partial`.
Nothing else is missing: every other clause of `validDoc` is proved.

Only hypothesis: `SchemaOk s` (decidable) = every union member is an object type
(`C06.UnionsOfObjects`, which `condition_check_sound` already needed).  It is necessary:
`schemaOk_needed` is a hand-made schema violating it on which `resolve` accepts an invalid document.
Root ids / field ids in range, names distinct etc. are *not* assumed: a dangling id makes `resolve`
panic (so it is not `.ok`), and name uniqueness is a consequence of `createRoots = .ok`
(`createRoots_names`, `resolve_names_unique`).

Layers (each a theorem of its own):

* (a) structure — `objSel_corr` / `objSels_corr` / `unionSel_corr` / `unionSels_corr` (mutual structural
  induction mirroring the four resolvers), packaged as `resolve_struct_sound`: successful resolution puts
  the written selection and the resolved tree in the correspondence `Corr` / `CorrL` (field exists on
  the parent by `Valid.lookupField`, leaf fields and `__typename` have no sub-selection, spreads name a
  known fragment, inline type conditions name a schema type).
* (b) what the first two phases build — `createRoots_ok`, `fold_ok`, `resolved_of_phases`: the final
  query's fragment table agrees index by index with `Valid.fragTable d` (`TableOk`: `findFragment` vs
  `Valid.findFrag`, `on` types, stored selections `CorrL`-related to the written ones), and every
  definition of `d` owns exactly one entry holding its resolved selection.
* (c) transfer of the validators' verdicts along `CorrL` —
  `hasTypename_of_contains` (`containsTypenameAux` ⇒ `Valid.hasTypename`, same fuel),
  `validSel_of` / `validSels_of` (`typeConditions` + `fieldsHaveTypename` ⇒ `Valid.validSels`, using
  `C06.condition_check_sound`),
  `sub_keys` (`rootFieldCount … = 1` ⇒ exactly one response key in `Valid.rootKeys`).  The last one
  is a correctness proof of the depth-first count with a *shared* visited set: `walk_sim` replays the
  walk on the document (`qwalk`), `qwalk_post` shows that with the code's fuel `depthFuel` the walk is
  complete (its result is closed under spreads and covers every root field), `rootKeys_sub_of_closed`
  and `qwalk_sound` compare it with the specification's expansion in both directions.
* (d) assembly — `validDef_of_resolved`, `resolve_sound_partial`, `invalid_rejected`.

Found while proving (reported; the first two repaired in the code and mirrored in the model, the third
corrected in the specification; kept as regression examples at the end of the file):
duplicate fragment names and duplicate operation names were accepted and made `resolve` validate a body
against the wrong parent type; `Valid.rootKeys` had a depth-independent fuel.
-/
namespace GqlVerif
namespace C06Sound
open Resolve

/-! ## (a) the correspondence between a written selection and its resolved form -/

mutual
/-- `Corr s ff p x r`: the written selection `x`, read against the parent type `p`, resolves to `r`
    (`ff` maps a spread name to the index of its fragment) -/
inductive Corr (s : Schema) (ff : String → Option Nat) : TypeId → QSel → Sel → Prop
  | typename {p alias name} : name = "__typename" → Corr s ff p (.field alias name []) .typename
  | field {p alias name sub fid f rs} : name ≠ "__typename" → Valid.lookupField s p name = some f →
      s.fields[fid]? = some f → (Valid.isComposite f.ty.id = false → sub = []) →
      CorrL s ff f.ty.id sub rs → Corr s ff p (.field alias name sub) (.field alias fid rs)
  | inline {p on t sub rs} : s.findType on = some t → (Valid.isComposite t = false → sub = []) →
      CorrL s ff t sub rs → Corr s ff p (.inline (some on) sub) (.inline t rs)
  | spread {p n fid} : ff n = some fid → Corr s ff p (.spread n) (.spread fid)
inductive CorrL (s : Schema) (ff : String → Option Nat) : TypeId → List QSel → List Sel → Prop
  | nil {p} : CorrL s ff p [] []
  | cons {p x r xs rs} : Corr s ff p x r → CorrL s ff p xs rs → CorrL s ff p (x :: xs) (r :: rs)
end

/-- the field ids of an object / interface type, as `Valid.lookupField` reads them -/
def fieldsOf (s : Schema) : TypeId → List Nat
  | .object i => match s.objects[i]? with | some o => o.fields | none => []
  | .interface i => match s.interfaces[i]? with | some o => o.fields | none => []
  | _ => []

theorem lookupField_eq (s : Schema) (p : TypeId) (name : String) :
    Valid.lookupField s p name = ((fieldsOf s p).filterMap (fun id => s.fields[id]?)).find? (·.name == name) := by
  unfold Valid.lookupField fieldsOf
  cases p <;> rfl

theorem getObject_ok {s : Schema} {i : Nat} {o} (h : s.getObject i = .ok o) : s.objects[i]? = some o := by
  unfold Schema.getObject at h; split at h <;> simp_all [pure, Except.pure, panic']
theorem getInterface_ok {s : Schema} {i : Nat} {o} (h : s.getInterface i = .ok o) : s.interfaces[i]? = some o := by
  unfold Schema.getInterface at h; split at h <;> simp_all [pure, Except.pure, panic']

theorem mapM_getField_ok (s : Schema) : ∀ (ids : List Nat) (fs : List (Nat × StoredField)),
    (ids.mapM fun id => do pure (id, ← s.getField id) : Outcome _) = .ok fs →
    fs.map (·.2) = ids.filterMap (fun id => s.fields[id]?) ∧ ∀ p ∈ fs, s.fields[p.1]? = some p.2 := by
  intro ids
  induction ids with
  | nil => intro fs h; simp [pure, Except.pure] at h; subst h; simp
  | cons id ids ih =>
    intro fs h
    rw [List.mapM_cons] at h
    simp only [bind, Except.bind, pure, Except.pure] at h
    cases hf : s.getField id with
    | error e => simp [hf] at h
    | ok f =>
      simp only [hf] at h
      split at h
      · simp at h
      · rename_i fs' hfs'
        simp only [Except.ok.injEq] at h
        subst h
        have := ih fs' hfs'
        have hf' := C06.getField_ok hf
        simp [hf', this.1]
        exact fun a b hab => this.2 (a, b) hab

theorem getFieldByName_some {s : Schema} {ids : List Nat} {name : String} {fid : Nat} {sf : StoredField}
    (h : getFieldByName s ids name = .ok (some (fid, sf))) :
    (ids.filterMap (fun id => s.fields[id]?)).find? (·.name == name) = some sf ∧ s.fields[fid]? = some sf := by
  unfold getFieldByName at h
  simp only [bind, Except.bind] at h
  split at h
  · simp at h
  · rename_i fs hfs
    simp only [pure, Except.pure, Except.ok.injEq] at h
    have := mapM_getField_ok s ids fs hfs
    rw [← this.1]
    refine ⟨?_, ?_⟩
    · rw [List.find?_map]; simp [Function.comp_def, h]
    · exact this.2 _ (List.mem_of_find?_eq_some h)

theorem map_ok {α β} {x : Outcome α} {f : α → β} {b : β} (h : Except.map f x = .ok b) :
    ∃ a, x = .ok a ∧ b = f a := by
  cases x with
  | error e => simp [Except.map] at h
  | ok a => simp [Except.map] at h; exact ⟨a, rfl, h.symm⟩

theorem fieldsOf_object {s : Schema} {i o} (h : s.objects[i]? = some o) : fieldsOf s (.object i) = o.fields := by
  simp [fieldsOf, h]
theorem fieldsOf_interface {s : Schema} {i o} (h : s.interfaces[i]? = some o) : fieldsOf s (.interface i) = o.fields := by
  simp [fieldsOf, h]

theorem isEmpty_nil {α} {l : List α} (h : l.isEmpty = true) : l = [] := by
  cases l <;> simp_all

mutual
  theorem objSel_corr (s : Schema) (q : Query) (p : TypeId) (pname : String) :
      ∀ (x : QSel) (r : Sel), resolveObjectSel s q pname (fieldsOf s p) x = .ok r → Corr s q.findFragment p x r
    | .field alias name sub, r, h => by
      unfold resolveObjectSel at h
      split at h
      · rename_i hn
        split at h
        · simp [fail'] at h
        · rename_i he
          simp only [pure, Except.pure, Except.ok.injEq] at h
          subst h
          have : sub = [] := isEmpty_nil (by simpa using he)
          subst this
          exact .typename (by simpa [typenameField] using hn)
      · rename_i hn
        have hn' : name ≠ "__typename" := by simpa [typenameField] using hn
        split at h
        · simp at h
        · simp [fail'] at h
        · rename_i fid sf hg
          obtain ⟨hfind, hfid⟩ := getFieldByName_some hg
          have hl : Valid.lookupField s p name = some sf := by rw [lookupField_eq]; exact hfind
          split at h
          · rename_i oid hty
            cases hO : s.getObject oid with
            | error e => simp [hO] at h
            | ok o =>
              simp only [hO] at h
              obtain ⟨rs, hrs, rfl⟩ := map_ok h
              rw [← fieldsOf_object (getObject_ok hO)] at hrs
              exact .field hn' hl hfid (by simp [hty, Valid.isComposite]) (hty ▸ objSels_corr s q _ _ sub rs hrs)
          · rename_i iid hty
            cases hO : s.getInterface iid with
            | error e => simp [hO] at h
            | ok o =>
              simp only [hO] at h
              obtain ⟨rs, hrs, rfl⟩ := map_ok h
              rw [← fieldsOf_interface (getInterface_ok hO)] at hrs
              exact .field hn' hl hfid (by simp [hty, Valid.isComposite]) (hty ▸ objSels_corr s q _ _ sub rs hrs)
          · rename_i uid hty
            obtain ⟨rs, hrs, rfl⟩ := map_ok h
            exact .field hn' hl hfid (by simp [hty, Valid.isComposite]) (unionSels_corr s q _ sub rs hrs)
          · split at h
            · rename_i he
              simp only [pure, Except.pure, Except.ok.injEq] at h
              subst h
              have : sub = [] := isEmpty_nil he
              subst this
              exact .field hn' hl hfid (fun _ => rfl) .nil
            · simp [fail'] at h
    | .inline on sub, r, h => by
      unfold resolveObjectSel at h
      split at h
      · simp [panic'] at h
      · rename_i on
        split at h
        · simp [fail'] at h
        · rename_i t ht
          split at h
          · rename_i oid
            cases hO : s.getObject oid with
            | error e => simp [hO] at h
            | ok o =>
              simp only [hO] at h
              obtain ⟨rs, hrs, rfl⟩ := map_ok h
              rw [← fieldsOf_object (getObject_ok hO)] at hrs
              exact .inline ht (by simp [Valid.isComposite]) (objSels_corr s q _ _ sub rs hrs)
          · rename_i iid
            cases hO : s.getInterface iid with
            | error e => simp [hO] at h
            | ok o =>
              simp only [hO] at h
              obtain ⟨rs, hrs, rfl⟩ := map_ok h
              rw [← fieldsOf_interface (getInterface_ok hO)] at hrs
              exact .inline ht (by simp [Valid.isComposite]) (objSels_corr s q _ _ sub rs hrs)
          · rename_i uid
            obtain ⟨rs, hrs, rfl⟩ := map_ok h
            exact .inline ht (by simp [Valid.isComposite]) (unionSels_corr s q _ sub rs hrs)
          · split at h
            · rename_i he
              simp only [pure, Except.pure, Except.ok.injEq] at h
              subst h
              have : sub = [] := isEmpty_nil he
              subst this
              exact .inline ht (fun _ => rfl) .nil
            · simp [fail'] at h
    | .spread name, r, h => by
      unfold resolveObjectSel at h
      split at h
      · simp [fail'] at h
      · rename_i fid hf
        simp only [pure, Except.pure, Except.ok.injEq] at h
        subst h
        exact .spread hf
  theorem objSels_corr (s : Schema) (q : Query) (p : TypeId) (pname : String) :
      ∀ (xs : List QSel) (rs : List Sel), resolveObjectSels s q pname (fieldsOf s p) xs = .ok rs →
        CorrL s q.findFragment p xs rs
    | [], rs, h => by
      unfold resolveObjectSels at h
      simp only [pure, Except.pure, Except.ok.injEq] at h
      subst h; exact .nil
    | x :: xs, rs, h => by
      unfold resolveObjectSels at h
      split at h
      · simp at h
      · rename_i a ha
        obtain ⟨rs', hrs', rfl⟩ := map_ok h
        exact .cons (objSel_corr s q p pname x a ha) (objSels_corr s q p pname xs rs' hrs')
  theorem unionSel_corr (s : Schema) (q : Query) (p : TypeId) :
      ∀ (x : QSel) (r : Sel), resolveUnionSel s q x = .ok r → Corr s q.findFragment p x r
    | .field alias name sub, r, h => by
      unfold resolveUnionSel at h
      split at h
      · rename_i hn
        split at h
        · simp [fail'] at h
        · rename_i he
          simp only [pure, Except.pure, Except.ok.injEq] at h
          subst h
          have : sub = [] := isEmpty_nil (by simpa using he)
          subst this
          exact .typename (by simpa [typenameField] using hn)
      · simp [fail'] at h
    | .inline on sub, r, h => by
      unfold resolveUnionSel at h
      split at h
      · simp [panic'] at h
      · rename_i on
        split at h
        · simp [fail'] at h
        · rename_i t ht
          split at h
          · rename_i oid
            cases hO : s.getObject oid with
            | error e => simp [hO] at h
            | ok o =>
              simp only [hO] at h
              obtain ⟨rs, hrs, rfl⟩ := map_ok h
              rw [← fieldsOf_object (getObject_ok hO)] at hrs
              exact .inline ht (by simp [Valid.isComposite]) (objSels_corr s q _ _ sub rs hrs)
          · rename_i iid
            cases hO : s.getInterface iid with
            | error e => simp [hO] at h
            | ok o =>
              simp only [hO] at h
              obtain ⟨rs, hrs, rfl⟩ := map_ok h
              rw [← fieldsOf_interface (getInterface_ok hO)] at hrs
              exact .inline ht (by simp [Valid.isComposite]) (objSels_corr s q _ _ sub rs hrs)
          · rename_i uid
            obtain ⟨rs, hrs, rfl⟩ := map_ok h
            exact .inline ht (by simp [Valid.isComposite]) (unionSels_corr s q _ sub rs hrs)
          · split at h
            · rename_i he
              simp only [pure, Except.pure, Except.ok.injEq] at h
              subst h
              have : sub = [] := isEmpty_nil he
              subst this
              exact .inline ht (fun _ => rfl) .nil
            · simp [fail'] at h
    | .spread name, r, h => by
      unfold resolveUnionSel at h
      split at h
      · simp [fail'] at h
      · rename_i fid hf
        simp only [pure, Except.pure, Except.ok.injEq] at h
        subst h
        exact .spread hf
  theorem unionSels_corr (s : Schema) (q : Query) (p : TypeId) :
      ∀ (xs : List QSel) (rs : List Sel), resolveUnionSels s q xs = .ok rs → CorrL s q.findFragment p xs rs
    | [], rs, h => by
      unfold resolveUnionSels at h
      simp only [pure, Except.pure, Except.ok.injEq] at h
      subst h; exact .nil
    | x :: xs, rs, h => by
      unfold resolveUnionSels at h
      split at h
      · simp at h
      · rename_i a ha
        obtain ⟨rs', hrs', rfl⟩ := map_ok h
        exact .cons (unionSel_corr s q p x a ha) (unionSels_corr s q p xs rs' hrs')
end

/-! ## inversion of the validators -/

theorem bind_ok {α β} {x : Outcome α} {f : α → Outcome β} {b : β} (h : (x >>= f) = .ok b) :
    ∃ a, x = .ok a ∧ f a = .ok b := by
  cases x with
  | error e => simp [bind, Except.bind] at h
  | ok a => exact ⟨a, rfl, by simpa [bind, Except.bind] using h⟩

theorem typeConditions_field {s : Schema} {q : Query} {p a fid sub}
    (h : typeConditions s q p (.field a fid sub) = .ok ()) :
    ∃ f, s.fields[fid]? = some f ∧ typeConditionsList s q f.ty.id sub = .ok () := by
  unfold typeConditions at h
  obtain ⟨f, hf, h⟩ := bind_ok h
  exact ⟨f, C06.getField_ok hf, h⟩

theorem typeConditions_inline {s : Schema} {q : Query} {p t sub}
    (h : typeConditions s q p (.inline t sub) = .ok ()) :
    conditionOk s p t = .ok true ∧ typeConditionsList s q t sub = .ok () := by
  unfold typeConditions at h
  obtain ⟨b, hb, h⟩ := bind_ok h
  cases b with
  | false => simp [fail', bind, Except.bind] at h
  | true => exact ⟨hb, by simpa using h⟩

theorem typeConditions_spread {s : Schema} {q : Query} {p fid}
    (h : typeConditions s q p (.spread fid) = .ok ()) :
    ∃ f, q.fragments[fid]? = some f ∧ conditionOk s p f.on = .ok true := by
  unfold typeConditions at h
  obtain ⟨f, hf, h⟩ := bind_ok h
  obtain ⟨b, hb, h⟩ := bind_ok h
  have hf' : q.fragments[fid]? = some f := by
    unfold Query.getFragment at hf; split at hf <;> simp_all [pure, Except.pure, panic']
  cases b with
  | false => simp [fail'] at h
  | true => exact ⟨f, hf', hb⟩

theorem typeConditionsList_cons {s : Schema} {q : Query} {p x xs}
    (h : typeConditionsList s q p (x :: xs) = .ok ()) :
    typeConditions s q p x = .ok () ∧ typeConditionsList s q p xs = .ok () := by
  unfold typeConditionsList at h
  obtain ⟨u, hu, h⟩ := bind_ok h
  exact ⟨hu, h⟩

theorem fht_field {s : Schema} {q : Query} {a fid sub}
    (h : fieldsHaveTypename s q (.field a fid sub) = .ok ()) :
    ∃ f, s.fields[fid]? = some f ∧ (f.ty.id.isAbstract = true → containsTypename q f.ty.id sub = true) ∧
      fieldsHaveTypenameList s q sub = .ok () := by
  unfold fieldsHaveTypename at h
  obtain ⟨f, hf, h⟩ := bind_ok h
  refine ⟨f, C06.getField_ok hf, ?_⟩
  split at h
  · simp [fail'] at h
  · rename_i hc
    refine ⟨?_, h⟩
    intro ha
    cases hct : containsTypename q f.ty.id sub <;> simp_all

theorem fht_inline {s : Schema} {q : Query} {t sub}
    (h : fieldsHaveTypename s q (.inline t sub) = .ok ()) : fieldsHaveTypenameList s q sub = .ok () := by
  unfold fieldsHaveTypename at h; exact h

theorem fhtList_cons {s : Schema} {q : Query} {x xs}
    (h : fieldsHaveTypenameList s q (x :: xs) = .ok ()) :
    fieldsHaveTypename s q x = .ok () ∧ fieldsHaveTypenameList s q xs = .ok () := by
  unfold fieldsHaveTypenameList at h
  obtain ⟨u, hu, h⟩ := bind_ok h
  exact ⟨hu, h⟩

/-! ## (c) transfer of `__typename` presence and of the type-condition check -/

/-- the resolved fragment table `qF.fragments` corresponds, index by index, to the document's fragment
    table `ft`: a spread name resolves (through `ff`) to the index of the fragment that `Valid.findFrag`
    finds, the `on` type is the one the schema gives to the written name, and the stored selection is
    the resolved form of the written one. -/
structure TableOk (s : Schema) (ff : String → Option Nat) (ft : List (String × String × List QSel))
    (qF : Query) : Prop where
  len : qF.fragments.length = ft.length
  find : ∀ n fid, ff n = some fid → ∃ f on fsels, qF.fragments[fid]? = some f ∧
    Valid.findFrag ft n = some (on, fsels) ∧ s.findType on = some f.on ∧ CorrL s ff f.on fsels f.sels

theorem CorrL.mem_right {s ff p} : ∀ {xs rs}, CorrL s ff p xs rs → ∀ r ∈ rs, ∃ x ∈ xs, Corr s ff p x r
  | _, _, .nil, r, hr => by simp at hr
  | _, _, .cons hx hxs, r, hr => by
    rcases List.mem_cons.mp hr with rfl | hr
    · exact ⟨_, List.mem_cons_self, hx⟩
    · obtain ⟨x, hx', hc⟩ := CorrL.mem_right hxs r hr
      exact ⟨x, List.mem_cons_of_mem _ hx', hc⟩

theorem hasTypename_of_contains {s ff ft qF} (htab : TableOk s ff ft qF) (t : TypeId) :
    ∀ (fuel : Nat) (V : List Nat) (p : TypeId) (xs : List QSel) (rs : List Sel), CorrL s ff p xs rs →
      containsTypenameAux qF t fuel V rs = true → Valid.hasTypename s ft t fuel xs = true := by
  intro fuel
  induction fuel with
  | zero => intro V p xs rs _ h; simp [containsTypenameAux] at h
  | succ n ih =>
    intro V p xs rs hc h
    unfold containsTypenameAux at h
    rw [List.any_eq_true] at h
    obtain ⟨r, hmem, hr⟩ := h
    obtain ⟨x, hx, hxr⟩ := hc.mem_right r hmem
    unfold Valid.hasTypename
    rw [List.any_eq_true]
    refine ⟨x, hx, ?_⟩
    cases hxr with
    | typename hn => simp [hn]
    | field => simp at hr
    | inline => simp at hr
    | spread hff =>
      rename_i nm fid
      obtain ⟨f, on, fsels, hf, hfind, hon, hcf⟩ := htab.find _ _ hff
      simp only at hr
      split at hr
      · simp at hr
      · simp only [hf, Bool.and_eq_true, beq_iff_eq] at hr
        simp only [hfind, hon, Bool.and_eq_true, beq_iff_eq]
        refine ⟨by rw [hr.1], ih (fid :: V) _ _ _ hcf ?_⟩
        rw [← hr.1]; exact hr.2

theorem applicable_composite {s : Schema} {p t : TypeId} (hp : Valid.isComposite p = true)
    (h : Valid.applicable s p t = true) : Valid.isComposite t = true := by
  unfold Valid.applicable at h
  rcases Bool.or_eq_true_iff.mp h with h | h
  · rw [← beq_iff_eq.mp h]; exact hp
  · rw [List.any_eq_true] at h
    obtain ⟨o, _, ho⟩ := h
    cases t <;> simp_all [Valid.possibleTypes, Valid.isComposite]

mutual
  theorem validSel_of {s : Schema} {ff ft qF} (hs : C06.UnionsOfObjects s) (htab : TableOk s ff ft qF) :
      ∀ (x : QSel) (p : TypeId) (r : Sel), Corr s ff p x r → Valid.isComposite p = true →
        typeConditions s qF p r = .ok () → fieldsHaveTypename s qF r = .ok () →
        Valid.validSel s ft false p x = true
    | .field alias name sub, p, r, hc, hp, htc, hft => by
      cases hc with
      | typename hn => unfold Valid.validSel; simp [hn]
      | field hn hl hfid hleaf hsub =>
        rename_i fid f rs
        unfold Valid.validSel
        simp only [beq_iff_eq, hn, if_false, hl]
        obtain ⟨f1, hf1, htc'⟩ := typeConditions_field htc
        obtain ⟨f2, hf2, hab, hft'⟩ := fht_field hft
        have e1 : f1 = f := by rw [hfid] at hf1; exact (Option.some.inj hf1).symm
        have e2 : f2 = f := by rw [hfid] at hf2; exact (Option.some.inj hf2).symm
        subst e1; subst e2
        cases hcomp : Valid.isComposite f2.ty.id with
        | false => simp [hleaf hcomp]
        | true =>
          simp only [if_true, Bool.not_false, Bool.true_or, Bool.true_and, Bool.and_eq_true,
            Bool.or_eq_true, Bool.not_eq_true']
          refine ⟨validSels_of hs htab sub _ rs hsub hcomp htc' hft', ?_⟩
          cases ha : f2.ty.id.isAbstract with
          | false => exact Or.inl rfl
          | true =>
            right
            have := hab ha
            unfold containsTypename at this
            rw [htab.len] at this
            exact hasTypename_of_contains htab _ _ _ _ _ _ hsub this
    | .inline on sub, p, r, hc, hp, htc, hft => by
      cases hc with
      | inline ht hleaf hsub =>
        rename_i on t rs
        unfold Valid.validSel
        simp only [ht]
        obtain ⟨hcond, htc'⟩ := typeConditions_inline htc
        have happ := C06.condition_check_sound s hs p t hp hcond
        have hct := applicable_composite hp happ
        simp only [hct, happ, Bool.true_and]
        exact validSels_of hs htab sub _ rs hsub hct htc' (fht_inline hft)
    | .spread n, p, r, hc, hp, htc, hft => by
      cases hc with
      | spread hff =>
        rename_i fid
        unfold Valid.validSel
        obtain ⟨f, on, fsels, hf, hfind, hon, _⟩ := htab.find _ _ hff
        obtain ⟨f', hf', hcond⟩ := typeConditions_spread htc
        have e : f' = f := by rw [hf] at hf'; exact (Option.some.inj hf').symm
        subst e
        simp only [hfind, hon]
        exact C06.condition_check_sound s hs p _ hp hcond
  theorem validSels_of {s : Schema} {ff ft qF} (hs : C06.UnionsOfObjects s) (htab : TableOk s ff ft qF) :
      ∀ (xs : List QSel) (p : TypeId) (rs : List Sel), CorrL s ff p xs rs → Valid.isComposite p = true →
        typeConditionsList s qF p rs = .ok () → fieldsHaveTypenameList s qF rs = .ok () →
        Valid.validSels s ft false p xs = true
    | [], _, _, _, _, _, _ => by unfold Valid.validSels; rfl
    | x :: xs, p, rs, hc, hp, htc, hft => by
      cases hc with
      | cons hx hxs =>
        rename_i r rs
        unfold Valid.validSels
        obtain ⟨h1, h2⟩ := typeConditionsList_cons htc
        obtain ⟨g1, g2⟩ := fhtList_cons hft
        rw [validSel_of hs htab x p r hx hp h1 g1, validSels_of hs htab xs p rs hxs hp h2 g2]
        rfl
end

/-! ## (b) what `create_roots` and the fold of `resolve_fragment` / `resolve_operation` build -/

theorem resolveSelection_corr {s : Schema} {q : Query} {t : TypeId} {sels : List QSel} {rs : List Sel}
    (h : resolveSelection s q t sels = .ok rs) :
    CorrL s q.findFragment t sels rs ∧ (Valid.isComposite t = false → sels = []) := by
  unfold resolveSelection at h
  split at h
  · obtain ⟨o, ho, h⟩ := bind_ok h
    rw [← fieldsOf_object (getObject_ok ho)] at h
    exact ⟨objSels_corr s q _ _ sels rs h, by simp [Valid.isComposite]⟩
  · obtain ⟨o, ho, h⟩ := bind_ok h
    rw [← fieldsOf_interface (getInterface_ok ho)] at h
    exact ⟨objSels_corr s q _ _ sels rs h, by simp [Valid.isComposite]⟩
  · exact ⟨unionSels_corr s q _ sels rs h, by simp [Valid.isComposite]⟩
  · split at h
    · rename_i he
      have := isEmpty_nil he
      subst this
      simp only [pure, Except.pure, Except.ok.injEq] at h
      subst h
      exact ⟨.nil, fun _ => rfl⟩
    · simp [fail'] at h

theorem resolveDef_frag {s : Schema} {q q' : Query} {n on sels}
    (h : resolveDef s q (.frag n on sels) = .ok q') :
    ∃ t id f rs, s.findType on = some t ∧ q.findFragment n = some id ∧ q.fragments[id]? = some f ∧
      resolveSelection s q t sels = .ok rs ∧
      q' = { q with fragments := q.fragments.set id { f with sels := f.sels ++ rs } } := by
  simp only [resolveDef] at h
  split at h
  · simp [fail'] at h
  · rename_i t ht
    split at h
    · simp [fail'] at h
    · rename_i id hid
      obtain ⟨rs, hrs, h⟩ := bind_ok h
      split at h
      · simp [panic'] at h
      · rename_i f hf
        simp only [pure, Except.pure, Except.ok.injEq] at h
        exact ⟨t, id, f, rs, ht, hid, hf, hrs, h.symm⟩

theorem resolveDef_op_core {s : Schema} {q q' : Query} {vars sels} {root id}
    (h : (do
        let o ← s.getObject root
        let vs ← resolveVariables s id vars
        let rs ← resolveObjectSels s { q with variables := q.variables ++ vs } o.name o.fields sels
        match q.operations[id]? with
        | none => panic' "get operation"
        | some op => pure { q with variables := q.variables ++ vs,
                                   operations := q.operations.set id { op with sels := op.sels ++ rs } } : Outcome Query)
        = .ok q') :
    ∃ o vs rs op, s.objects[root]? = some o ∧ q.operations[id]? = some op ∧
      resolveObjectSels s { q with variables := q.variables ++ vs } o.name o.fields sels = .ok rs ∧
      q' = { q with variables := q.variables ++ vs,
                    operations := q.operations.set id { op with sels := op.sels ++ rs } } := by
  obtain ⟨o, ho, h⟩ := bind_ok h
  obtain ⟨vs, hvs, h⟩ := bind_ok h
  obtain ⟨rs, hrs, h⟩ := bind_ok h
  split at h
  · simp [panic'] at h
  · rename_i op hop
    simp only [pure, Except.pure, Except.ok.injEq] at h
    exact ⟨o, vs, rs, op, getObject_ok ho, hop, hrs, h.symm⟩

theorem resolveDef_op {s : Schema} {q q' : Query} {kind name vars sels}
    (h : resolveDef s q (.op kind name vars sels) = .ok q') :
    ∃ root o n id vs rs op, Valid.rootOf s kind = some root ∧ s.objects[root]? = some o ∧ name = some n ∧
      q.findOperation n = some id ∧ q.operations[id]? = some op ∧
      resolveObjectSels s { q with variables := q.variables ++ vs } o.name o.fields sels = .ok rs ∧
      q' = { q with variables := q.variables ++ vs,
                    operations := q.operations.set id { op with sels := op.sels ++ rs } } := by
  simp only [resolveDef] at h
  cases name with
  | none =>
    cases kind <;> simp only at h
    · obtain ⟨_, _, h⟩ := bind_ok h
      obtain ⟨_, _, h⟩ := bind_ok h
      obtain ⟨_, hp, _⟩ := bind_ok h
      simp [panic'] at hp
    · split at h
      · obtain ⟨_, _, h⟩ := bind_ok h
        obtain ⟨_, _, h⟩ := bind_ok h
        obtain ⟨_, hp, _⟩ := bind_ok h
        simp [panic'] at hp
      · simp [fail', bind, Except.bind] at h
    · split at h
      · obtain ⟨_, _, h⟩ := bind_ok h
        obtain ⟨_, _, h⟩ := bind_ok h
        obtain ⟨_, hp, _⟩ := bind_ok h
        simp [panic'] at hp
      · simp [fail', bind, Except.bind] at h
  | some n =>
    cases hfo : q.findOperation n with
    | none =>
      simp only [pure_bind, hfo] at h
      cases kind <;> simp only at h
      · obtain ⟨_, _, h⟩ := bind_ok h
        obtain ⟨_, _, h⟩ := bind_ok h
        obtain ⟨_, hp, _⟩ := bind_ok h
        simp [panic'] at hp
      · split at h
        · obtain ⟨_, _, h⟩ := bind_ok h
          obtain ⟨_, hp, _⟩ := bind_ok h
          simp [panic'] at hp
        · simp [fail', bind, Except.bind] at h
      · split at h
        · obtain ⟨_, _, h⟩ := bind_ok h
          obtain ⟨_, hp, _⟩ := bind_ok h
          simp [panic'] at hp
        · simp [fail', bind, Except.bind] at h
    | some id =>
      simp only [pure_bind, hfo] at h
      cases kind <;> simp only at h
      · cases hq : s.queryType with
        | none => simp [Schema.queryTypeOrPanic, hq, panic', bind, Except.bind] at h
        | some root =>
          simp only [Schema.queryTypeOrPanic, hq, pure_bind] at h
          obtain ⟨o, vs, rs, op, h1, h2, h3, h4⟩ := resolveDef_op_core (root := root) h
          exact ⟨root, o, n, id, vs, rs, op, by simp [Valid.rootOf, hq], h1, rfl, hfo, h2, h3, h4⟩
      · cases hq : s.mutationType with
        | none => simp [hq, fail', bind, Except.bind] at h
        | some root =>
          simp only [hq] at h
          obtain ⟨o, vs, rs, op, h1, h2, h3, h4⟩ := resolveDef_op_core (root := root) h
          exact ⟨root, o, n, id, vs, rs, op, by simp [Valid.rootOf, hq], h1, rfl, hfo, h2, h3, h4⟩
      · cases hq : s.subscriptionType with
        | none => simp [hq, fail', bind, Except.bind] at h
        | some root =>
          simp only [hq] at h
          obtain ⟨o, vs, rs, op, h1, h2, h3, h4⟩ := resolveDef_op_core (root := root) h
          exact ⟨root, o, n, id, vs, rs, op, by simp [Valid.rootOf, hq], h1, rfl, hfo, h2, h3, h4⟩

/-- what one step of `create_roots` does for one definition -/
def RootStep (s : Schema) (q q1 : Query) : QDef → Prop
  | .frag n on _ => ∃ t, s.findType on = some t ∧ q.findFragment n = none ∧
      q1 = { q with fragments := q.fragments ++ [{ name := n, on := t, sels := [] }] }
  | .op kind name _ sels => ∃ n root, name = some n ∧ Valid.rootOf s kind = some root ∧
      q.findOperation n = none ∧ (kind = .subscription → sels.length = 1) ∧
      q1 = { q with operations := q.operations ++ [{ name := n, kind := kind, objectId := root, sels := [] }] }
  | .selset _ => False

theorem isSome_false {α} {o : Option α} (h : ¬ o.isSome = true) : o = none := by
  cases o <;> simp_all

theorem createRoots_cons {s : Schema} {x : QDef} {rest : QDoc} {q q' : Query}
    (h : createRoots s (x :: rest) q = .ok q') :
    ∃ q1, RootStep s q q1 x ∧ createRoots s rest q1 = .ok q' := by
  cases x with
  | frag n on sels =>
    simp only [createRoots] at h
    split at h
    · simp [fail'] at h
    · rename_i hnone
      split at h
      · simp [fail'] at h
      · rename_i t ht
        exact ⟨_, ⟨t, ht, isSome_false hnone, rfl⟩, h⟩
  | selset sels => simp [createRoots, fail'] at h
  | op kind name vars sels =>
    cases name with
    | none =>
      cases kind <;> simp only [createRoots] at h
      · obtain ⟨_, _, h⟩ := bind_ok h
        simp [panic'] at h
      · split at h <;> simp [fail', panic'] at h
      · split at h
        · simp [fail'] at h
        · split at h <;> simp [fail', panic'] at h
    | some n =>
    cases kind with
    | query =>
      simp only [createRoots] at h
      obtain ⟨root, hroot, h⟩ := bind_ok h
      have hroot' : Valid.rootOf s .query = some root := by
        unfold Schema.queryTypeOrPanic at hroot
        split at hroot <;> simp_all [pure, Except.pure, panic', Valid.rootOf]
      split at h
      · simp [fail'] at h
      · rename_i hnone
        exact ⟨_, ⟨n, root, rfl, hroot', isSome_false hnone, by simp, rfl⟩, h⟩
    | mutation =>
      simp only [createRoots] at h
      split at h
      · simp [fail'] at h
      · rename_i root hroot
        split at h
        · simp [fail'] at h
        · rename_i hnone
          exact ⟨_, ⟨n, root, rfl, by simpa [Valid.rootOf] using hroot, isSome_false hnone, by simp, rfl⟩, h⟩
    | subscription =>
      simp only [createRoots] at h
      split at h
      · simp [fail'] at h
      · rename_i root hroot
        split at h
        · simp [fail'] at h
        · rename_i hlen
          split at h
          · simp [fail'] at h
          · rename_i hnone
            exact ⟨_, ⟨n, root, rfl, by simpa [Valid.rootOf] using hroot, isSome_false hnone,
              fun _ => by simpa using hlen, rfl⟩, h⟩

def fnames (q : Query) : List String := q.fragments.map (·.name)
def onames (q : Query) : List String := q.operations.map (·.name)
/-- `Query.find_fragment` / `find_operation` as a function of the list of names only -/
def ffOf (names : List String) (n : String) : Option Nat := names.findIdx? (· == n)

theorem findFragment_eq (q : Query) : q.findFragment = ffOf (fnames q) := by
  funext n; simp [Query.findFragment, ffOf, fnames, List.findIdx?_map, Function.comp_def]
theorem findOperation_eq (q : Query) : q.findOperation = ffOf (onames q) := by
  funext n; simp [Query.findOperation, ffOf, onames, List.findIdx?_map, Function.comp_def]

theorem ffOf_none {names : List String} {n : String} (h : ffOf names n = none) : n ∉ names := by
  unfold ffOf at h
  rw [List.findIdx?_eq_none_iff] at h
  intro hm
  simpa using h n hm

theorem ffOf_some {names : List String} {n : String} {i : Nat} (h : ffOf names n = some i) :
    names[i]? = some n := by
  unfold ffOf at h
  rw [List.findIdx?_eq_some_iff_getElem] at h
  obtain ⟨hlt, hp, _⟩ := h
  rw [List.getElem?_eq_getElem hlt]
  simpa using hp

theorem ffOf_of_nodup {names : List String} {n : String} {i : Nat} (hnd : names.Nodup)
    (h : names[i]? = some n) : ffOf names n = some i := by
  unfold ffOf
  rw [List.findIdx?_eq_some_iff_getElem]
  obtain ⟨hlt, hi⟩ := List.getElem?_eq_some_iff.mp h
  refine ⟨hlt, by simp [hi], ?_⟩
  intro j hji hj
  have hj' : names[j] = n := by simpa using hj
  have := (List.pairwise_iff_getElem.mp hnd) j i (by omega) hlt hji
  exact this (hj'.trans hi.symm)

/-- the part of `q'` that `create_roots` added for the document `d` -/
structure RootsOk (s : Schema) (d : QDoc) (q q' : Query) : Prop where
  fnames : fnames q' = fnames q ++ Valid.fragNames d
  onames : onames q' = onames q ++ Valid.opNames d
  fnodup : (C06Sound.fnames q).Nodup → (C06Sound.fnames q').Nodup
  onodup : (C06Sound.onames q).Nodup → (C06Sound.onames q').Nodup
  fnew : ∀ f ∈ q'.fragments, f ∈ q.fragments ∨ f.sels = []
  onew : ∀ o ∈ q'.operations, o ∈ q.operations ∨ o.sels = []
  fmono : ∀ f ∈ q.fragments, f ∈ q'.fragments
  omono : ∀ o ∈ q.operations, o ∈ q'.operations
  frag : ∀ n on sels, QDef.frag n on sels ∈ d → ∃ t, s.findType on = some t ∧
    ({ name := n, on := t, sels := [] } : RFragment) ∈ q'.fragments
  op : ∀ kind name vars sels, QDef.op kind name vars sels ∈ d → ∃ n root, name = some n ∧
    Valid.rootOf s kind = some root ∧ (kind = .subscription → sels.length = 1) ∧
    ({ name := n, kind := kind, objectId := root, sels := [] } : ROperation) ∈ q'.operations
  noselset : ∀ sels, QDef.selset sels ∉ d

theorem createRoots_ok (s : Schema) : ∀ (d : QDoc) (q q' : Query), createRoots s d q = .ok q' → RootsOk s d q q'
  | [], q, q', h => by
    simp only [createRoots, pure, Except.pure, Except.ok.injEq] at h
    subst h
    constructor <;> first | simp [Valid.fragNames, Valid.opNames] | exact fun _ h => Or.inl h
  | x :: rest, q, q', h => by
    obtain ⟨q1, hstep, hrest⟩ := createRoots_cons h
    have ih := createRoots_ok s rest q1 q' hrest
    cases x with
    | selset sels => exact hstep.elim
    | frag n on sels =>
      obtain ⟨t, ht, hnone, rfl⟩ := hstep
      have hf1 : fnames { q with fragments := q.fragments ++ [{ name := n, on := t, sels := [] }] } = fnames q ++ [n] := by
        simp [fnames]
      constructor
      · rw [ih.fnames, hf1]; simp [Valid.fragNames]
      · rw [ih.onames]; simp [Valid.opNames, onames]
      · intro hnd
        apply ih.fnodup
        rw [hf1, List.nodup_append]
        rw [findFragment_eq] at hnone
        refine ⟨hnd, by simp, ?_⟩
        intro a ha b hb
        simp at hb; subst hb
        intro hab; subst hab
        exact ffOf_none hnone ha
      · intro hnd; exact ih.onodup hnd
      · intro f hf
        rcases ih.fnew f hf with h1 | h1
        · simp at h1
          rcases h1 with h1 | h1
          · exact Or.inl h1
          · right; rw [h1]
        · exact Or.inr h1
      · intro o ho; exact ih.onew o ho
      · intro f hf; exact ih.fmono f (by simp [hf])
      · intro o ho; exact ih.omono o ho
      · intro n' on' sels' hm
        rcases List.mem_cons.mp hm with heq | hm
        · cases heq
          exact ⟨t, ht, ih.fmono _ (by simp)⟩
        · exact ih.frag _ _ _ hm
      · intro kind name vars sels' hm
        rcases List.mem_cons.mp hm with heq | hm
        · cases heq
        · exact ih.op _ _ _ _ hm
      · intro sels' hm
        rcases List.mem_cons.mp hm with heq | hm
        · cases heq
        · exact ih.noselset _ hm
    | op kind name vars sels =>
      obtain ⟨n, root, rfl, hroot, hnone, hsub, rfl⟩ := hstep
      have hf1 : onames { q with operations := q.operations ++ [{ name := n, kind := kind, objectId := root, sels := [] }] } = onames q ++ [n] := by
        simp [onames]
      constructor
      · rw [ih.fnames]; simp [Valid.fragNames, fnames]
      · rw [ih.onames, hf1]; simp [Valid.opNames]
      · intro hnd; exact ih.fnodup hnd
      · intro hnd
        apply ih.onodup
        rw [hf1, List.nodup_append]
        rw [findOperation_eq] at hnone
        refine ⟨hnd, by simp, ?_⟩
        intro a ha b hb
        simp at hb; subst hb
        intro hab; subst hab
        exact ffOf_none hnone ha
      · intro f hf; exact ih.fnew f hf
      · intro o ho
        rcases ih.onew o ho with h1 | h1
        · simp at h1
          rcases h1 with h1 | h1
          · exact Or.inl h1
          · right; rw [h1]
        · exact Or.inr h1
      · intro f hf; exact ih.fmono f hf
      · intro o ho; exact ih.omono o (by simp [ho])
      · intro n' on' sels' hm
        rcases List.mem_cons.mp hm with heq | hm
        · cases heq
        · exact ih.frag _ _ _ hm
      · intro kind' name' vars' sels' hm
        rcases List.mem_cons.mp hm with heq | hm
        · cases heq
          exact ⟨n, root, rfl, hroot, hsub, ih.omono _ (by simp)⟩
        · exact ih.op _ _ _ _ hm
      · intro sels' hm
        rcases List.mem_cons.mp hm with heq | hm
        · cases heq
        · exact ih.noselset _ hm

theorem mem_fragNames {d : QDoc} {n on sels} (h : QDef.frag n on sels ∈ d) : n ∈ Valid.fragNames d := by
  unfold Valid.fragNames
  rw [List.mem_filterMap]
  exact ⟨_, h, rfl⟩
theorem mem_opNames {d : QDoc} {k n v sels} (h : QDef.op k (some n) v sels ∈ d) : n ∈ Valid.opNames d := by
  unfold Valid.opNames
  rw [List.mem_filterMap]
  exact ⟨_, h, rfl⟩

theorem set_map_self {α β} (g : α → β) (l : List α) (i : Nat) (a b : α) (h : l[i]? = some a) (hg : g b = g a) :
    (l.set i b).map g = l.map g := by
  apply List.ext_getElem?
  intro j
  simp only [List.getElem?_map, List.getElem?_set]
  split
  · rename_i hij; subst hij
    obtain ⟨hlt, hi⟩ := List.getElem?_eq_some_iff.mp h
    simp [hlt, hi, hg]
  · rfl

/-- what the fold of `resolve_fragment` / `resolve_operation` over (a suffix of) the document does -/
structure FoldOk (s : Schema) (rest : QDoc) (q qF : Query) : Prop where
  fnames_eq : fnames qF = fnames q
  onames_eq : onames qF = onames q
  fkeep : ∀ i : Nat, (∀ n on sels, QDef.frag n on sels ∈ rest → (fnames q)[i]? ≠ some n) →
    qF.fragments[i]? = q.fragments[i]?
  okeep : ∀ i : Nat, (∀ k n v sels, QDef.op k (some n) v sels ∈ rest → (onames q)[i]? ≠ some n) →
    qF.operations[i]? = q.operations[i]?
  frag : ∀ n on sels, QDef.frag n on sels ∈ rest → ∃ t id f0 rs, s.findType on = some t ∧
    ffOf (fnames q) n = some id ∧ q.fragments[id]? = some f0 ∧
    qF.fragments[id]? = some { f0 with sels := f0.sels ++ rs } ∧
    CorrL s (ffOf (fnames q)) t sels rs ∧ (Valid.isComposite t = false → sels = [])
  op : ∀ kind name vars sels, QDef.op kind name vars sels ∈ rest → ∃ n root o id op0 rs, name = some n ∧
    Valid.rootOf s kind = some root ∧ s.objects[root]? = some o ∧
    ffOf (onames q) n = some id ∧ q.operations[id]? = some op0 ∧
    qF.operations[id]? = some { op0 with sels := op0.sels ++ rs } ∧
    CorrL s (ffOf (fnames q)) (.object root) sels rs

theorem fold_ok (s : Schema) : ∀ (rest : QDoc) (q qF : Query), rest.foldlM (resolveDef s) q = .ok qF →
    (Valid.fragNames rest).Nodup → (Valid.opNames rest).Nodup → FoldOk s rest q qF
  | [], q, qF, h, _, _ => by
    simp only [List.foldlM_nil, pure, Except.pure, Except.ok.injEq] at h
    subst h
    constructor <;> simp
  | x :: rest, q, qF, h, hfn, hon => by
    rw [List.foldlM_cons] at h
    obtain ⟨q1, hstep, hrest⟩ := bind_ok h
    cases x with
    | selset sels => simp [resolveDef, panic'] at hstep
    | frag n on sels =>
      obtain ⟨t, id, f, rs, ht, hid, hf, hrs, rfl⟩ := resolveDef_frag hstep
      have hfn' : n ∉ Valid.fragNames rest ∧ (Valid.fragNames rest).Nodup := by
        simpa [Valid.fragNames] using hfn
      have hon' : (Valid.opNames rest).Nodup := by simpa [Valid.opNames] using hon
      have ih := fold_ok s rest _ qF hrest hfn'.2 hon'
      rw [findFragment_eq] at hid
      have hnid : (fnames q)[id]? = some n := ffOf_some hid
      have hlt : id < q.fragments.length := (List.getElem?_eq_some_iff.mp hf).1
      have hf1 : fnames { q with fragments := q.fragments.set id { f with sels := f.sels ++ rs } } = fnames q := by
        simp only [fnames]; exact set_map_self _ _ _ _ _ hf rfl
      have ho1 : onames { q with fragments := q.fragments.set id { f with sels := f.sels ++ rs } } = onames q := rfl
      have hkeep_id : qF.fragments[id]? = some { f with sels := f.sels ++ rs } := by
        rw [ih.fkeep id]
        · simp [hlt]
        · intro n' on' sels' hm hc
          rw [hf1, hnid] at hc
          cases hc
          exact hfn'.1 (mem_fragNames hm)
      have hcorr := resolveSelection_corr hrs
      rw [findFragment_eq] at hcorr
      constructor
      · rw [ih.fnames_eq, hf1]
      · rw [ih.onames_eq, ho1]
      · intro i hi
        rw [ih.fkeep i]
        · have : id ≠ i := by
            intro e; subst e
            exact hi n on sels List.mem_cons_self hnid
          simp [this]
        · intro n' on' sels' hm
          rw [hf1]; exact hi n' on' sels' (List.mem_cons_of_mem _ hm)
      · intro i hi
        rw [ih.okeep i]
        intro k n' v sels' hm
        rw [ho1]; exact hi k n' v sels' (List.mem_cons_of_mem _ hm)
      · intro n' on' sels' hm
        rcases List.mem_cons.mp hm with heq | hm
        · cases heq
          exact ⟨t, id, f, rs, ht, hid, hf, hkeep_id, hcorr.1, hcorr.2⟩
        · obtain ⟨t', id', f1, rs', h1, h2, h3, h4, h5, h6⟩ := ih.frag n' on' sels' hm
          rw [hf1] at h2 h5
          have hne : id ≠ id' := by
            intro e; subst e
            have := ffOf_some h2
            rw [hnid] at this
            cases this
            exact hfn'.1 (mem_fragNames hm)
          refine ⟨t', id', f1, rs', h1, h2, ?_, h4, h5, h6⟩
          simpa [List.getElem?_set, hne] using h3
      · intro kind name vars sels' hm
        rcases List.mem_cons.mp hm with heq | hm
        · cases heq
        · obtain ⟨n', root, o, id', op0, rs', h1, h2, h3, h4, h5, h6, h7⟩ := ih.op kind name vars sels' hm
          rw [hf1] at h7
          exact ⟨n', root, o, id', op0, rs', h1, h2, h3, h4, h5, h6, h7⟩
    | op kind name vars sels =>
      obtain ⟨root, o, n, id, vs, rs, op, hroot, ho, rfl, hid, hop, hrs, rfl⟩ := resolveDef_op hstep
      have hfn' : (Valid.fragNames rest).Nodup := by simpa [Valid.fragNames] using hfn
      have hon' : n ∉ Valid.opNames rest ∧ (Valid.opNames rest).Nodup := by
        simpa [Valid.opNames] using hon
      have ih := fold_ok s rest _ qF hrest hfn' hon'.2
      rw [findOperation_eq] at hid
      have hnid : (onames q)[id]? = some n := ffOf_some hid
      have hlt : id < q.operations.length := (List.getElem?_eq_some_iff.mp hop).1
      have ho1 : onames { q with variables := q.variables ++ vs, operations := q.operations.set id { op with sels := op.sels ++ rs } } = onames q := by
        simp only [onames]; exact set_map_self _ _ _ _ _ hop rfl
      have hf1 : fnames { q with variables := q.variables ++ vs, operations := q.operations.set id { op with sels := op.sels ++ rs } } = fnames q := rfl
      have hkeep_id : qF.operations[id]? = some { op with sels := op.sels ++ rs } := by
        rw [ih.okeep id]
        · simp [hlt]
        · intro k n' v sels' hm hc
          rw [ho1, hnid] at hc
          cases hc
          exact hon'.1 (mem_opNames hm)
      rw [← fieldsOf_object ho] at hrs
      have hcorr := objSels_corr s _ _ _ sels rs hrs
      rw [findFragment_eq] at hcorr
      change CorrL s (ffOf (fnames q)) _ _ _ at hcorr
      constructor
      · rw [ih.fnames_eq, hf1]
      · rw [ih.onames_eq, ho1]
      · intro i hi
        rw [ih.fkeep i]
        intro n' on' sels' hm
        rw [hf1]; exact hi n' on' sels' (List.mem_cons_of_mem _ hm)
      · intro i hi
        rw [ih.okeep i]
        · have : id ≠ i := by
            intro e; subst e
            exact hi kind n vars sels List.mem_cons_self hnid
          simp [this]
        · intro k n' v sels' hm
          rw [ho1]; exact hi k n' v sels' (List.mem_cons_of_mem _ hm)
      · intro n' on' sels' hm
        rcases List.mem_cons.mp hm with heq | hm
        · cases heq
        · obtain ⟨t', id', f1, rs', h1, h2, h3, h4, h5, h6⟩ := ih.frag n' on' sels' hm
          rw [hf1] at h2 h5
          exact ⟨t', id', f1, rs', h1, h2, h3, h4, h5, h6⟩
      · intro kind' name' vars' sels' hm
        rcases List.mem_cons.mp hm with heq | hm
        · cases heq
          exact ⟨n, root, o, id, op, rs, rfl, hroot, ho, hid, hop, hkeep_id, hcorr⟩
        · obtain ⟨n', root', o', id', op0, rs', h1, h2, h3, h4, h5, h6, h7⟩ := ih.op kind' name' vars' sels' hm
          rw [ho1] at h4
          rw [hf1] at h7
          have hne : id ≠ id' := by
            intro e; subst e
            have := ffOf_some h4
            rw [hnid] at this
            cases this
            subst h1
            exact hon'.1 (mem_opNames hm)
          refine ⟨n', root', o', id', op0, rs', h1, h2, h3, h4, ?_, h6, h7⟩
          simpa [List.getElem?_set, hne] using h5

/-! ## the three validators, per fragment / operation -/

theorem forIn_ok {α} (body : α → PUnit → Outcome (ForInStep PUnit))
    (hy : ∀ a r, body a PUnit.unit = .ok r → r = .yield PUnit.unit) :
    ∀ (l : List α) (u : PUnit), forIn l PUnit.unit body = .ok u → ∀ a ∈ l, body a PUnit.unit = .ok (.yield PUnit.unit)
  | [], _, _, a, ha => by simp at ha
  | x :: xs, u, h, a, ha => by
    rw [List.forIn_cons] at h
    obtain ⟨r, hr, h⟩ := bind_ok h
    have := hy x r hr
    subst this
    rcases List.mem_cons.mp ha with rfl | ha
    · exact hr
    · exact forIn_ok body hy xs u h a ha

theorem forIn_check_ok {α} (g : α → Outcome Unit) (l : List α) (u : PUnit)
    (h : forIn l PUnit.unit (fun a _ => do g a; pure (ForInStep.yield PUnit.unit)) = .ok u) :
    ∀ a ∈ l, g a = .ok () := by
  intro a ha
  have := forIn_ok (fun a _ => do g a; pure (ForInStep.yield PUnit.unit)) (by
    intro a r hr
    obtain ⟨_, _, hr⟩ := bind_ok hr
    simp only [pure, Except.pure, Except.ok.injEq] at hr
    exact hr.symm) l u h a ha
  obtain ⟨_, hg, _⟩ := bind_ok this
  exact hg

theorem forIn_cond_ok {α} (c : α → Bool) (msg : α → String) (l : List α) (u : PUnit)
    (h : forIn l PUnit.unit (fun a _ => if c a = true then do
        (fail' (msg a) : Outcome PUnit); pure (ForInStep.yield PUnit.unit)
      else pure (ForInStep.yield PUnit.unit)) = .ok u) :
    ∀ a ∈ l, c a = false := by
  intro a ha
  have := forIn_ok (fun a _ => if c a = true then do
        (fail' (msg a) : Outcome PUnit); pure (ForInStep.yield PUnit.unit)
      else pure (ForInStep.yield PUnit.unit)) (by
    intro a r hr
    split at hr
    · simp [fail', bind, Except.bind] at hr
    · simp only [pure, Except.pure, Except.ok.injEq] at hr
      exact hr.symm) l u h a ha
  split at this
  · simp [fail', bind, Except.bind] at this
  · rename_i hc; simpa using hc

theorem validateTypenamePresence_ok {s : Schema} {q : Query} (h : validateTypenamePresence s q = .ok ()) :
    (∀ f ∈ q.fragments, f.on.isAbstract = true → containsTypename q f.on f.sels = true) ∧
    (∀ f ∈ q.fragments, fieldsHaveTypenameList s q f.sels = .ok ()) ∧
    (∀ o ∈ q.operations, fieldsHaveTypenameList s q o.sels = .ok ()) := by
  unfold validateTypenamePresence at h
  obtain ⟨u1, h1, h⟩ := bind_ok h
  obtain ⟨u2, h2, h⟩ := bind_ok h
  obtain ⟨u3, h3, h⟩ := bind_ok h
  refine ⟨?_, forIn_check_ok _ _ _ h2, forIn_check_ok _ _ _ h3⟩
  intro f hf ha
  have := forIn_cond_ok (fun f : RFragment => f.on.isAbstract && !containsTypename q f.on f.sels) _ _ _ h1 f hf
  simp only [ha, Bool.true_and, Bool.not_eq_false'] at this
  exact this

theorem validateTypeConditions_ok {s : Schema} {q : Query} (h : validateTypeConditions s q = .ok ()) :
    (∀ f ∈ q.fragments, typeConditionsList s q f.on f.sels = .ok ()) ∧
    (∀ o ∈ q.operations, typeConditionsList s q (.object o.objectId) o.sels = .ok ()) := by
  unfold validateTypeConditions at h
  obtain ⟨u1, h1, h⟩ := bind_ok h
  obtain ⟨u2, h2, h⟩ := bind_ok h
  exact ⟨forIn_check_ok _ _ _ h1, forIn_check_ok _ _ _ h2⟩

theorem validateSubscriptions_ok {q : Query} (h : validateSubscriptions q = .ok ()) :
    ∀ o ∈ q.operations, o.kind = .subscription → (rootFieldCount q (depthFuel q) [] o.sels).1 = 1 := by
  unfold validateSubscriptions at h
  obtain ⟨u1, h1, h⟩ := bind_ok h
  intro o ho hk
  have := forIn_cond_ok (fun o : ROperation => o.kind == OpKind.subscription &&
    (rootFieldCount q (depthFuel q) [] o.sels).fst != 1) _ _ _ h1 o ho
  simpa [hk] using this

/-! ## subscription root: the depth-first count with a shared visited set -/

/-- number of fragment indices below `nf` not yet visited -/
def unvisited (nf : Nat) (V : List Nat) : Nat := (List.range nf).countP (fun i => !V.contains i)

theorem unvisited_mono {nf : Nat} {V V' : List Nat} (h : ∀ x ∈ V, x ∈ V') : unvisited nf V' ≤ unvisited nf V := by
  unfold unvisited
  apply List.countP_mono_left
  intro x _ hx
  simp only [Bool.not_eq_true', List.contains_eq_mem, decide_eq_false_iff_not] at hx ⊢
  exact fun hm => hx (h x hm)

theorem countP_cons_visited (fid : Nat) (V : List Nat) (hV : fid ∉ V) : ∀ (l : List Nat), fid ∈ l →
    l.countP (fun i => !(fid :: V).contains i) + 1 ≤ l.countP (fun i => !V.contains i)
  | [], h => by simp at h
  | a :: l, h => by
    have hmono : l.countP (fun i => !(fid :: V).contains i) ≤ l.countP (fun i => !V.contains i) := by
      apply List.countP_mono_left
      intro x _ hx
      simp only [Bool.not_eq_true', List.contains_eq_mem, decide_eq_false_iff_not, List.mem_cons, not_or] at hx ⊢
      exact hx.2
    by_cases ha : a = fid
    · subst ha
      have e1 : (!(a :: V).contains a) = false := by simp
      have e2 : (!V.contains a) = true := by simp [hV]
      rw [List.countP_cons, List.countP_cons, e1, e2]
      simp only [Bool.false_eq_true, if_false, if_true]
      omega
    · have hl : fid ∈ l := by
        rcases List.mem_cons.mp h with h | h
        · exact absurd h.symm ha
        · exact h
      have ih := countP_cons_visited fid V hV l hl
      have : (!(fid :: V).contains a) = (!V.contains a) := by
        simp [ha]
      rw [List.countP_cons, List.countP_cons, this]
      omega

theorem unvisited_cons {nf fid : Nat} {V : List Nat} (hlt : fid < nf) (hV : fid ∉ V) :
    unvisited nf (fid :: V) + 1 ≤ unvisited nf V :=
  countP_cons_visited fid V hV _ (List.mem_range.mpr hlt)

abbrev FT := List (String × String × List QSel)

/-- index of the fragment a spread name denotes, from the document's fragment table only -/
def ftff (ft : FT) : String → Option Nat := ffOf (ft.map (·.1))

theorem find?_eq_findIdx?_bind {α} (p : α → Bool) : ∀ (l : List α), l.find? p = (l.findIdx? p).bind (l[·]?)
  | [] => rfl
  | a :: l => by
    rw [List.find?_cons, List.findIdx?_cons]
    cases hp : p a with
    | true => simp
    | false =>
      simp only [Bool.false_eq_true, if_false]
      rw [find?_eq_findIdx?_bind p l]
      cases l.findIdx? p <;> simp

theorem ftff_some {ft : FT} {n : String} {fid : Nat} (h : ftff ft n = some fid) :
    ∃ e, ft[fid]? = some e ∧ e.1 = n ∧ Valid.findFrag ft n = some e.2 := by
  have h1 := ffOf_some h
  rw [List.getElem?_map] at h1
  cases he : ft[fid]? with
  | none => simp [he] at h1
  | some e =>
    simp only [he, Option.map_some, Option.some.injEq] at h1
    refine ⟨e, rfl, h1, ?_⟩
    unfold Valid.findFrag
    rw [find?_eq_findIdx?_bind]
    have : ft.findIdx? (fun x => x.1 == n) = some fid := by
      have := h
      unfold ftff ffOf at this
      rw [List.findIdx?_map] at this
      exact this
    rw [this]
    simp [he]

theorem ftff_of_findFrag {ft : FT} {n : String} {p : String × List QSel} (h : Valid.findFrag ft n = some p) :
    ∃ fid e, ftff ft n = some fid ∧ ft[fid]? = some e ∧ e.2 = p := by
  unfold Valid.findFrag at h
  rw [find?_eq_findIdx?_bind] at h
  cases hi : ft.findIdx? (fun x => x.1 == n) with
  | none => simp [hi] at h
  | some fid =>
    simp only [hi, Option.bind_some] at h
    cases he : ft[fid]? with
    | none => simp [he] at h
    | some e =>
      simp only [he, Option.map_some, Option.some.injEq] at h
      refine ⟨fid, e, ?_, he, h⟩
      unfold ftff ffOf
      rw [List.findIdx?_map]
      exact hi

/-- the walk of `count_root_fields` replayed on the written document, collecting response keys -/
def qstep (ft : FT) (rec : List Nat → List QSel → List String × List Nat)
    (acc : List String × List Nat) : QSel → List String × List Nat
  | .field alias name _ => (acc.1 ++ [alias.getD name], acc.2)
  | .inline _ sub => let r := rec acc.2 sub; (acc.1 ++ r.1, r.2)
  | .spread n =>
    match ftff ft n with
    | none => acc
    | some fid =>
      if acc.2.contains fid then acc else
      match ft[fid]? with
      | none => acc
      | some e => let r := rec (fid :: acc.2) e.2.2; (acc.1 ++ r.1, r.2)

def qwalk (ft : FT) : Nat → List Nat → List QSel → List String × List Nat
  | 0, V, _ => ([], V)
  | fuel+1, V, sels => sels.foldl (qstep ft (fun V' s' => qwalk ft fuel V' s')) ([], V)

/-- monotonicity of one step and of the fold -/
theorem qstep_mono (ft : FT) {rec} (hrec : ∀ V sels, ∀ v ∈ V, v ∈ (rec V sels).2) (acc) (x : QSel) :
    (∀ k ∈ acc.1, k ∈ (qstep ft rec acc x).1) ∧ (∀ v ∈ acc.2, v ∈ (qstep ft rec acc x).2) := by
  cases x with
  | field a n sub => exact ⟨fun k hk => List.mem_append_left _ hk, fun v hv => hv⟩
  | inline on sub =>
    simp only [qstep]
    exact ⟨fun k hk => List.mem_append_left _ hk, fun v hv => hrec _ _ v hv⟩
  | spread n =>
    simp only [qstep]
    split
    · exact ⟨fun _ h => h, fun _ h => h⟩
    · split
      · exact ⟨fun _ h => h, fun _ h => h⟩
      · split
        · exact ⟨fun _ h => h, fun _ h => h⟩
        · exact ⟨fun k hk => List.mem_append_left _ hk, fun v hv => hrec _ _ v (List.mem_cons_of_mem _ hv)⟩

theorem qfold_mono (ft : FT) {rec} (hrec : ∀ V sels, ∀ v ∈ V, v ∈ (rec V sels).2) :
    ∀ (xs : List QSel) (acc), (∀ k ∈ acc.1, k ∈ (xs.foldl (qstep ft rec) acc).1) ∧
      (∀ v ∈ acc.2, v ∈ (xs.foldl (qstep ft rec) acc).2)
  | [], acc => by simp
  | x :: xs, acc => by
    rw [List.foldl_cons]
    have h1 := qstep_mono ft hrec acc x
    have h2 := qfold_mono ft hrec xs (qstep ft rec acc x)
    exact ⟨fun k hk => h2.1 k (h1.1 k hk), fun v hv => h2.2 v (h1.2 v hv)⟩

theorem qwalk_mono (ft : FT) : ∀ (fuel : Nat) (V : List Nat) (sels : List QSel), ∀ v ∈ V, v ∈ (qwalk ft fuel V sels).2
  | 0, V, sels => by simp [qwalk]
  | fuel+1, V, sels => by
    unfold qwalk
    exact (qfold_mono ft (fun V' s' => qwalk_mono ft fuel V' s') sels ([], V)).2

/-- `x` is a field or a spread of the selection set, possibly inside inline fragments -/
inductive Dir : List QSel → QSel → Prop
  | field {sels a n sub} : QSel.field a n sub ∈ sels → Dir sels (.field a n sub)
  | spread {sels n} : QSel.spread n ∈ sels → Dir sels (.spread n)
  | inl {sels on sub x} : QSel.inline on sub ∈ sels → Dir sub x → Dir sels x

/-- every root field of `sels` has its key in `ks`, every spread of `sels` leads into `C` -/
def Cov (ft : FT) (ks : List String) (C : List Nat) (sels : List QSel) : Prop :=
  (∀ a n sub, Dir sels (.field a n sub) → a.getD n ∈ ks) ∧
  (∀ n fid, Dir sels (.spread n) → ftff ft n = some fid → fid ∈ C)

def CovI (ft : FT) (ks : List String) (C : List Nat) : QSel → Prop
  | .field a n _ => a.getD n ∈ ks
  | .spread n => ∀ fid, ftff ft n = some fid → fid ∈ C
  | .inline _ sub => Cov ft ks C sub

theorem cov_of_items {ft : FT} {ks C sels} (h : ∀ x ∈ sels, CovI ft ks C x) : Cov ft ks C sels := by
  constructor
  · intro a n sub hd
    cases hd with
    | field hm => exact h _ hm
    | inl hm hd' => exact (h _ hm).1 a n sub hd'
  · intro n fid hd hff
    cases hd with
    | spread hm => exact h _ hm fid hff
    | inl hm hd' => exact (h _ hm).2 n fid hd' hff

theorem items_of_cov {ft : FT} {ks C sels} (h : Cov ft ks C sels) : ∀ x ∈ sels, CovI ft ks C x := by
  intro x hx
  cases x with
  | field a n sub => exact h.1 a n sub (.field hx)
  | spread n => exact fun fid hff => h.2 n fid (.spread hx) hff
  | inline on sub =>
    exact ⟨fun a n s hd => h.1 a n s (.inl hx hd), fun n fid hd hff => h.2 n fid (.inl hx hd) hff⟩

theorem Cov.mono {ft : FT} {ks ks' C C' sels} (hk : ∀ k ∈ ks, k ∈ ks') (hc : ∀ c ∈ C, c ∈ C')
    (h : Cov ft ks C sels) : Cov ft ks' C' sels :=
  ⟨fun a n sub hd => hk _ (h.1 a n sub hd), fun n fid hd hff => hc _ (h.2 n fid hd hff)⟩

theorem CovI.mono {ft : FT} {ks ks' C C' x} (hk : ∀ k ∈ ks, k ∈ ks') (hc : ∀ c ∈ C, c ∈ C')
    (h : CovI ft ks C x) : CovI ft ks' C' x := by
  cases x with
  | field a n sub => exact hk _ h
  | spread n => exact fun fid hff => hc _ (h fid hff)
  | inline on sub => exact Cov.mono hk hc h

/-- post-condition of a walk started with visited set `V` -/
def Post (ft : FT) (V : List Nat) (sels : List QSel) (r : List String × List Nat) : Prop :=
  Cov ft r.1 r.2 sels ∧ ∀ g ∈ r.2, g ∉ V → ∀ e, ft[g]? = some e → Cov ft r.1 r.2 e.2.2

theorem qselDepth_le_of_mem : ∀ {sels : List QSel} {x : QSel}, x ∈ sels → Valid.qselDepth x ≤ Valid.qselsDepth sels
  | [], _, h => by simp at h
  | y :: ys, x, h => by
    unfold Valid.qselsDepth
    rcases List.mem_cons.mp h with rfl | h
    · exact Nat.le_max_left _ _
    · exact Nat.le_trans (qselDepth_le_of_mem h) (Nat.le_max_right _ _)

theorem qfold_post {ft : FT} {K fuel : Nat} {rec : List Nat → List QSel → List String × List Nat}
    (hK : ∀ e ∈ ft, Valid.qselsDepth e.2.2 + 1 ≤ K)
    (hmono : ∀ V sels, ∀ v ∈ V, v ∈ (rec V sels).2)
    (hrec : ∀ V sels, unvisited ft.length V * K + Valid.qselsDepth sels + 1 ≤ fuel → Post ft V sels (rec V sels)) :
    ∀ (xs : List QSel) (acc : List String × List Nat),
      (∀ x ∈ xs, unvisited ft.length acc.2 * K + Valid.qselDepth x ≤ fuel) →
      (∀ x ∈ xs, CovI ft (xs.foldl (qstep ft rec) acc).1 (xs.foldl (qstep ft rec) acc).2 x) ∧
      (∀ g ∈ (xs.foldl (qstep ft rec) acc).2, g ∉ acc.2 → ∀ e, ft[g]? = some e →
        Cov ft (xs.foldl (qstep ft rec) acc).1 (xs.foldl (qstep ft rec) acc).2 e.2.2)
  | [], acc, _ => by
    simp only [List.foldl_nil]
    exact ⟨fun x hx => by simp at hx, fun g hg hn => absurd hg hn⟩
  | x :: xs, acc, had => by
    rw [List.foldl_cons]
    have hx := had x List.mem_cons_self
    -- the step
    have hstep : CovI ft (qstep ft rec acc x).1 (qstep ft rec acc x).2 x ∧
        (∀ g ∈ (qstep ft rec acc x).2, g ∉ acc.2 → ∀ e, ft[g]? = some e →
          Cov ft (qstep ft rec acc x).1 (qstep ft rec acc x).2 e.2.2) := by
      cases x with
      | field a n sub =>
        simp only [qstep, CovI]
        exact ⟨by simp, fun g hg hn => absurd hg hn⟩
      | inline on sub =>
        simp only [qstep, CovI]
        have hp := hrec acc.2 sub (by simp only [Valid.qselDepth] at hx; omega)
        refine ⟨hp.1.mono (fun k hk => List.mem_append_right _ hk) (fun _ h => h), ?_⟩
        intro g hg hn e he
        exact (hp.2 g hg hn e he).mono (fun k hk => List.mem_append_right _ hk) (fun _ h => h)
      | spread n =>
        simp only [qstep, CovI]
        split
        · rename_i hnone
          exact ⟨fun fid hff => (by rw [hnone] at hff; cases hff), fun g hg hn => absurd hg hn⟩
        · rename_i fid hfid
          split
          · rename_i hvis
            refine ⟨fun fid' hff => ?_, fun g hg hn => absurd hg hn⟩
            rw [hfid] at hff; cases hff
            simpa using hvis
          · rename_i hvis
            have hvis' : fid ∉ acc.2 := by simpa using hvis
            obtain ⟨e, he, _, _⟩ := ftff_some hfid
            simp only [he]
            have hlt : fid < ft.length := (List.getElem?_eq_some_iff.mp he).1
            have hu := unvisited_cons hlt hvis'
            have hKe := hK e (List.mem_of_getElem? he)
            have hmul : (unvisited ft.length (fid :: acc.2) + 1) * K ≤ unvisited ft.length acc.2 * K :=
              Nat.mul_le_mul_right K hu
            rw [Nat.succ_mul] at hmul
            have hp := hrec (fid :: acc.2) e.2.2 (by simp only [Valid.qselDepth] at hx; omega)
            refine ⟨fun fid' hff => ?_, ?_⟩
            · rw [hfid] at hff; cases hff
              exact hmono _ _ fid List.mem_cons_self
            · intro g hg hn e' he'
              by_cases hgf : g = fid
              · subst hgf
                rw [he] at he'; cases he'
                exact hp.1.mono (fun k hk => List.mem_append_right _ hk) (fun _ h => h)
              · have : g ∉ fid :: acc.2 := by
                  intro hm
                  rcases List.mem_cons.mp hm with h | h
                  · exact hgf h
                  · exact hn h
                exact (hp.2 g hg this e' he').mono (fun k hk => List.mem_append_right _ hk) (fun _ h => h)
    have hm1 := qstep_mono ft hmono acc x
    have hm2 := qfold_mono ft hmono xs (qstep ft rec acc x)
    have ih := qfold_post hK hmono hrec xs (qstep ft rec acc x) (by
      intro y hy
      have := had y (List.mem_cons_of_mem _ hy)
      have hu := unvisited_mono (nf := ft.length) hm1.2
      have := Nat.mul_le_mul_right K hu
      omega)
    constructor
    · intro y hy
      rcases List.mem_cons.mp hy with rfl | hy
      · exact hstep.1.mono hm2.1 hm2.2
      · exact ih.1 y hy
    · intro g hg hn e he
      by_cases hgs : g ∈ (qstep ft rec acc x).2
      · exact (hstep.2 g hgs hn e he).mono hm2.1 hm2.2
      · exact ih.2 g hg hgs e he

theorem qwalk_post {ft : FT} {K : Nat} (hK : ∀ e ∈ ft, Valid.qselsDepth e.2.2 + 1 ≤ K) :
    ∀ (fuel : Nat) (V : List Nat) (sels : List QSel),
      unvisited ft.length V * K + Valid.qselsDepth sels + 1 ≤ fuel → Post ft V sels (qwalk ft fuel V sels)
  | 0, V, sels, h => by omega
  | fuel+1, V, sels, h => by
    unfold qwalk
    have := qfold_post hK (fun V' s' => qwalk_mono ft fuel V' s') (fun V' s' => qwalk_post hK fuel V' s')
      sels ([], V) (by
        intro x hx
        have := qselDepth_le_of_mem hx
        simp only
        omega)
    exact ⟨cov_of_items this.1, this.2⟩

/-- one item of `Valid.rootKeys` -/
def rkItem (ft : FT) (G : Nat) : QSel → List String
  | .field alias name _ => [alias.getD name]
  | .spread n => match Valid.findFrag ft n with
    | some (_, fsels) => Valid.rootKeys ft G fsels
    | none => []
  | .inline _ sub => Valid.rootKeys ft G sub

theorem rootKeys_succ (ft : FT) (G : Nat) (sels : List QSel) :
    Valid.rootKeys ft (G + 1) sels = sels.flatMap (rkItem ft G) := by
  unfold Valid.rootKeys
  congr

/-- every key the specification's expansion finds is one the walk has collected, once the walk's
    result is closed under spreads -/
theorem rootKeys_sub_of_closed {ft : FT} {ks : List String} {C : List Nat}
    (hcl : ∀ g ∈ C, ∀ e, ft[g]? = some e → Cov ft ks C e.2.2) :
    ∀ (G : Nat) (sels : List QSel), Cov ft ks C sels → ∀ k ∈ Valid.rootKeys ft G sels, k ∈ ks
  | 0, sels, _, k, hk => by simp [Valid.rootKeys] at hk
  | G+1, sels, hc, k, hk => by
    rw [rootKeys_succ, List.mem_flatMap] at hk
    obtain ⟨x, hx, hkx⟩ := hk
    have hi := items_of_cov hc x hx
    cases x with
    | field a n sub =>
      simp only [rkItem, List.mem_singleton] at hkx
      subst hkx; exact hi
    | inline on sub => exact rootKeys_sub_of_closed hcl G sub hi k hkx
    | spread n =>
      simp only [rkItem] at hkx
      split at hkx
      · rename_i on fsels hff
        obtain ⟨fid, e, h1, h2, h3⟩ := ftff_of_findFrag hff
        have hfc : fid ∈ C := hi fid h1
        have := hcl fid hfc e h2
        rw [h3] at this
        exact rootKeys_sub_of_closed hcl G fsels this k hkx
      · simp at hkx

/-- every key the walk collects is found by the specification's expansion, given enough fuel there -/
theorem qfold_sound {ft : FT} {K G : Nat} {rec : List Nat → List QSel → List String × List Nat}
    (hK : ∀ e ∈ ft, Valid.qselsDepth e.2.2 + 1 ≤ K)
    (hmono : ∀ V sels, ∀ v ∈ V, v ∈ (rec V sels).2)
    (hrec : ∀ V sels, unvisited ft.length V * K + Valid.qselsDepth sels + 1 ≤ G →
      ∀ k ∈ (rec V sels).1, k ∈ Valid.rootKeys ft G sels) :
    ∀ (xs : List QSel) (acc : List String × List Nat),
      (∀ x ∈ xs, unvisited ft.length acc.2 * K + Valid.qselDepth x ≤ G) →
      ∀ k ∈ (xs.foldl (qstep ft rec) acc).1, k ∈ acc.1 ∨ ∃ x ∈ xs, k ∈ rkItem ft G x
  | [], acc, _, k, hk => Or.inl hk
  | x :: xs, acc, had, k, hk => by
    rw [List.foldl_cons] at hk
    have hx := had x List.mem_cons_self
    have hm1 := qstep_mono ft hmono acc x
    have ih := qfold_sound hK hmono hrec xs (qstep ft rec acc x) (by
      intro y hy
      have := had y (List.mem_cons_of_mem _ hy)
      have hu := unvisited_mono (nf := ft.length) hm1.2
      have := Nat.mul_le_mul_right K hu
      omega) k hk
    rcases ih with ih | ⟨y, hy, hky⟩
    · -- k was added by the step for x
      have : k ∈ acc.1 ∨ k ∈ rkItem ft G x := by
        cases x with
        | field a n sub =>
          simp only [qstep, List.mem_append, List.mem_singleton] at ih
          rcases ih with h | h
          · exact Or.inl h
          · right; simp [rkItem, h]
        | inline on sub =>
          simp only [qstep, List.mem_append] at ih
          rcases ih with h | h
          · exact Or.inl h
          · right
            simp only [rkItem]
            exact hrec acc.2 sub (by simp only [Valid.qselDepth] at hx; omega) k h
        | spread n =>
          simp only [qstep] at ih
          split at ih
          · exact Or.inl ih
          · rename_i fid hfid
            split at ih
            · exact Or.inl ih
            · rename_i hvis
              have hvis' : fid ∉ acc.2 := by simpa using hvis
              obtain ⟨e, he, _, hfind⟩ := ftff_some hfid
              simp only [he, List.mem_append] at ih
              rcases ih with h | h
              · exact Or.inl h
              · right
                have hlt : fid < ft.length := (List.getElem?_eq_some_iff.mp he).1
                have hu := unvisited_cons hlt hvis'
                have hKe := hK e (List.mem_of_getElem? he)
                have hmul : (unvisited ft.length (fid :: acc.2) + 1) * K ≤ unvisited ft.length acc.2 * K :=
                  Nat.mul_le_mul_right K hu
                rw [Nat.succ_mul] at hmul
                simp only [rkItem, hfind]
                exact hrec (fid :: acc.2) e.2.2 (by simp only [Valid.qselDepth] at hx; omega) k h
      rcases this with h | h
      · exact Or.inl h
      · exact Or.inr ⟨x, List.mem_cons_self, h⟩
    · exact Or.inr ⟨y, List.mem_cons_of_mem _ hy, hky⟩

theorem qwalk_sound {ft : FT} {K : Nat} (hK : ∀ e ∈ ft, Valid.qselsDepth e.2.2 + 1 ≤ K) :
    ∀ (fuel G : Nat) (V : List Nat) (sels : List QSel),
      unvisited ft.length V * K + Valid.qselsDepth sels + 1 ≤ G →
      ∀ k ∈ (qwalk ft fuel V sels).1, k ∈ Valid.rootKeys ft G sels
  | 0, G, V, sels, _, k, hk => by simp [qwalk] at hk
  | fuel+1, 0, V, sels, h, k, hk => by omega
  | fuel+1, G+1, V, sels, h, k, hk => by
    unfold qwalk at hk
    have := qfold_sound (G := G) hK (fun V' s' => qwalk_mono ft fuel V' s')
      (fun V' s' hh => qwalk_sound hK fuel G V' s' hh) sels ([], V) (by
        intro x hx
        have := qselDepth_le_of_mem hx
        simp only
        omega) k hk
    rcases this with h | ⟨x, hx, hkx⟩
    · simp at h
    · rw [rootKeys_succ, List.mem_flatMap]
      exact ⟨x, hx, hkx⟩

/-- the body of the fold in `Resolve.rootFieldCount` -/
def cstep (q : Query) (rec : List Nat → List Sel → Nat × List Nat) (acc : Nat × List Nat) : Sel → Nat × List Nat
  | .field _ _ _ => (acc.1 + 1, acc.2)
  | .typename => (acc.1 + 1, acc.2)
  | .inline _ sub =>
    let r := rec acc.2 sub
    (acc.1 + r.1, r.2)
  | .spread fid =>
    if acc.2.contains fid then acc else
    match q.fragments[fid]? with
    | none => acc
    | some f =>
      let r := rec (fid :: acc.2) f.sels
      (acc.1 + r.1, r.2)

theorem rootFieldCount_succ (q : Query) (fuel : Nat) (V : List Nat) (sels : List Sel) :
    rootFieldCount q (fuel + 1) V sels = sels.foldl (cstep q (fun V' s' => rootFieldCount q fuel V' s')) (0, V) := by
  conv => lhs; unfold rootFieldCount
  congr

theorem table_frag {s : Schema} {ft : FT} {qF : Query} (htab : TableOk s (ftff ft) ft qF) {n : String} {fid : Nat}
    (hff : ftff ft n = some fid) :
    ∃ f e, qF.fragments[fid]? = some f ∧ ft[fid]? = some e ∧ s.findType e.2.1 = some f.on ∧
      CorrL s (ftff ft) f.on e.2.2 f.sels := by
  obtain ⟨f, on, fsels, h1, h2, h3, h4⟩ := htab.find n fid hff
  obtain ⟨e, he, _, hfind⟩ := ftff_some hff
  rw [h2] at hfind
  have : e.2 = (on, fsels) := (Option.some.inj hfind).symm
  refine ⟨f, e, h1, he, ?_, ?_⟩
  · rw [this]; exact h3
  · rw [this]; exact h4

theorem fold_sim {s : Schema} {ft : FT} {qF : Query} (htab : TableOk s (ftff ft) ft qF)
    {recC : List Nat → List Sel → Nat × List Nat} {recQ : List Nat → List QSel → List String × List Nat}
    (hrec : ∀ V p sels rs, CorrL s (ftff ft) p sels rs → recC V rs = ((recQ V sels).1.length, (recQ V sels).2)) :
    ∀ (xs : List QSel) (rs : List Sel) (p : TypeId), CorrL s (ftff ft) p xs rs →
      ∀ (acc : Nat × List Nat) (accK : List String × List Nat), acc.1 = accK.1.length → acc.2 = accK.2 →
      (rs.foldl (cstep qF recC) acc).1 = (xs.foldl (qstep ft recQ) accK).1.length ∧
      (rs.foldl (cstep qF recC) acc).2 = (xs.foldl (qstep ft recQ) accK).2
  | [], rs, p, hc, acc, accK, h1, h2 => by
    cases hc
    exact ⟨h1, h2⟩
  | x :: xs, rs, p, hc, acc, accK, h1, h2 => by
    cases hc with
    | cons hx hxs =>
      rename_i r rs
      rw [List.foldl_cons, List.foldl_cons]
      have hstep : (cstep qF recC acc r).1 = (qstep ft recQ accK x).1.length ∧
          (cstep qF recC acc r).2 = (qstep ft recQ accK x).2 := by
        cases hx with
        | typename hn => simp [cstep, qstep, h1, h2]
        | field => simp [cstep, qstep, h1, h2]
        | inline ht hleaf hsub =>
          simp only [cstep, qstep]
          rw [h2, hrec _ _ _ _ hsub]
          simp [h1]
        | spread hff =>
          rename_i n fid
          obtain ⟨f, e, hf, he, _, hcf⟩ := table_frag htab hff
          simp only [cstep, qstep, hff, hf, he, h2]
          split
          · exact ⟨h1, h2⟩
          · rw [hrec _ _ _ _ hcf]
            simp [h1]
      exact fold_sim htab hrec xs rs p hxs _ _ hstep.1 hstep.2

theorem walk_sim {s : Schema} {ft : FT} {qF : Query} (htab : TableOk s (ftff ft) ft qF) :
    ∀ (fuel : Nat) (V : List Nat) (p : TypeId) (sels : List QSel) (rs : List Sel), CorrL s (ftff ft) p sels rs →
      rootFieldCount qF fuel V rs = ((qwalk ft fuel V sels).1.length, (qwalk ft fuel V sels).2)
  | 0, V, p, sels, rs, hc => by simp [rootFieldCount, qwalk]
  | fuel+1, V, p, sels, rs, hc => by
    rw [rootFieldCount_succ]
    unfold qwalk
    have := fold_sim htab (fun V' p' s' r' hc' => walk_sim htab fuel V' p' s' r' hc') sels rs p hc (0, V) ([], V) rfl rfl
    exact Prod.ext this.1 this.2

mutual
  theorem corr_depth {s : Schema} {ff} : ∀ (x : QSel) (p : TypeId) (r : Sel), Corr s ff p x r →
      selDepth' r = Valid.qselDepth x
    | .field a n sub, p, r, hc => by
      cases hc with
      | typename => simp [selDepth', Valid.qselDepth, Valid.qselsDepth]
      | field _ _ _ _ hsub =>
        simp only [selDepth', Valid.qselDepth]
        rw [corrL_depth sub _ _ hsub]
    | .inline on sub, p, r, hc => by
      cases hc with
      | inline _ _ hsub =>
        simp only [selDepth', Valid.qselDepth]
        rw [corrL_depth sub _ _ hsub]
    | .spread n, p, r, hc => by
      cases hc with
      | spread => simp [selDepth', Valid.qselDepth]
  theorem corrL_depth {s : Schema} {ff} : ∀ (xs : List QSel) (p : TypeId) (rs : List Sel), CorrL s ff p xs rs →
      selsDepth' rs = Valid.qselsDepth xs
    | [], p, rs, hc => by cases hc; simp [selsDepth', Valid.qselsDepth]
    | x :: xs, p, rs, hc => by
      cases hc with
      | cons hx hxs =>
        simp only [selsDepth', Valid.qselsDepth]
        rw [corr_depth x _ _ hx, corrL_depth xs _ _ hxs]
end

theorem foldl_max_ge (l : List Nat) : ∀ (init : Nat), init ≤ l.foldl max init ∧ ∀ x ∈ l, x ≤ l.foldl max init := by
  induction l with
  | nil => intro init; simp
  | cons a l ih =>
    intro init
    rw [List.foldl_cons]
    have := ih (max init a)
    refine ⟨by omega, ?_⟩
    intro x hx
    rcases List.mem_cons.mp hx with rfl | hx
    · have := this.1; omega
    · exact this.2 x hx

theorem eraseDups_const {k : String} : ∀ (L : List String), (∀ x ∈ L, x = k) → L ≠ [] → L.eraseDups = [k]
  | [], _, h => absurd rfl h
  | a :: as, hall, _ => by
    rw [List.eraseDups_cons]
    have ha : a = k := hall a List.mem_cons_self
    subst ha
    have : List.filter (fun b => !b == a) as = [] := by
      rw [List.filter_eq_nil_iff]
      intro x hx
      simp [hall x (List.mem_cons_of_mem _ hx)]
    rw [this]
    simp

theorem unvisited_le (nf : Nat) (V : List Nat) : unvisited nf V ≤ nf := by
  unfold unvisited
  have := List.countP_le_length (p := fun i => !V.contains i) (l := List.range nf)
  simpa using this

/-- the subscription clause: a count of exactly one root field means the specification's expansion
    finds exactly one response key -/
theorem sub_keys {s : Schema} {ft : FT} {qF : Query} (htab : TableOk s (ftff ft) ft qF)
    {p : TypeId} {sels : List QSel} {rs : List Sel} (hc : CorrL s (ftff ft) p sels rs)
    {dq D : Nat}
    (hdq : ∀ e ∈ ft, Valid.qselsDepth e.2.2 ≤ dq) (hdq' : Valid.qselsDepth sels ≤ dq)
    (hD : ∀ e ∈ ft, Valid.qselsDepth e.2.2 ≤ D) (hD' : Valid.qselsDepth sels ≤ D)
    (hcount : (rootFieldCount qF ((ft.length + 1) * (dq + 2) + 1) [] rs).1 = 1) :
    (Valid.rootKeys ft ((ft.length + 1) * (D + 1) + 1) sels).eraseDups.length = 1 := by
  rw [walk_sim htab _ _ _ _ _ hc] at hcount
  simp only at hcount
  have hu := unvisited_le ft.length []
  -- completeness of the walk with the code's fuel
  have hpost := qwalk_post (ft := ft) (K := dq + 1) (fun e he => by have := hdq e he; omega)
    ((ft.length + 1) * (dq + 2) + 1) [] sels (by
      have := Nat.mul_le_mul_right (dq + 1) hu
      simp only [Nat.add_mul, Nat.mul_add] at this ⊢
      omega)
  -- soundness of the walk against the specification's fuel
  have hsound := qwalk_sound (ft := ft) (K := D + 1) (fun e he => by have := hD e he; omega)
    ((ft.length + 1) * (dq + 2) + 1) ((ft.length + 1) * (D + 1) + 1) [] sels (by
      have := Nat.mul_le_mul_right (D + 1) hu
      simp only [Nat.add_mul, Nat.mul_add] at this ⊢
      omega)
  generalize qwalk ft ((ft.length + 1) * (dq + 2) + 1) [] sels = w at hcount hpost hsound
  obtain ⟨ks, C⟩ := w
  simp only at hcount hpost hsound
  have hsub := rootKeys_sub_of_closed (ft := ft) (ks := ks) (C := C)
    (fun g hg e he => hpost.2 g hg (by simp) e he) ((ft.length + 1) * (D + 1) + 1) sels hpost.1
  match ks, hcount with
  | [k0], _ =>
    have hall : ∀ x ∈ Valid.rootKeys ft ((ft.length + 1) * (D + 1) + 1) sels, x = k0 := by
      intro x hx; simpa using hsub x hx
    have hne : Valid.rootKeys ft ((ft.length + 1) * (D + 1) + 1) sels ≠ [] := by
      intro h
      have := hsound k0 (by simp)
      rw [h] at this
      simp at this
    rw [eraseDups_const _ hall hne]
    rfl

/-! ## (d) assembly -/

theorem nodup_map_inj {α β} (g : α → β) : ∀ (l : List α), (l.map g).Nodup → ∀ a ∈ l, ∀ b ∈ l, g a = g b → a = b
  | [], _, a, ha, _, _, _ => by simp at ha
  | x :: l, hnd, a, ha, b, hb, hg => by
    rw [List.map_cons, List.nodup_cons] at hnd
    rcases List.mem_cons.mp ha with ha | ha <;> rcases List.mem_cons.mp hb with hb | hb
    · rw [ha, hb]
    · exact absurd (List.mem_map.mpr ⟨b, hb, by rw [← hg, ha]⟩) hnd.1
    · exact absurd (List.mem_map.mpr ⟨a, ha, by rw [hg, hb]⟩) hnd.1
    · exact nodup_map_inj g l hnd.2 a ha b hb hg

theorem fragTable_names (d : QDoc) : (Valid.fragTable d).map (·.1) = Valid.fragNames d := by
  induction d with
  | nil => rfl
  | cons x d ih =>
    cases x <;> simp_all [Valid.fragTable, Valid.fragNames]

theorem mem_fragTable {d : QDoc} {e : String × String × List QSel} (h : e ∈ Valid.fragTable d) :
    QDef.frag e.1 e.2.1 e.2.2 ∈ d := by
  unfold Valid.fragTable at h
  rw [List.mem_filterMap] at h
  obtain ⟨x, hx, hxe⟩ := h
  cases x with
  | frag n on sels => simp at hxe; subst hxe; exact hx
  | op => simp at hxe
  | selset => simp at hxe

theorem nodupStrings_iff : ∀ (l : List String), Valid.nodupStrings l = true ↔ l.Nodup
  | [] => by simp [Valid.nodupStrings]
  | x :: xs => by
    unfold Valid.nodupStrings
    rw [List.nodup_cons, Bool.and_eq_true, nodupStrings_iff xs]
    simp

theorem resolve_inv {s : Schema} {d : QDoc} {qF : Query} (h : resolve s d = .ok qF) :
    ∃ q0, createRoots s d {} = .ok q0 ∧ d.foldlM (resolveDef s) q0 = .ok qF ∧
      validateTypenamePresence s qF = .ok () ∧ validateSubscriptions qF = .ok () ∧
      validateTypeConditions s qF = .ok () := by
  unfold resolve at h
  obtain ⟨q0, h0, h⟩ := bind_ok h
  obtain ⟨q1, h1, h⟩ := bind_ok h
  obtain ⟨_, h2, h⟩ := bind_ok h
  obtain ⟨_, h3, h⟩ := bind_ok h
  obtain ⟨_, h4, h⟩ := bind_ok h
  simp only [pure, Except.pure, Except.ok.injEq] at h
  subst h
  exact ⟨q0, h0, h1, h2, h3, h4⟩

/-- everything the first two phases of `resolve` establish, stated on the final query -/
structure Resolved (s : Schema) (d : QDoc) (qF : Query) : Prop where
  fnodup : (Valid.fragNames d).Nodup
  onodup : (Valid.opNames d).Nodup
  noselset : ∀ sels, QDef.selset sels ∉ d
  table : TableOk s (ftff (Valid.fragTable d)) (Valid.fragTable d) qF
  frag : ∀ n on sels, QDef.frag n on sels ∈ d → ∃ (t : TypeId) (id : Nat) (rs : List Sel), s.findType on = some t ∧
    qF.fragments[id]? = some ({ name := n, on := t, sels := rs } : RFragment) ∧
    CorrL s (ftff (Valid.fragTable d)) t sels rs ∧ (Valid.isComposite t = false → sels = [])
  op : ∀ kind name vars sels, QDef.op kind name vars sels ∈ d → ∃ (n : String) (root id : Nat) (rs : List Sel), name = some n ∧
    Valid.rootOf s kind = some root ∧ (kind = .subscription → sels.length = 1) ∧
    qF.operations[id]? = some ({ name := n, kind := kind, objectId := root, sels := rs } : ROperation) ∧
    CorrL s (ftff (Valid.fragTable d)) (.object root) sels rs

theorem resolved_of_phases {s : Schema} {d : QDoc} {q0 qF : Query} (h0 : createRoots s d {} = .ok q0)
    (h1 : d.foldlM (resolveDef s) q0 = .ok qF) : Resolved s d qF := by
  have hr := createRoots_ok s d {} q0 h0
  have hfn : fnames q0 = Valid.fragNames d := by simpa [fnames] using hr.fnames
  have hon : onames q0 = Valid.opNames d := by simpa [onames] using hr.onames
  have hfnd : (fnames q0).Nodup := hr.fnodup (by simp [fnames])
  have hond : (onames q0).Nodup := hr.onodup (by simp [onames])
  have hf := fold_ok s d q0 qF h1 (hfn ▸ hfnd) (hon ▸ hond)
  have hff : ffOf (fnames q0) = ftff (Valid.fragTable d) := by
    unfold ftff; rw [fragTable_names, hfn]
  -- final shape of a fragment
  have hfrag : ∀ n on sels, QDef.frag n on sels ∈ d → ∃ t id rs, s.findType on = some t ∧
      ffOf (fnames q0) n = some id ∧
      qF.fragments[id]? = some ({ name := n, on := t, sels := rs } : RFragment) ∧
      CorrL s (ffOf (fnames q0)) t sels rs ∧ (Valid.isComposite t = false → sels = []) := by
    intro n on sels hm
    obtain ⟨t, id, f0, rs, ht, hid, hf0, hfF, hcorr, hleaf⟩ := hf.frag n on sels hm
    obtain ⟨t', ht', hmem⟩ := hr.frag n on sels hm
    rw [ht] at ht'; cases ht'
    have hname : f0.name = n := by
      have := ffOf_some hid
      simp only [fnames, List.getElem?_map, hf0, Option.map_some, Option.some.injEq] at this
      exact this
    have hf0eq : f0 = { name := n, on := t, sels := [] } :=
      nodup_map_inj (fun f : RFragment => f.name) q0.fragments hfnd f0 (List.mem_of_getElem? hf0) _ hmem hname
    subst hf0eq
    exact ⟨t, id, rs, ht, hid, by simpa using hfF, hcorr, hleaf⟩
  have hop : ∀ kind name vars sels, QDef.op kind name vars sels ∈ d → ∃ (n : String) (root id : Nat) (rs : List Sel), name = some n ∧
      Valid.rootOf s kind = some root ∧ (kind = .subscription → sels.length = 1) ∧
      qF.operations[id]? = some ({ name := n, kind := kind, objectId := root, sels := rs } : ROperation) ∧
      CorrL s (ffOf (fnames q0)) (.object root) sels rs := by
    intro kind name vars sels hm
    obtain ⟨n, root, o, id, op0, rs, hn, hroot, ho, hid, hop0, hopF, hcorr⟩ := hf.op kind name vars sels hm
    obtain ⟨n', root', hn', hroot', hsub, hmem⟩ := hr.op kind name vars sels hm
    rw [hn] at hn'; cases hn'
    rw [hroot] at hroot'; cases hroot'
    have hname : op0.name = n := by
      have := ffOf_some hid
      simp only [onames, List.getElem?_map, hop0, Option.map_some, Option.some.injEq] at this
      exact this
    have hopeq : op0 = { name := n, kind := kind, objectId := root, sels := [] } :=
      nodup_map_inj (fun f : ROperation => f.name) q0.operations hond op0 (List.mem_of_getElem? hop0) _ hmem hname
    subst hopeq
    exact ⟨n, root, id, rs, hn, hroot, hsub, by simpa using hopF, hcorr⟩
  refine ⟨hfn ▸ hfnd, hon ▸ hond, hr.noselset, ⟨?_, ?_⟩, ?_, ?_⟩
  · have : (fnames qF).length = (Valid.fragNames d).length := by rw [hf.fnames_eq, hfn]
    rw [← fragTable_names] at this
    simpa [fnames] using this
  · intro n fid hffn
    obtain ⟨e, he, hen, hfind⟩ := ftff_some hffn
    obtain ⟨t, id, rs, ht, hid, hfF, hcorr, _⟩ := hfrag e.1 e.2.1 e.2.2 (mem_fragTable (List.mem_of_getElem? he))
    rw [hff, hen, hffn] at hid
    cases hid
    rw [hff] at hcorr
    exact ⟨_, e.2.1, e.2.2, hfF, hfind, ht, hcorr⟩
  · intro n on sels hm
    obtain ⟨t, id, rs, ht, _, hfF, hcorr, hleaf⟩ := hfrag n on sels hm
    rw [hff] at hcorr
    exact ⟨t, id, rs, ht, hfF, hcorr, hleaf⟩
  · intro kind name vars sels hm
    obtain ⟨n, root, id, rs, h1, h2, h3, h4, h5⟩ := hop kind name vars sels hm
    rw [hff] at h5
    exact ⟨n, root, id, rs, h1, h2, h3, h4, h5⟩

theorem docDepth_ge {d : QDoc} : ∀ x ∈ d, (match x with
    | .op _ _ _ sels => Valid.qselsDepth sels
    | .selset sels => Valid.qselsDepth sels
    | .frag _ _ sels => Valid.qselsDepth sels) ≤ Valid.docDepth d := by
  intro x hx
  unfold Valid.docDepth
  refine (foldl_max_ge _ 0).2 _ ?_
  rw [List.mem_map]
  exact ⟨x, hx, by cases x <;> rfl⟩

theorem depthFuel_eq (q : Query) : ∃ dq, depthFuel q = (q.fragments.length + 1) * (dq + 2) + 1 ∧
    (∀ f ∈ q.fragments, selsDepth' f.sels ≤ dq) ∧ (∀ o ∈ q.operations, selsDepth' o.sels ≤ dq) := by
  refine ⟨_, rfl, ?_, ?_⟩
  · intro f hf
    exact (foldl_max_ge _ 0).2 _ (List.mem_append_left _ (List.mem_map.mpr ⟨f, hf, rfl⟩))
  · intro o ho
    exact (foldl_max_ge _ 0).2 _ (List.mem_append_right _ (List.mem_map.mpr ⟨o, ho, rfl⟩))

/-- schema well-formedness needed by the proof, as a decidable check: union members are object types -/
def SchemaOk (s : Schema) : Bool := s.unions.all fun u => u.variants.all fun v => v.asObject?.isSome

theorem unionsOfObjects_of_schemaOk {s : Schema} (h : SchemaOk s = true) : C06.UnionsOfObjects s := by
  intro u hu v hv
  unfold SchemaOk at h
  rw [List.all_eq_true] at h
  have := h u hu
  rw [List.all_eq_true] at this
  have := this v hv
  cases v <;> simp_all [TypeId.asObject?]

theorem validDef_of_resolved {s : Schema} {d : QDoc} {qF : Query} (hs : C06.UnionsOfObjects s)
    (hR : Resolved s d qF) (h2 : validateTypenamePresence s qF = .ok ())
    (h3 : validateSubscriptions qF = .ok ()) (h4 : validateTypeConditions s qF = .ok ()) :
    ∀ x ∈ d, Valid.validDef s (Valid.fragTable d) false (Valid.docDepth d) x = true := by
  obtain ⟨t1, t2, t3⟩ := validateTypenamePresence_ok h2
  obtain ⟨c1, c2⟩ := validateTypeConditions_ok h4
  have s1 := validateSubscriptions_ok h3
  intro x hx
  cases x with
  | selset sels => exact absurd hx (hR.noselset sels)
  | frag n on sels =>
    obtain ⟨t, id, rs, ht, hfF, hcorr, hleaf⟩ := hR.frag n on sels hx
    have hmem := List.mem_of_getElem? hfF
    unfold Valid.validDef
    simp only [ht, Bool.and_eq_true, Bool.or_eq_true, Bool.not_eq_true']
    constructor
    · cases hcomp : Valid.isComposite t with
      | false => rw [hleaf hcomp]; unfold Valid.validSels; rfl
      | true => exact validSels_of hs hR.table sels t rs hcorr hcomp (c1 _ hmem) (t2 _ hmem)
    · cases ha : t.isAbstract with
      | false => exact Or.inl rfl
      | true =>
        right
        have := t1 _ hmem ha
        unfold containsTypename at this
        rw [hR.table.len] at this
        exact hasTypename_of_contains hR.table _ _ _ _ _ _ hcorr this
  | op kind name vars sels =>
    obtain ⟨n, root, id, rs, rfl, hroot, hsub, hoF, hcorr⟩ := hR.op kind name vars sels hx
    have hmem := List.mem_of_getElem? hoF
    unfold Valid.validDef
    simp only [hroot, Bool.and_eq_true, Bool.or_eq_true]
    constructor
    · exact validSels_of hs hR.table sels _ rs hcorr rfl (c2 _ hmem) (t3 _ hmem)
    · cases kind with
      | query => left; rfl
      | mutation => left; rfl
      | subscription =>
        right
        have hcount := s1 _ hmem rfl
        obtain ⟨dq, hfuel, hdf, hdo⟩ := depthFuel_eq qF
        rw [hfuel, hR.table.len] at hcount
        simp only at hcount
        have hnd : ((Valid.fragTable d).map (·.1)).Nodup := by rw [fragTable_names]; exact hR.fnodup
        have hdq : ∀ e ∈ Valid.fragTable d, Valid.qselsDepth e.2.2 ≤ dq := by
          intro e he
          obtain ⟨i, hi⟩ := List.getElem?_of_mem he
          have hff : ftff (Valid.fragTable d) e.1 = some i :=
            ffOf_of_nodup hnd (by rw [List.getElem?_map, hi]; rfl)
          obtain ⟨f, e', hf, he', _, hcf⟩ := table_frag hR.table hff
          rw [hi] at he'; cases he'
          rw [← corrL_depth _ _ _ hcf]
          exact hdf f (List.mem_of_getElem? hf)
        have hdq' : Valid.qselsDepth sels ≤ dq := by
          rw [← corrL_depth _ _ _ hcorr]
          exact hdo _ hmem
        have hD : ∀ e ∈ Valid.fragTable d, Valid.qselsDepth e.2.2 ≤ Valid.docDepth d :=
          fun e he => docDepth_ge _ (mem_fragTable he)
        have hD' : Valid.qselsDepth sels ≤ Valid.docDepth d := docDepth_ge _ hx
        have := sub_keys hR.table hcorr hdq hdq' hD hD' hcount
        simpa using this

/-- **C06, main soundness theorem** (for `strict = false`, i.e. the rule catalogue without the
    "composite field needs a sub-selection" rule, which the code does not enforce — known finding
    `C06-no-selection`): whatever `resolve` accepts is valid by the specification. -/
theorem resolve_sound_partial {s : Schema} {d : QDoc} {q : Query} (hs : SchemaOk s = true)
    (h : resolve s d = .ok q) : Valid.validDoc s false d = true := by
  obtain ⟨q0, h0, h1, h2, h3, h4⟩ := resolve_inv h
  have hR := resolved_of_phases h0 h1
  unfold Valid.validDoc
  simp only [Bool.and_eq_true, List.all_eq_true]
  exact ⟨⟨(nodupStrings_iff _).mpr hR.onodup, (nodupStrings_iff _).mpr hR.fnodup⟩,
    validDef_of_resolved (unionsOfObjects_of_schemaOk hs) hR h2 h3 h4⟩

/-! ## named layers and corollaries -/

/-- **Layer (a), structural soundness.**  If resolution of a selection set against the type `t`
    succeeds, the written selection `sels` and the resolved one `rs` are in the correspondence `CorrL`:
    every field exists on its parent type (`Valid.lookupField`) and is stored under the id the
    resolved tree carries, leaf-typed fields and `__typename` have no sub-selection, every spread names
    a fragment of the query (`q.findFragment`), every inline fragment has a type condition that the
    schema knows, and a non-composite `t` admits the empty selection only. -/
theorem resolve_struct_sound {s : Schema} {q : Query} {t : TypeId} {sels : List QSel} {rs : List Sel}
    (h : resolveSelection s q t sels = .ok rs) :
    CorrL s q.findFragment t sels rs ∧ (Valid.isComposite t = false → sels = []) :=
  resolveSelection_corr h

/-- the same for the operation roots (`resolve_object_selection` on an object type) -/
theorem resolve_struct_sound_object {s : Schema} {q : Query} {oid : Nat} {o : StoredObject}
    {sels : List QSel} {rs : List Sel} (ho : s.objects[oid]? = some o)
    (h : resolveObjectSels s q o.name o.fields sels = .ok rs) :
    CorrL s q.findFragment (.object oid) sels rs := by
  rw [← fieldsOf_object ho] at h
  exact objSels_corr s q _ _ sels rs h

/-- `create_roots` accepts a document only if its fragment names and its operation names are
    pairwise distinct, and the tables it builds list exactly those names, in document order -/
theorem createRoots_names {s : Schema} {d : QDoc} {q : Query} (h : createRoots s d {} = .ok q) :
    q.fragments.map (·.name) = Valid.fragNames d ∧ (Valid.fragNames d).Nodup ∧
    q.operations.map (·.name) = Valid.opNames d ∧ (Valid.opNames d).Nodup := by
  have hr := createRoots_ok s d {} q h
  have hfn : fnames q = Valid.fragNames d := by simpa [fnames] using hr.fnames
  have hon : onames q = Valid.opNames d := by simpa [onames] using hr.onames
  exact ⟨hfn, hfn ▸ hr.fnodup (by simp [fnames]), hon, hon ▸ hr.onodup (by simp [onames])⟩

/-- accepted documents have unique fragment and operation names (GraphQL §5.5.1.1, §5.2.1.1) -/
theorem resolve_names_unique {s : Schema} {d : QDoc} {q : Query} (h : resolve s d = .ok q) :
    (Valid.fragNames d).Nodup ∧ (Valid.opNames d).Nodup := by
  obtain ⟨q0, h0, _⟩ := resolve_inv h
  have := createRoots_names h0
  exact ⟨this.2.1, this.2.2.2⟩

/-- the same theorem with the well-formedness hypothesis in its propositional form -/
theorem resolve_sound_partial' {s : Schema} {d : QDoc} {q : Query} (hs : C06.UnionsOfObjects s)
    (h : resolve s d = .ok q) : Valid.validDoc s false d = true := by
  obtain ⟨q0, h0, h1, h2, h3, h4⟩ := resolve_inv h
  have hR := resolved_of_phases h0 h1
  unfold Valid.validDoc
  simp only [Bool.and_eq_true, List.all_eq_true]
  exact ⟨⟨(nodupStrings_iff _).mpr hR.onodup, (nodupStrings_iff _).mpr hR.fnodup⟩,
    validDef_of_resolved hs hR h2 h3 h4⟩

/-- contrapositive, as the property is worded: an operation the schema cannot answer (invalid by
    the specification) is rejected -/
theorem invalid_rejected {s : Schema} {d : QDoc} (hs : SchemaOk s = true)
    (h : Valid.validDoc s false d = false) : ∃ e, resolve s d = .error e := by
  cases hr : resolve s d with
  | error e => exact ⟨e, rfl⟩
  | ok q => rw [resolve_sound_partial hs hr] at h; cases h

/-! ## the hypothesis: a non-trivial instance, and why it cannot be dropped -/

/-- a schema with an interface, a union and all three root types -/
def exampleSdl : SdlDoc :=
  [.interface "Node" [{ name := "id", ty := .nonNull (.named "ID"), directives := [] }],
   .object "Dog" ["Node"] [{ name := "id", ty := .nonNull (.named "ID"), directives := [] },
                           { name := "name", ty := .named "String", directives := [] }],
   .object "Cat" ["Node"] [{ name := "id", ty := .nonNull (.named "ID"), directives := [] }],
   .union "Pet" ["Dog", "Cat"],
   .object "Query" [] [{ name := "pet", ty := .named "Pet", directives := [] },
                       { name := "node", ty := .named "Node", directives := [] }],
   .object "Mutation" [] [{ name := "m", ty := .named "String", directives := [] }],
   .object "Subscription" [] [{ name := "s", ty := .named "Pet", directives := [] }]]

/-- fragments on a union and on the subscription root, a subscription whose single root field is
    reached through a spread -/
def exampleDoc : QDoc :=
  [.frag "P" "Pet" [.field none "__typename" [], .inline (some "Dog") [.field none "name" []]],
   .frag "S" "Subscription" [.field (some "x") "s" [.spread "P"]],
   .op .query (some "Q") [] [.field none "pet" [.spread "P"],
     .field none "node" [.field none "__typename" [], .field none "id" []]],
   .op .subscription (some "Sub") [] [.spread "S"]]

def isOk {α} : Outcome α → Bool | .ok _ => true | .error _ => false

/-- `SchemaOk` holds of the schema built from that SDL; the document is accepted and valid -/
example : (match Sdl.fromSdl exampleSdl with
    | .ok s => SchemaOk s && isOk (resolve s exampleDoc) && Valid.validDoc s false exampleDoc
    | .error _ => false) = true := by decide +kernel

/-- a hand-made schema (not obtainable from well-formed SDL) whose union lists a scalar as a member -/
def badSchema : Schema :=
  { objects := [{ name := "Q", fields := [0], implements := [] }],
    fields := [{ name := "u", ty := { id := .union 0, quals := [] }, parent := .object 0, deprecation := none }],
    unions := [{ name := "U", variants := [.scalar 0] }],
    scalars := ["S"],
    names := [("Q", .object 0), ("S", .scalar 0), ("U", .union 0)],
    queryType := some 0 }

/-- `query Q { u { __typename ... on S { } } }` -/
def badDoc : QDoc :=
  [.op .query (some "Q") [] [.field none "u" [.field none "__typename" [], .inline (some "S") []]]]

/-- without `SchemaOk` the theorem is false: the union arm of the type-condition check trusts the
    member list, so an inline fragment on the scalar member is accepted -/
theorem schemaOk_needed :
    SchemaOk badSchema = false ∧ isOk (resolve badSchema badDoc) = true ∧
    Valid.validDoc badSchema false badDoc = false := by decide +kernel

/-! ## regression: the three witnesses found while proving (see the file header) -/

def witnessSdl : SdlDoc :=
  [.object "A" [] [{ name := "a", ty := .named "String", directives := [] }],
   .object "B" [] [{ name := "b", ty := .named "String", directives := [] }],
   .object "Query" [] [{ name := "a", ty := .named "A", directives := [] }],
   .object "Mutation" [] [{ name := "m", ty := .named "String", directives := [] }],
   .object "Subscription" [] [{ name := "s", ty := .named "String", directives := [] }]]

/-- `fragment F on A { a }  fragment F on B { ... on A { a } }` -/
def dupFragDoc : QDoc :=
  [.frag "F" "A" [.field none "a" []], .frag "F" "B" [.inline (some "A") [.field none "a" []]]]
/-- `query Q { a }  mutation Q { ... on Query { a } }` -/
def dupOpDoc : QDoc :=
  [.op .query (some "Q") [] [.field none "a" []],
   .op .mutation (some "Q") [] [.inline (some "Query") [.field none "a" []]]]
def nestInline : Nat → List QSel
  | 0 => [.field none "s" []]
  | n+1 => [.inline (some "Subscription") (nestInline n)]
/-- `subscription S { ... on Subscription { ... 64 levels ... { s } } }` -/
def deepSubDoc : QDoc := [.op .subscription (some "S") [] (nestInline 64)]

/-- after the repair of `create_roots` both duplicate-name documents are rejected (and invalid);
    with the depth-dependent fuel of `Valid.rootKeys` the deep subscription is accepted and valid -/
example : (match Sdl.fromSdl witnessSdl with
    | .ok s =>
      !isOk (resolve s dupFragDoc) && !Valid.validDoc s false dupFragDoc &&
      !isOk (resolve s dupOpDoc) && !Valid.validDoc s false dupOpDoc &&
      isOk (resolve s deepSubDoc) && Valid.validDoc s false deepSubDoc
    | .error _ => false) = true := by decide +kernel

end C06Sound
end GqlVerif
