def hello := "world"
