import GqlVerif.Model.Json
/-!
IR of the emitted Rust items: exactly the part of the token stream that decides wire behaviour,
name resolution and type shape.  The harness extracts the same IR from the real token stream with `syn`.
-/
namespace GqlVerif

inductive RTy where
  | path (p : String)          -- identifier or `a::b::C` path, printed without spaces
  | opt (t : RTy)
  | vec (t : RTy)
  | box (t : RTy)
  deriving Repr, DecidableEq, Inhabited

structure RField where
  rust : String
  rename : Option String := none
  ty : RTy
  flatten : Bool := false
  skipNone : Bool := false
  deserWith : Option String := none
  default : Bool := false
  /-- `none` no attribute; `some none` = `#[deprecated]`; `some (some r)` = `#[deprecated(note = r)]` -/
  deprecated : Option (Option String) := none
  deriving Repr, DecidableEq, Inhabited

namespace RField
def wire (f : RField) : String := f.rename.getD f.rust
end RField

structure RVariant where
  name : String
  rename : Option String := none
  payload : Option RTy := none
  other : Bool := false
  deriving Repr, DecidableEq, Inhabited

namespace RVariant
def wire (v : RVariant) : String := v.rename.getD v.name
end RVariant

inductive Item where
  | struct (name : String) (derives : List String) (serdeCrate : Option String) (fields : List RField)
  | unitStruct (name : String) (derives : List String) (serdeCrate : Option String)
  | tagged (name : String) (derives : List String) (serdeCrate : Option String) (tag : String) (variants : List RVariant)
  | alias (name : String) (pub : Bool) (ty : RTy)
  /-- hand-written string enum: variants, then the `match` tables of the two impls -/
  | gqlEnum (name : String) (derives : List String) (serdePath : String) (variants : List String)
      (ser : List (String × String)) (de : List (String × String))
  | oneOf (name : String) (derives : List String) (serdeCrate : Option String) (variants : List RVariant)
  | defaults (fns : List (String × RTy))
  deriving Repr, BEq, Inhabited

namespace Item
def name : Item → String
  | struct n .. | unitStruct n .. | tagged n .. | alias n .. | gqlEnum n .. | oneOf n .. => n
  | defaults _ => "<impl Variables>"
end Item

structure Module where
  modName : String
  vis : String
  structDecl : Option String
  operationName : String
  query : String
  queryInclude : Option String
  useSerde : String
  implFor : String
  items : List Item
  deriving Repr, BEq, Inhabited

/-! S-expression rendering (the comparison format). -/
namespace RTy
def toSexp : RTy → Sexp
  | path p => .list [.atom "p", .str p]
  | opt t => .list [.atom "opt", toSexp t]
  | vec t => .list [.atom "vec", toSexp t]
  | box t => .list [.atom "box", toSexp t]
partial def ofSexp : Sexp → Option RTy
  | .list [.atom "p", .str p] => some (path p)
  | .list [.atom "opt", t] => (ofSexp t).map opt
  | .list [.atom "vec", t] => (ofSexp t).map vec
  | .list [.atom "box", t] => (ofSexp t).map box
  | _ => none
end RTy

def optStrSexp : Option String → Sexp
  | none => .list []
  | some s => .list [.str s]

def optStrOfSexp : Sexp → Option (Option String)
  | .list [] => some none
  | .list [.str s] => some (some s)
  | _ => none

def depSexp : Option (Option String) → Sexp
  | none => .atom "nodep"
  | some none => .list [.atom "dep"]
  | some (some r) => .list [.atom "dep", .str r]

def depOfSexp : Sexp → Option (Option (Option String))
  | .atom "nodep" => some none
  | .list [.atom "dep"] => some (some none)
  | .list [.atom "dep", .str r] => some (some (some r))
  | _ => none

namespace RField
def toSexp (f : RField) : Sexp :=
  .list [.atom "f", .str f.rust, optStrSexp f.rename, f.ty.toSexp, Sexp.mkBool f.flatten, Sexp.mkBool f.skipNone,
         optStrSexp f.deserWith, Sexp.mkBool f.default, depSexp f.deprecated]
def ofSexp : Sexp → Option RField
  | .list [.atom "f", .str rust, rn, ty, fl, sk, dw, df, dep] => do
    pure { rust := rust, rename := ← optStrOfSexp rn, ty := ← RTy.ofSexp ty, flatten := ← fl.asBool?,
           skipNone := ← sk.asBool?, deserWith := ← optStrOfSexp dw, default := ← df.asBool?,
           deprecated := ← depOfSexp dep }
  | _ => none
end RField

namespace RVariant
def toSexp (v : RVariant) : Sexp :=
  .list [.atom "v", .str v.name, optStrSexp v.rename,
         (match v.payload with | none => .list [] | some t => .list [t.toSexp]), Sexp.mkBool v.other]
def ofSexp : Sexp → Option RVariant
  | .list [.atom "v", .str n, rn, pl, ot] => do
    let payload ← match pl with
      | .list [] => some none
      | .list [t] => (RTy.ofSexp t).map some
      | _ => none
    pure { name := n, rename := ← optStrOfSexp rn, payload := payload, other := ← ot.asBool? }
  | _ => none
end RVariant

def strsSexp (xs : List String) : Sexp := .list (xs.map .str)
def strsOfSexp : Sexp → Option (List String)
  | .list xs => xs.mapM fun | .str s => some s | _ => none
  | _ => none
def pairsSexp (xs : List (String × String)) : Sexp := .list (xs.map fun (a, b) => .list [.str a, .str b])
def pairsOfSexp : Sexp → Option (List (String × String))
  | .list xs => xs.mapM fun | .list [.str a, .str b] => some (a, b) | _ => none
  | _ => none

namespace Item
def toSexp : Item → Sexp
  | struct n d c fs => .list [.atom "struct", .str n, strsSexp d, optStrSexp c, .list (fs.map RField.toSexp)]
  | unitStruct n d c => .list [.atom "unit", .str n, strsSexp d, optStrSexp c]
  | tagged n d c tag vs => .list [.atom "tagged", .str n, strsSexp d, optStrSexp c, .str tag, .list (vs.map RVariant.toSexp)]
  | alias n p t => .list [.atom "alias", .str n, Sexp.mkBool p, t.toSexp]
  | gqlEnum n d sp vs ser de => .list [.atom "gqlenum", .str n, strsSexp d, .str sp, strsSexp vs, pairsSexp ser, pairsSexp de]
  | oneOf n d c vs => .list [.atom "oneof", .str n, strsSexp d, optStrSexp c, .list (vs.map RVariant.toSexp)]
  | defaults fns => .list [.atom "defaults", .list (fns.map fun (n, t) => .list [.str n, t.toSexp])]
def ofSexp : Sexp → Option Item
  | .list [.atom "struct", .str n, d, c, .list fs] => do
    pure (.struct n (← strsOfSexp d) (← optStrOfSexp c) (← fs.mapM RField.ofSexp))
  | .list [.atom "unit", .str n, d, c] => do pure (.unitStruct n (← strsOfSexp d) (← optStrOfSexp c))
  | .list [.atom "tagged", .str n, d, c, .str tag, .list vs] => do
    pure (.tagged n (← strsOfSexp d) (← optStrOfSexp c) tag (← vs.mapM RVariant.ofSexp))
  | .list [.atom "alias", .str n, p, t] => do pure (.alias n (← p.asBool?) (← RTy.ofSexp t))
  | .list [.atom "gqlenum", .str n, d, .str sp, vs, ser, de] => do
    pure (.gqlEnum n (← strsOfSexp d) sp (← strsOfSexp vs) (← pairsOfSexp ser) (← pairsOfSexp de))
  | .list [.atom "oneof", .str n, d, c, .list vs] => do
    pure (.oneOf n (← strsOfSexp d) (← optStrOfSexp c) (← vs.mapM RVariant.ofSexp))
  | .list [.atom "defaults", .list fns] => do
    pure (.defaults (← fns.mapM fun | .list [.str n, t] => (RTy.ofSexp t).map (fun t => (n, t)) | _ => none))
  | _ => none
end Item

namespace Module
def toSexp (m : Module) : Sexp :=
  .list [.atom "module", .str m.modName, .str m.vis, optStrSexp m.structDecl, .str m.operationName, .str m.query,
         optStrSexp m.queryInclude, .str m.useSerde, .str m.implFor, .list (m.items.map Item.toSexp)]
def ofSexp : Sexp → Option Module
  | .list [.atom "module", .str mn, .str vis, sd, .str opn, .str q, qi, .str us, .str impl, .list items] => do
    pure { modName := mn, vis := vis, structDecl := ← optStrOfSexp sd, operationName := opn, query := q,
           queryInclude := ← optStrOfSexp qi, useSerde := us, implFor := impl, items := ← items.mapM Item.ofSexp }
  | _ => none
end Module

end GqlVerif
