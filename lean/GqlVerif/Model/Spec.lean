import GqlVerif.Model.Schema
import GqlVerif.Model.Json
/-!
The *specification* side of the wire-level properties: which JSON values a GraphQL type
expression admits (GraphQL spec §3.12 Wrapping types, §6.4.3 value completion), written
independently of the generator and of serde.
-/
namespace GqlVerif
namespace Spec

mutual
  /-- `j` is admitted at type expression `t` in non-null context -/
  def acceptsNN (leafOk : Json → Bool) : GTy → Json → Bool
    | .named _, j => leafOk j
    | .list t, j => match j with
      | .arr xs => xs.all (accepts leafOk t)
      | _ => false
    | .nonNull t, j => acceptsNN leafOk t j
  /-- `j` is admitted at type expression `t`: `null` exactly when `t` is nullable -/
  def accepts (leafOk : Json → Bool) : GTy → Json → Bool
    | .nonNull t, j => acceptsNN leafOk t j
    | .named n, j => j.isNull || acceptsNN leafOk (.named n) j
    | .list t, j => j.isNull || acceptsNN leafOk (.list t) j
end

/-! leaf kinds: what the generated Rust leaf types admit (the documented mapping: `Int → i64`,
`Float → f64`, `String`, `Boolean → bool`, `ID → String` through the integer-or-string helper,
enums as open-world strings) -/

def i64Ok (n : Int) : Bool := -9223372036854775808 ≤ n && n ≤ 9223372036854775807

def intOk : Json → Bool | .int n => i64Ok n | _ => false
def floatOk : Json → Bool | .int _ => true | .num _ => true | _ => false
def stringOk : Json → Bool | .str _ => true | _ => false
def boolOk : Json → Bool | .bool _ => true | _ => false
/-- ID: a string, or an integer that fits 64 signed bits -/
def idOk : Json → Bool | .str _ => true | .int n => i64Ok n | _ => false

end Spec
end GqlVerif
