import GqlVerif.Model.Schema
/-!
Mirror of `graphql-introspection-query/src/introspection_response.rs` (the serde shape of
`IntrospectionResponse`, read off its derive attributes) and of `schema/json_conversion.rs`.
-/
namespace GqlVerif

inductive TypeRef where
  | mk (kind : Option String) (name : Option String) (ofType : Option TypeRef)
  deriving Repr, BEq, Inhabited

namespace TypeRef
def kind : TypeRef → Option String | mk k _ _ => k
def name : TypeRef → Option String | mk _ n _ => n
def ofType : TypeRef → Option TypeRef | mk _ _ o => o
end TypeRef

structure IntroField where
  name : Option String
  ty : Option TypeRef
  isDeprecated : Option Bool
  deprecationReason : Option String
  deriving Repr, BEq, Inhabited

structure IntroInputValue where
  name : String
  ty : TypeRef
  deriving Repr, BEq, Inhabited

structure IntroEnumValue where
  name : Option String
  deriving Repr, BEq, Inhabited

structure FullType where
  kind : Option String
  name : Option String
  fields : Option (List IntroField)
  inputFields : Option (List IntroInputValue)
  interfaces : Option (List TypeRef)
  enumValues : Option (List IntroEnumValue)
  possibleTypes : Option (List TypeRef)
  isOneOf : Option Bool := none      -- only read after the fix for defect 5; absent in the pinned struct
  deriving Repr, BEq, Inhabited

structure IntroSchema where
  queryType : Option (Option String)        -- outer: member present; inner: its `name`
  mutationType : Option (Option String)
  subscriptionType : Option (Option String)
  types : Option (List (Option FullType))
  deriving Repr, BEq, Inhabited

namespace Intro

/-! ### serde decoding of the JSON text (derive semantics: missing or null `Option` member = `None`,
a present member of the wrong shape fails the whole document, unknown members ignored,
`#[serde(flatten)]` wrappers are transparent). -/

abbrev Dec := Option    -- `none` = serde error

def optMember {α} (kvs : List (String × Json)) (k : String) (dec : Json → Dec α) : Dec (Option α) :=
  match Json.lookup k kvs with
  | none => some none
  | some .null => some none
  | some j => (dec j).map some

def reqMember {α} (kvs : List (String × Json)) (k : String) (dec : Json → Dec α) : Dec α :=
  match Json.lookup k kvs with
  | none => none
  | some j => dec j

def decStr : Json → Dec String | .str s => some s | _ => none
def decBool : Json → Dec Bool | .bool b => some b | _ => none

def decList {α} (dec : Json → Dec α) : Json → Dec (List α)
  | .arr xs => xs.mapM dec
  | _ => none

def decOpt {α} (dec : Json → Dec α) : Json → Dec (Option α)
  | .null => some none
  | j => (dec j).map some

/-- serde keeps the *last* occurrence of a duplicated key for plain structs (error "duplicate field"
    actually); the harness never produces duplicate keys, so objects are normalised first. -/
def asObj : Json → Dec (List (String × Json))
  | .obj kvs => some kvs
  | _ => none

def decTypeRef : Nat → Json → Dec TypeRef
  | 0, _ => none
  | fuel+1, j => do
    let kvs ← asObj j
    let kind ← optMember kvs "kind" decStr
    let name ← optMember kvs "name" decStr
    let ofType ← optMember kvs "ofType" (decTypeRef fuel)
    pure (.mk kind name ofType)

/-- depth bound: serde_json's own recursion limit is 128 -/
def typeRefFuel : Nat := 128

def decInputValue (j : Json) : Dec IntroInputValue := do
  let kvs ← asObj j
  let name ← reqMember kvs "name" decStr
  let _ ← optMember kvs "description" decStr
  let ty ← reqMember kvs "type" (decTypeRef typeRefFuel)
  let _ ← optMember kvs "defaultValue" decStr
  pure { name := name, ty := ty }

def decField (j : Json) : Dec IntroField := do
  let kvs ← asObj j
  let name ← optMember kvs "name" decStr
  let _ ← optMember kvs "description" decStr
  let _ ← optMember kvs "args" (decList (decOpt decInputValue))
  let ty ← optMember kvs "type" (decTypeRef typeRefFuel)
  let isDep ← optMember kvs "isDeprecated" decBool
  let reason ← optMember kvs "deprecationReason" decStr
  pure { name := name, ty := ty, isDeprecated := isDep, deprecationReason := reason }

def decEnumValue (j : Json) : Dec IntroEnumValue := do
  let kvs ← asObj j
  let name ← optMember kvs "name" decStr
  let _ ← optMember kvs "description" decStr
  let _ ← optMember kvs "isDeprecated" decBool
  let _ ← optMember kvs "deprecationReason" decStr
  pure { name := name }

def decFullType (readOneOf : Bool) (j : Json) : Dec FullType := do
  let kvs ← asObj j
  let kind ← optMember kvs "kind" decStr
  let name ← optMember kvs "name" decStr
  let _ ← optMember kvs "description" decStr
  let fields ← optMember kvs "fields" (decList decField)
  let inputFields ← optMember kvs "inputFields" (decList decInputValue)
  let interfaces ← optMember kvs "interfaces" (decList (decTypeRef typeRefFuel))
  let enumValues ← optMember kvs "enumValues" (decList decEnumValue)
  let possibleTypes ← optMember kvs "possibleTypes" (decList (decTypeRef typeRefFuel))
  let isOneOf ← if readOneOf then optMember kvs "isOneOf" decBool else pure none
  pure { kind, name, fields, inputFields, interfaces, enumValues, possibleTypes, isOneOf }

def decNameOnly (j : Json) : Dec (Option String) := do
  let kvs ← asObj j
  optMember kvs "name" decStr

def decDirective (j : Json) : Dec Unit := do
  let kvs ← asObj j
  let _ ← optMember kvs "name" decStr
  let _ ← optMember kvs "description" decStr
  let _ ← optMember kvs "locations" (decList (decOpt decStr))
  let _ ← optMember kvs "args" (decList (decOpt decInputValue))
  pure ()

def decSchema (readOneOf : Bool) (j : Json) : Dec IntroSchema := do
  let kvs ← asObj j
  let q ← optMember kvs "queryType" decNameOnly
  let m ← optMember kvs "mutationType" decNameOnly
  let s ← optMember kvs "subscriptionType" decNameOnly
  let types ← optMember kvs "types" (decList (decOpt (decFullType readOneOf)))
  let _ ← optMember kvs "directives" (decList (decOpt decDirective))
  pure { queryType := q, mutationType := m, subscriptionType := s, types := types }

/-- `SchemaContainer` -/
def decContainer (readOneOf : Bool) (j : Json) : Dec (Option IntroSchema) := do
  let kvs ← asObj j
  optMember kvs "__schema" (decSchema readOneOf)

/-- `IntrospectionResponse` (untagged: `FullResponse` first, then `Schema`), then `into_schema()` -/
def parseIntro (readOneOf : Bool) (j : Json) : Dec (Option IntroSchema) :=
  let full : Dec (Option IntroSchema) := do
    let kvs ← asObj j
    reqMember kvs "data" (decContainer readOneOf)
  match full with
  | some r => some r
  | none => decContainer readOneOf j

/-! ### `json_conversion.rs` -/

def typesOf (src : IntroSchema) : Outcome (List FullType) :=
  match src.types with
  | none => panic' "schema.types.as_mut()"
  | some ts => pure (ts.filterMap id)

def ofKind (ts : List FullType) (k : String) : List FullType := ts.filter (·.kind == some k)

def expectName (what : String) (t : FullType) : Outcome String :=
  match t.name with | some n => pure n | none => panic' what

def buildNames (s : Schema) (ts : List FullType) : Outcome Schema := do
  let ins (mk : Nat → TypeId) (what kind : String) (names : List (String × TypeId)) :
      Outcome (List (String × TypeId)) := do
    let ns ← (ofKind ts kind).mapM (expectName what)
    pure (ns.zipIdx.foldl (fun acc (n, i) => namesInsert n (mk i) acc) names)
  let names ← ins .union "union name" "UNION" s.names
  let names ← ins .interface "interface name" "INTERFACE" names
  let names ← ins .object "object name" "OBJECT" names
  let names ← ins .input "input name" "INPUT_OBJECT" names
  pure { s with names := names }

/-- `from_json_type_inner` (with the panics of `json_type_qualifiers_depth`, which runs first) -/
def fromJsonType (s : Schema) : TypeRef → Outcome FieldType
  | .mk (some "NON_NULL") _ (some inner) => do
      let r ← fromJsonType s inner
      pure { r with quals := .required :: r.quals }
  | .mk (some "LIST") _ (some inner) => do
      let r ← fromJsonType s inner
      pure { r with quals := .list :: r.quals }
  | .mk (some _) (some name) none =>
      match namesGet name s.names with
      | some id => pure { id := id, quals := [] }
      | none => panic' "schema.names.get(name)"
  | _ => panic' "Non-convertible type in JSON schema"

def ingestFields (s : Schema) (parent : FieldParent) : List IntroField → Outcome (Schema × List Nat)
  | [] => pure (s, [])
  | f :: fs => do
    let name ← match f.name with | some n => pure n | none => panic' "take field name"
    let tr ← match f.ty with | some t => pure t | none => panic' "take field type"
    let ty ← fromJsonType s tr
    let dep := if f.isDeprecated == some true then some f.deprecationReason else none
    let (s', id) := s.pushField { name := name, ty := ty, parent := parent, deprecation := dep }
    let (s'', ids) ← ingestFields s' parent fs
    pure (s'', id :: ids)

def ingestScalar (s : Schema) (t : FullType) : Outcome Schema := do
  let name ← expectName "scalar.name" t
  let (s', id) := s.pushScalar name
  pure { s' with names := namesInsert name (.scalar id) s'.names }

def ingestEnum (s : Schema) (t : FullType) : Outcome Schema := do
  let name ← expectName "enm.name" t
  let vs ← match t.enumValues with | some vs => pure vs | none => panic' "enm.enum_values.as_mut()"
  let variants ← vs.mapM fun v => match v.name with
    | some n => pure n | none => panic' "variant.name.as_mut().take()"
  let id := s.enums.length
  pure { s with enums := s.enums ++ [{ name := name, variants := variants }],
                names := namesInsert name (.enum id) s.names }

def ingestInterface (s : Schema) (t : FullType) : Outcome Schema := do
  let name ← expectName "iface.name" t
  let id ← match (← s.findTypeId name).asInterface? with
    | some i => pure i | none => panic' "iface type id as interface id"
  let fs ← match t.fields with | some fs => pure fs | none => panic' "interface.fields"
  let (s', ids) ← ingestFields s (.interface id) fs
  pure { s' with interfaces := s'.interfaces ++ [{ name := name, fields := ids }] }

def ingestObject (s : Schema) (t : FullType) : Outcome Schema := do
  let name ← expectName "object.name" t
  let id ← match (← s.findTypeId name).asObject? with
    | some i => pure i | none => panic' "ingest_object > as_object_id"
  let fs ← match t.fields with | some fs => pure fs | none => panic' "object.fields.as_mut()"
  let (s', ids) ← ingestFields s (.object id) fs
  let impls ← match t.interfaces with
    | none => pure []
    | some ifs => ifs.mapM fun r => match r.name with
        | none => panic' "iface.type_ref.name unwrap"
        | some n => match (namesGet n s'.names).bind TypeId.asInterface? with
          | some i => pure i
          | none => panic' s!"Unknown interface: {n}"
  pure { s' with objects := s'.objects ++ [{ name := name, fields := ids, implements := impls }] }

def ingestUnion (s : Schema) (t : FullType) : Outcome Schema := do
  let pts ← match t.possibleTypes with | some p => pure p | none => panic' "union.possible_types"
  let variants ← pts.mapM fun r => match r.name with
    | none => panic' "variant.type_ref.name"
    | some n => s.findTypeId n
  let name ← expectName "union.name.take" t
  pure { s with unions := s.unions ++ [{ name := name, variants := variants }] }

def ingestInput (readOneOf : Bool) (s : Schema) (t : FullType) : Outcome Schema := do
  let ifs ← match t.inputFields with | some f => pure f | none => panic' "Missing input_fields on input"
  let fields ← ifs.mapM fun f => do
    let ty ← fromJsonType s f.ty
    pure (f.name, ty)
  let name ← expectName "Input without a name" t
  pure { s with inputs := s.inputs ++ [{ name := name, fields := fields,
                                         isOneOf := readOneOf && t.isOneOf == some true }] }

def rootOf (s : Schema) (r : Option (Option String)) : Option Nat :=
  (r.bind id).bind (fun n => namesGet n s.names) |>.bind TypeId.asObject?

def isCustomScalar (t : FullType) : Outcome Bool :=
  if t.kind == some "SCALAR" then
    match t.name with
    | some n => pure (!Schema.defaultScalars.contains n)
    | none => panic' "FullType.name"
  else pure false

/-- `build_schema` for introspection JSON -/
def fromIntro (readOneOf : Bool) (src : Option IntroSchema) : Outcome Schema := do
  let src ← match src with | some s => pure s | none => panic' "could not find schema"
  let ts ← typesOf src
  let s ← buildNames Schema.new ts
  let scalars ← ts.filterM isCustomScalar
  let s ← scalars.foldlM ingestScalar s
  let s ← (ofKind ts "ENUM").foldlM ingestEnum s
  let s ← (ofKind ts "INTERFACE").foldlM ingestInterface s
  let s ← (ofKind ts "OBJECT").foldlM ingestObject s
  let s ← (ofKind ts "UNION").foldlM ingestUnion s
  let s ← (ofKind ts "INPUT_OBJECT").foldlM (ingestInput readOneOf) s
  pure { s with queryType := rootOf s src.queryType, mutationType := rootOf s src.mutationType,
                subscriptionType := rootOf s src.subscriptionType }

/-- text → Schema, as `get_set_schema_from_file` does for `.json` (`serde_json::from_str(..).unwrap()`) -/
def fromJson (readOneOf : Bool) (j : Json) : Outcome Schema :=
  match parseIntro readOneOf j with
  | none => panic' "serde_json::from_str(..).unwrap()"
  | some c => fromIntro readOneOf c

end Intro
end GqlVerif
