import GqlVerif.Model.Sexp
/-!
JSON values as the harness ships them (`serde_json::Value`): integers are exact, every other
number is an opaque token (never compared as a float).
-/
namespace GqlVerif

inductive Json where
  | null
  | bool (b : Bool)
  | int (n : Int)
  | num (tok : String)
  | str (s : String)
  | arr (xs : List Json)
  | obj (kvs : List (String × Json))
  deriving Repr, Inhabited, BEq

namespace Json

def isNull : Json → Bool
  | null => true
  | _ => false

def lookup (k : String) : List (String × Json) → Option Json
  | [] => none
  | (k', v) :: rest => if k' == k then some v else lookup k rest

/-- `serde_json::Map` insertion: last value wins, position of first occurrence kept
   (BTreeMap iteration is by key anyway; we canonicalise by sorting at comparison time). -/
def insert (k : String) (v : Json) : List (String × Json) → List (String × Json)
  | [] => [(k, v)]
  | (k', v') :: rest => if k' == k then (k, v) :: rest else (k', v') :: insert k v rest

def normObj (kvs : List (String × Json)) : List (String × Json) :=
  kvs.foldl (fun acc (k, v) => insert k v acc) []

mutual
  def toSexp : Json → Sexp
    | null => .list [.atom "null"]
    | bool b => .list [.atom "bool", Sexp.mkBool b]
    | int n => .list [.atom "int", Sexp.mkInt n]
    | num t => .list [.atom "num", .str t]
    | str s => .list [.atom "str", .str s]
    | arr xs => .list (.atom "arr" :: toSexpList xs)
    | obj kvs => .list (.atom "obj" :: toSexpKvs kvs)
  def toSexpList : List Json → List Sexp
    | [] => []
    | x :: xs => toSexp x :: toSexpList xs
  def toSexpKvs : List (String × Json) → List Sexp
    | [] => []
    | (k, v) :: rest => .list [.str k, toSexp v] :: toSexpKvs rest
end

mutual
  partial def ofSexp : Sexp → Option Json
    | .list [.atom "null"] => some null
    | .list [.atom "bool", b] => b.asBool?.map bool
    | .list [.atom "int", n] => n.asInt?.map int
    | .list [.atom "num", .str t] => some (num t)
    | .list [.atom "str", .str s] => some (str s)
    | .list (.atom "arr" :: xs) => (xs.mapM ofSexp).map arr
    | .list (.atom "obj" :: kvs) => (kvs.mapM ofSexpKv).map obj
    | _ => none
  partial def ofSexpKv : Sexp → Option (String × Json)
    | .list [.str k, v] => (ofSexp v).map (fun j => (k, j))
    | _ => none
end

end Json
end GqlVerif
