import GqlVerif.Model.Schema
/-!
Mirror of `schema/graphql_parser_conversion.rs`: SDL AST (as produced by graphql_parser, shipped by
the harness) → `Schema`.
-/
namespace GqlVerif

/-- argument value of a directive: only string literals are looked at by the code -/
inductive DirVal where
  | str (s : String)
  | other
  deriving Repr, DecidableEq, Inhabited

structure Directive where
  name : String
  args : List (String × DirVal)
  deriving Repr, DecidableEq, Inhabited

structure SdlField where
  name : String
  ty : GTy
  directives : List Directive
  deriving Repr, DecidableEq, Inhabited

inductive SdlDef where
  | schemaDef (q m s : Option String)
  | scalar (name : String)
  | enum (name : String) (values : List String)
  | union (name : String) (types : List String)
  | interface (name : String) (fields : List SdlField)
  | object (name : String) (implements : List String) (fields : List SdlField)
  | extObject (name : String) (implements : List String) (fields : List SdlField)
  | input (name : String) (directives : List String) (fields : List (String × GTy))
  | other
  deriving Repr, DecidableEq, Inhabited

abbrev SdlDoc := List SdlDef

namespace Sdl

/-- `find_deprecation` -/
def findDeprecation (ds : List Directive) : Option (Option String) :=
  match ds.find? (·.name == "deprecated") with
  | none => none
  | some d =>
    match d.args.find? (·.1 == "reason") with
    | some (_, .str s) => some (some s)
    | _ => some none

def namesOfKind (doc : SdlDoc) (pick : SdlDef → Option String) : List String := doc.filterMap pick

def populateNames (s : Schema) (doc : SdlDoc) : Schema :=
  let ins (mk : Nat → TypeId) (ns : List String) (names : List (String × TypeId)) :=
    ns.zipIdx.foldl (fun acc (n, i) => namesInsert n (mk i) acc) names
  let names := s.names
  let names := ins .enum (namesOfKind doc fun | .enum n _ => some n | _ => none) names
  let names := ins .object (namesOfKind doc fun | .object n _ _ => some n | _ => none) names
  let names := ins .interface (namesOfKind doc fun | .interface n _ => some n | _ => none) names
  let names := ins .union (namesOfKind doc fun | .union n _ => some n | _ => none) names
  let names := ins .input (namesOfKind doc fun | .input n _ _ => some n | _ => none) names
  { s with names := names }

def ingestScalar (s : Schema) (n : String) : Schema :=
  let (s', id) := s.pushScalar n
  { s' with names := namesInsert n (.scalar id) s'.names }

def ingestFields (s : Schema) (parent : FieldParent) : List SdlField → Outcome (Schema × List Nat)
  | [] => pure (s, [])
  | f :: fs => do
    let ty ← resolveFieldType s f.ty
    let (s', id) := s.pushField { name := f.name, ty := ty, parent := parent, deprecation := findDeprecation f.directives }
    let (s'', ids) ← ingestFields s' parent fs
    pure (s'', id :: ids)

def ingestDef (pass : Nat) (s : Schema) (d : SdlDef) : Outcome Schema :=
  match pass, d with
  | 0, .scalar n => pure (ingestScalar s n)
  | 1, .enum n vs => pure { s with enums := s.enums ++ [{ name := n, variants := vs }] }
  | 2, .union n ts => do
      let vs ← ts.mapM s.findTypeId
      pure { s with unions := s.unions ++ [{ name := n, variants := vs }] }
  | 3, .interface n fs => do
      let id ← match (← s.findTypeId n).asInterface? with
        | some i => pure i | none => panic' "ingest_interface: as_interface_id unwrap"
      let (s', ids) ← ingestFields s (.interface id) fs
      pure { s' with interfaces := s'.interfaces ++ [{ name := n, fields := ids }] }
  | 4, .object n impls fs => do
      let id ← match (← s.findTypeId n).asObject? with
        | some i => pure i | none => panic' "ingest_object: as_object_id unwrap"
      let (s', ids) ← ingestFields s (.object id) fs
      let ifs ← impls.mapM s'.findInterface
      pure { s' with objects := s'.objects ++ [{ name := n, fields := ids, implements := ifs }] }
  | 5, .extObject n impls fs => do
      let id ← match (← s.findTypeId n).asObject? with
        | some i => pure i | none => panic' "ingest_object_type_extension: as_object_id unwrap"
      let (s', ids) ← ingestFields s (.object id) fs
      let ifs ← impls.mapM s'.findInterface
      match s'.objects[id]? with
      | none => panic' "Schema::get_object_mut"
      | some o =>
        pure { s' with objects := s'.objects.set id { o with implements := o.implements ++ ifs, fields := o.fields ++ ids } }
  | 6, .input n dirs fs => do
      let fields ← fs.mapM fun (fname, t) => do
        let ty ← resolveFieldType s t
        pure (fname, ty)
      pure { s with inputs := s.inputs ++ [{ name := n, fields := fields, isOneOf := dirs.any (· == "oneOf") }] }
  | _, _ => pure s

def ingestPass (pass : Nat) (s : Schema) (doc : SdlDoc) : Outcome Schema :=
  doc.foldlM (ingestDef pass) s

def rootOf (s : Schema) (n : Option String) : Option Nat :=
  n.bind (fun n => namesGet n s.names) |>.bind TypeId.asObject?

/-- `build_schema` for SDL -/
def fromSdl (doc : SdlDoc) : Outcome Schema := do
  let s := populateNames Schema.new doc
  let s ← ingestPass 0 s doc
  let s ← ingestPass 1 s doc
  let s ← ingestPass 2 s doc
  let s ← ingestPass 3 s doc
  let s ← ingestPass 4 s doc
  let s ← ingestPass 5 s doc
  let s ← ingestPass 6 s doc
  match doc.findSome? (fun | .schemaDef q m sub => some (q, m, sub) | _ => none) with
  | some (q, m, sub) =>
    pure { s with queryType := rootOf s q, mutationType := rootOf s m, subscriptionType := rootOf s sub }
  | none =>
    pure { s with queryType := rootOf s (some "Query"), mutationType := rootOf s (some "Mutation"),
                  subscriptionType := rootOf s (some "Subscription") }

end Sdl
end GqlVerif
