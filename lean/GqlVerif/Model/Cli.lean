import GqlVerif.Model.Codegen
import GqlVerif.Model.Json
import GqlVerif.Model.Gen.Consts
/-!
Model of the command line tool `graphql-client` (`graphql_client_cli/src/`):

* `introspection_schema.rs` — `Header::from_str`, the flag → introspection-document selection, the
  request that is built, and the order of effects of `introspect_schema` on the `--output` file and
  on stdout, for every behaviour of the server;
* `generate.rs` — flags → `GraphQLClientCodegenOptions`, the destination path
  (`Path::file_name`, `Path::file_stem`, `Path::join`, `Path::with_file_name` as functions on character lists), the
  text that is written, and the order of effects of `generate_code` on the file system.

External code is a *parameter* of the model (never a default value): the library generator, rustfmt,
`syn::parse_str::<syn::Path>`, whether a file can be created.  Strings that are scanned are
`List Char`; strings that are only passed on are `String`.
-/
namespace GqlVerif
namespace Cli

/-! ## `char::is_whitespace` (Unicode `White_Space`), `str::trim`, `str::split_whitespace` -/

/-- the code points with the Unicode property `White_Space` (what Rust's `char::is_whitespace` tests) -/
def whiteSpaceCodePoints : List Nat :=
  [0x09, 0x0A, 0x0B, 0x0C, 0x0D, 0x20, 0x85, 0xA0, 0x1680,
   0x2000, 0x2001, 0x2002, 0x2003, 0x2004, 0x2005, 0x2006, 0x2007, 0x2008, 0x2009, 0x200A,
   0x2028, 0x2029, 0x202F, 0x205F, 0x3000]

def isWhitespace (c : Char) : Bool := whiteSpaceCodePoints.contains c.toNat

def trimStart (s : List Char) : List Char := s.dropWhile isWhitespace
def trimEnd (s : List Char) : List Char := (s.reverse.dropWhile isWhitespace).reverse
/-- `str::trim` -/
def trim (s : List Char) : List Char := trimEnd (trimStart s)

/-- number of items of `str::split_whitespace`: maximal runs of non-whitespace characters.
`inWord` = the previous character belongs to a run that has already been counted. -/
def wordsFrom : List Char → Bool → Nat
  | [], _ => 0
  | c :: cs, inWord =>
    if isWhitespace c then wordsFrom cs false
    else (if inWord then 0 else 1) + wordsFrom cs true

def wordCount (s : List Char) : Nat := wordsFrom s false

/-! ## `Header::from_str` (`introspection_schema.rs`) -/

/-- `input.splitn(2, ':')` when the input contains a colon: (text before the first colon, text after it);
`none` = `!input.contains(':')` -/
def splitFirstColon : List Char → Option (List Char × List Char)
  | [] => none
  | c :: cs =>
    if c = ':' then some ([], cs)
    else match splitFirstColon cs with
      | some (a, b) => some (c :: a, b)
      | none => none

inductive HeaderErr where
  /-- "A colon is required to separate the name and value." -/
  | noColon
  /-- "Field name is required before colon." -/
  | emptyName
  /-- "Whitespace not allowed in field name." -/
  | whitespaceInName
  deriving Repr, DecidableEq, Inhabited

def HeaderErr.message (e : HeaderErr) (input : String) : String :=
  match e with
  | .noColon => "Invalid header input. A colon is required to separate the name and value. [" ++ input ++ "]"
  | .emptyName => "Invalid header input. Field name is required before colon. [" ++ input ++ "]"
  | .whitespaceInName => "Invalid header input. Whitespace not allowed in field name. [" ++ input ++ "]"

/-- the body of `Header::from_str`, same order of checks -/
def parseHeaderChars (input : List Char) : Except HeaderErr (List Char × List Char) :=
  match splitFirstColon input with
  | none => .error .noColon
  | some (a, b) =>
    let name := trim a
    let value := trim b
    if name = [] then .error .emptyName
    else if wordCount name > 1 then .error .whitespaceInName
    else .ok (name, value)

/-- `Header::from_str`: `Ok(Header { name, value })` or the error message -/
def parseHeader (input : List Char) : Except String (String × String) :=
  match parseHeaderChars input with
  | .ok (n, v) => .ok (String.ofList n, String.ofList v)
  | .error e => .error (e.message (String.ofList input))

/-! ## which introspection document is sent (`introspect_schema`, `introspection_queries.rs`) -/

/-- the derive struct whose `QUERY` / `OPERATION_NAME` constants end up in the body: the code assigns
the default and then overwrites it three times, in this order -/
def selectStruct (isOneOf specifyByUrl : Bool) : String :=
  let r := "IntrospectionQuery"
  let r := if isOneOf then "IntrospectionQueryWithIsOneOf" else r
  let r := if specifyByUrl then "IntrospectionQueryWithSpecifiedBy" else r
  let r := if isOneOf && specifyByUrl then "IntrospectionQueryWithIsOneOfSpecifiedByURL" else r
  r

def findDoc (struct : String) : List (String × String × String) → Option (String × String × String)
  | [] => none
  | (s, f, t) :: rest => if s = struct then some (s, f, t) else findDoc struct rest

/-- (operation name, file name, query text): the derive takes the text from the file named in its
attribute (table regenerated from `introspection_queries.rs` on every run) and, in derive mode,
generates the module of the operation that is named like the struct -/
def selectDoc (isOneOf specifyByUrl : Bool) : Option (String × String × String) :=
  findDoc (selectStruct isOneOf specifyByUrl) Gen.introDocs

/-- `serde_json::to_value(QueryBody { variables: (), query, operation_name })` -/
def requestBody (operationName query : String) : Json :=
  .obj [("variables", .null), ("query", .str query), ("operationName", .str operationName)]

/-! ### the request -/

/-- `http::HeaderName::from_bytes`: non-empty, every byte an RFC 7230 `tchar` -/
def isTchar (c : Char) : Bool :=
  c.isAlphanum || "!#$%&'*+-.^_`|~".toList.contains c

def httpNameOk (n : List Char) : Bool := n ≠ [] && n.all isTchar

/-- `http::HeaderValue::from_str`: no control characters except tab (bytes ≥ 0x80 are accepted) -/
def httpValueOk (v : List Char) : Bool := v.all fun c => c = '\t' || (c.toNat ≥ 32 && c.toNat ≠ 127)

def lowerAscii (s : List Char) : List Char := s.map Char.toLower

structure Request where
  method : String
  url : String
  /-- in the order they are added; names as `http` normalises them (lower case) -/
  headers : List (String × String)
  body : Json
  deriving Repr, Inhabited

inductive Exit where
  | success
  /-- `main` returned `Err` (exit status 1) -/
  | failure (msg : String)
  /-- clap refused the arguments (exit status 2) -/
  | usage (msg : String)
  /-- a panic (exit status 101) -/
  | panic (msg : String)
  deriving Repr, Inhabited, DecidableEq

def Exit.code : Exit → Nat
  | .success => 0 | .failure _ => 1 | .usage _ => 2 | .panic _ => 101

def Exit.isSuccess : Exit → Bool
  | .success => true | _ => false

/-- clap parses every `--header` with `Header::from_str` before `main` does anything else -/
def parseHeaderArgs : List String → Except Exit (List (String × String))
  | [] => .ok []
  | h :: rest =>
    match parseHeader h.toList with
    | .error m => .error (.usage m)
    | .ok nv => match parseHeaderArgs rest with
      | .ok more => .ok (nv :: more)
      | .error e => .error e

/-- the request `introspect_schema` builds: the two fixed headers, the custom ones, the bearer token;
a name or value that `http` refuses makes `send()` fail before anything is sent -/
def buildRequest (location : String) (headers : List (String × String)) (authorization : Option String)
    (isOneOf specifyByUrl : Bool) : Except Exit Request :=
  match selectDoc isOneOf specifyByUrl with
  | none => .error (.panic "no such introspection document")
  | some (op, _, text) =>
    let fixed := [("content-type", "application/json"), ("accept", "application/json")]
    if headers.any (fun nv => !(httpNameOk nv.1.toList) || !(httpValueOk nv.2.toList)) then
      .error (.failure "builder error")
    else
      let custom := headers.map fun nv => (String.ofList (lowerAscii nv.1.toList), nv.2)
      match authorization with
      | none => .ok { method := "POST", url := location, headers := fixed ++ custom, body := requestBody op text }
      | some tok =>
        if httpValueOk tok.toList then
          .ok { method := "POST", url := location, headers := fixed ++ custom ++ [("authorization", "Bearer " ++ tok)],
                body := requestBody op text }
        else .error (.failure "builder error")

/-! ### `serde_json::to_writer_pretty` of a `serde_json::Value` (keys in `BTreeMap` order) -/

/-- `BTreeMap::insert`: sorted by key, a later value replaces an earlier one -/
def insertSorted (k : String) (v : Json) : List (String × Json) → List (String × Json)
  | [] => [(k, v)]
  | (k', v') :: rest =>
    if k = k' then (k, v) :: rest
    else if k < k' then (k, v) :: (k', v') :: rest
    else (k', v') :: insertSorted k v rest

def sortObj (kvs : List (String × Json)) : List (String × Json) :=
  kvs.foldl (fun acc kv => insertSorted kv.1 kv.2 acc) []

mutual
  /-- the value as `serde_json::Value` holds it without `preserve_order` -/
  def canon : Json → Json
    | .arr xs => .arr (canonList xs)
    | .obj kvs => .obj (sortObj (canonKvs kvs))
    | j => j
  def canonList : List Json → List Json
    | [] => []
    | x :: xs => canon x :: canonList xs
  def canonKvs : List (String × Json) → List (String × Json)
    | [] => []
    | (k, v) :: rest => (k, canon v) :: canonKvs rest
end

def hexDigit (n : Nat) : Char := if n < 10 then Char.ofNat (48 + n) else Char.ofNat (87 + n)

/-- `serde_json`'s `format_escaped_str_contents` -/
def escapeChar (c : Char) : List Char :=
  if c = '"' then ['\\', '"']
  else if c = '\\' then ['\\', '\\']
  else if c.toNat = 8 then ['\\', 'b']
  else if c.toNat = 9 then ['\\', 't']
  else if c.toNat = 10 then ['\\', 'n']
  else if c.toNat = 12 then ['\\', 'f']
  else if c.toNat = 13 then ['\\', 'r']
  else if c.toNat < 32 then ['\\', 'u', '0', '0', hexDigit (c.toNat / 16), hexDigit (c.toNat % 16)]
  else [c]

def quoteJson (s : String) : String := "\"" ++ String.ofList (s.toList.flatMap escapeChar) ++ "\""

def indentStr : Nat → String
  | 0 => ""
  | n + 1 => "  " ++ indentStr n

mutual
  /-- `PrettyFormatter` with the two-space indent; `ind` = current depth -/
  def prettyAt (ind : Nat) : Json → String
    | .null => "null"
    | .bool b => if b then "true" else "false"
    | .int n => toString n
    | .num t => t
    | .str s => quoteJson s
    | .arr [] => "[]"
    | .arr (x :: xs) => "[\n" ++ indentStr (ind + 1) ++ prettyAt (ind + 1) x ++ prettyRest (ind + 1) xs ++ "\n" ++ indentStr ind ++ "]"
    | .obj [] => "{}"
    | .obj ((k, v) :: kvs) =>
      "{\n" ++ indentStr (ind + 1) ++ quoteJson k ++ ": " ++ prettyAt (ind + 1) v ++ prettyRestKvs (ind + 1) kvs ++ "\n" ++ indentStr ind ++ "}"
  def prettyRest (ind : Nat) : List Json → String
    | [] => ""
    | x :: xs => ",\n" ++ indentStr ind ++ prettyAt ind x ++ prettyRest ind xs
  def prettyRestKvs (ind : Nat) : List (String × Json) → String
    | [] => ""
    | (k, v) :: kvs => ",\n" ++ indentStr ind ++ quoteJson k ++ ": " ++ prettyAt ind v ++ prettyRestKvs ind kvs
end

/-- `serde_json::to_string_pretty(&value)` -/
def pretty (j : Json) : String := prettyAt 0 (canon j)

/-! ### the effects of `introspect_schema` on the output file and stdout -/

/-- what the endpoint does with the (single) request -/
inductive ServerBehaviour where
  /-- 2xx, the body is the JSON text of `j` -/
  | ok200Json (j : Json)
  /-- 2xx, the body is not JSON -/
  | ok200Garbage
  /-- a status that is neither 2xx nor 5xx (body: JSON or text) -/
  | status4xx (body : String)
  | status5xx (body : String)
  /-- nobody listens on the port -/
  | refused
  /-- the connection is closed before the reply is complete: before the response head has been
  received (`headReceived = false`, `send()` fails) or inside the announced body (`res.json()` fails) -/
  | cutMidReply (headReceived : Bool)
  deriving Repr, Inhabited

/-- the part of the world `introspect_schema` can change: the file named by `--output` and stdout -/
structure World where
  file : Option String
  stdout : String
  deriving Repr, Inhabited, DecidableEq

/-- `introspect_schema` after the request has been built.  `output` = `--output` was given;
`creatable` = `File::create` on that path succeeds. -/
def introspect (beh : ServerBehaviour) (output creatable : Bool) (w : World) : Exit × World :=
  -- `req_builder.json(&request_body).send()?`
  let sent : Except Exit Unit := match beh with
    | .refused => .error (.failure "error sending request")
    | .cutMidReply false => .error (.failure "error sending request")
    | _ => .ok ()
  match sent with
  | .error e => (e, w)
  | .ok () =>
    -- status handling
    let status : Except Exit Unit := match beh with
      | .status5xx _ => .error (.failure "server error!")
      | .status4xx body => .error (.failure ("HTTP " ++ body))
      | _ => .ok ()
    match status with
    | .error e => (e, w)
    | .ok () =>
      -- `let json: serde_json::Value = res.json()?`
      let parsed : Except Exit Json := match beh with
        | .ok200Json j => .ok j
        | _ => .error (.failure "error decoding response body")
      match parsed with
      | .error e => (e, w)
      | .ok j =>
        -- only now the writer is made: `File::create(path)?` (truncates) or stdout
        if output then
          if creatable then
            let w1 : World := { w with file := some "" }
            -- `serde_json::to_writer_pretty(out, &json)?`
            (.success, { w1 with file := some (pretty j) })
          else (.failure "No such file or directory", w)
        else (.success, { w with stdout := w.stdout ++ pretty j })

/-! ## `introspect-schema`, the whole run -/

/-- what clap hands to `main` for `introspect-schema` (`main.rs`, `Cli::IntrospectSchema`); `--no-ssl` only
configures certificate checking and is not part of the model -/
structure IntrospectArgs where
  location : String
  /-- `--output <path>` was given -/
  output : Bool
  authorization : Option String
  /-- the `--header` arguments, as written, in order -/
  headers : List String
  isOneOf : Bool
  specifyByUrl : Bool
  deriving Repr, Inhabited

/-- everything a run can be observed to do -/
structure IntrospectRun where
  exit : Exit
  /-- the request `send()` is called with; `none` = the program ends before any network activity
  (the type says "at most one request") -/
  request : Option Request
  world : World
  deriving Repr, Inhabited

/-- **`main` for `introspect-schema`**, a composition of `parseHeaderArgs` (clap, `Header::from_str` per argument),
`buildRequest` (the request builder of `introspect_schema`, whose error surfaces in `send()` before anything is
sent) and `introspect` (the reply handling).  `creatable` = `File::create` on the `--output` path succeeds. -/
def introspectMain (a : IntrospectArgs) (beh : ServerBehaviour) (creatable : Bool) (w : World) : IntrospectRun :=
  match parseHeaderArgs a.headers with
  | .error e => { exit := e, request := none, world := w }
  | .ok hs =>
    match buildRequest a.location hs a.authorization a.isOneOf a.specifyByUrl with
    | .error e => { exit := e, request := none, world := w }
    | .ok r =>
      let res := introspect beh a.output creatable w
      { exit := res.1, request := some r, world := res.2 }

/-! ## `generate` -/

structure GenFlags where
  queryPath : String
  schemaPath : String
  selectedOperation : Option String := none
  variablesDerives : Option String := none
  responseDerives : Option String := none
  deprecationStrategy : Option String := none
  noFormatting : Bool := false
  moduleVisibility : Option String := none
  outputDirectory : Option String := none
  customScalarsModule : Option String := none
  fragmentsOtherVariant : Bool := false
  externalEnums : Option (List String) := none
  deriving Repr, Inhabited

def allowWord : List Char := ['a', 'l', 'l', 'o', 'w']
def denyWord : List Char := ['d', 'e', 'n', 'y']
def warnWord : List Char := ['w', 'a', 'r', 'n']
def pubWord : List Char := ['p', 'u', 'b']
def inheritedWord : List Char := ['i', 'n', 'h', 'e', 'r', 'i', 't', 'e', 'd']
def privateWord : List Char := ['p', 'r', 'i', 'v', 'a', 't', 'e']

/-- `DeprecationStrategy::from_str` (`deprecation.rs`): trims, then three exact words -/
def parseDeprecation (s : String) : Option DepStrategy :=
  if trim s.toList = allowWord then some .allow
  else if trim s.toList = denyWord then some .deny
  else if trim s.toList = warnWord then some .warn
  else none

/-- `syn::Visibility` as far as the CLI can produce it -/
inductive Vis where
  | pub
  | inherited
  /-- `pub(<path>)`, the flag value parsed as a `syn::Path` -/
  | restricted (path : String)
  deriving Repr, DecidableEq, Inhabited

/-- the tokens of the visibility without spaces (the form `Options.visibility` uses) -/
def Vis.tokens : Vis → String
  | .pub => "pub"
  | .inherited => ""
  | .restricted p => "pub(" ++ String.ofList (p.toList.filter (fun c => !isWhitespace c)) ++ ")"

/-- the `match v.to_lowercase().as_str()` of `generate_code`.  `to_lowercase` is modelled on ASCII:
the only non-ASCII character whose lower case is an ASCII letter is U+212A (KELVIN SIGN → `k`), and
none of the three words contains a `k`.  `none` = `syn::parse_str(&v).unwrap()` panics. -/
def parseVisibility (synPathOk : String → Bool) : Option String → Option Vis
  | none => some .pub
  | some v =>
    if lowerAscii v.toList = pubWord then some .pub
    else if lowerAscii v.toList = inheritedWord then some .inherited      -- `"inherited" | "private"`
    else if lowerAscii v.toList = privateWord then some .inherited
    else if synPathOk v then some (.restricted v) else none

/-- flags → `GraphQLClientCodegenOptions`, in the order of `generate_code` -/
def cliOptions (synPathOk : String → Bool) (f : GenFlags) : Except Exit Options :=
  let deprecation := f.deprecationStrategy.bind parseDeprecation     -- `.and_then(|s| s.parse().ok())`
  let o : Options := { mode := .cli }
  match parseVisibility synPathOk f.moduleVisibility with
  | none => .error (.panic "called `Result::unwrap()` on an `Err` value")
  | some vis =>
    let o := { o with visibility := vis.tokens }
    let o := { o with otherVariant := f.fragmentsOtherVariant }
    let o := match f.selectedOperation with | some n => { o with operationName := some n } | none => o
    let o := match f.variablesDerives with | some d => { o with variablesDerives := some d } | none => o
    let o := match f.responseDerives with | some d => { o with responseDerives := some d } | none => o
    let o := match deprecation with | some d => { o with deprecation := d } | none => o
    let o := match f.externalEnums with | some e => { o with externEnums := e } | none => o
    match f.customScalarsModule with
    | none => .ok o
    | some m =>
      if synPathOk m then .ok { o with scalarsModule := some m }
      else .error (.failure "Invalid custom scalar module path")

/-! ### destination path: `Path::file_name`, `file_stem`, `parent`, `join`, `with_file_name` on `/`-separated strings -/

/-- what `Components::next_back` skips at the end of a path: separators and `.` components.
The argument is the *reversed* path. -/
def skipTrail : List Char → List Char
  | [] => []
  | c :: r =>
    if c = '/' then skipTrail r
    else if c = '.' then
      match r with
      | d :: r' => if d = '/' then skipTrail r' else c :: r
      | [] => c :: r
    else c :: r

/-- (reversed last component, reversed text before it — ending with the separator, if any) -/
def lastComponentRev (p : List Char) : List Char × List Char :=
  let r := skipTrail p.reverse
  (r.takeWhile (· ≠ '/'), r.dropWhile (· ≠ '/'))

/-- `Path::file_name`: the last component if it is a normal one (`None` for "", "/", "." and paths ending in "..") -/
def fileName (p : List Char) : Option (List Char) :=
  let n := (lastComponentRev p).1.reverse
  if n = [] ∨ n = ['.'] ∨ n = ['.', '.'] then none else some n

/-- `rsplit_file_at_dot` + `before.or(after)` = `Path::file_stem` of a file name -/
def fileStem (n : List Char) : List Char :=
  if n = ['.', '.'] then n
  else if '.' ∈ n then
    let before := ((n.reverse.dropWhile (· ≠ '.')).drop 1).reverse
    if before = [] then n else before
  else n

def rsExt : List Char := ['.', 'r', 's']

/-- `dir.join(name)` / `PathBuf::push(name)` for a relative `name` -/
def pathJoin (dir name : List Char) : List Char :=
  match dir.getLast? with
  | none => name
  | some c => if c = '/' then dir ++ name else dir ++ '/' :: name

/-- `Path::parent` of a path that has a file name: the text before the last component, without the
separators and `.` components that end it — but a root `/` and a leading `.` stay -/
def parentOf (p : List Char) : List Char :=
  let before := (lastComponentRev p).2          -- reversed
  let t := skipTrail before
  if t = [] ∧ before.getLast? = some '/' then ['/'] else t.reverse

/-- `Path::with_file_name(name)` (= `pop` + `push`) on a path that has a file name -/
def withFileName (p name : List Char) : List Char := pathJoin (parentOf p) name

/-- `dest_file_path` of `generate_code`: the file is named `<file_stem of the query file name>.rs`
and lies in the output directory, or replaces the query's file name;
`none` = "Failed to find a file name in the provided query path." -/
def destPath (outputDirectory : Option (List Char)) (queryPath : List Char) : Option (List Char) :=
  match fileName queryPath with
  | none => none
  | some name =>
    let destName := fileStem name ++ rsExt
    match outputDirectory with
    | some dir => some (pathJoin dir destName)
    | none => some (withFileName queryPath destName)

/-! ### the effects of `generate_code` -/

/-- `generate_module_token_stream(query_path, &schema_path, options)` seen from the CLI -/
inductive LibResult where
  /-- `Ok(tokens)`, rendered with `Display` -/
  | tokens (text : String)
  | err (msg : String)
  /-- the library `unwrap`s (missing query file, unreadable or unparsable schema) -/
  | panic (msg : String)
  deriving Repr, Inhabited

structure GenEnv where
  synPathOk : String → Bool
  lib : Options → LibResult
  /-- rustfmt on stdin; `none` = it exits non-zero -/
  rustfmt : String → Option String
  /-- `File::create(path)` succeeds -/
  creatable : String → Bool

/-- the file system as far as `generate_code` can change it: path ↦ content -/
abbrev Fs := String → Option String

def Fs.write (fs : Fs) (p c : String) : Fs := fun q => if q = p then some c else fs q

/-- the text handed to rustfmt / written with `--no-formatting` -/
def generatedCode (tokens : String) : String := Gen.warningSuppression ++ "\n" ++ tokens

def generateCode (env : GenEnv) (f : GenFlags) (fs : Fs) : Exit × Fs :=
  match cliOptions env.synPathOk f with
  | .error e => (e, fs)
  | .ok o =>
    match env.lib o with
    | .err m => (.failure ("Error generating module code: " ++ m), fs)
    | .panic m => (.panic m, fs)
    | .tokens t =>
      -- `if !no_formatting { format(&generated_code)? }`
      match (if f.noFormatting then some (generatedCode t) else env.rustfmt (generatedCode t)) with
      | none => (.panic "rustfmt error", fs)
      | some text =>
        match destPath (f.outputDirectory.map String.toList) f.queryPath.toList with
        | none => (.failure "Failed to find a file name in the provided query path.", fs)
        | some dest =>
          if env.creatable (String.ofList dest) then (.success, fs.write (String.ofList dest) text)
          else (.failure ("Creating file at " ++ String.ofList dest), fs)

end Cli
end GqlVerif
