import GqlVerif.Model.Envelope
/-!
# Specification side of C15 (written from the property statement, not from the code)

* `specBody` — the decidable grammar of *spec-shaped response bodies* (GraphQL spec, section 7 "Response"):
  an object whose `data` is absent / `null` / an object, whose `errors` is absent / `null` / a list of error
  objects, whose `extensions` is absent / `null` / an object; an error object has a string `message` and
  optionally `locations` (list of objects with integer `line`, `column`), `path` (list mixing strings and
  integers) and `extensions` (an object of arbitrary JSON).  Every object may carry arbitrary further
  members ("unknown members anywhere"); the named members occur at most once (JSON texts with repeated
  names are outside the grammar); integers are within i32 (the Rust types are `i32`).
  Members are found with `Json.lookup` and counted with `countKey` — neither is used by the model's
  deserialiser (`Envelope.field` works on the list of occurrences).
* `ResponsePres r j` — "the value `r` preserves everything body `j` says": member by member, `None` exactly
  for absent / `null`, `Some` of exactly the written content otherwise.
* `displaySpec` — `path:line:column: message`, path joined with `/` (`String.intercalate`), `<query>` when
  absent, first location or 0:0, integers rendered by Lean's own `toString`.
-/
namespace GqlVerif
namespace Envelope
namespace Spec

def countKey (k : String) : JMap → Nat
  | [] => 0
  | (k', _) :: rest => (if k' == k then 1 else 0) + countKey k rest

/-- optional member: at most once; absent, `null`, or a value of the right shape -/
def optMemberOk (k : String) (p : Json → Bool) (kvs : JMap) : Bool :=
  decide (countKey k kvs ≤ 1) &&
    match Json.lookup k kvs with
    | none => true
    | some v => isNull v || p v

/-- required member: exactly once, of the right shape -/
def reqMemberOk (k : String) (p : Json → Bool) (kvs : JMap) : Bool :=
  decide (countKey k kvs = 1) &&
    match Json.lookup k kvs with
    | none => false
    | some v => p v

def specString : Json → Bool
  | .str _ => true
  | _ => false

def specInt : Json → Bool
  | .int n => inI32 n
  | _ => false

/-- any JSON object (arbitrary nested JSON as values) whose member names are distinct -/
def specObject : Json → Bool
  | .obj m => distinctKeys m
  | _ => false

def specListOf (p : Json → Bool) : Json → Bool
  | .arr js => js.all p
  | _ => false

def specLocation : Json → Bool
  | .obj kvs => reqMemberOk "line" specInt kvs && reqMemberOk "column" specInt kvs
  | _ => false

/-- a path entry: a field name or a list index -/
def specPathEntry (j : Json) : Bool := specString j || specInt j

def specError : Json → Bool
  | .obj kvs =>
    reqMemberOk "message" specString kvs &&
    optMemberOk "locations" (specListOf specLocation) kvs &&
    optMemberOk "path" (specListOf specPathEntry) kvs &&
    optMemberOk "extensions" specObject kvs
  | _ => false

/-- the grammar of spec-shaped response bodies -/
def specBody : Json → Bool
  | .obj kvs =>
    optMemberOk "data" specObject kvs &&
    optMemberOk "errors" (specListOf specError) kvs &&
    optMemberOk "extensions" specObject kvs
  | _ => false

/-! ## preservation -/

/-- the member `k` of a JSON object (first occurrence) -/
def member (k : String) : Json → Option Json
  | .obj kvs => Json.lookup k kvs
  | _ => none

/-- an optional member is preserved: `None` exactly for absent / `null`, otherwise `Some` of a related value -/
def OptPres (R : α → Json → Prop) : Option α → Option Json → Prop
  | none, none => True
  | none, some j => j = .null
  | some a, some j => j ≠ .null ∧ R a j
  | some _, none => False

/-- element-wise, same length, same order -/
def ListPres (R : α → Json → Prop) : List α → List Json → Prop
  | [], [] => True
  | a :: as, j :: js => R a j ∧ ListPres R as js
  | _, _ => False

def ArrPres (R : α → Json → Prop) (as : List α) (j : Json) : Prop :=
  ∃ js, j = .arr js ∧ ListPres R as js

def LocPres (l : Location) (j : Json) : Prop :=
  member "line" j = some (.int l.line) ∧ member "column" j = some (.int l.column)

def FragPres : PathFragment → Json → Prop
  | .key s, j => j = .str s
  | .index n, j => j = .int n

/-- a map is preserved with all its entries (and nothing else) -/
def MapPres (m : JMap) (j : Json) : Prop := j = .obj m

def ErrorPres (e : Error) (j : Json) : Prop :=
  member "message" j = some (.str e.message) ∧
  OptPres (ArrPres LocPres) e.locations (member "locations" j) ∧
  OptPres (ArrPres FragPres) e.path (member "path" j) ∧
  OptPres MapPres e.extensions (member "extensions" j)

def ResponsePres (r : Response JMap) (j : Json) : Prop :=
  OptPres MapPres r.data (member "data" j) ∧
  OptPres (ArrPres ErrorPres) r.errors (member "errors" j) ∧
  OptPres MapPres r.extensions (member "extensions" j)

/-! ## Display -/

/-- `/`-joined path -/
def joinSlash (parts : List String) : String := String.intercalate "/" parts

def fragmentText : PathFragment → String
  | .key s => s
  | .index n => toString n

def pathText : Option (List PathFragment) → String
  | none => "<query>"
  | some fs => joinSlash (fs.map fragmentText)

def firstLocation : Option (List Location) → Location
  | some (l :: _) => l
  | _ => { line := 0, column := 0 }

/-- `path:line:column: message` -/
def displaySpec (e : Error) : String :=
  pathText e.path ++ ":" ++ toString (firstLocation e.locations).line ++ ":" ++
    toString (firstLocation e.locations).column ++ ": " ++ e.message

/-- value of a digit string (Horner); the independent reading of a decimal numeral -/
def digitsValue (cs : List Char) : Nat := cs.foldl (fun acc c => 10 * acc + (c.toNat - 48)) 0

end Spec
end Envelope
end GqlVerif
