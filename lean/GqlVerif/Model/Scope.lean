import GqlVerif.Model.Rust
/-!
C02: a scope discipline over the IR of an emitted module — the part of "valid Rust that type-checks"
that is decided by the generator's own logic (which items are emitted, under which names, and what
they mention).  Executable (the driver evaluates it on the IR extracted from the real token stream)
and small enough to read: a module is *well scoped* when

* every type name mentioned by an item (field types, variant payloads, alias targets, the result
  types of the `default_*` functions) is defined by an item of the same module, is a Rust prelude
  type the generator is allowed to use, or is supplied by the consumer as the documentation asks
  (custom scalar types reached through a path, externally defined enums by bare name);
* no name is defined twice; no struct has two fields, no enum two variants, of the same identifier;
* every item that carries a serde derive names the serde crate (needed in a crate whose only
  dependency is `graphql_client`).

rustc's type checker itself is not modelled: it is the other side of the C02 correspondence.
-/
namespace GqlVerif
namespace Scope

/-- the path at the leaf of a decorated type (`Option<Vec<Box<T>>>` ↦ `T`) -/
def leaf : RTy → String
  | .path p => p
  | .opt t => leaf t
  | .vec t => leaf t
  | .box t => leaf t

/-- the type names an item mentions in field / payload / alias position -/
def itemMentions : Item → List String
  | .struct _ _ _ fs => fs.map (fun f => leaf f.ty)
  | .tagged _ _ _ _ vs => vs.filterMap (fun v => v.payload.map leaf)
  | .oneOf _ _ _ vs => vs.filterMap (fun v => v.payload.map leaf)
  | .alias _ _ t => [leaf t]
  | .defaults fns => fns.map (fun p => leaf p.2)
  | _ => []

/-- the name an item brings into the module's type namespace (`impl Variables` brings none) -/
def itemDefines : Item → Option String
  | .defaults _ => none
  | it => some it.name

def defines (items : List Item) : List String := items.filterMap itemDefines

def mentions (items : List Item) : List String := items.flatMap itemMentions

/-- prelude / std types the emitted code uses without defining them -/
def rustBuiltins : List String := ["String", "bool", "i64", "f64"]

/-- a mention containing `::` is a path out of the module (custom scalars: `super::T`, `crate::m::T`) -/
def isPath (n : String) : Bool := n.toList.contains ':'

/-- `supplied`: what the consumer was told to provide — paths of custom scalar types and the bare
    names of extern enums (visible through `use super::*`) -/
def resolved (items : List Item) (supplied : List String) (n : String) : Bool :=
  (defines items).contains n || rustBuiltins.contains n || supplied.contains n

def undefinedMentions (items : List Item) (supplied : List String) : List String :=
  (mentions items).filter (fun n => !resolved items supplied n)

/-- elements occurring more than once (each reported once per extra occurrence) -/
def dups : List String → List String
  | [] => []
  | x :: xs => if xs.contains x then x :: dups xs else dups xs

def itemMemberDups : Item → List String
  | .struct _ _ _ fs => dups (fs.map (·.rust))
  | .tagged _ _ _ _ vs => dups (vs.map (·.name))
  | .oneOf _ _ _ vs => dups (vs.map (·.name))
  | .gqlEnum _ _ _ vs _ _ => dups (vs ++ ["Other"])   -- every generated enum also declares `Other(String)`
  | .defaults fns => dups (fns.map (·.1))
  | _ => []

/-- items with a serde derive (`Serialize` / `Deserialize`) but no `#[serde(crate = …)]` -/
def missingSerdeCrate : Item → Bool
  | .struct _ ds sc _ | .unitStruct _ ds sc | .tagged _ ds sc _ _ | .oneOf _ ds sc _ =>
    (ds.contains "Serialize" || ds.contains "Deserialize") && sc.isNone
  | _ => false

/-- the operation struct (`pub struct Op;`, emitted next to the module in CLI / library form) and the
    module `pub mod <snake(op)>` share Rust's type namespace: they must not carry the same name -/
def headerClash (modName : String) (structDecl : Option String) : Bool := structDecl == some modName

structure Report where
  undefined : List String
  duplicateDefs : List String
  duplicateMembers : List String
  serdeless : List String
  deriving Repr, DecidableEq

def report (items : List Item) (supplied : List String) : Report :=
  { undefined := undefinedMentions items supplied
    duplicateDefs := dups (defines items)
    duplicateMembers := items.flatMap itemMemberDups
    serdeless := (items.filter missingSerdeCrate).map Item.name }

def wellScoped (items : List Item) (supplied : List String) : Bool :=
  report items supplied == { undefined := [], duplicateDefs := [], duplicateMembers := [], serdeless := [] }

end Scope
end GqlVerif
