import GqlVerif.Model.Query
/-!
The *specification* side of C06: which operations are valid against a schema, for the rule catalogue
of the property.  Written from the GraphQL specification (§5 Validation) and the property statement,
independently of `Resolve`: it works on the un-resolved document (`QDoc`) and the schema only.

`strict = true` is the full catalogue.  `strict = false` drops exactly one rule — "a field of
object / interface / union type must have a sub-selection" — which the pinned code does not enforce
(known finding `C06-no-selection`; the repository's own test fixtures depend on it).
-/
namespace GqlVerif
namespace Valid

def isComposite : TypeId → Bool
  | .object _ | .interface _ | .union _ => true
  | _ => false

/-- possible runtime object types of a composite type -/
def possibleTypes (s : Schema) : TypeId → List Nat
  | .object i => [i]
  | .interface i => s.implementors i
  | .union u => match s.unions[u]? with
    | some un => un.variants.filterMap TypeId.asObject?
    | none => []
  | _ => []

/-- a type condition `cond` can apply to a value of type `parent`
    (spec: the sets of possible types intersect; the type itself always applies) -/
def applicable (s : Schema) (parent cond : TypeId) : Bool :=
  parent == cond || (possibleTypes s parent).any (fun o => (possibleTypes s cond).contains o)

/-- the field definition `name` of an object or interface type -/
def lookupField (s : Schema) (parent : TypeId) (name : String) : Option StoredField :=
  let ids := match parent with
    | .object i => match s.objects[i]? with | some o => o.fields | none => []
    | .interface i => match s.interfaces[i]? with | some o => o.fields | none => []
    | _ => []
  (ids.filterMap (fun id => s.fields[id]?)).find? (·.name == name)

/-- fragment table of a document: name ↦ type condition (first definition wins) -/
def fragTable (d : QDoc) : List (String × String × List QSel) :=
  d.filterMap fun | .frag n on sels => some (n, on, sels) | _ => none

def findFrag (ft : List (String × String × List QSel)) (n : String) : Option (String × List QSel) :=
  (ft.find? (·.1 == n)).map (·.2)

/-- the project's own rule: a selection on an interface / union type `t` selects `__typename`,
    directly or through spreads of fragments on the same type -/
def hasTypename (s : Schema) (ft : List (String × String × List QSel)) (t : TypeId) : Nat → List QSel → Bool
  | 0, _ => false
  | fuel+1, sels =>
    sels.any fun
      | .field _ name _ => name == "__typename"
      | .spread n => match findFrag ft n with
        | some (on, fsels) => s.findType on == some t && hasTypename s ft t fuel fsels
        | none => false
      | .inline _ _ => false

mutual
  def validSel (s : Schema) (ft : List (String × String × List QSel)) (strict : Bool) (parent : TypeId) : QSel → Bool
    | .field _ name sub =>
      if name == "__typename" then sub.isEmpty
      else match lookupField s parent name with
        | none => false
        | some f =>
          if isComposite f.ty.id then
            (!strict || !sub.isEmpty) && validSels s ft strict f.ty.id sub &&
              (!f.ty.id.isAbstract || hasTypename s ft f.ty.id (ft.length + 1) sub)
          else sub.isEmpty
    | .spread n => match findFrag ft n with
      | none => false
      | some (on, _) => match s.findType on with
        | none => false
        | some t => applicable s parent t
    | .inline none sub => validSels s ft strict parent sub
    | .inline (some on) sub => match s.findType on with
      | none => false
      | some t => isComposite t && applicable s parent t && validSels s ft strict t sub
  def validSels (s : Schema) (ft : List (String × String × List QSel)) (strict : Bool) (parent : TypeId) : List QSel → Bool
    | [] => true
    | x :: xs => validSel s ft strict parent x && validSels s ft strict parent xs
end

mutual
  /-- nesting depth of a selection -/
  def qselDepth : QSel → Nat
    | .field _ _ sub => qselsDepth sub + 1
    | .inline _ sub => qselsDepth sub + 1
    | .spread _ => 1
  def qselsDepth : List QSel → Nat
    | [] => 0
    | x :: xs => max (qselDepth x) (qselsDepth xs)
end

/-- an upper bound of the nesting depth of any selection set of the document -/
def docDepth (d : QDoc) : Nat :=
  (d.map fun
    | .op _ _ _ sels => qselsDepth sels
    | .selset sels => qselsDepth sels
    | .frag _ _ sels => qselsDepth sels).foldl max 0

/-- response keys of the root selection with spreads and inline fragments expanded -/
def rootKeys (ft : List (String × String × List QSel)) : Nat → List QSel → List String
  | 0, _ => []
  | fuel+1, sels => sels.flatMap fun
    | .field alias name _ => [alias.getD name]
    | .spread n => match findFrag ft n with
      | some (_, fsels) => rootKeys ft fuel fsels
      | none => []
    | .inline _ sub => rootKeys ft fuel sub

def rootOf (s : Schema) : OpKind → Option Nat
  | .query => s.queryType
  | .mutation => s.mutationType
  | .subscription => s.subscriptionType

def validDef (s : Schema) (ft : List (String × String × List QSel)) (strict : Bool) (depth : Nat) : QDef → Bool
  | .selset _ => false                                   -- anonymous operation
  | .op _ none _ _ => false                              -- anonymous operation
  | .op kind (some _) _ sels =>
    match rootOf s kind with
    | none => false                                      -- the schema lacks this root type
    | some root =>
      validSels s ft strict (.object root) sels &&
      -- each step of `rootKeys` descends one nesting level or enters a fragment not entered before on
      -- this path, so (#fragments + 1) × (depth + 1) levels are always enough
      (kind != .subscription || (rootKeys ft ((ft.length + 1) * (depth + 1) + 1) sels).eraseDups.length == 1)
  | .frag _ on sels =>
    match s.findType on with
    | none => false
    | some t => validSels s ft strict t sels && (!t.isAbstract || hasTypename s ft t (ft.length + 1) sels)

def nodupStrings : List String → Bool
  | [] => true
  | x :: xs => !xs.contains x && nodupStrings xs

/-- names of the operations / fragments defined by the document -/
def opNames (d : QDoc) : List String := d.filterMap fun | .op _ (some n) _ _ => some n | _ => none
def fragNames (d : QDoc) : List String := d.filterMap fun | .frag n _ _ => some n | _ => none

def validDoc (s : Schema) (strict : Bool) (d : QDoc) : Bool :=
  -- GraphQL §5.2.1.1 / §5.5.1.1: operation names and fragment names are unique within a document
  nodupStrings (opNames d) && nodupStrings (fragNames d) &&
  d.all (validDef s (fragTable d) strict (docDepth d))

end Valid
end GqlVerif
