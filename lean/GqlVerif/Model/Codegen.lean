import GqlVerif.Model.Resolve
import GqlVerif.Model.Names
import GqlVerif.Model.Rust
/-!
Mirror of `codegen.rs`, `codegen/selection.rs`, `codegen/enums.rs`, `codegen/inputs.rs`,
`generated_module.rs` and `lib.rs::generate_module_token_stream_inner`: resolved query → IR of the
emitted module.
-/
namespace GqlVerif

inductive Mode where | cli | derive
  deriving Repr, DecidableEq, Inhabited

inductive DepStrategy where | allow | deny | warn
  deriving Repr, DecidableEq, Inhabited

structure Options where
  mode : Mode := .cli
  operationName : Option String := none
  structIdent : Option String := none
  normalization : Normalization := .none
  deprecation : DepStrategy := .warn
  otherVariant : Bool := false
  skipNone : Bool := false
  responseDerives : Option String := none
  variablesDerives : Option String := none
  scalarsModule : Option String := none
  externEnums : List String := []
  serdePath : String := "::serde"
  visibility : String := ""
  queryFile : Option String := none
  deriving Repr, Inhabited

namespace Codegen

/-! ### derive lists (`codegen_options.rs`) -/

def isWs (c : Char) : Bool := c == ' ' || c == '\t' || c == '\n' || c == '\r' || c == '\x0b' || c == '\x0c'

def trimChars (cs : List Char) : List Char :=
  ((cs.dropWhile isWs).reverse.dropWhile isWs).reverse

def splitComma : List Char → List Char → List (List Char)
  | [], acc => [acc.reverse]
  | ',' :: cs, acc => acc.reverse :: splitComma cs []
  | c :: cs, acc => splitComma cs (c :: acc)

def splitDerives (s : Option String) : List String :=
  match s with
  | none => []
  | some s => (splitComma s.toList []).map (fun cs => String.ofList (trimChars cs))

def allResponseDerives (o : Options) : List String :=
  "Deserialize" :: (splitDerives o.responseDerives).filter (· != "Deserialize")

def allVariableDerives (o : Options) : List String :=
  "Serialize" :: splitDerives o.variablesDerives

def insertSorted (x : String) : List String → List String
  | [] => [x]
  | y :: ys => if x < y then x :: y :: ys else if x == y then y :: ys else y :: insertSorted x ys

def enumDerives (o : Options) : List String :=
  ((allResponseDerives o ++ allVariableDerives o).filter
    (fun d => !["Serialize", "Deserialize", "Default"].contains d)).foldl (fun acc d => insertSorted d acc) []

/-! ### `decorate_type` -/

def decorateStep (st : RTy × Bool) (q : Qual) : Outcome (RTy × Bool) :=
  match st.2, q with
  | true, .list => pure (.vec st.1, false)
  | false, .list => pure (.vec (.opt st.1), false)
  | true, .required => panic' "double required annotation"
  | false, .required => pure (st.1, true)

def decorateType (base : RTy) (quals : List Qual) : Outcome RTy := do
  let (t, nn) ← quals.reverse.foldlM decorateStep (base, false)
  pure (if nn then t else .opt t)

/-! ### used types (`query.rs::all_used_types`) -/

structure UsedTypes where
  types : List TypeId := []
  fragments : List Nat := []
  deriving Repr, Inhabited

def UsedTypes.insertType (u : UsedTypes) (t : TypeId) : UsedTypes :=
  if u.types.contains t then u else { u with types := t :: u.types }

mutual
  def selDepth : Sel → Nat
    | .field _ _ sub => selsDepth sub + 1
    | .inline _ sub => selsDepth sub + 1
    | _ => 1
  def selsDepth : List Sel → Nat
    | [] => 0
    | x :: xs => max (selDepth x) (selsDepth xs)
end

def walkFuel (q : Query) : Nat :=
  let d := (q.fragments.map (fun f => selsDepth f.sels) ++ q.operations.map (fun o => selsDepth o.sels)).foldl max 0
  (q.fragments.length + 1) * (d + 2) + 1

/-- `Selection::collect_used_types` -/
def collectSel (s : Schema) (q : Query) : Nat → UsedTypes → Sel → Outcome UsedTypes
  | 0, u, _ => pure u
  | fuel+1, u, .field _ fid sub => do
    let f ← s.getField fid
    sub.foldlM (collectSel s q fuel) (u.insertType f.ty.id)
  | fuel+1, u, .inline t sub => sub.foldlM (collectSel s q fuel) (u.insertType t)
  | fuel+1, u, .spread fid =>
    if u.fragments.contains fid then pure u else do
    let f ← q.getFragment fid
    f.sels.foldlM (collectSel s q fuel) { u with fragments := fid :: u.fragments }
  | _+1, u, .typename => pure u

/-- `StoredInputType::used_input_ids_recursive` -/
def usedInputIds (s : Schema) : Nat → UsedTypes → StoredInput → Outcome UsedTypes
  | 0, u, _ => pure u
  | fuel+1, u, input =>
    input.fields.foldlM (fun u (_, ty) =>
      match ty.id with
      | .input iid =>
        if u.types.contains ty.id then pure u else do
        let i ← s.getInput iid
        usedInputIds s fuel (u.insertType ty.id) i
      | .enum _ | .scalar _ => pure (u.insertType ty.id)
      | _ => pure u) u

def collectVar (s : Schema) (u : UsedTypes) (v : RVariable) : Outcome UsedTypes :=
  match v.ty.id with
  | .input iid => do
    let i ← s.getInput iid
    usedInputIds s (s.inputs.length + 1) (u.insertType v.ty.id) i
  | .scalar _ | .enum _ => pure (u.insertType v.ty.id)
  | _ => pure u

def allUsedTypes (s : Schema) (q : Query) (op : Nat) : Outcome UsedTypes := do
  let o ← q.getOperation op
  let u ← o.sels.foldlM (collectSel s q (walkFuel q)) {}
  (q.opVariables op).foldlM (collectVar s) u

def sortNat (xs : List Nat) : List Nat :=
  xs.foldl (fun acc x =>
    let rec ins : List Nat → List Nat
      | [] => [x]
      | y :: ys => if x < y then x :: y :: ys else if x == y then y :: ys else y :: ins ys
    ins acc) []

/-! ### recursion tests -/

/-- does fragment `target` occur (transitively through spreads) below these selections?
    (`fragment_is_recursive` of the repaired code: follows spreads with a visited set) -/
def reachesFragment (q : Query) (target : Nat) : Nat → List Nat → List Sel → Bool × List Nat
  | 0, visited, _ => (false, visited)
  | fuel+1, visited, sels =>
    sels.foldl (fun (acc : Bool × List Nat) sel =>
      if acc.1 then acc else
      match sel with
      | .spread fid =>
        if fid == target then (true, acc.2)
        else if acc.2.contains fid then acc
        else match q.fragments[fid]? with
          | none => acc
          | some f => reachesFragment q target fuel (fid :: acc.2) f.sels
      | .field _ _ sub => reachesFragment q target fuel acc.2 sub
      | .inline _ sub => reachesFragment q target fuel acc.2 sub
      | .typename => acc) (false, visited)

def fragmentIsRecursive (q : Query) (fid : Nat) : Bool :=
  match q.fragments[fid]? with
  | none => false
  | some f => (reachesFragment q fid (walkFuel q) [] f.sels).1

/-- `contains_type_without_indirection` (visited set keyed by *name*, as in the code) -/
def containsWithoutIndirection (s : Schema) (target : Nat) : Nat → List String → StoredInput → Bool × List String
  | 0, visited, _ => (false, visited)
  | fuel+1, visited, input =>
    input.fields.foldl (fun (acc : Bool × List String) (_, ty) =>
      if acc.1 then acc else
      if ty.isIndirected then acc else
      match ty.id.asInput? with
      | none => acc
      | some fid =>
        if fid == target then (true, acc.2) else
        match s.inputs[fid]? with
        | none => acc
        | some i =>
          if acc.2.contains i.name then acc
          else containsWithoutIndirection s target fuel acc.2 i) (false, input.name :: visited)

/-- `input_is_recursive_without_indirection` -/
def inputIsRecursive (s : Schema) (iid : Nat) : Bool :=
  match s.inputs[iid]? with
  | none => false
  | some i => (containsWithoutIndirection s iid (s.inputs.length + 1) [] i).1

/-! ### selection expansion (`codegen/selection.rs`) -/

structure Ctx where
  s : Schema
  q : Query
  o : Options
  cs : CaseFns

def Ctx.respDerives (c : Ctx) : List String := allResponseDerives c.o
def Ctx.serdeCrate (c : Ctx) : Option String := some c.o.serdePath

/-- one `ExpandedField`, already rendered (`ExpandedField::render`); `none` = omitted (`deny`) -/
def renderField (c : Ctx) (graphqlName : Option String) (rustName fieldType : String) (quals : List Qual)
    (flatten boxed : Bool) (deprecation : Option (Option String)) : Outcome (Option RField) := do
  let ty ← decorateType (.path fieldType) quals
  let ty := if boxed then .box ty else ty
  let isId := fieldType == "ID"
  let isRequired := quals.contains .required
  let hasList := quals.contains .list
  let deserWith :=
    if !isId then none
    else if hasList then some "graphql_client::serde_with::deserialize_nested_id"
    else if isRequired then some "graphql_client::serde_with::deserialize_id"
    else some "graphql_client::serde_with::deserialize_option_id"
  let dflt := isId && (match quals with | q :: _ => q != .required | [] => true)
  let skip := c.o.skipNone && (match quals with | q :: _ => q != .required | [] => false)
  let rename := graphqlName.bind (fun g => fieldRename g rustName)
  match deprecation, c.o.deprecation with
  | some _, .deny => pure none
  | dep, strat =>
    let depAttr := match dep, strat with
      | some msg, .warn => some msg
      | _, _ => none
    pure (some { rust := rustName, rename := rename, ty := ty, flatten := flatten, skipNone := skip,
                 deserWith := deserWith, default := dflt, deprecated := depAttr })

/-- variants of an abstract type: `None` for concrete types -/
def variantsOf (s : Schema) : TypeId → Outcome (Option (List TypeId))
  | .interface iid => pure (some ((s.implementors iid).map .object))
  | .union uid => do pure (some (← s.getUnion uid).variants)
  | _ => pure none

inductive VariantSel where
  | inline (typeId : TypeId) (sub : List Sel)
  | spread (fid : Nat) (frag : RFragment)

def VariantSel.typeId : VariantSel → TypeId
  | .inline t _ => t
  | .spread _ f => f.on

/-- `VariantSelection::from_selection` -/
def variantSelOf (q : Query) (typeId : TypeId) : Sel → Outcome (Option VariantSel)
  | .inline t sub => pure (some (.inline t sub))
  | .spread fid => do
    let f ← q.getFragment fid
    pure (if f.on == typeId then none else some (.spread fid f))
  | _ => pure none

def aliasItem (name target : String) (boxed : Bool) : Item :=
  .alias name true (if boxed then .box (.path target) else .path target)

/-- an aliased fragment rendered as a flattened member instead (`aliasItem _ f boxed`) -/
def aliasMember (c : Ctx) : Item → Outcome (List RField)
  | .alias _ _ (.path f) => do
    let fld ← renderField c none (c.cs.snake f) f [.required] true false none
    pure fld.toList
  | .alias _ _ (.box (.path f)) => do
    let fld ← renderField c none (c.cs.snake f) f [.required] true true none
    pure fld.toList
  | _ => pure []

/-- final rendering of one expanded type (`ExpandedSelection::render`, one iteration) -/
def renderType (c : Ctx) (name : String) (fields : List RField) (variants : List RVariant) : List Item :=
  if fields.isEmpty && !variants.isEmpty then
    [.tagged name c.respDerives c.serdeCrate "__typename" variants]
  else if variants.isEmpty then
    [.struct name c.respDerives c.serdeCrate fields]
  else
    [.struct name c.respDerives c.serdeCrate
        (fields ++ [{ rust := "on", ty := .path (name ++ "On"), flatten := true }]),
     .tagged (name ++ "On") c.respDerives c.serdeCrate "__typename" variants]

/-- does the field loop of `calculate_selection` push an `ExpandedField` for the struct of type `typeId` at this
    selection?  (a field always; a spread of a fragment on the type itself; `__typename` and inline fragments never) -/
def selPushes (q : Query) (typeId : TypeId) : Sel → Bool
  | .field _ _ _ => true
  | .spread fid => (match q.fragments[fid]? with | some f => f.on == typeId | none => false)
  | _ => false

/-- `has_fields` of `ExpandedSelection::render` for a variant struct: was any `ExpandedField` PUSHED for it by the
    selections `mine` on the variant `vt` — whether or not `ExpandedField::render` keeps it under `deny`.  A spread pushes
    its flattened member; an inline fragment is a `calculate_selection` call on the struct: a lone spread inside it pushes
    a type alias only, otherwise its fields and its spreads of fragments on `vt` are pushed. -/
def pushedAny (q : Query) (vt : TypeId) : List VariantSel → Bool
  | [] => false
  | .inline _ sub :: rest =>
    (match sub with
     | [.spread _] => false
     | _ => sub.any (selPushes q vt)) || pushedAny q vt rest
  | .spread _ _ :: _ => true

mutual
  /-- `calculate_selection` + render for the type `name` (path prefix `prefix` for nested types);
      returns the items of this type followed by those of its nested types -/
  def calcSelection (c : Ctx) : Nat → String → String → TypeId → List Sel → Outcome (List Item)
    | 0, _, _, _, _ => .error (.unmodelled "calcSelection fuel")
    | fuel+1, name, pfx, typeId, sels => do
      -- single fragment spread ⇒ type alias
      let single : Option Nat := match sels with | [.spread fid] => some fid | _ => none
      match single with
      | some fid =>
        let f ← c.q.getFragment fid
        pure [aliasItem name f.name (fragmentIsRecursive c.q fid)]
      | none =>
      let variants ← variantsOf c.s typeId
      -- variants
      let (rvariants, vitems) ← match variants with
        | none => pure (([] : List RVariant), ([] : List Item))
        | some vts => do
          let vsels ← sels.filterMapM (variantSelOf c.q typeId)
          let r ← calcVariants c fuel name pfx vsels vts
          let other : List RVariant :=
            if c.o.otherVariant then [{ name := "Unknown", other := true }] else []
          pure (r.1 ++ other, r.2)
      -- fields
      let (rfields, fitems) ← calcFields c fuel pfx typeId sels
      pure (renderType c name rfields rvariants ++ vitems ++ fitems)

  /-- the per-variant loop -/
  def calcVariants (c : Ctx) : Nat → String → String → List VariantSel → List TypeId → Outcome (List RVariant × List Item)
    | 0, _, _, _, _ => .error (.unmodelled "calcVariants fuel")
    | _, _, _, _, [] => pure ([], [])
    | fuel+1, name, pfx, vsels, vt :: rest => do
      let vname ← c.s.typeName vt
      let mine := vsels.filter (fun v => v.typeId == vt)
      let (thisV, thisItems) ← match mine with
        | [] => pure (({ name := vname } : RVariant), ([] : List Item))
        | first :: _ => do
          let sname := pfx ++ "On" ++ vname
          let v : RVariant := { name := vname, payload := some (.path sname) }
          let single : Option (Nat × RFragment) := match mine with
            | [.spread fid f] => some (fid, f) | _ => none
          match single with
          | some (fid, f) => pure (v, [aliasItem sname f.name (fragmentIsRecursive c.q fid)])
          | none => do
            -- every selection on this variant contributes to the same struct
            let r ← calcVariantSels c fuel sname pfx vt mine
            let _ := first
            -- `has_fields` counts the fields PUSHED for the struct, not the rendered ones (`deny` acts at render)
            match pushedAny c.q vt mine, r.2.2 with
            | false, [a] => pure (v, a :: r.2.1)      -- nothing but one aliased fragment: a type alias
            | _, als => do
              -- several contributions: every aliased fragment is one more flattened member
              let extra ← als.mapM (aliasMember c)
              pure (v, renderType c sname (r.1 ++ extra.flatten) [] ++ r.2.1)
      let (vs, items) ← calcVariants c fuel name pfx vsels rest
      pure (thisV :: vs, thisItems ++ items)

  /-- fields contributed to a variant struct by each of its selections (each inline fragment is a
      full `calculate_selection` call on the variant struct: a lone spread inside it aliases the struct) -/
  def calcVariantSels (c : Ctx) : Nat → String → String → TypeId → List VariantSel →
      Outcome (List RField × List Item × List Item)
    | 0, _, _, _, _ => .error (.unmodelled "calcVariantSels fuel")
    | _, _, _, _, [] => pure ([], [], [])
    | fuel+1, sname, pfx, vt, .inline t sub :: rest => do
      let tn ← c.s.typeName t
      let single : Option Nat := match sub with | [.spread fid] => some fid | _ => none
      let (fs, items, al) ← match single with
        | some fid => do
          let f ← c.q.getFragment fid
          pure (([] : List RField), ([] : List Item), [aliasItem sname f.name (fragmentIsRecursive c.q fid)])
        | none => do
          let (fs, items) ← calcFields c fuel (pfx ++ "On" ++ c.cs.camel tn) vt sub
          pure (fs, items, [])
      let (fs', items', al') ← calcVariantSels c fuel sname pfx vt rest
      pure (fs ++ fs', items ++ items', al ++ al')
    | fuel+1, sname, pfx, vt, .spread fid f :: rest => do
      let fld ← renderField c none (c.cs.snake f.name) f.name [.required] true (fragmentIsRecursive c.q fid) none
      let (fs', items', al') ← calcVariantSels c fuel sname pfx vt rest
      pure (fld.toList ++ fs', items', al')

  /-- the field loop of `calculate_selection` -/
  def calcFields (c : Ctx) : Nat → String → TypeId → List Sel → Outcome (List RField × List Item)
    | 0, _, _, _ => .error (.unmodelled "calcFields fuel")
    | _, _, _, [] => pure ([], [])
    | fuel+1, pfx, typeId, .field alias fid sub :: rest => do
      let sf ← c.s.getField fid
      let gname := alias.getD sf.name
      let rname := keywordReplace (c.cs.snake gname)
      let (fld, items) ← match sf.ty.id with
        | .enum e => do
          let en ← c.s.getEnum e
          let f ← renderField c (some gname) rname (c.o.normalization.fieldType c.cs en.name) sf.ty.quals false false sf.deprecation
          pure (f, ([] : List Item))
        | .scalar sc => do
          let sn ← c.s.getScalar sc
          let f ← renderField c (some gname) rname (c.o.normalization.fieldType c.cs sn) sf.ty.quals false false sf.deprecation
          pure (f, [])
        | .input _ => panic' "field selection on input type"
        | t => do
          let sname := pfx ++ c.cs.camel gname
          let f ← renderField c (some gname) rname sname sf.ty.quals false false sf.deprecation
          let items ← calcSelection c fuel sname sname t sub
          pure (f, items)
      let (fs, items') ← calcFields c fuel pfx typeId rest
      pure (fld.toList ++ fs, items ++ items')
    | fuel+1, pfx, typeId, .spread fid :: rest => do
      let f ← c.q.getFragment fid
      let (fs, items) ← calcFields c fuel pfx typeId rest
      if f.on != typeId then pure (fs, items) else
      let fld ← renderField c none (keywordReplace (c.cs.snake f.name)) f.name [.required] true
                  (fragmentIsRecursive c.q fid) none
      pure (fld.toList ++ fs, items)
    | fuel+1, pfx, typeId, _ :: rest => calcFields c fuel pfx typeId rest
end

mutual
  def selSize : Sel → Nat
    | .field _ _ sub => selsSize sub + 1
    | .inline _ sub => selsSize sub + 1
    | _ => 1
  def selsSize : List Sel → Nat
    | [] => 0
    | x :: xs => selSize x + selsSize xs
end

/-- every call of the `calc*` block consumes one unit, whether it descends or walks along a list:
    a call chain is at most (nesting depth) × (longest selection list + most variants) long -/
def calcFuel (s : Schema) (q : Query) : Nat :=
  let total := (q.fragments.map (fun f => selsSize f.sels) ++ q.operations.map (fun o => selsSize o.sels)).foldl (· + ·) 0
  let maxUnion := (s.unions.map (fun u => u.variants.length)).foldl max 0
  walkFuel q * (total + s.objects.length + maxUnion + 4) + 16

/-- `render_response_data_fields(..).render(..)` -/
def responseItems (c : Ctx) (op : ROperation) : Outcome (List Item) :=
  calcSelection c (calcFuel c.s c.q) "ResponseData" (c.cs.camel op.name) (.object op.objectId) op.sels

/-- `render_fragment(..).render(..)` -/
def fragmentItems (c : Ctx) (fid : Nat) : Outcome (List Item) := do
  let f ← c.q.getFragment fid
  calcSelection c (calcFuel c.s c.q) f.name (c.cs.camel f.name) f.on f.sels

/-! ### enums (`codegen/enums.rs`) -/

def enumItem (c : Ctx) (e : StoredEnum) : Item :=
  let n := c.o.normalization
  let name := n.enumName c.cs e.name
  let variantIdent (v : String) := enumVariantIdent n c.cs v
  let idents := e.variants.map variantIdent
  .gqlEnum name (enumDerives c.o) c.o.serdePath idents
    (e.variants.map fun v => (variantIdent v, v))
    (e.variants.map fun v => (v, variantIdent v))

/-! ### inputs (`codegen/inputs.rs`) -/

def inputFieldType (c : Ctx) (ty : FieldType) (quals : List Qual) : Outcome RTy := do
  let tn ← c.s.typeName ty.id
  let t ← decorateType (.path (c.o.normalization.fieldType c.cs tn)) quals
  let boxed := match ty.id.asInput? with | some iid => inputIsRecursive c.s iid | none => false
  pure (if boxed then .box t else t)

def inputItem (c : Ctx) (i : StoredInput) : Outcome Item := do
  let name := keywordReplace (c.o.normalization.inputName c.cs i.name)
  if i.isOneOf then
    let vs ← i.fields.mapM fun (fname, ty) => do
      let vname := c.cs.camel fname
      let safe := keywordReplace vname
      let t ← inputFieldType c ty (.required :: ty.quals)
      pure ({ name := safe, rename := fieldRename fname safe, payload := some t } : RVariant)
    pure (.oneOf name (allVariableDerives c.o) c.serdeCrate vs)
  else
    let fs ← i.fields.mapM fun (fname, ty) => do
      let safe := keywordReplace (c.cs.snake fname)
      let t ← inputFieldType c ty ty.quals
      pure ({ rust := safe, rename := fieldRename fname safe, ty := t,
              skipNone := c.o.skipNone && ty.isOptional } : RField)
    pure (.struct name (allVariableDerives c.o) c.serdeCrate fs)

/-! ### variables (`codegen.rs`) -/

def variableType (c : Ctx) (v : RVariable) : Outcome RTy := do
  let tn ← c.s.typeName v.ty.id
  decorateType (.path (keywordReplace (c.o.normalization.fieldType c.cs tn))) v.ty.quals

/-- `let (is_optional, qualifiers) = match qualifiers.first() { Some(Required) => (false, &qualifiers[1..]), _ => (true, qualifiers) }` -/
def stripRequired : List Qual → Bool × List Qual
  | .required :: rest => (false, rest)
  | quals => (true, quals)

/-- `matches!(value, Value::Null)` -/
def valueIsNull : Value → Bool
  | .null => true
  | _ => false

/-- the qualifiers the elements of a list value are rendered at: `&qualifiers[1..]` under a list level
    (`(Some(List), Value::List(..))`), `&[]` otherwise (`(_, Value::List(..))`) -/
def elemQuals : List Qual → List Qual
  | .list :: rest => rest
  | _ => []

/-- `graphql_parser_value_to_literal`: only its panics are modelled (the expression: `DefaultLit.lean`).  `quals`: the
    qualifiers of the position, the outermost first.  `null` at a nullable position is `None` (checked before anything
    else, as in the Rust); at a non-null position it reaches `scalar_value_to_literal`, which panics. -/
def literalOk (s : Schema) : Nat → Value → TypeId → List Qual → Outcome Unit
  | 0, v, _, quals =>
    if (stripRequired quals).1 && valueIsNull v then pure () else .error (.unmodelled "literal fuel")
  | _+1, .var _, _, _ => panic' "variable in variable"
  | _+1, .null, _, quals => if (stripRequired quals).1 then pure () else panic' "null as default value"
  | fuel+1, .list xs, ty, quals => xs.forM (fun x => literalOk s fuel x ty (elemQuals (stripRequired quals).2))
  | fuel+1, .obj kvs, ty, _ =>
    match ty.asInput? with
    | none => pure ()
    | some iid => do
      let i ← s.getInput iid
      i.fields.forM fun (fname, fty) =>
        match kvs.find? (·.1 == fname) with
        -- the member of a `@oneOf` input is forced non-null (`render_object_literal`)
        | some (_, v) => literalOk s fuel v fty.id (if i.isOneOf then .required :: fty.quals else fty.quals)
        | none => pure ()
  | _+1, _, _, _ => pure ()

def variablesItems (c : Ctx) (op : Nat) : Outcome (List Item) := do
  let vars := c.q.opVariables op
  if vars.isEmpty then pure [.unitStruct "Variables" (allVariableDerives c.o) c.serdeCrate] else
  let fs ← vars.mapM fun v => do
    let safe := keywordReplace (c.cs.snake v.name)
    let t ← variableType c v
    pure ({ rust := safe, rename := fieldRename v.name safe, ty := t,
            skipNone := c.o.skipNone && v.ty.quals.head? != some .required } : RField)
  let dfl ← vars.filterMapM fun v =>
    match v.default with
    | none => pure none
    | some d => do
      let t ← variableType c v
      literalOk c.s 64 d v.ty.id v.ty.quals
      pure (some ("default_" ++ v.name, t))
  pure [.struct "Variables" (allVariableDerives c.o) c.serdeCrate fs, .defaults dfl]

/-! ### the module (`response_for_query`, `generated_module.rs`) -/

def builtinAliases : List Item :=
  [.alias "Boolean" false (.path "bool"), .alias "Float" false (.path "f64"),
   .alias "Int" false (.path "i64"), .alias "ID" false (.path "String")]

def scalarItems (c : Ctx) (u : UsedTypes) : Outcome (List Item) := do
  let ids := sortNat (u.types.filterMap TypeId.asScalar?)
  let names ← ids.mapM c.s.getScalar
  pure ((names.filter (fun n => !Schema.defaultScalars.contains n)).map fun n =>
    let ident := c.o.normalization.scalarName c.cs n
    .alias ident false (.path ((c.o.scalarsModule.getD "super") ++ "::" ++ ident)))

def enumItems (c : Ctx) (u : UsedTypes) : Outcome (List Item) := do
  let ids := sortNat (u.types.filterMap TypeId.asEnum?)
  let es ← ids.mapM c.s.getEnum
  pure ((es.filter (fun e => !c.o.externEnums.contains e.name)).map (enumItem c))

def inputItems (c : Ctx) (u : UsedTypes) : Outcome (List Item) :=
  (c.s.inputs.zipIdx.filter (fun (_, i) => u.types.contains (.input i))).mapM (fun (i, _) => inputItem c i)

def responseForQuery (c : Ctx) (op : Nat) : Outcome (List Item) := do
  let u ← allUsedTypes c.s c.q op
  let scalars ← scalarItems c u
  let enums ← enumItems c u
  let frags ← (sortNat u.fragments).mapM (fragmentItems c)
  let inputs ← inputItems c u
  let vars ← variablesItems c op
  let o ← c.q.getOperation op
  let resp ← responseItems c o
  pure (builtinAliases ++ scalars ++ enums ++ inputs ++ vars ++ frags.flatten ++ resp)

/-- `Query::select_operation` -/
def selectOperation (c : Ctx) (name : String) : Option Nat :=
  c.q.operations.findIdx? (fun op => c.o.normalization.operation c.cs op.name == name)

/-- `GeneratedModule::to_token_stream` -/
def generatedModule (c : Ctx) (query : String) (operation : String) : Outcome Module := do
  let opName := c.o.normalization.operation c.cs operation
  let root ← match selectOperation c opName with
    | some i => pure i
    | none => fail' s!"Could not find an operation named {opName} in the query document."
  let items ← responseForQuery c root
  pure { modName := c.cs.snake operation, vis := c.o.visibility,
         structDecl := if c.o.mode == .cli then some opName else none,
         operationName := operation, query := query, queryInclude := c.o.queryFile,
         useSerde := c.o.serdePath, implFor := opName, items := items }

/-- `generate_module_token_stream_inner` -/
def generate (s : Schema) (cs : CaseFns) (o : Options) (queryText : String) (doc : QDoc) : Outcome (List Module) := do
  let q ← Resolve.resolve s doc
  let c : Ctx := { s, q, o, cs }
  let selected := o.operationName.bind (selectOperation c)
  let ops ← match selected, o.mode with
    | some i, _ => pure [i]
    | none, .cli => pure (List.range q.operations.length)
    | none, .derive =>
      fail' ("The struct name does not match any defined operation in the query file.\nStruct name: " ++
        o.structIdent.getD "" ++ "\nDefined operations: " ++ ", ".intercalate (q.operations.map (·.name)))
  ops.mapM fun i => do
    let op ← q.getOperation i
    generatedModule c queryText op.name

end Codegen
end GqlVerif
