import GqlVerif.Model.Json
/-!
Mirror of `graphql_client_codegen/src/schema.rs`: the id-indexed intermediate `Schema`.
`panic!`/`unwrap`/`expect` of the Rust code are explicit `Except.error (.panic msg)` results.
-/
namespace GqlVerif

inductive Err where
  | panic (msg : String)
  | error (msg : String)
  | diverge (what : String)        -- un-guarded recursion that does not terminate (stack overflow in Rust)
  | unmodelled (what : String)
  deriving Repr, BEq, Inhabited

abbrev Outcome := Except Err

def panic' {α} (msg : String) : Outcome α := .error (.panic msg)
def fail' {α} (msg : String) : Outcome α := .error (.error msg)

inductive Qual where
  | required
  | list
  deriving Repr, DecidableEq, Inhabited

/-- `TypeId`, in the declaration order of the Rust enum (this is its `Ord`). -/
inductive TypeId where
  | object (i : Nat)
  | scalar (i : Nat)
  | interface (i : Nat)
  | union (i : Nat)
  | enum (i : Nat)
  | input (i : Nat)
  deriving Repr, DecidableEq, Inhabited

namespace TypeId
def rank : TypeId → Nat
  | object _ => 0 | scalar _ => 1 | interface _ => 2 | union _ => 3 | enum _ => 4 | input _ => 5
def idx : TypeId → Nat
  | object i | scalar i | interface i | union i | enum i | input i => i
def lt (a b : TypeId) : Bool := a.rank < b.rank || (a.rank == b.rank && a.idx < b.idx)
def asObject? : TypeId → Option Nat | object i => some i | _ => none
def asInterface? : TypeId → Option Nat | interface i => some i | _ => none
def asInput? : TypeId → Option Nat | input i => some i | _ => none
def asScalar? : TypeId → Option Nat | scalar i => some i | _ => none
def asEnum? : TypeId → Option Nat | enum i => some i | _ => none
def isAbstract : TypeId → Bool | interface _ => true | union _ => true | _ => false
end TypeId

structure FieldType where
  id : TypeId
  quals : List Qual
  deriving Repr, DecidableEq, Inhabited

inductive FieldParent where
  | object (i : Nat)
  | interface (i : Nat)
  deriving Repr, DecidableEq, Inhabited

structure StoredField where
  name : String
  ty : FieldType
  parent : FieldParent
  /-- `some none` = deprecated without reason -/
  deprecation : Option (Option String)
  deriving Repr, DecidableEq, Inhabited

structure StoredObject where
  name : String
  fields : List Nat
  implements : List Nat
  deriving Repr, DecidableEq, Inhabited

structure StoredInterface where
  name : String
  fields : List Nat
  deriving Repr, DecidableEq, Inhabited

structure StoredUnion where
  name : String
  variants : List TypeId
  deriving Repr, DecidableEq, Inhabited

structure StoredEnum where
  name : String
  variants : List String
  deriving Repr, DecidableEq, Inhabited

structure StoredInput where
  name : String
  fields : List (String × FieldType)
  isOneOf : Bool
  deriving Repr, DecidableEq, Inhabited

structure Schema where
  objects : List StoredObject := []
  fields : List StoredField := []
  interfaces : List StoredInterface := []
  unions : List StoredUnion := []
  scalars : List String := []
  enums : List StoredEnum := []
  inputs : List StoredInput := []
  /-- `BTreeMap<String, TypeId>`: association list kept sorted by key, keys unique -/
  names : List (String × TypeId) := []
  queryType : Option Nat := none
  mutationType : Option Nat := none
  subscriptionType : Option Nat := none
  deriving Repr, DecidableEq, Inhabited

/-- sorted-association-list insert (BTreeMap::insert) -/
def namesInsert (k : String) (v : TypeId) : List (String × TypeId) → List (String × TypeId)
  | [] => [(k, v)]
  | (k', v') :: rest =>
    if k < k' then (k, v) :: (k', v') :: rest
    else if k == k' then (k, v) :: rest
    else (k', v') :: namesInsert k v rest

def namesGet (k : String) : List (String × TypeId) → Option TypeId
  | [] => none
  | (k', v) :: rest => if k == k' then some v else namesGet k rest

namespace Schema

def defaultScalars : List String := ["ID", "String", "Int", "Float", "Boolean"]

def pushScalar (s : Schema) (name : String) : Schema × Nat :=
  ({ s with scalars := s.scalars ++ [name] }, s.scalars.length)

/-- `Schema::new()` -/
def new : Schema :=
  defaultScalars.foldl (fun s n =>
    let (s', id) := s.pushScalar n
    { s' with names := namesInsert n (.scalar id) s'.names }) {}

def findType (s : Schema) (n : String) : Option TypeId := namesGet n s.names

def findTypeId (s : Schema) (n : String) : Outcome TypeId :=
  match s.findType n with
  | some t => pure t
  | none => panic' s!"failed to resolve TypeId for `{n}`"

def findInterface (s : Schema) (n : String) : Outcome Nat := do
  match (← s.findTypeId n).asInterface? with
  | some i => pure i
  | none => panic' "find_interface: unwrap on None"

def getObject (s : Schema) (i : Nat) : Outcome StoredObject :=
  match s.objects[i]? with | some o => pure o | none => panic' "Schema::get_object"
def getInterface (s : Schema) (i : Nat) : Outcome StoredInterface :=
  match s.interfaces[i]? with | some o => pure o | none => panic' "get_interface"
def getUnion (s : Schema) (i : Nat) : Outcome StoredUnion :=
  match s.unions[i]? with | some o => pure o | none => panic' "Schema::get_union"
def getInput (s : Schema) (i : Nat) : Outcome StoredInput :=
  match s.inputs[i]? with | some o => pure o | none => panic' "get_input"
def getEnum (s : Schema) (i : Nat) : Outcome StoredEnum :=
  match s.enums[i]? with | some o => pure o | none => panic' "get_enum"
def getScalar (s : Schema) (i : Nat) : Outcome String :=
  match s.scalars[i]? with | some o => pure o | none => panic' "get_scalar"
def getField (s : Schema) (i : Nat) : Outcome StoredField :=
  match s.fields[i]? with | some o => pure o | none => panic' "get_field"

def typeName (s : Schema) : TypeId → Outcome String
  | .object i => (·.name) <$> s.getObject i
  | .scalar i => s.getScalar i
  | .interface i => (·.name) <$> s.getInterface i
  | .union i => (·.name) <$> s.getUnion i
  | .enum i => (·.name) <$> s.getEnum i
  | .input i => (·.name) <$> s.getInput i

def pushField (s : Schema) (f : StoredField) : Schema × Nat :=
  ({ s with fields := s.fields ++ [f] }, s.fields.length)

/-- objects implementing an interface, in object-id order (`schema.objects().filter(..)`) -/
def implementors (s : Schema) (iface : Nat) : List Nat :=
  (s.objects.zipIdx.filter (fun (o, _) => o.implements.contains iface)).map (·.2)

def queryTypeOrPanic (s : Schema) : Outcome Nat :=
  match s.queryType with | some q => pure q | none => panic' "Query operation type must be defined"

end Schema

/-- type expressions as written in SDL / variable definitions -/
inductive GTy where
  | named (n : String)
  | list (t : GTy)
  | nonNull (t : GTy)
  deriving Repr, DecidableEq, Inhabited

namespace GTy
/-- `resolve_field_type`: qualifiers from outer to inner -/
def quals : GTy → List Qual
  | named _ => []
  | list t => .list :: quals t
  | nonNull t => .required :: quals t
def base : GTy → String
  | named n => n
  | list t => base t
  | nonNull t => base t
end GTy

def resolveFieldType (s : Schema) (t : GTy) : Outcome FieldType := do
  let id ← s.findTypeId t.base
  pure { id := id, quals := t.quals }

namespace FieldType
/-- `StoredInputFieldType::is_indirected` -/
def isIndirected (t : FieldType) : Bool := t.quals.any (· == .list)
/-- `StoredInputFieldType::is_optional` -/
def isOptional (t : FieldType) : Bool :=
  match t.quals with
  | [] => true
  | q :: _ => q != .required
end FieldType

end GqlVerif
