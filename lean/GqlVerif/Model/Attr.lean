import GqlVerif.Model.Sexp
/-!
# Model of `graphql_query_derive/src/attributes.rs` and of the option building in
# `graphql_query_derive/src/lib.rs` (property C18)

The Rust code scans the *raw token list* of the first `#[graphql(...)]` attribute positionally.
This file has two independent parts:

* **the model** (`scanAttr`, `identExistsToks`, `scanAttrList`, `extractAttr` …, `buildPaths`,
  `buildOptions`, `derive`): the Rust loops, case by case, in the order the code has them;
* **the specification** (`Item`, `render`, `lookupKv`, `hasFlag`, `lookupList`, `specDerive`): what an
  attribute *written by a user* is and which options it denotes, defined on the list of items.

What is *not* modelled (trusted, §3 of DESIGN.md): `syn`'s tokenisation of the attribute text and
`syn::LitStr` (literal text → value).  A string-literal token therefore carries its *value*; every
other literal is `litOther`, for which `syn::parse_str::<LitStr>` fails.  `syn::parse_str::<syn::Path>`
(used on `custom_scalars_module`) is a parameter `pathOk`.
-/
namespace GqlVerif
namespace Attr

/-! ## token trees (`proc_macro2::TokenTree`) -/

inductive Delim where
  | paren | bracket | brace | none
  deriving DecidableEq, Repr, Inhabited

inductive Tok where
  /-- `TokenTree::Ident` -/
  | ident (s : String)
  /-- `TokenTree::Punct` -/
  | punct (c : Char)
  /-- `TokenTree::Literal` that `syn::LitStr` accepts; `value` is `LitStr::value()` -/
  | lit (value : String)
  /-- any other `TokenTree::Literal` (integer, float, char, byte string, C string …) -/
  | litOther (text : String)
  /-- `TokenTree::Group` -/
  | group (d : Delim) (ts : List Tok)
  deriving Repr, Inhabited

/-- the failure modes of the attribute functions (each is a `syn::Error` in Rust) -/
inductive Err where
  /-- "The graphql attribute is missing" -/
  | missingAttribute
  /-- "Attribute `k` not found" / "Ident `k` not found" / "Attribute list `k` not found or empty" -/
  | notFound
  /-- `syn::parse_str::<LitStr>` failed on the literal that was found -/
  | badLiteral
  /-- "deprecated must be one of …" / "normalization must be one of …" -/
  | badValue
  /-- `CARGO_MANIFEST_DIR` is not defined -/
  | envMissing
  /-- `syn::parse_str::<syn::Path>` failed on `custom_scalars_module` -/
  | badPath
  deriving DecidableEq, Repr, Inhabited

deriving instance DecidableEq for Except

abbrev Res (α : Type) := Except Err α

/-- one `syn::Attribute` of the `DeriveInput`: `path` is the attribute path when it is a single
identifier ("" otherwise, so that `is_ident("graphql")` is `path = "graphql"`), `tokens` is
`Some(list.tokens)` when the meta is a `Meta::List` and `none` for `#[graphql]` / `#[graphql = ..]` -/
structure Attribute where
  path : String
  tokens : Option (List Tok)
  deriving Repr, Inhabited

/-- `ast.attrs` (the only part of the `DeriveInput` the attribute functions read) -/
abbrev Input := List Attribute

/-- `ast.attrs.iter().find(|a| a.path().is_ident("graphql"))` -/
def findGraphql : Input → Option Attribute
  | [] => none
  | a :: rest => if a.path = "graphql" then some a else findGraphql rest

/-! ## `ident_exists` (attributes.rs:11) -/

/-- the `for item in list.tokens` loop: only top-level `Ident`s are looked at -/
def identExistsToks (name : String) : List Tok → Bool
  | [] => false
  | .ident s :: rest => if s = name then true else identExistsToks name rest
  | _ :: rest => identExistsToks name rest

def identExists (input : Input) (name : String) : Res Unit :=
  match findGraphql input with
  | none => .error .missingAttribute
  | some a =>
    match a.tokens with
    | some ts => if identExistsToks name ts then .ok () else .error .notFound
    | none => .error .notFound

/-! ## `extract_attr` (attributes.rs:35) -/

/-- The `while let Some(item) = iter.next()` loop.
```text
if let Ident(ident) = item { if ident == attr {
    iter.next();                                   // skip ONE token, whatever it is
    if let Some(Literal(lit)) = iter.next() {      // the token after it is consumed in any case
        let lit_str: LitStr = parse_str(..)?;      // not a string literal: error
        return Ok(lit_str.value()) } } }
```
-/
def scanAttr (key : String) : List Tok → Res String
  | [] => .error .notFound
  | item :: rest =>
    match item with
    | .ident s =>
      if s = key then
        match rest with
        | [] => .error .notFound                          -- both `iter.next()` give `None`
        | [_] => .error .notFound                         -- skipped one, then `None`
        | _ :: .lit v :: _ => .ok v
        | _ :: .litOther _ :: _ => .error .badLiteral
        | _ :: _ :: rest' => scanAttr key rest'           -- the non-literal was consumed too
      else scanAttr key rest
    | _ => scanAttr key rest

def extractAttr (input : Input) (key : String) : Res String :=
  match findGraphql input with
  | none => .error .missingAttribute
  | some a =>
    match a.tokens with
    | some ts => scanAttr key ts
    | none => .error .notFound

/-! ## `extract_attr_list` (attributes.rs:64) -/

/-- `for token in group.stream() { if let Literal(lit) = token { result.push(parse_str(..)?.value()) } }` -/
def groupLits : List Tok → Res (List String)
  | [] => .ok []
  | .lit v :: rest =>
    match groupLits rest with
    | .ok vs => .ok (v :: vs)
    | .error e => .error e
  | .litOther _ :: _ => .error .badLiteral
  | _ :: rest => groupLits rest

/-- the tail of `extract_attr_list`: `if result.is_empty() { Err(..) } else { Ok(result) }`.
It is only reached when the loop ended without finding `key (group)`, i.e. with `result = []`. -/
def finishList (result : List String) : Res (List String) :=
  if result.isEmpty then .error .notFound else .ok result

/-- The loop of `extract_attr_list`:
```text
if let Ident(ident) = item { if ident == attr {
    if let Some(Group(group)) = iter.next() {      // the token after the key is consumed in any case
        ..collect..; return Ok(result) } } }
```
-/
def scanAttrList (key : String) : List Tok → Res (List String)
  | [] => finishList []
  | item :: rest =>
    match item with
    | .ident s =>
      if s = key then
        match rest with
        | [] => finishList []
        | .group _ ts :: _ => groupLits ts
        | _ :: rest' => scanAttrList key rest'
      else scanAttrList key rest
    | _ => scanAttrList key rest

def extractAttrList (input : Input) (key : String) : Res (List String) :=
  match findGraphql input with
  | none => .error .missingAttribute
  | some a =>
    match a.tokens with
    | some ts => scanAttrList key ts
    | none => finishList []

/-! ## value parsing: `to_lowercase`, `str::trim`, the two `FromStr` impls, `bool::from_str` -/

/-- Unicode `White_Space` (what `char::is_whitespace` and hence `str::trim` use) -/
def isWhite (c : Char) : Bool :=
  let n := c.toNat
  (0x09 ≤ n && n ≤ 0x0D) || n == 0x20 || n == 0x85 || n == 0xA0 || n == 0x1680 ||
  (0x2000 ≤ n && n ≤ 0x200A) || n == 0x2028 || n == 0x2029 || n == 0x202F || n == 0x205F || n == 0x3000

def trimStart : List Char → List Char
  | [] => []
  | c :: cs => if isWhite c then trimStart cs else c :: cs

def trim (cs : List Char) : List Char := (trimStart (trimStart cs).reverse).reverse

/-- ASCII lower-casing.  `String::to_lowercase` is the Unicode mapping; the only non-ASCII characters
whose lower-case form contains an ASCII letter are U+212A (KELVIN SIGN → `k`) and U+0130 (`İ` → `i` +
U+0307), and none of the accepted words contains `k` or `i`+U+0307, so for the *comparison with the
accepted words* (the only use) ASCII lower-casing decides the same strings.  The harness exercises
both characters. -/
def lowerChar (c : Char) : Char :=
  if 'A'.toNat ≤ c.toNat ∧ c.toNat ≤ 'Z'.toNat then Char.ofNat (c.toNat + 32) else c

def normWord (s : String) : List Char := trim (s.toList.map lowerChar)

inductive Deprecation where
  | allow | deny | warn
  deriving DecidableEq, Repr, Inhabited

inductive Normalization where
  | none | rust
  deriving DecidableEq, Repr, Inhabited

/-- `s.to_lowercase().parse::<DeprecationStrategy>()` (`from_str` trims) -/
def parseDeprecation (s : String) : Option Deprecation :=
  let w := normWord s
  if w = ['a', 'l', 'l', 'o', 'w'] then some .allow
  else if w = ['d', 'e', 'n', 'y'] then some .deny
  else if w = ['w', 'a', 'r', 'n'] then some .warn
  else none

/-- `s.to_lowercase().parse::<Normalization>()` -/
def parseNormalization (s : String) : Option Normalization :=
  let w := normWord s
  if w = ['n', 'o', 'n', 'e'] then some .none
  else if w = ['r', 'u', 's', 't'] then some .rust
  else none

/-- `bool::from_str`: exactly `"true"` / `"false"` -/
def parseBool (s : String) : Option Bool :=
  if s = "true" then some true else if s = "false" then some false else none

/-- `extract_deprecation_strategy` -/
def extractDeprecationStrategy (input : Input) : Res Deprecation :=
  match extractAttr input "deprecated" with
  | .error e => .error e
  | .ok s => match parseDeprecation s with
    | some d => .ok d
    | none => .error .badValue

/-- `extract_normalization` -/
def extractNormalization (input : Input) : Res Normalization :=
  match extractAttr input "normalization" with
  | .error e => .error e
  | .ok s => match parseNormalization s with
    | some d => .ok d
    | none => .error .badValue

/-- `extract_fragments_other_variant`: `.ok().and_then(from_str(..).ok()).unwrap_or(false)` -/
def extractFragmentsOtherVariant (input : Input) : Bool :=
  match extractAttr input "fragments_other_variant" with
  | .ok s => (parseBool s).getD false
  | .error _ => false

/-- `extract_skip_serializing_none` -/
def extractSkipSerializingNone (input : Input) : Bool :=
  match identExists input "skip_serializing_none" with
  | .ok _ => true
  | .error _ => false

/-! ## `build_query_and_schema_path` (lib.rs:42) -/

/-- `Path::new(dir).join(p)` on Unix, as strings (`PathBuf::push`): an absolute `p` replaces the
base; otherwise a separator is inserted unless the base is empty or already ends with one. -/
def pathJoin (dir p : List Char) : List Char :=
  match p with
  | '/' :: _ => p
  | _ =>
    match dir.getLast? with
    | none => p
    | some c => if c = '/' then dir ++ p else dir ++ '/' :: p

/-- `format!("{}/{}", dir, p)` -/
def pathFormat (dir p : List Char) : List Char := dir ++ '/' :: p

structure Paths where
  query : List Char
  schema : List Char
  deriving DecidableEq, Repr, Inhabited

def toOption {α : Type} : Res α → Option α
  | .ok a => some a
  | .error _ => none

/-- `manifestDir = none` models `env::var("CARGO_MANIFEST_DIR")` failing -/
def buildPaths (manifestDir : Option String) (input : Input) : Res Paths :=
  match manifestDir with
  | none => .error .envMissing
  | some dir =>
    match extractAttr input "query_path" with
    | .error e => .error e
    | .ok q =>
      match extractAttr input "schema_path" with
      | .error e => .error e
      | .ok s => .ok { query := pathFormat dir.toList q.toList, schema := pathJoin dir.toList s.toList }

/-! ## `build_graphql_client_derive_options` (lib.rs:58) -/

/-- the attribute-dependent members of `GraphQLClientCodegenOptions` (struct ident, visibility,
operation name and serde path are copied from the input / constant and are not modelled) -/
structure Options where
  queryFile : List Char
  variablesDerives : Option String
  responseDerives : Option String
  /-- `deprecation_strategy: Option<_>`; the effective strategy is `unwrap_or_default()` = warn -/
  deprecation : Option Deprecation
  normalization : Normalization
  customScalarsModule : Option String
  externEnums : List String
  fragmentsOtherVariant : Bool
  skipSerializingNone : Bool
  deriving DecidableEq, Repr, Inhabited

/-- `GraphQLClientCodegenOptions::new(CodegenMode::Derive)` -/
def Options.new : Options :=
  { queryFile := [], variablesDerives := none, responseDerives := none, deprecation := none,
    normalization := .none, customScalarsModule := none, externEnums := [],
    fragmentsOtherVariant := false, skipSerializingNone := false }

/-- `deprecation_strategy()` -/
def Options.effectiveDeprecation (o : Options) : Deprecation := o.deprecation.getD .warn

def buildOptions (pathOk : String → Bool) (input : Input) (queryPath : List Char) : Res Options :=
  let variablesDerives := toOption (extractAttr input "variables_derives")
  let responseDerives := toOption (extractAttr input "response_derives")
  let customScalarsModule := toOption (extractAttr input "custom_scalars_module")
  let externEnums := toOption (extractAttrList input "extern_enums")
  let fragmentsOtherVariant := extractFragmentsOtherVariant input
  let skipSerializingNone := extractSkipSerializingNone input
  let o : Options :=
    { Options.new with
      queryFile := queryPath
      fragmentsOtherVariant := fragmentsOtherVariant
      skipSerializingNone := skipSerializingNone
      variablesDerives := variablesDerives
      responseDerives := responseDerives
      deprecation := toOption (extractDeprecationStrategy input)
      normalization := (toOption (extractNormalization input)).getD Options.new.normalization }
  match customScalarsModule with
  | some m =>
    if pathOk m then .ok { o with customScalarsModule := some m, externEnums := externEnums.getD o.externEnums }
    else .error .badPath
  | none => .ok { o with externEnums := externEnums.getD o.externEnums }

structure Derived where
  options : Options
  schemaPath : List Char
  deriving DecidableEq, Repr, Inhabited

/-- the attribute part of `graphql_query_derive_inner` -/
def derive (manifestDir : Option String) (pathOk : String → Bool) (input : Input) : Res Derived :=
  match buildPaths manifestDir input with
  | .error e => .error e
  | .ok p =>
    match buildOptions pathOk input p.query with
    | .error e => .error e
    | .ok o => .ok { options := o, schemaPath := p.schema }

/-! # The specification: attributes as users write them -/

inductive Item where
  /-- `key = "value"` -/
  | kv (key value : String)
  /-- a bare identifier -/
  | flag (name : String)
  /-- `key("v1", "v2", …)` -/
  | listAttr (key : String) (values : List String)
  deriving DecidableEq, Repr, Inhabited

/-- how the items are laid out: trailing comma after the last item or not, trailing comma inside a
list or not, the delimiter of a list -/
structure Style where
  trailing : Bool
  listTrailing : Bool
  delim : Delim
  deriving DecidableEq, Repr, Inhabited

def comma : Tok := .punct ','

def renderVals (listTrailing : Bool) : List String → List Tok
  | [] => []
  | [v] => .lit v :: (if listTrailing then [comma] else [])
  | v :: rest => .lit v :: comma :: renderVals listTrailing rest

def Item.head : Item → String
  | .kv k _ => k
  | .flag f => f
  | .listAttr k _ => k

/-- the tokens of an item after its leading identifier -/
def Item.body (st : Style) : Item → List Tok
  | .kv _ v => [.punct '=', .lit v]
  | .flag _ => []
  | .listAttr _ vs => [.group st.delim (renderVals st.listTrailing vs)]

def renderItem (st : Style) (i : Item) : List Tok := .ident i.head :: i.body st

/-- the separator after an item that is followed by `rest` -/
def sep (st : Style) (rest : List Item) : List Tok :=
  match rest with
  | [] => if st.trailing then [comma] else []
  | _ :: _ => [comma]

/-- the token list of `#[graphql(item, item, …)]` -/
def render (st : Style) : List Item → List Tok
  | [] => []
  | i :: rest => renderItem st i ++ (sep st rest ++ render st rest)

/-- a `DeriveInput` carrying the attribute, with other attributes around it -/
def mkInput (pre : List Attribute) (st : Style) (items : List Item) (post : List Attribute) : Input :=
  pre ++ { path := "graphql", tokens := some (render st items) } :: post

/-- the value written for `key`: first `key = "value"` item -/
def lookupKv (k : String) : List Item → Option String
  | [] => none
  | .kv k' v :: rest => if k' = k then some v else lookupKv k rest
  | _ :: rest => lookupKv k rest

def hasFlag (f : String) (items : List Item) : Bool := items.contains (.flag f)

/-- the list written for `key`: first `key(...)` item -/
def lookupList (k : String) : List Item → Option (List String)
  | [] => none
  | .listAttr k' vs :: rest => if k' = k then some vs else lookupList k rest
  | _ :: rest => lookupList k rest

/-- deprecation strategy names, case-insensitive, surrounding white space ignored -/
def specDeprecation (v : String) : Option Deprecation :=
  [(['a', 'l', 'l', 'o', 'w'], Deprecation.allow), (['d', 'e', 'n', 'y'], .deny), (['w', 'a', 'r', 'n'], .warn)].lookup
    (normWord v)

def specNormalization (v : String) : Option Normalization :=
  [(['n', 'o', 'n', 'e'], Normalization.none), (['r', 'u', 's', 't'], .rust)].lookup (normWord v)

/-- "resolved against the manifest directory" -/
def resolveAgainst (dir p : String) : List Char := dir.toList ++ '/' :: p.toList

/-- The options an attribute denotes (property statement): each recognised key's value unchanged,
documented defaults otherwise (deprecated = warn, normalization = none, other-variant off,
skip-none off), paths resolved against the manifest directory. -/
def specOptions (dir q : String) (items : List Item) : Options :=
  { queryFile := resolveAgainst dir q
    variablesDerives := lookupKv "variables_derives" items
    responseDerives := lookupKv "response_derives" items
    deprecation := (lookupKv "deprecated" items).bind specDeprecation
    normalization := ((lookupKv "normalization" items).bind specNormalization).getD .none
    customScalarsModule := lookupKv "custom_scalars_module" items
    externEnums := (lookupList "extern_enums" items).getD []
    fragmentsOtherVariant := (lookupKv "fragments_other_variant" items) = some "true"
    skipSerializingNone := hasFlag "skip_serializing_none" items }

/-- the derive's view of an attribute: an error when a mandatory part is missing -/
def specDerive (manifestDir : Option String) (pathOk : String → Bool) (items : List Item) : Res Derived :=
  match manifestDir with
  | none => .error .envMissing
  | some dir =>
    match lookupKv "query_path" items, lookupKv "schema_path" items with
    | none, _ => .error .notFound
    | some _, none => .error .notFound
    | some q, some s =>
      match lookupKv "custom_scalars_module" items with
      | some m => if pathOk m then .ok { options := specOptions dir q items, schemaPath := resolveAgainst dir s }
                  else .error .badPath
      | none => .ok { options := specOptions dir q items, schemaPath := resolveAgainst dir s }

/-- side condition of the correspondence theorems: the leading identifiers of the items are pairwise
distinct (every key written at most once, and no flag name reused as a key) -/
def WfItems (items : List Item) : Prop := (items.map Item.head).Nodup

instance (items : List Item) : Decidable (WfItems items) := by unfold WfItems; infer_instance

/-- the exact condition the positional scanner needs for key `k`: no flag named `k` is immediately
followed by `k = "…"` (the scanner skips one token after a matching identifier and *consumes* the next) -/
def NoFlagThenKv (k : String) : List Item → Bool
  | .flag f :: .kv k' v :: rest => !(f = k && k' = k) && NoFlagThenKv k (.kv k' v :: rest)
  | _ :: rest => NoFlagThenKv k rest
  | [] => true

end Attr
end GqlVerif
