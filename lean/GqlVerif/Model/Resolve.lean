import GqlVerif.Model.Query
/-!
Mirror of `query.rs::resolve`, `query/selection.rs::validate_type_conditions`,
`query/validation.rs::validate_typename_presence`.
-/
namespace GqlVerif
namespace Resolve

def typenameField : String := "__typename"

def getFieldByName (s : Schema) (fieldIds : List Nat) (name : String) : Outcome (Option (Nat × StoredField)) := do
  let fs ← fieldIds.mapM fun id => do pure (id, ← s.getField id)
  pure (fs.find? (·.2.name == name))

/-- `create_roots` -/
def createRoots (s : Schema) : QDoc → Query → Outcome Query
  | [], q => pure q
  | .frag name on _ :: rest, q =>
    if (q.findFragment name).isSome then fail' s!"There can be only one fragment named `{name}`." else
    match s.findType on with
    | none => fail' s!"Could not find type {on} for fragment {name} in schema."
    | some t => createRoots s rest { q with fragments := q.fragments ++ [{ name := name, on := t, sels := [] }] }
  | .op .mutation name _ _ :: rest, q =>
    match s.mutationType with
    | none => fail' "Query contains a mutation operation, but the schema has no mutation type."
    | some on =>
      match name with
      | none => panic' "mutation without name"
      | some n =>
        if (q.findOperation n).isSome then fail' s!"There can be only one operation named `{n}`." else
        createRoots s rest { q with operations := q.operations ++ [{ name := n, kind := .mutation, objectId := on, sels := [] }] }
  | .op .query name _ _ :: rest, q => do
    let on ← s.queryTypeOrPanic
    match name with
    | none => panic' "query without name"
    | some n =>
      if (q.findOperation n).isSome then fail' s!"There can be only one operation named `{n}`." else
      createRoots s rest { q with operations := q.operations ++ [{ name := n, kind := .query, objectId := on, sels := [] }] }
  | .op .subscription name _ sels :: rest, q =>
    match s.subscriptionType with
    | none => fail' "Query contains a subscription operation, but the schema has no subscription type."
    | some on =>
      if sels.length != 1 then fail' "Multiple-field queries on the root subscription field are forbidden by the spec."
      else match name with
      | none => panic' "subscription without name"
      | some n =>
        if (q.findOperation n).isSome then fail' s!"There can be only one operation named `{n}`." else
        createRoots s rest { q with operations := q.operations ++ [{ name := n, kind := .subscription, objectId := on, sels := [] }] }
  | .selset _ :: _, _ => fail' "Operations in queries must be named."

mutual
  /-- one item of `resolve_object_selection` (the dispatch of `resolve_selection` on the type of the
      sub-selection is written out in place, so that the recursion is structural on the document) -/
  def resolveObjectSel (s : Schema) (q : Query) (pname : String) (fields : List Nat) : QSel → Outcome Sel
    | .field _alias name sub =>
      if name == typenameField then
        if !sub.isEmpty then fail' "Selection set on `__typename`." else pure .typename
      else
        match getFieldByName s fields name with
        | .error e => .error e
        | .ok none => fail' s!"No field named {name} on {pname}"
        | .ok (some (fid, sf)) =>
          match sf.ty.id with
          | .object oid =>
            match s.getObject oid with
            | .error e => .error e
            | .ok o => (resolveObjectSels s q o.name o.fields sub).map (Sel.field _alias fid)
          | .interface iid =>
            match s.getInterface iid with
            | .error e => .error e
            | .ok i => (resolveObjectSels s q i.name i.fields sub).map (Sel.field _alias fid)
          | .union _ => (resolveUnionSels s q sub).map (Sel.field _alias fid)
          | _ => if sub.isEmpty then pure (.field _alias fid []) else fail' "Selection set on non-object, non-interface type."
    | .inline on sub =>
      match on with
      | none => panic' "missing type condition on inline fragment"
      | some on =>
        match s.findType on with
        | none => fail' s!"Could not find type `{on}` referenced by inline fragment."
        | some t =>
          match t with
          | .object oid =>
            match s.getObject oid with
            | .error e => .error e
            | .ok o => (resolveObjectSels s q o.name o.fields sub).map (Sel.inline t)
          | .interface iid =>
            match s.getInterface iid with
            | .error e => .error e
            | .ok i => (resolveObjectSels s q i.name i.fields sub).map (Sel.inline t)
          | .union _ => (resolveUnionSels s q sub).map (Sel.inline t)
          | _ => if sub.isEmpty then pure (.inline t []) else fail' "Selection set on non-object, non-interface type."
    | .spread name =>
      match q.findFragment name with
      | none => fail' s!"Could not find fragment `{name}` referenced by fragment spread."
      | some fid => pure (.spread fid)

  /-- `resolve_object_selection` -/
  def resolveObjectSels (s : Schema) (q : Query) (pname : String) (fields : List Nat) : List QSel → Outcome (List Sel)
    | [] => pure []
    | x :: xs =>
      match resolveObjectSel s q pname fields x with
      | .error e => .error e
      | .ok a => (resolveObjectSels s q pname fields xs).map (a :: ·)

  /-- one item of `resolve_union_selection` -/
  def resolveUnionSel (s : Schema) (q : Query) : QSel → Outcome Sel
    | .field _ name sub =>
      if name == typenameField then
        if !sub.isEmpty then fail' "Selection set on `__typename`." else pure .typename
      else fail' "Invalid field selection on union field"
    | .inline on sub =>
      match on with
      | none => panic' "missing type condition on inline fragment"
      | some on =>
        match s.findType on with
        | none => fail' s!"Could not find type `{on}` referenced by inline fragment."
        | some t =>
          match t with
          | .object oid =>
            match s.getObject oid with
            | .error e => .error e
            | .ok o => (resolveObjectSels s q o.name o.fields sub).map (Sel.inline t)
          | .interface iid =>
            match s.getInterface iid with
            | .error e => .error e
            | .ok i => (resolveObjectSels s q i.name i.fields sub).map (Sel.inline t)
          | .union _ => (resolveUnionSels s q sub).map (Sel.inline t)
          | _ => if sub.isEmpty then pure (.inline t []) else fail' "Selection set on non-object, non-interface type."
    | .spread name =>
      match q.findFragment name with
      | none => fail' s!"Could not find fragment `{name}` referenced by fragment spread."
      | some fid => pure (.spread fid)

  /-- `resolve_union_selection` -/
  def resolveUnionSels (s : Schema) (q : Query) : List QSel → Outcome (List Sel)
    | [] => pure []
    | x :: xs =>
      match resolveUnionSel s q x with
      | .error e => .error e
      | .ok a => (resolveUnionSels s q xs).map (a :: ·)
end

/-- `resolve_selection` (entry point for fragment definitions).
    NOTE (known finding C06-no-selection): a composite type with an empty selection set is accepted;
    the repository's own test fixtures rely on it, so it is recorded, not repaired. -/
def resolveSelection (s : Schema) (q : Query) (on : TypeId) (sels : List QSel) : Outcome (List Sel) :=
  match on with
  | .object oid => do
    let o ← s.getObject oid
    resolveObjectSels s q o.name o.fields sels
  | .interface iid => do
    let i ← s.getInterface iid
    resolveObjectSels s q i.name i.fields sels
  | .union _ => resolveUnionSels s q sels
  | _ => if sels.isEmpty then pure [] else fail' "Selection set on non-object, non-interface type."

def resolveVariables (s : Schema) (op : Nat) (vars : List VarDef) : Outcome (List RVariable) :=
  vars.mapM fun v => do
    let ty ← resolveFieldType s v.ty
    pure { opIdx := op, name := v.name, default := v.default, ty := ty }

/-- `resolve_fragment` / `resolve_operation` for one definition -/
def resolveDef (s : Schema) (q : Query) : QDef → Outcome Query
  | .frag name on sels =>
    match s.findType on with
    | none => fail' s!"Could not find type `{on}` referenced by fragment `{name}`"
    | some t =>
      match q.findFragment name with
      | none => fail' s!"Could not find fragment `{name}`."
      | some id => do
        let rs ← resolveSelection s q t sels
        match q.fragments[id]? with
        | none => panic' "get fragment"
        | some f => pure { q with fragments := q.fragments.set id { f with sels := f.sels ++ rs } }
  | .op kind name vars sels => do
    let on ← match kind with
      | .query => s.queryTypeOrPanic
      | .mutation => match s.mutationType with
        | some m => pure m
        | none => fail' "Query contains a mutation operation, but the schema has no mutation type."
      | .subscription => match s.subscriptionType with
        | some m => pure m
        | none => fail' "Query contains a subscription operation, but the schema has no subscription type."
    let o ← s.getObject on
    let n ← match name with | some n => pure n | none => panic' "unwrap on operation name"
    let id ← match q.findOperation n with | some i => pure i | none => panic' "find_operation unwrap"
    let vs ← resolveVariables s id vars
    let q := { q with variables := q.variables ++ vs }
    let rs ← resolveObjectSels s q o.name o.fields sels
    match q.operations[id]? with
    | none => panic' "get operation"
    | some op => pure { q with operations := q.operations.set id { op with sels := op.sels ++ rs } }
  | .selset _ => panic' "unnamed queries are not supported"

/-! ### `validate_typename_presence` -/

/-- `selection_set_contains_type_name`, with the visited set of the repaired code: a fragment that
    is already being searched cannot contribute a `__typename` it does not contain itself. -/
def containsTypenameAux (q : Query) (parent : TypeId) : Nat → List Nat → List Sel → Bool
  | 0, _, _ => false
  | fuel+1, visited, sels =>
    sels.any fun
      | .typename => true
      | .spread fid =>
        if visited.contains fid then false else
        match q.fragments[fid]? with
        | none => false
        | some f => f.on == parent && containsTypenameAux q f.on fuel (fid :: visited) f.sels
      | _ => false

def containsTypename (q : Query) (parent : TypeId) (sels : List Sel) : Bool :=
  containsTypenameAux q parent (q.fragments.length + 1) [] sels

mutual
  /-- every abstract-typed field selection (pre-order, as in the arena) selects `__typename` -/
  def fieldsHaveTypename (s : Schema) (q : Query) : Sel → Outcome Unit
    | .field _ fid sub => do
      let f ← s.getField fid
      if f.ty.id.isAbstract && !containsTypename q f.ty.id sub then
        fail' "The query uses an abstract type but does not select `__typename` on it."
      else fieldsHaveTypenameList s q sub
    | .inline _ sub => fieldsHaveTypenameList s q sub
    | _ => pure ()
  def fieldsHaveTypenameList (s : Schema) (q : Query) : List Sel → Outcome Unit
    | [] => pure ()
    | x :: xs => do fieldsHaveTypename s q x; fieldsHaveTypenameList s q xs
end

def validateTypenamePresence (s : Schema) (q : Query) : Outcome Unit := do
  for f in q.fragments do
    if f.on.isAbstract && !containsTypename q f.on f.sels then
      fail' s!"The `{f.name}` fragment does not select `__typename`."
  for f in q.fragments do fieldsHaveTypenameList s q f.sels
  for o in q.operations do fieldsHaveTypenameList s q o.sels

/-! ### `validate_type_conditions` -/

/-- can a value of `parent` ever have `selected`'s type? (the code's rule, incl. the repaired object arm) -/
def conditionOk (s : Schema) (parent selected : TypeId) : Outcome Bool :=
  if parent == selected then pure true else
  match parent with
  | .union uid => do
    let u ← s.getUnion uid
    pure (u.variants.contains selected)
  | .interface iid =>
    pure ((s.implementors iid).any (fun oid => TypeId.object oid == selected))
  | .object oid => do
    let o ← s.getObject oid
    match selected with
    | .interface iid => pure (o.implements.contains iid)
    | .union uid => do
      let u ← s.getUnion uid
      pure (u.variants.contains (.object oid))
    | _ => pure false
  | _ => pure true

mutual
  def typeConditions (s : Schema) (q : Query) (parent : TypeId) : Sel → Outcome Unit
    | .field _ fid sub => do
      let f ← s.getField fid
      typeConditionsList s q f.ty.id sub
    | .inline t sub => do
      if !(← conditionOk s parent t) then fail' "The spread is not valid."
      typeConditionsList s q t sub
    | .spread fid => do
      let f ← q.getFragment fid
      if !(← conditionOk s parent f.on) then fail' "The spread is not valid."
    | .typename => pure ()
  def typeConditionsList (s : Schema) (q : Query) (parent : TypeId) : List Sel → Outcome Unit
    | [] => pure ()
    | x :: xs => do typeConditions s q parent x; typeConditionsList s q parent xs
end

def validateTypeConditions (s : Schema) (q : Query) : Outcome Unit := do
  for f in q.fragments do typeConditionsList s q f.on f.sels
  for o in q.operations do typeConditionsList s q (.object o.objectId) o.sels

/-! ### subscription root: exactly one field after expanding spreads (repaired code) -/

/-- `count_root_fields`: number of root fields with spreads and inline fragments expanded; the
    visited set is shared along the whole walk (a fragment is counted the first time only) -/
def rootFieldCount (q : Query) : Nat → List Nat → List Sel → Nat × List Nat
  | 0, visited, _ => (0, visited)
  | fuel+1, visited, sels =>
    sels.foldl (fun (acc : Nat × List Nat) sel =>
      match sel with
      | .field _ _ _ => (acc.1 + 1, acc.2)
      | .typename => (acc.1 + 1, acc.2)
      | .inline _ sub =>
        let r := rootFieldCount q fuel acc.2 sub
        (acc.1 + r.1, r.2)
      | .spread fid =>
        if acc.2.contains fid then acc else
        match q.fragments[fid]? with
        | none => acc
        | some f =>
          let r := rootFieldCount q fuel (fid :: acc.2) f.sels
          (acc.1 + r.1, r.2)) (0, visited)

mutual
  def selDepth' : Sel → Nat
    | .field _ _ sub => selsDepth' sub + 1
    | .inline _ sub => selsDepth' sub + 1
    | _ => 1
  def selsDepth' : List Sel → Nat
    | [] => 0
    | x :: xs => max (selDepth' x) (selsDepth' xs)
end

def depthFuel (q : Query) : Nat :=
  let d := (q.fragments.map (fun f => selsDepth' f.sels) ++ q.operations.map (fun o => selsDepth' o.sels)).foldl max 0
  (q.fragments.length + 1) * (d + 2) + 1

def validateSubscriptions (q : Query) : Outcome Unit := do
  for o in q.operations do
    if o.kind == .subscription && (rootFieldCount q (depthFuel q) [] o.sels).1 != 1 then
      fail' "Multiple-field queries on the root subscription field are forbidden by the spec."

/-- `query::resolve` -/
def resolve (s : Schema) (doc : QDoc) : Outcome Query := do
  let q ← createRoots s doc {}
  let q ← doc.foldlM (resolveDef s) q
  validateTypenamePresence s q
  validateSubscriptions q
  validateTypeConditions s q
  pure q

end Resolve
end GqlVerif
