import GqlVerif.Model.Schema
/-!
Mirror of `graphql_client_codegen/src/lib.rs:45-127`: the two process-wide caches
(`SCHEMA_CACHE`, `QUERY_CACHE : Mutex<BTreeMap<PathBuf, T>>`), `get_set_cached`,
`get_set_query_from_file`, `get_set_schema_from_file`, and the two public entry points
`generate_module_token_stream` / `generate_module_token_stream_from_string`.

What is modelled, as the code is **now** (after the repair of the poisoning defect):

* `get_set_cached(cache, key, f)`: lock; `get(key)`; hit ⇒ clone and return (lock released).
  Miss ⇒ the lock is **released**, `f()` runs outside the critical section (it may panic: missing
  file, parser error, unsupported extension), then lock again and `entry(key).or_insert(value)`:
  the first inserter wins, a later one drops its own value and returns the stored one.
* the key is the path **exactly as written** (`key.as_os_str().to_owned() : OsString`): no
  canonicalisation, no component normalisation.  `a/../a/x.graphql`, `a/./x.graphql`, `a//x.graphql`
  and `a/x.graphql` are four different keys (with the same content).  Before the second repair the
  key was a `PathBuf`, which `BTreeMap` compares with `Path`'s `Ord`, i.e. *by components*
  (`components` below); that variant is kept as `componentKeyedSys` for the negative witness.
* every `unwrap`/`expect`/`panic!` is an explicit `Err.panic` result; the `?` on the query parser in
  the from-string entry point is an `Err.error` result.

External functions are parameters (`Ext`): the file system `fs : Path → Option String` (fixed during
a history), `graphql_parser::parse_query`, SDL parsing + `Schema::from`, introspection-JSON parsing +
`Schema::from`, and the pure generator `generate_module_token_stream_inner`.

The old lock discipline (load inside the critical section, a panic poisons the mutex) is kept as
`Old.step`, the old keying as `componentKeyedSys`, both for negative witnesses only.
-/
namespace GqlVerif
namespace Cache

/-! ## association maps (the `BTreeMap`s; iteration order is never observed) -/

def find {K V} [DecidableEq K] : List (K × V) → K → Option V
  | [], _ => none
  | (k', v) :: m, k => if k' = k then some v else find m k

/-- `lock.entry(key).or_insert(value).clone()`: insert only if absent; returns the stored value -/
def insertGet {K V} [DecidableEq K] (m : List (K × V)) (k : K) (v : V) : List (K × V) × V :=
  match find m k with
  | some v0 => (m, v0)
  | none => ((k, v) :: m, v)

/-! ## the abstract system: keys, loaders, generator -/

/-- Everything a call depends on, fixed during a history.
`P` paths, `K` cache keys, `QV`/`SV` cached values, `O` options, `R` generated result. -/
structure Sys (P K QV SV O R : Type) where
  key : P → K
  /-- the closure passed by `get_set_query_from_file` (errors are panics) -/
  loadQ : P → Outcome QV
  /-- the closure passed by `get_set_schema_from_file` (errors are panics) -/
  loadS : P → Outcome SV
  /-- `(query_string.to_string(), query_document(query_string)?)` of the from-string entry point -/
  parseQ : String → Outcome QV
  /-- `generate_module_token_stream_inner` -/
  gen : QV → SV → O → Outcome R

inductive Call (P O : Type) where
  /-- `generate_module_token_stream(query_path, schema_path, options)` -/
  | fromFile (qpath spath : P) (o : O)
  /-- `generate_module_token_stream_from_string(query_string, schema_path, options)` -/
  | fromString (qtext : String) (spath : P) (o : O)
  deriving Repr

namespace Call
def spath {P O} : Call P O → P
  | fromFile _ s _ => s
  | fromString _ s _ => s
def opts {P O} : Call P O → O
  | fromFile _ _ o => o
  | fromString _ _ o => o
end Call

structure CacheState (K QV SV : Type) where
  q : List (K × QV) := []
  s : List (K × SV) := []

def CacheState.init {K QV SV} : CacheState K QV SV := {}

section seq
variable {P K QV SV O R : Type} [DecidableEq K]

/-- `get_set_cached`, executed without interference from other threads -/
def getSet {V} (m : List (K × V)) (k : K) (load : Outcome V) : List (K × V) × Outcome V :=
  match find m k with
  | some v => (m, .ok v)
  | none =>
    match load with
    | .error e => (m, .error e)          -- the panic unwinds with the lock released: nothing changes
    | .ok v => let r := insertGet m k v; (r.1, .ok r.2)

/-- schema cache, then the pure generator -/
def stepSchema (S : Sys P K QV SV O R) (c : CacheState K QV SV) (qv : QV) (sp : P) (o : O) :
    CacheState K QV SV × Outcome R :=
  let r := getSet c.s (S.key sp) (S.loadS sp)
  match r.2 with
  | .error e => ({ c with s := r.1 }, .error e)
  | .ok sv => ({ c with s := r.1 }, S.gen qv sv o)

/-- one sequential call: query cache, then schema cache, then `generate` on the two values -/
def step (S : Sys P K QV SV O R) (c : CacheState K QV SV) : Call P O → CacheState K QV SV × Outcome R
  | .fromFile qp sp o =>
    let r := getSet c.q (S.key qp) (S.loadQ qp)
    match r.2 with
    | .error e => ({ c with q := r.1 }, .error e)
    | .ok qv => stepSchema S { c with q := r.1 } qv sp o
  | .fromString t sp o =>
    match S.parseQ t with
    | .error e => (c, .error e)          -- `?` returns before the schema is touched
    | .ok qv => stepSchema S c qv sp o

/-- a history: final state and the outcome of every call, in order -/
def run (S : Sys P K QV SV O R) (c : CacheState K QV SV) : List (Call P O) → CacheState K QV SV × List (Outcome R)
  | [] => (c, [])
  | call :: rest =>
    let r := step S c call
    let rs := run S r.1 rest
    (rs.1, r.2 :: rs.2)

def outcomes (S : Sys P K QV SV O R) (c : CacheState K QV SV) (calls : List (Call P O)) : List (Outcome R) :=
  (run S c calls).2

/-! ## small-step thread semantics

Each call is the sequence of atomic actions
`lookupQ, (computeQ), (insertQ), lookupS, (computeS), (insertS), generate`;
`lookup*` and `insert*` run under the mutex (atomic w.r.t. the shared state), `compute*` and
`generate` run outside any lock and touch only thread-local data.  A schedule picks, at each
step, the thread that performs its next action. -/

inductive Pc (P QV SV O : Type) where
  | start (call : Call P O)                       -- next: lookupQ (or the local parse for from-string)
  | computeQ (call : Call P O)                    -- missed; next: run the loader outside the lock
  | insertQ (call : Call P O) (v : QV)            -- loaded; next: lock, `entry().or_insert`
  | lookupS (call : Call P O) (qv : QV)
  | computeS (call : Call P O) (qv : QV)
  | insertS (call : Call P O) (qv : QV) (v : SV)
  | generate (call : Call P O) (qv : QV) (sv : SV)

namespace Pc
def call {P QV SV O} : Pc P QV SV O → Call P O
  | .start c => c | .computeQ c => c | .insertQ c _ => c | .lookupS c _ => c
  | .computeS c _ => c | .insertS c _ _ => c | .generate c _ _ => c

/-- number of atomic actions the call in progress may still perform -/
def rank {P QV SV O} : Pc P QV SV O → Nat
  | .start _ => 7 | .computeQ _ => 6 | .insertQ _ _ => 5 | .lookupS _ _ => 4
  | .computeS _ _ => 3 | .insertS _ _ _ => 2 | .generate _ _ _ => 1

/-- `computeQ`/`insertQ` only occur for the path entry point -/
def wf {P QV SV O} : Pc P QV SV O → Prop
  | .computeQ (.fromString ..) => False
  | .insertQ (.fromString ..) _ => False
  | _ => True
end Pc

structure Thread (P QV SV O R : Type) where
  cur : Option (Pc P QV SV O)
  todo : List (Call P O)
  done : List (Outcome R)

/-- a thread that will execute `prog` -/
def Thread.ofProg (prog : List (Call P O)) : Thread P QV SV O R :=
  match prog with
  | [] => { cur := none, todo := [], done := [] }
  | c :: cs => { cur := some (.start c), todo := cs, done := [] }

def Thread.finished (t : Thread P QV SV O R) : Bool := t.cur.isNone

/-- the current call returned (or unwound) with `r`; fetch the next call -/
def Thread.finish (t : Thread P QV SV O R) (r : Outcome R) : Thread P QV SV O R :=
  match t.todo with
  | [] => { cur := none, todo := [], done := t.done ++ [r] }
  | c :: cs => { cur := some (.start c), todo := cs, done := t.done ++ [r] }

/-- the calls a thread has not yet completed -/
def Thread.pending (t : Thread P QV SV O R) : List (Call P O) :=
  match t.cur with
  | none => []
  | some pc => pc.call :: t.todo

/-- remaining work of a thread, in atomic actions (upper bound) -/
def Thread.measure (t : Thread P QV SV O R) : Nat :=
  match t.cur with
  | none => 0
  | some pc => pc.rank + 7 * t.todo.length

def Thread.goto (t : Thread P QV SV O R) (pc : Pc P QV SV O) : Thread P QV SV O R := { t with cur := some pc }

/-- one atomic action of thread `t` on the shared caches -/
def act (S : Sys P K QV SV O R) (c : CacheState K QV SV) (t : Thread P QV SV O R) :
    CacheState K QV SV × Thread P QV SV O R :=
  match t.cur with
  | none => (c, t)
  | some (.start (.fromFile qp sp o)) =>
    match find c.q (S.key qp) with                                   -- under the lock
    | some v => (c, t.goto (.lookupS (.fromFile qp sp o) v))
    | none => (c, t.goto (.computeQ (.fromFile qp sp o)))
  | some (.start (.fromString txt sp o)) =>
    match S.parseQ txt with                                          -- thread-local
    | .error e => (c, t.finish (.error e))
    | .ok qv => (c, t.goto (.lookupS (.fromString txt sp o) qv))
  | some (.computeQ call) =>
    match call with
    | .fromFile qp _ _ =>
      match S.loadQ qp with                                          -- outside the lock
      | .error e => (c, t.finish (.error e))                         -- panic: no lock held, nothing poisoned
      | .ok v => (c, t.goto (.insertQ call v))
    | .fromString .. => (c, t)                                       -- unreachable
  | some (.insertQ call v) =>
    match call with
    | .fromFile qp _ _ =>
      let r := insertGet c.q (S.key qp) v                             -- under the lock; first insert wins
      ({ c with q := r.1 }, t.goto (.lookupS call r.2))
    | .fromString .. => (c, t)
  | some (.lookupS call qv) =>
    match find c.s (S.key call.spath) with                            -- under the lock
    | some sv => (c, t.goto (.generate call qv sv))
    | none => (c, t.goto (.computeS call qv))
  | some (.computeS call qv) =>
    match S.loadS call.spath with                                     -- outside the lock
    | .error e => (c, t.finish (.error e))
    | .ok v => (c, t.goto (.insertS call qv v))
  | some (.insertS call qv v) =>
    let r := insertGet c.s (S.key call.spath) v                       -- under the lock
    ({ c with s := r.1 }, t.goto (.generate call qv r.2))
  | some (.generate call qv sv) => (c, t.finish (S.gen qv sv call.opts))

structure Config (P K QV SV O R : Type) where
  cache : CacheState K QV SV
  threads : List (Thread P QV SV O R)

def Config.start (progs : List (List (Call P O))) : Config P K QV SV O R :=
  { cache := .init, threads := progs.map Thread.ofProg }

/-- thread `i` performs its next action (a finished or non-existent thread: nothing happens) -/
def Config.stepAt (S : Sys P K QV SV O R) (cfg : Config P K QV SV O R) (i : Nat) : Config P K QV SV O R :=
  match cfg.threads[i]? with
  | none => cfg
  | some t =>
    let r := act S cfg.cache t
    { cache := r.1, threads := cfg.threads.set i r.2 }

/-- run a schedule (a list of thread indices) -/
def Config.exec (S : Sys P K QV SV O R) (cfg : Config P K QV SV O R) (sched : List Nat) : Config P K QV SV O R :=
  sched.foldl (Config.stepAt S) cfg

end seq

/-! ## the specification: what a call returns "alone", written from the property statement
(a function of the query content, the schema content and the options, nothing else) -/

def queryVal {P K QV SV O R} (S : Sys P K QV SV O R) : Call P O → Outcome QV
  | .fromFile qp _ _ => S.loadQ qp
  | .fromString t _ _ => S.parseQ t

def spec {P K QV SV O R} (S : Sys P K QV SV O R) (call : Call P O) : Outcome R := do
  let qv ← queryVal S call
  let sv ← S.loadS call.spath
  S.gen qv sv call.opts

/-! ## the old lock discipline (before the repair), kept for the negative witness:
`lock().expect("cache is poisoned")`, then `entry(key).or_insert_with(load)` *inside* the critical
section; a panic of `load` unwinds through the guard and poisons the mutex for ever. -/
namespace Old

structure State (K QV SV : Type) where
  q : List (K × QV) := []
  s : List (K × SV) := []
  qPoisoned : Bool := false
  sPoisoned : Bool := false

variable {P K QV SV O R : Type} [DecidableEq K]

def getSet {V} (m : List (K × V)) (poisoned : Bool) (k : K) (load : Outcome V) : List (K × V) × Bool × Outcome V :=
  if poisoned then (m, true, panic' "cache is poisoned")
  else match find m k with
    | some v => (m, false, .ok v)
    | none =>
      match load with
      | .error e => (m, true, .error e)            -- the panic poisons the lock
      | .ok v => ((k, v) :: m, false, .ok v)

def stepSchema (S : Sys P K QV SV O R) (c : State K QV SV) (qv : QV) (sp : P) (o : O) : State K QV SV × Outcome R :=
  let (s', p', rs) := getSet c.s c.sPoisoned (S.key sp) (S.loadS sp)
  match rs with
  | .error e => ({ c with s := s', sPoisoned := p' }, .error e)
  | .ok sv => ({ c with s := s', sPoisoned := p' }, S.gen qv sv o)

def step (S : Sys P K QV SV O R) (c : State K QV SV) : Call P O → State K QV SV × Outcome R
  | .fromFile qp sp o =>
    let (q', p', rq) := getSet c.q c.qPoisoned (S.key qp) (S.loadQ qp)
    match rq with
    | .error e => ({ c with q := q', qPoisoned := p' }, .error e)
    | .ok qv => stepSchema S { c with q := q', qPoisoned := p' } qv sp o
  | .fromString t sp o =>
    match S.parseQ t with
    | .error e => (c, .error e)
    | .ok qv => stepSchema S c qv sp o

def outcomes (S : Sys P K QV SV O R) (c : State K QV SV) : List (Call P O) → List (Outcome R)
  | [] => []
  | call :: rest => let (c1, r) := step S c call; r :: outcomes S c1 rest

end Old

/-! ## the concrete system of `lib.rs`: paths, `PathBuf` ordering, extensions, loaders -/

/-- a path as the sequence of its characters (it is scanned) -/
abbrev Path := List Char
abbrev Key := List (List Char)
abbrev Fs := Path → Option String

def splitOn (sep : Char) : List Char → List (List Char)
  | [] => [[]]
  | c :: cs =>
    if c = sep then [] :: splitOn sep cs
    else match splitOn sep cs with
      | [] => [[c]]
      | s :: ss => (c :: s) :: ss

def isNormalSeg (s : List Char) : Bool := s != [] && s != ['.']

/-- `Path::components()` on Unix, each component as its text (`/` = root, `.` = leading current
directory, `..` = parent, anything else = normal).  `Path::file_name`/`extension` are defined on it;
it is also what `PathBuf`'s `Eq`/`Ord` compare (the key of the caches before the keying repair). -/
def components (p : Path) : Key :=
  let segs := splitOn '/' p
  let body := segs.filter isNormalSeg
  match p with
  | '/' :: _ => ['/'] :: body
  | _ => if segs.head? = some ['.'] then ['.'] :: body else body

/-- `Path::file_name()`: the last component if it is a normal one -/
def fileName (p : Path) : Option (List Char) :=
  match (components p).getLast? with
  | none => none
  | some c => if c = ['/'] || c = ['.'] || c = ['.', '.'] then none else some c

/-- `Path::extension()`: the part of the file name after its last `.`, if the part before is not empty -/
def extension (p : Path) : Option (List Char) :=
  match fileName p with
  | none => none
  | some n =>
    let r := n.reverse
    match r.dropWhile (· != '.') with
    | [] => none                       -- no dot
    | _ :: before => if before.isEmpty then none else some (r.takeWhile (· != '.')).reverse

inductive SchemaFormat where
  | sdl | json | unsupported
  deriving Repr, DecidableEq

/-- the `match schema_extension` of `get_set_schema_from_file` -/
def schemaFormat (p : Path) : SchemaFormat :=
  match (extension p).map String.ofList with
  | some "graphql" => .sdl
  | some "graphqls" => .sdl
  | some "gql" => .sdl
  | some "json" => .json
  | _ => .unsupported

/-- the external functions -/
structure Ext (QDoc SV O R : Type) where
  /-- `graphql_parser::parse_query(..).into_static()` -/
  parseQuery : String → Except String QDoc
  /-- `parse_schema(..).unwrap()` then `Schema::from` (either may panic) -/
  loadSdl : String → Outcome SV
  /-- `serde_json::from_str::<IntrospectionResponse>(..).unwrap()` then `Schema::from` -/
  loadJson : String → Outcome SV
  /-- `generate_module_token_stream_inner` -/
  generate : String × QDoc → SV → O → Outcome R

/-- `read_file(path).unwrap()` -/
def readFile (fs : Fs) (p : Path) : Outcome String :=
  match fs p with
  | none => panic' "called `Result::unwrap()` on an `Err` value: FileNotFound"
  | some s => .ok s

def rustLoadQ {QDoc SV O R} (E : Ext QDoc SV O R) (fs : Fs) (p : Path) : Outcome (String × QDoc) := do
  let text ← readFile fs p
  match E.parseQuery text with
  | .error m => panic' ("called `Result::unwrap()` on an `Err` value: Query parser error: " ++ m)
  | .ok d => pure (text, d)

def rustLoadS {QDoc SV O R} (E : Ext QDoc SV O R) (fs : Fs) (p : Path) : Outcome SV := do
  let fmt := schemaFormat p                       -- the extension is computed first, the file is read next
  let text ← readFile fs p
  match fmt with
  | .sdl => E.loadSdl text
  | .json => E.loadJson text
  | .unsupported => panic' "Unsupported extension for the GraphQL schema"

def rustParseQ {QDoc SV O R} (E : Ext QDoc SV O R) (text : String) : Outcome (String × QDoc) :=
  match E.parseQuery text with
  | .error m => fail' ("Query parser error: " ++ m)
  | .ok d => .ok (text, d)

/-- the system `lib.rs` implements over a file system `fs`: keyed by the path as written -/
def rustSys {QDoc SV O R} (E : Ext QDoc SV O R) (fs : Fs) : Sys Path Path (String × QDoc) SV O R where
  key := id
  loadQ := rustLoadQ E fs
  loadS := rustLoadS E fs
  parseQ := rustParseQ E
  gen := E.generate

/-- the keying before the repair (`BTreeMap<PathBuf, _>`: keys compared by components).  The operating
system does *not* open the same file for all component-equal paths (`q.graphql/` is ENOTDIR), so the
loaders are not key-faithful: see `Props.C08.trailing_slash_alias`. -/
def componentKeyedSys {QDoc SV O R} (E : Ext QDoc SV O R) (fs : Fs) : Sys Path Key (String × QDoc) SV O R :=
  { rustSys E fs with key := components }

end Cache
end GqlVerif
