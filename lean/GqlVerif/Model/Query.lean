import GqlVerif.Model.Schema
/-!
Query documents (graphql_parser AST as shipped by the harness) and the resolved query
(`query.rs`), tree-shaped: selection sets are `List Sel`; the Rust arena with a parent index is
replaced by passing the parent type and path prefix down (observably identical: accept/reject and
generated names).
-/
namespace GqlVerif

inductive Value where
  | int (n : Int)
  | float (tok : String)
  | str (s : String)
  | bool (b : Bool)
  | null
  | enum (e : String)
  | var (n : String)
  | list (xs : List Value)
  | obj (kvs : List (String × Value))
  deriving Repr, BEq, Inhabited

inductive QSel where
  | field (alias : Option String) (name : String) (sub : List QSel)
  | spread (name : String)
  | inline (on : Option String) (sub : List QSel)
  deriving Repr, BEq, Inhabited

inductive OpKind where
  | query | mutation | subscription
  deriving Repr, DecidableEq, Inhabited

structure VarDef where
  name : String
  ty : GTy
  default : Option Value
  deriving Repr, BEq, Inhabited

inductive QDef where
  | op (kind : OpKind) (name : Option String) (vars : List VarDef) (sels : List QSel)
  | selset (sels : List QSel)
  | frag (name : String) (on : String) (sels : List QSel)
  deriving Repr, BEq, Inhabited

abbrev QDoc := List QDef

/-- resolved selection -/
inductive Sel where
  | field (alias : Option String) (fieldId : Nat) (sub : List Sel)
  | inline (typeId : TypeId) (sub : List Sel)
  | spread (frag : Nat)
  | typename
  deriving Repr, BEq, Inhabited

structure RFragment where
  name : String
  on : TypeId
  sels : List Sel
  deriving Repr, BEq, Inhabited

structure ROperation where
  name : String
  kind : OpKind
  objectId : Nat
  sels : List Sel
  deriving Repr, BEq, Inhabited

structure RVariable where
  opIdx : Nat
  name : String
  default : Option Value
  ty : FieldType
  deriving Repr, BEq, Inhabited

structure Query where
  fragments : List RFragment := []
  operations : List ROperation := []
  variables : List RVariable := []
  deriving Repr, BEq, Inhabited

namespace Query
def findFragment (q : Query) (name : String) : Option Nat := q.fragments.findIdx? (·.name == name)
def findOperation (q : Query) (name : String) : Option Nat := q.operations.findIdx? (·.name == name)
def getFragment (q : Query) (i : Nat) : Outcome RFragment :=
  match q.fragments[i]? with | some f => pure f | none => panic' "Query.get_fragment"
def getOperation (q : Query) (i : Nat) : Outcome ROperation :=
  match q.operations[i]? with | some f => pure f | none => panic' "Query.get_operation"
def opVariables (q : Query) (op : Nat) : List RVariable := q.variables.filter (·.opIdx == op)
end Query

end GqlVerif
