import GqlVerif.Model.Rust
/-!
serde's derive semantics for exactly the attribute subset the generator emits (read off serde
1.0.217 `serde_derive` output and `serde::private::de`), over `Json`:

* plain struct (`deserialize_struct`): own keys by wire name, duplicate key = error, unknown keys
  ignored, missing key: `#[serde(default)]` ⇒ default, `deserialize_with` without default ⇒ error,
  `Option` (under any `Box`) ⇒ `None`, otherwise error; a JSON array is read positionally;
* struct with `#[serde(flatten)]` members (`deserialize_map`): own keys matched first, every other
  entry goes to a buffer; each flattened member is then read from the buffer in field order:
  a plain struct **takes** its keys out of the buffer, a struct that itself has flattened members and an
  internally tagged enum **borrow** (see everything that is left, remove nothing);
* internally tagged enum (`#[serde(tag = ..)]`): exactly one tag entry whose value is a string naming
  a variant (else the `#[serde(other)]` unit variant, else error); a unit variant accepts whatever is
  left, a newtype variant hands the remaining entries to its payload type;
* hand-written string enums (match tables extracted from the emitted impls), externally tagged
  `@oneOf` enums, unit struct `Variables`, the three ID helpers, `Option` / `Vec` / `Box`.

`Val` is the Rust value; `ser` is `Serialize` (objects may carry a key twice; `serde_json::Map`
keeps the last, which `Json.normObj` reproduces).
-/
namespace GqlVerif

inductive Val where
  | unit                              -- `()`, `None`, unit struct
  | some (v : Val)
  | str (s : String)
  | int (n : Int)
  | float (j : Json)                  -- an f64, kept as the JSON number it was read from
  | bool (b : Bool)
  | list (vs : List Val)
  | record (fields : List (String × Val))          -- struct: (rust field name, value) in declaration order
  | variant (name : String) (payload : Option Val)
  | enumOther (s : String)
  deriving Repr, BEq, Inhabited

def Val.isUnit : Val → Bool
  | .unit => true
  | _ => false

inductive DErr where
  | mismatch (what : String)
  | unmodelled (what : String)
  deriving Repr, BEq, Inhabited

structure Env where
  items : List Item
  /-- types defined outside the module (custom scalars, extern enums): path ↦ what the consumer supplies -/
  externs : List (String × RTy) := []

namespace Env
def find (e : Env) (name : String) : Option Item := e.items.find? (·.name == name)
end Env

namespace Serde

abbrev D := Except DErr
def bad {α} (w : String) : D α := .error (.mismatch w)
def unmodelled {α} (w : String) : D α := .error (.unmodelled w)

abbrev Buf := List (Option (String × Json))

def present (b : Buf) : List (String × Json) := b.filterMap id

/-- `flat_map_take_entry`: entries whose key is recognised are taken (their slot becomes `None`) -/
def takeKeys (keys : List String) : Buf → List (String × Json) × Buf
  | [] => ([], [])
  | none :: rest => let (t, b) := takeKeys keys rest; (t, none :: b)
  | some (k, v) :: rest =>
    let (t, b) := takeKeys keys rest
    if keys.contains k then ((k, v) :: t, none :: b) else (t, some (k, v) :: b)

def i64Min : Int := -9223372036854775808
def i64Max : Int := 9223372036854775807
def inI64 (n : Int) : Bool := i64Min ≤ n && n ≤ i64Max

/-- `IntOrString` of `serde_with.rs` -/
def deIntOrString : Json → D Val
  | .int n => if inI64 n then pure (.str (toString n)) else bad "integer out of i64 range for ID"
  | .str s => pure (.str s)
  | _ => bad "ID: neither integer nor string"

def isOption : RTy → Bool
  | .opt _ => true
  | .box t => isOption t
  | _ => false

/-- the type behind `Box`es -/
def unbox : RTy → RTy
  | .box t => unbox t
  | t => t

/-- `deserialize_nested_id` at type `t` (String under Option / Vec / Box) -/
def deNestedId : RTy → Json → D Val
  | .opt t, j => if j.isNull then pure .unit else Val.some <$> deNestedId t j
  | .vec t, j => match j with
    | .arr xs => Val.list <$> xs.mapM (deNestedId t)
    | _ => bad "expected a list of IDs"
  | .box t, j => deNestedId t j
  | .path _, j => deIntOrString j

def deHelper (h : String) (ty : RTy) (j : Json) : D Val :=
  if h == "graphql_client::serde_with::deserialize_id" then deIntOrString j
  else if h == "graphql_client::serde_with::deserialize_option_id" then
    (if j.isNull then pure .unit else Val.some <$> deIntOrString j)
  else if h == "graphql_client::serde_with::deserialize_nested_id" then deNestedId ty j
  else unmodelled ("deserialize_with " ++ h)

def countKey (k : String) (kvs : List (String × Json)) : Nat := (kvs.filter (·.1 == k)).length

/-! ### building blocks, parametric in "how a named type is read"

`path p j` reads JSON `j` at the named type `p`.  Everything that is not a jump to a named type
(Option / Vec / Box nesting, the field loop of a struct, tag dispatch) is structural and lives here,
outside the fuel-indexed recursion. -/

/-- `Option` / `Vec` / `Box` nesting around named types -/
def deTyWith (path : String → Json → D Val) : RTy → Json → D Val
  | .opt t, j => if j.isNull then pure .unit else Val.some <$> deTyWith path t j
  | .vec t, j => match j with
    | .arr xs => Val.list <$> xs.mapM (deTyWith path t)
    | _ => bad "expected a sequence"
  | .box t, j => deTyWith path t j
  | .path p, j => path p j

def deFieldWith (path : String → Json → D Val) (f : RField) (j : Json) : D Val :=
  match f.deserWith with
  | some h => deHelper h f.ty j
  | none => deTyWith path f.ty j

/-- what a missing key means for a field -/
def missingField (f : RField) : D Val :=
  if f.default then pure .unit
  else if f.deserWith.isSome then bad ("missing field " ++ f.wire)
  else if isOption f.ty then pure .unit
  else bad ("missing field " ++ f.wire)

/-- own (non-flattened) fields of a struct from the entries that carry their keys -/
def deOwnWith (path : String → Json → D Val) : List RField → List (String × Json) → D (List (String × Val))
  | [], _ => pure []
  | f :: fs, kvs => do
    let rest ← deOwnWith path fs kvs
    if f.flatten then pure rest else
    if countKey f.wire kvs > 1 then bad ("duplicate field " ++ f.wire) else
    match Json.lookup f.wire kvs with
    | some j => do pure ((f.rust, ← deFieldWith path f j) :: rest)
    | none => do pure ((f.rust, ← missingField f) :: rest)

/-- flattened members, in field order, each read from what the previous ones left in the buffer -/
def deFlatsWith (flat : RTy → Buf → D (Val × Buf)) : List RField → Buf → D (List (String × Val))
  | [], _ => pure []
  | f :: fs, buf =>
    if !f.flatten then deFlatsWith flat fs buf else do
    let (v, buf') ← flat f.ty buf
    let rest ← deFlatsWith flat fs buf'
    pure ((f.rust, v) :: rest)

/-- struct read from a map (`visit_map`): own keys first, the rest buffered for flattened members -/
def deStructMapWith (path : String → Json → D Val) (flat : RTy → Buf → D (Val × Buf))
    (fields : List RField) (kvs : List (String × Json)) : D Val := do
  let own ← deOwnWith path fields kvs
  if fields.any (·.flatten) then
    let ownKeys := (fields.filter (!·.flatten)).map (·.wire)
    let buf : Buf := (kvs.filter (fun kv => !ownKeys.contains kv.1)).map some
    let fl ← deFlatsWith flat fields buf
    -- keep declaration order
    pure (.record (fields.filterMap fun f => (own ++ fl).find? (·.1 == f.rust)))
  else pure (.record own)

def deStructWith (path : String → Json → D Val) (flat : RTy → Buf → D (Val × Buf))
    (fields : List RField) (j : Json) : D Val :=
  match j with
  | .obj kvs => deStructMapWith path flat fields kvs
  | .arr xs =>
    if fields.any (·.flatten) then bad "expected a map" else
    -- `visit_seq`: positional, every field must be present
    if xs.length < fields.length then bad "invalid length" else
    (fun vs => Val.record vs) <$> (fields.zip xs).mapM (fun (f, x) => do pure (f.rust, ← deFieldWith path f x))
  | _ => bad "expected a struct"

/-- internally tagged enum from map entries; `buffered`: the entries come from buffered content
    (`ContentDeserializer`), where serde's variant identifier also accepts the variant *index*;
    `pathB` reads the payload (always from buffered content) -/
def deTaggedWith (pathB : String → Json → D Val) (buffered : Bool) (tag : String) (vs : List RVariant)
    (kvs : List (String × Json)) : D Val :=
  match countKey tag kvs with
  | 0 => bad ("missing field " ++ tag)
  | 1 =>
    let rest := kvs.filter (·.1 != tag)
    let pick (v : RVariant) : D Val :=
      if v.other then pure (.variant v.name none) else
      match v.payload with
      | none => pure (.variant v.name none)
      | some t => (fun x => Val.variant v.name (some x)) <$> deTyWith pathB t (.obj rest)
    match Json.lookup tag kvs with
    | some (.str name) =>
      match vs.find? (fun v => !v.other && v.wire == name) with
      | some v => pick v
      | none => match vs.find? (·.other) with
        | some o => pure (.variant o.name none)
        | none => bad "unknown variant"
    | some (.int n) =>
      -- serde_json's own `deserialize_identifier` only accepts strings
      if !buffered then bad "tag is not a string" else
      if n < 0 then bad "tag is a negative integer" else
      match vs[n.toNat]? with
      | some v => pick v
      | none => match vs.find? (·.other) with
        | some o => pure (.variant o.name none)
        | none => bad "variant index out of range"
    | _ => bad "tag is neither a string nor an index"
  | _ => bad ("duplicate field " ++ tag)

/-- the built-in leaf types -/
def dePrim (p : String) (j : Json) : Option (D Val) :=
  if p == "String" then some (match j with | .str s => pure (.str s) | _ => bad "expected a string")
  else if p == "i64" then some (match j with
    | .int n => if inI64 n then pure (.int n) else bad "integer out of range"
    | _ => bad "expected an integer")
  else if p == "f64" then some (match j with
    | .int n => pure (.float (.int n))
    | .num t => pure (.float (.num t))
    | _ => bad "expected a number")
  else if p == "bool" then some (match j with | .bool b => pure (.bool b) | _ => bad "expected a boolean")
  else none

mutual
  /-- read `j` at the named type `p`; `b`: `j` comes from buffered content.  Fuel counts jumps to
      named types only (alias hops, struct / enum nesting). -/
  def dePath (e : Env) (b : Bool) : Nat → String → Json → D Val
    | 0, _, _ => unmodelled "fuel"
    | fuel+1, p, j =>
      match dePrim p j with
      | some r => r
      | none =>
      match e.find p with
      | some (.alias _ _ t) => deTyWith (dePath e b fuel) t j
      | some (.struct _ _ _ fields) => deStructWith (dePath e b fuel) (deFlat e fuel) fields j
      | some (.unitStruct ..) => if j.isNull then pure .unit else bad "expected unit"
      | some (.tagged _ _ _ tag vs) => (match j with
        | .obj kvs => deTaggedWith (dePath e true fuel) b tag vs kvs
        | .arr _ => unmodelled "internally tagged enum from a sequence"
        | _ => bad "expected a map for an internally tagged enum")
      | some (.gqlEnum _ _ _ _ _ de) => (match j with
        | .str s => match de.find? (·.1 == s) with
          | some (_, v) => pure (.variant v none)
          | none => pure (.enumOther s)
        | _ => bad "expected a string")
      | some (.oneOf _ _ _ vs) => (match j with
        | .obj [(k, v)] => match vs.find? (·.wire == k) with
          | some var => (match var.payload with
            | some t => (fun x => Val.variant var.name (some x)) <$> deTyWith (dePath e b fuel) t v
            | none => unmodelled "unit @oneOf variant")
          | none => bad "unknown variant"
        | _ => bad "expected a map with a single key")
      | some (.defaults _) => unmodelled "impl"
      | none => match e.externs.find? (·.1 == p) with
        | some (_, t) => deTyWith (dePath e b fuel) t j
        | none => unmodelled ("type " ++ p)

  /-- one flattened member from a `FlatMapDeserializer` (its content is always buffered) -/
  def deFlat (e : Env) : Nat → RTy → Buf → D (Val × Buf)
    | 0, _, _ => unmodelled "fuel"
    | fuel+1, .box t, buf => deFlat e fuel t buf
    | fuel+1, .path p, buf =>
      match e.find p with
      | some (.alias _ _ t) => deFlat e fuel t buf
      | some (.struct _ _ _ fields) =>
        if fields.any (·.flatten) then do
          -- `deserialize_map`: sees every remaining entry, takes none
          let v ← deStructMapWith (dePath e true fuel) (deFlat e fuel) fields (present buf)
          pure (v, buf)
        else do
          -- `deserialize_struct`: takes the entries it recognises
          let (taken, buf') := takeKeys (fields.map (·.wire)) buf
          let own ← deOwnWith (dePath e true fuel) fields taken
          pure (.record own, buf')
      | some (.tagged _ _ _ tag vs) => do
        let v ← deTaggedWith (dePath e true fuel) true tag vs (present buf)
        pure (v, buf)
      | _ => unmodelled ("flatten of " ++ p)
    | _+1, _, _ => unmodelled "flatten of a non-struct type"
end

def deTy (e : Env) (b : Bool) (fuel : Nat) (t : RTy) (j : Json) : D Val := deTyWith (dePath e b fuel) t j

-- fuel: every step either descends into the JSON value, into a type expression or along an alias
-- / field list; `size json + #items + longest type` levels, times the longest field list, is ample
mutual
  def jsonSize : Json → Nat
    | .arr xs => 1 + jsonsSize xs
    | .obj kvs => 1 + kvsSize kvs
    | _ => 1
  def jsonsSize : List Json → Nat
    | [] => 0
    | x :: xs => jsonSize x + jsonsSize xs
  def kvsSize : List (String × Json) → Nat
    | [] => 0
    | (_, v) :: rest => jsonSize v + kvsSize rest
end

def itemWidth : Item → Nat
  | .struct _ _ _ fs => fs.length
  | .tagged _ _ _ _ vs => vs.length
  | .oneOf _ _ _ vs => vs.length
  | _ => 1

/-- jumps to named types: per JSON nesting level at most one chain of input-free jumps (alias → target, struct →
    flattened member), each name of the environment visited at most once (no cycle of aliases / by-value containment:
    rustc E0391 / E0072) — and `deFlat` spends one more unit on the `Box` the generator puts around a recursive
    flattened fragment / alias target.  Hence TWICE `#items + #externs + 2` jumps per level: with the single width the
    fuel was exhausted on a generated module that serde reads (16 mutually recursive fragments, payload nested 12 deep:
    `SerdeFuel.generated_module_fuel_exhausted` in `Proofs/SerdeFuelWitness.lean`); with the double width it never is
    on an acyclic environment whose alias targets / flattened members carry at most one `Box`
    (`SerdeFuel.envOK_of_acyclic`, `SerdeFuel.de_never_out_of_fuel`) — and no emitted module carries more
    (`SerdeFuel.responseForQuery_boxBound`).  The fuel of `ser` stays single: `serPath` spends nothing on `Box`. -/
def deFuel (e : Env) (j : Json) : Nat := 2 * ((jsonSize j + 2) * (e.items.length + e.externs.length + 2))

/-- top level: read directly from the JSON text (not from buffered content) -/
def de (e : Env) (t : RTy) (j : Json) : D Val := deTy e false (deFuel e j) t j

/-! ### serialization -/

def entriesOf : Json → Option (List (String × Json))
  | .obj kvs => some kvs
  | _ => none

/-- `Option` / `Vec` / `Box` nesting around named types -/
def serTyWith (path : String → Val → D Json) : RTy → Val → D Json
  | .opt t, v => match v with
    | .unit => pure .null
    | .some x => serTyWith path t x
    | _ => unmodelled "value / type mismatch (Option)"
  | .vec t, v => match v with
    | .list xs => Json.arr <$> xs.mapM (serTyWith path t)
    | _ => unmodelled "value / type mismatch (Vec)"
  | .box t, v => serTyWith path t v
  | .path p, v => path p v

/-- the fields of a struct, in declaration order -/
def serFieldsWith (path : String → Val → D Json) : List RField → List (String × Val) → D (List (String × Json))
  | [], _ => pure []
  | f :: fs, vals => do
    let rest ← serFieldsWith path fs vals
    match vals.find? (·.1 == f.rust) with
    | none => unmodelled ("no value for field " ++ f.rust)
    | some (_, v) =>
      if f.flatten then
        match entriesOf (← serTyWith path f.ty v) with
        | some kvs => pure (kvs ++ rest)
        | none => bad "can only flatten structs and maps"
      else if f.skipNone && v.isUnit then pure rest
      else do pure ((f.wire, ← serTyWith path f.ty v) :: rest)

/-- leaf values serialize independently of the named type -/
def serPrim : Val → Option Json
  | .str s => some (.str s)
  | .int n => some (.int n)
  | .float j => some j
  | .bool b => some (.bool b)
  | .enumOther s => some (.str s)
  | _ => none

/-- write value `v` of the named type `p`; fuel counts jumps to named types only -/
def serPath (e : Env) : Nat → String → Val → D Json
  | 0, _, _ => unmodelled "fuel"
  | fuel+1, p, v =>
    match serPrim v with
    | some j => pure j
    | none =>
    match e.find p with
    | some (.alias _ _ t) => serTyWith (serPath e fuel) t v
    | some (.struct _ _ _ fields) => (match v with
      | .record vals => (fun kvs => Json.obj kvs) <$> serFieldsWith (serPath e fuel) fields vals
      | _ => unmodelled "value / type mismatch (struct)")
    | some (.unitStruct ..) => pure .null
    | some (.tagged _ _ _ tag vs) => (match v with
      | .variant name payload => match vs.find? (·.name == name), payload with
        | some var, none => pure (.obj [(tag, .str var.wire)])
        | some var, some pv => (match var.payload with
          | some t => do
            match entriesOf (← serTyWith (serPath e fuel) t pv) with
            | some kvs => pure (.obj ((tag, .str var.wire) :: kvs))
            | none => unmodelled "tagged newtype variant of a non-struct"
          | none => unmodelled "payload for a unit variant")
        | none, _ => unmodelled "unknown variant value"
      | _ => unmodelled "value / type mismatch (tagged enum)")
    | some (.gqlEnum _ _ _ _ ser _) => (match v with
      | .variant name none => match ser.find? (·.1 == name) with
        | some (_, s) => pure (.str s)
        | none => unmodelled "enum variant without a serialize arm"
      | _ => unmodelled "value / type mismatch (enum)")
    | some (.oneOf _ _ _ vs) => (match v with
      | .variant name (some pv) => match vs.find? (·.name == name) with
        | some var => (match var.payload with
          | some t => do pure (.obj [(var.wire, ← serTyWith (serPath e fuel) t pv)])
          | none => unmodelled "unit @oneOf variant")
        | none => unmodelled "unknown variant value"
      | _ => unmodelled "value / type mismatch (@oneOf)")
    | some (.defaults _) => unmodelled "impl"
    | none => match e.externs.find? (·.1 == p) with
      | some (_, t) => serTyWith (serPath e fuel) t v
      | none => unmodelled ("type " ++ p)

def serTy (e : Env) (fuel : Nat) (t : RTy) (v : Val) : D Json := serTyWith (serPath e fuel) t v

mutual
  def valSize : Val → Nat
    | .some v => 1 + valSize v
    | .list vs => 1 + valsSize vs
    | .record fs => 1 + fieldsSize fs
    | .variant _ (some v) => 1 + valSize v
    | _ => 1
  def valsSize : List Val → Nat
    | [] => 0
    | v :: vs => valSize v + valsSize vs
  def fieldsSize : List (String × Val) → Nat
    | [] => 0
    | (_, v) :: fs => valSize v + fieldsSize fs
end

mutual
  /-- `serde_json::to_value` normal form: objects keep the last occurrence of a key -/
  def normJson : Json → Json
    | .arr xs => .arr (normList xs)
    | .obj kvs => .obj (Json.normObj (normKvs kvs))
    | j => j
  def normList : List Json → List Json
    | [] => []
    | x :: xs => normJson x :: normList xs
  def normKvs : List (String × Json) → List (String × Json)
    | [] => []
    | (k, v) :: rest => (k, normJson v) :: normKvs rest
end

def ser (e : Env) (t : RTy) (v : Val) : D Json :=
  normJson <$> serTy e ((valSize v + 2) * (e.items.length + e.externs.length + 2)) t v

/-- `to_value(from_value(j))` -/
def roundtrip (e : Env) (t : RTy) (j : Json) : D Json := do ser e t (← de e t j)

-- realise the unfolding lemmas of the fuel-indexed functions here, once: two importers that realise
-- them independently could not be imported together
theorem dePath_eq_def_realised : True := by
  have _h1 := @dePath.eq_def
  have _h2 := @deFlat.eq_def
  have _h3 := @serPath.eq_def
  trivial

end Serde
end GqlVerif
