import GqlVerif.Model.Gen.Keywords
/-!
Mirror of `codegen/shared.rs` (keyword escaping, rename annotation) and `normalization.rs`.
heck's case conversions are *parameters* of the model (`CaseFns`).
-/
namespace GqlVerif

structure CaseFns where
  snake : String → String
  camel : String → String     -- `to_upper_camel_case`

/-- classical binary search on a sorted array slice `[lo, hi)` -/
def bsearch (t : Array String) (x : String) (lo hi : Nat) : Option Nat :=
  if h : lo < hi then
    let mid := (lo + hi) / 2
    match t[mid]? with
    | none => none
    | some m =>
      if x == m then some mid
      else if x < m then bsearch t x lo mid
      else bsearch t x (mid + 1) hi
  else none
termination_by hi - lo

def binarySearch (t : List String) (x : String) : Option Nat :=
  bsearch t.toArray x 0 t.length

/-- `keyword_replace` over an arbitrary table -/
def keywordReplaceIn (t : List String) (x : String) : String :=
  match binarySearch t x with
  | some i => (t[i]?).getD x ++ "_"
  | none => x

def keywordReplace (x : String) : String := keywordReplaceIn Gen.keywordTable x

/-- `field_rename_annotation` -/
def fieldRename (graphqlName rustName : String) : Option String :=
  if graphqlName != rustName then some graphqlName else none

inductive Normalization where
  | none | rust
  deriving Repr, DecidableEq, Inhabited

namespace Normalization
def camelCase (n : Normalization) (cs : CaseFns) (s : String) : String :=
  match n with | .none => s | .rust => cs.camel s
def operation := @camelCase
def enumVariant := @camelCase
def enumName := @camelCase
def inputName := @camelCase
def scalarName := @camelCase
def fieldType (n : Normalization) (cs : CaseFns) (s : String) : String :=
  if s == "ID" || s.startsWith "__" then s else n.camelCase cs s
end Normalization

/-- `shared::enum_variant_ident`: the identifier of the variant generated for an enum value — normalized, then
    escaped like a keyword; `Other` is the name of the catch-all variant every generated enum has, so a value
    that would get this identifier is escaped the same way -/
def enumVariantIdent (n : Normalization) (cs : CaseFns) (v : String) : String :=
  let s := keywordReplace (n.enumVariant cs v)
  if s == "Other" then "Other_" else s

end GqlVerif
