import GqlVerif.Model.Rust
/-!
Generated string enums: the two hand-written impls are `match` tables.
`ser : variant identifier ↦ wire string`, `de : wire string ↦ variant identifier`, plus the
`Other(String)` fallback in both directions.
-/
namespace GqlVerif
namespace EnumSpec

inductive EVal where
  | variant (ident : String)
  | other (s : String)
  deriving Repr, DecidableEq

/-- `Deserialize`: first matching arm, else `Other(s)` -/
def deE (de : List (String × String)) (s : String) : EVal :=
  match de.find? (·.1 == s) with
  | some (_, ident) => .variant ident
  | none => .other s

/-- `Serialize`: the arm of the variant (first match, as a Rust `match`), `Other(s)` ↦ `s`;
    `none` if the value has no arm (cannot happen for a value of the enum type when every variant has an arm) -/
def serE (ser : List (String × String)) : EVal → Option String
  | .variant ident => (ser.find? (·.1 == ident)).map (·.2)
  | .other s => some s

def nodup : List String → Bool
  | [] => true
  | x :: xs => !xs.contains x && nodup xs

/-- what the emitted tables must satisfy (checked on the tables *extracted from the emitted impls*):
    variants = identifiers of the deserialize arms, pairwise distinct; wire strings pairwise distinct;
    the serialize table is the inverse of the deserialize table -/
def tablesWf (variants : List String) (ser de : List (String × String)) : Bool :=
  nodup (de.map (·.1)) && nodup (de.map (·.2)) && variants == de.map (·.2) &&
  ser == de.map (fun p => (p.2, p.1))

end EnumSpec
end GqlVerif
