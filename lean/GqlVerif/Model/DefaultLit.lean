import GqlVerif.Model.Codegen
/-!
Mirror of the default-value constructors of `codegen.rs` (`generate_variables_struct`, the closure building
`pub fn default_<name>() -> <type> { <literal> }`): `graphql_parser_value_to_literal`, `scalar_value_to_literal`,
`render_object_literal`, `box_if_recursive`.  `Codegen.literalOk` (in `Codegen.lean`) models only their panics; here
the emitted expression itself is modelled (`LitExpr`), with the same panics (`null` at a nullable position is `None`,
at a non-null position it panics; `stripRequired` / `valueIsNull` are defined next to `literalOk`)
(`Proofs/C04DefaultsLit.lean`: `valueToLiteral_ok_iff_literalOk`).

Shape of the recursion.  The Rust `graphql_parser_value_to_literal` recurses (a) into the elements of a list value,
(b) into the members of an object value, and (c) — list input coercion — on the *same* value with one list level
peeled off.  (a) and (b) descend into the value and consume one unit of fuel each, exactly like `literalOk`; (c) is a
loop over the qualifiers that ends in `scalar_value_to_literal` for every value that is not a list (a value that is
not a list never becomes one), so it is written as the structural recursion `singleInner` over the qualifier list,
around the one call of `scalar_value_to_literal`.  `literalInner` is the `let inner = match (qualifiers.first(), value)`
of the Rust function, `valueToLiteral` the whole function.
-/
namespace GqlVerif

/-- the Rust expression emitted as the body of a `default_<name>` function -/
inductive LitExpr where
  | bool (b : Bool)                                   -- `true` / `false`
  | str (s : String)                                  -- `"s".to_string()`
  | int (n : Int)                                     -- integer literal (`i64`)
  | float (tok : String)                              -- float literal (`f64`)
  | some (e : LitExpr)                                -- `Some(e)`
  | none                                              -- `None`
  | vec (es : List LitExpr)                           -- `vec![e, ..]`
  | box (e : LitExpr)                                 -- `Box::new(e)`
  | struct (name : String) (fields : List (String × LitExpr))   -- `Name { field: e, .. }` (Rust member identifiers)
  | path (enumName variant : String)                  -- `Enum::Variant`
  | variant (enumName variant : String) (e : LitExpr) -- `Enum::Variant(e)` (a `@oneOf` input)
  | ident (x : String)                                -- an enum literal at a type that is not an enum: the emitted token is the string literal `"x"` (`quote!(#en)` of a `String`; a `&str`, which type-checks at no type the generator emits)
  | compileError (msg : String)                       -- `compile_error!("msg")`
  deriving Repr, BEq, Inhabited

namespace LitExpr

mutual
  def toSexp : LitExpr → Sexp
    | .bool b => .list [.atom "bool", Sexp.mkBool b]
    | .str s => .list [.atom "str", .str s]
    | .int n => .list [.atom "int", Sexp.mkInt n]
    | .float t => .list [.atom "float", .str t]
    | .some e => .list [.atom "some", toSexp e]
    | .none => .list [.atom "none"]
    | .vec es => .list (.atom "vec" :: toSexpList es)
    | .box e => .list [.atom "box", toSexp e]
    | .struct n fs => .list (.atom "struct" :: .str n :: toSexpFields fs)
    | .path e v => .list [.atom "path", .str e, .str v]
    | .variant e v x => .list [.atom "variant", .str e, .str v, toSexp x]
    | .ident x => .list [.atom "ident", .str x]
    | .compileError m => .list [.atom "compile-error", .str m]
  def toSexpList : List LitExpr → List Sexp
    | [] => []
    | e :: es => toSexp e :: toSexpList es
  def toSexpFields : List (String × LitExpr) → List Sexp
    | [] => []
    | (n, e) :: fs => .list [.str n, toSexp e] :: toSexpFields fs
end

mutual
  /-- the expression contains a `compile_error!` -/
  def hasCompileError : LitExpr → Bool
    | .compileError _ => true
    | .some e => hasCompileError e
    | .box e => hasCompileError e
    | .variant _ _ e => hasCompileError e
    | .vec es => hasCompileErrorList es
    | .struct _ fs => hasCompileErrorFields fs
    | _ => false
  def hasCompileErrorList : List LitExpr → Bool
    | [] => false
    | e :: es => hasCompileError e || hasCompileErrorList es
  def hasCompileErrorFields : List (String × LitExpr) → Bool
    | [] => false
    | (_, e) :: fs => hasCompileError e || hasCompileErrorFields fs
end

end LitExpr

namespace Codegen

/-- `box_if_recursive`: fields whose type is a recursive input object are boxed (see `inputFieldType`) -/
def boxIfRecursive (c : Ctx) (value : LitExpr) (ty : TypeId) : LitExpr :=
  let boxed := match ty.asInput? with | some iid => inputIsRecursive c.s iid | none => false
  if boxed then .box value else value

/-- `if is_optional { quote!(Some(#inner)) } else { inner }` -/
def optWrap (isOptional : Bool) (inner : LitExpr) : LitExpr :=
  if isOptional then .some inner else inner

/-- `ty.as_scalar_id().map(|scalar_id| query.schema.get_scalar(scalar_id).name.as_str())` -/
def scalarNameOf (c : Ctx) (ty : TypeId) : Outcome (Option String) :=
  match ty.asScalar? with
  | some k => do pure (some (← c.s.getScalar k))
  | none => pure none

/-- `scalar_value_to_literal`, parametric in how an object literal is rendered (`render_object_literal` at the input
    type's id).  `Value::List` is `unreachable!` in the Rust function: the caller never passes one. -/
def scalarToLiteralWith (c : Ctx) (object : List (String × Value) → Nat → Outcome LitExpr)
    (value : Value) (ty : TypeId) : Outcome LitExpr := do
  -- evaluated first, for every value
  let scalarName ← scalarNameOf c ty
  match value with
  | .bool b => pure (.bool b)
  | .str s => pure (.str s)
  | .var _ => panic' "variable in variable"
  | .null => panic' "null as default value"
  | .float f => pure (.float f)
  | .int i =>
    -- an integer literal is a valid `Float` and a valid `ID`
    if scalarName == some "Float" then pure (.float (toString i))
    else if scalarName == some "ID" then pure (.str (toString i))
    else pure (.int i)
  | .enum en =>
    match ty.asEnum? with
    | some k => do
      let e ← c.s.getEnum k
      pure (.path (c.o.normalization.enumName c.cs e.name) (enumVariantIdent c.o.normalization c.cs en))
    | none => pure (.ident en)
  | .list _ => .error (.unmodelled "unreachable: lists are handled by the caller")
  | .obj kvs =>
    match ty.asInput? with
    | some iid => object kvs iid
    | none => pure (.compileError "Object literal on a non-input-object field.")

/-- the `filter_map` over the fields of a `@oneOf` input: one `Enum::Variant(value)` per member that is mentioned -/
def oneOfVariants (c : Ctx) (lit : Value → TypeId → List Qual → Outcome LitExpr) (constructor : String)
    (kvs : List (String × Value)) : List (String × FieldType) → Outcome (List LitExpr)
  | [] => pure []
  | (name, ty) :: rest =>
    match kvs.find? (·.1 == name) with
    | none => oneOfVariants c lit constructor kvs rest
    | some (_, value) => do
      let variant := keywordReplace (c.cs.camel name)
      -- the member is forced non-null, as in the definition of the enum (`inputItem`)
      let value ← lit value ty.id (.required :: ty.quals)
      let value := boxIfRecursive c value ty.id
      let more ← oneOfVariants c lit constructor kvs rest
      pure (.variant constructor variant value :: more)

/-- the `map` over the fields of a plain input object: every member, `None` for those not mentioned -/
def structFields (c : Ctx) (lit : Value → TypeId → List Qual → Outcome LitExpr)
    (kvs : List (String × Value)) : List (String × FieldType) → Outcome (List (String × LitExpr))
  | [] => pure []
  | (name, ty) :: rest => do
    let fieldName := keywordReplace (c.cs.snake name)
    let value ← match kvs.find? (·.1 == name) with
      | some (_, dv) => lit dv ty.id ty.quals
      | none => pure .none
    let value := boxIfRecursive c value ty.id
    let more ← structFields c lit kvs rest
    pure ((fieldName, value) :: more)

/-- `render_object_literal`, parametric in the recursive call (`graphql_parser_value_to_literal` on a member) -/
def objectLiteralWith (c : Ctx) (lit : Value → TypeId → List Qual → Outcome LitExpr)
    (kvs : List (String × Value)) (iid : Nat) : Outcome LitExpr := do
  let input ← c.s.getInput iid
  -- the same names as in the definition of the input type (`inputItem`)
  let constructor := keywordReplace (c.o.normalization.inputName c.cs input.name)
  if input.isOneOf then
    -- a `@oneOf` input is an enum: the literal is the variant of its (single) member
    let variants ← oneOfVariants c lit constructor kvs input.fields
    match variants with
    | [variant] => pure variant
    | _ => pure (.compileError "A @oneOf input object literal must have exactly one member.")
  else
    let fields ← structFields c lit kvs input.fields
    pure (.struct constructor fields)

/-- `inner` of `graphql_parser_value_to_literal` for a value that is not a list, around its literal `e` at the named
    type: the arm `(Some(List), single) => vec![<the same value, one list level down>]`, repeated until the arm
    `(_, value) => scalar_value_to_literal(..)`; between two list levels the recursive call strips a `Required` or
    wraps in `Some`.  (`Value::Variable` / `Value::Null` go to `scalar_value_to_literal` at once, which panics: the
    same panic as after peeling.) -/
def singleInner (e : LitExpr) : List Qual → LitExpr
  | .list :: .required :: rest => .vec [singleInner e rest]
  | .list :: rest => .vec [.some (singleInner e rest)]
  | _ => e

/-- the `let inner = match (qualifiers.first(), value) { .. }` of `graphql_parser_value_to_literal`; `quals` are the
    qualifiers after `Required` has been stripped.  Fuel: nesting of the value (as `literalOk`). -/
def literalInner (c : Ctx) : Nat → Value → TypeId → List Qual → Outcome LitExpr
  | 0, _, _, _ => .error (.unmodelled "literal fuel")
  | fuel+1, value, ty, quals =>
    -- `graphql_parser_value_to_literal` on an element / a member
    let lit (v : Value) (t : TypeId) (qs : List Qual) : Outcome LitExpr :=
      -- `null` is a valid default wherever the type is nullable
      if (stripRequired qs).1 && valueIsNull v then pure .none else
      (optWrap (stripRequired qs).1) <$> literalInner c fuel v t (stripRequired qs).2
    match quals, value with
    | .list :: rest, .list elements =>
      LitExpr.vec <$> elements.mapM (fun element => lit element ty rest)
    | _, .list elements =>
      -- not a valid default value; the elements are still visited (they may be invalid too)
      LitExpr.vec <$> elements.mapM (fun element => lit element ty [])
    | quals, single =>
      -- `(Some(List), single)` as often as there are list levels, then `(_, value)`
      (fun e => singleInner e quals) <$> scalarToLiteralWith c (objectLiteralWith c lit) single ty

/-- `graphql_parser_value_to_literal`: the literal for `value` at the type `ty` with the given qualifiers (the
    outermost one first) -/
def valueToLiteral (c : Ctx) (fuel : Nat) (value : Value) (ty : TypeId) (quals : List Qual) : Outcome LitExpr :=
  -- `if is_optional && matches!(value, Value::Null) { return quote!(None); }`: `null` is a valid default wherever the
  -- type is nullable (checked right after `is_optional` is computed, before anything else)
  if (stripRequired quals).1 && valueIsNull value then pure .none else
  (optWrap (stripRequired quals).1) <$> literalInner c fuel value ty (stripRequired quals).2

/-- `render_object_literal` (members are visited with `fuel`) -/
def objectLiteral (c : Ctx) (fuel : Nat) (kvs : List (String × Value)) (iid : Nat) : Outcome LitExpr :=
  objectLiteralWith c (valueToLiteral c fuel) kvs iid

/-- `scalar_value_to_literal` (the members of an object value are visited with `fuel`) -/
def scalarToLiteral (c : Ctx) (fuel : Nat) (value : Value) (ty : TypeId) : Outcome LitExpr :=
  scalarToLiteralWith c (objectLiteral c fuel) value ty

/-- the bodies of the `default_<name>` functions of `impl Variables`: one per variable of the operation that has a
    default value, in declaration order (`variablesItems` emits the same names with the return types: `.defaults`);
    the same fuel as `variablesItems` gives `literalOk` -/
def defaultBodies (c : Ctx) (op : Nat) : Outcome (List (String × LitExpr)) :=
  (c.q.opVariables op).filterMapM fun v =>
    match v.default with
    | none => pure none
    | some d => do
      let e ← valueToLiteral c 64 d v.ty.id v.ty.quals
      pure (some ("default_" ++ v.name, e))

/-- the `default_*` bodies of every module `generate` emits, in the order of the modules; fails exactly as `generate`
    does (the operation selection is that of `generate`) -/
def generateDefaults (s : Schema) (cs : CaseFns) (o : Options) (queryText : String) (doc : QDoc) :
    Outcome (List (List (String × LitExpr))) := do
  let _ ← generate s cs o queryText doc
  let q ← Resolve.resolve s doc
  let c : Ctx := { s, q, o, cs }
  let selected := o.operationName.bind (selectOperation c)
  let ops : List Nat := match selected with
    | some i => [i]
    | none => List.range q.operations.length
  ops.mapM (defaultBodies c)

def defaultsSexp (bodies : List (String × LitExpr)) : List Sexp :=
  bodies.map fun (n, e) => .list [.str n, e.toSexp]

end Codegen
end GqlVerif
