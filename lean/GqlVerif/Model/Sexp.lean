/-!
S-expressions: the wire format between the Rust harness and the Lean model driver.
One expression per line.  Atoms are bare words, strings are double-quoted with the
escapes `\\ \" \n \r \t`; everything else is passed through as is (UTF-8).
-/
namespace GqlVerif

inductive Sexp where
  | atom (s : String)
  | str (s : String)
  | list (xs : List Sexp)
  deriving Repr, Inhabited, BEq

namespace Sexp

def escapeChars : List Char → List Char
  | [] => []
  | '\\' :: cs => '\\' :: '\\' :: escapeChars cs
  | '"' :: cs => '\\' :: '"' :: escapeChars cs
  | '\n' :: cs => '\\' :: 'n' :: escapeChars cs
  | '\r' :: cs => '\\' :: 'r' :: escapeChars cs
  | '\t' :: cs => '\\' :: 't' :: escapeChars cs
  | c :: cs => c :: escapeChars cs

def quote (s : String) : String := "\"" ++ String.ofList (escapeChars s.toList) ++ "\""

mutual
  partial def render : Sexp → String
    | atom s => s
    | str s => quote s
    | list xs => "(" ++ renderList xs ++ ")"
  partial def renderList : List Sexp → String
    | [] => ""
    | [x] => render x
    | x :: xs => render x ++ " " ++ renderList xs
end

instance : ToString Sexp := ⟨render⟩

def isDelim (c : Char) : Bool := c == '(' || c == ')' || c == '"' || c == ' ' || c == '\n' || c == '\r' || c == '\t'

/-- read a string body after the opening quote; returns (string, rest after closing quote) -/
def readStr : List Char → List Char → Option (String × List Char)
  | [], _ => none
  | '"' :: cs, acc => some (String.ofList acc.reverse, cs)
  | '\\' :: 'n' :: cs, acc => readStr cs ('\n' :: acc)
  | '\\' :: 'r' :: cs, acc => readStr cs ('\r' :: acc)
  | '\\' :: 't' :: cs, acc => readStr cs ('\t' :: acc)
  | '\\' :: c :: cs, acc => readStr cs (c :: acc)
  | c :: cs, acc => readStr cs (c :: acc)

def readAtom : List Char → List Char → (String × List Char)
  | [], acc => (String.ofList acc.reverse, [])
  | c :: cs, acc => if isDelim c then (String.ofList acc.reverse, c :: cs) else readAtom cs (c :: acc)

/-- Parser with an explicit stack of open lists (total, structurally recursive on fuel = input length). -/
partial def parseAux : List Char → List (List Sexp) → Option Sexp
  | [], [[x]] => some x
  | [], _ => none
  | c :: cs, stack =>
    if c == ' ' || c == '\n' || c == '\r' || c == '\t' then parseAux cs stack
    else if c == '(' then parseAux cs ([] :: stack)
    else if c == ')' then
      match stack with
      | top :: next :: rest => parseAux cs ((list top.reverse :: next) :: rest)
      | _ => none
    else if c == '"' then
      match readStr cs [] with
      | some (s, rest) =>
        match stack with
        | top :: more => parseAux rest ((str s :: top) :: more)
        | [] => none
      | none => none
    else
      let (a, rest) := readAtom (c :: cs) []
      match stack with
      | top :: more => parseAux rest ((atom a :: top) :: more)
      | [] => none

def parse (s : String) : Option Sexp := parseAux s.toList [[]]

def mkNat (n : Nat) : Sexp := atom (toString n)
def mkInt (n : Int) : Sexp := atom (toString n)
def mkBool (b : Bool) : Sexp := atom (if b then "true" else "false")
def tagged (tag : String) (xs : List Sexp) : Sexp := list (atom tag :: xs)

def asStr? : Sexp → Option String
  | str s => some s
  | atom s => some s
  | _ => none

def asNat? : Sexp → Option Nat
  | atom s => s.toNat?
  | _ => none

def asInt? : Sexp → Option Int
  | atom s => s.toInt?
  | _ => none

def asBool? : Sexp → Option Bool
  | atom "true" => some true
  | atom "false" => some false
  | _ => none

def asList? : Sexp → Option (List Sexp)
  | list xs => some xs
  | _ => none

end Sexp
end GqlVerif
