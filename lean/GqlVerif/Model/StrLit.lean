/-!
# Rust string-literal tokens: `proc_macro2`'s printer and rustc's un-escaper (property C05, the `QUERY` constant)

`pub const QUERY: &str = #query_string;` — `quote!` turns the `String` into a string-literal token
(`proc_macro2::Literal::string`), the token is printed, and rustc's lexer un-escapes it again when the consumer
crate is compiled.  This file models both directions over `List Char`:

* `unescape`  — rustc: the content of a cooked (non-raw) string literal, between the quotes ↦ its value
  (`rustc_lexer` / `rustc-literal-escaper`, `Mode::Str`; reference "String literals"; `syn::lit::parse_lit_str_cooked`
  is the same machine except for the one divergence noted at `St.bsCr`);
* `escapeWith p` — proc_macro2 1.0.93 `fallback.rs`, `escape_utf8` (called by `Literal::string`), with
  `char::escape_debug`'s Unicode tables abstracted as the parameter `p` ("`escape_debug` writes `c` as `\u{hex}`":
  `Grapheme_Extend` or not printable);
  `escapeRustcWith p` — rustc's own `proc_macro::Literal::string` (`library/proc_macro/src/escape.rs`,
  `escape_single_char`): the same without the `\0`-before-octal-digit rule;
* `IsEscapeOf lit s` — the table-free, decidable relation "`lit` spells `s` character by character" that the harness
  evaluates on the token that was actually emitted;
* `litValue tok` — a whole token text (`"…"`, `r"…"`, `r#"…"#`, …) ↦ the value of the literal;
* `check tok src` — the verdict of the driver request `(strlit tok src)`.

Everything is structurally recursive (kernel-evaluable), core-only.
-/
namespace GqlVerif
namespace StrLit

/-! ## hexadecimal digits -/

/-- value of a hexadecimal digit (both cases, as rustc and syn accept) -/
def hexVal? (c : Char) : Option Nat :=
  let n := c.toNat
  if 48 ≤ n ∧ n ≤ 57 then some (n - 48)          -- '0'..'9'
  else if 97 ≤ n ∧ n ≤ 102 then some (n - 87)    -- 'a'..'f'
  else if 65 ≤ n ∧ n ≤ 70 then some (n - 55)     -- 'A'..'F'
  else none

/-- the lower-case digit `core::fmt` / `EscapeUnicode` prints for a nibble -/
def hexDigit (d : Nat) : Char := Char.ofNat (if d < 10 then 48 + d else 87 + d)

/-- the `k` least significant nibbles of `n`, most significant first -/
def hexFixed : Nat → Nat → List Char
  | 0, _ => []
  | k + 1, n => hexDigit (n / 16 ^ k % 16) :: hexFixed k n

/-- number of hex digits of `n` beyond the first (`n < 16^6`; `EscapeUnicode` computes it from the leading zeros
    of `c | 1`) -/
def hexMore (n : Nat) : Nat :=
  if n < 0x10 then 0 else if n < 0x100 then 1 else if n < 0x1000 then 2 else if n < 0x10000 then 3
  else if n < 0x100000 then 4 else 5

/-- `{:x}` of a code point: lower-case, no leading zeros, at least one digit (`\u{301}`) -/
def hexOf (n : Nat) : List Char := hexFixed (hexMore n + 1) n

/-! ## rustc: un-escaping the content of a cooked string literal

A character-at-a-time machine (each step consumes exactly one character of the literal), so that the function is
structurally recursive.  The input is the SOURCE text between the quotes, i.e. before rustc's CRLF → LF
normalization of the source file (`rustc_span::normalize_src`); the machine performs that normalization itself
(states `cr`, `bsCr`), exactly as `syn`'s `parse_lit_str_cooked` does. -/

inductive St where
  /-- between two characters of the literal -/
  | normal
  /-- after a raw CR: an LF must follow (CRLF is normalized to LF, a bare CR is an error) -/
  | cr
  /-- after `\` -/
  | bs
  /-- after `\` CR: an LF must follow (`\` CRLF is `\` LF after normalization — a line continuation; `\` + bare CR
      is rustc's "unknown character escape: `\r`".  NB `syn` accepts `\` + bare CR as a continuation.) -/
  | bsCr
  /-- line continuation: skipping ` `, `\t`, `\n`, `\r` (`skip_ascii_whitespace`) -/
  | skip
  /-- after `\x` -/
  | x1
  /-- after `\x` and the first digit (value `hi ≤ 7`) -/
  | x2 (hi : Nat)
  /-- after `\u` -/
  | u0
  /-- after `\u{`: a hex digit must follow (`_` is not allowed first) -/
  | u1
  /-- after `\u{` and `nd ≥ 1` hex digits with value `acc` (underscores skipped) -/
  | un (acc nd : Nat)
  deriving Repr, DecidableEq

/-- a character met between escapes -/
def normalStep (c : Char) : Option (St × Option Char) :=
  if c = '"' then none                       -- a raw quote ends the literal: not literal content
  else if c = '\\' then some (.bs, none)
  else if c = '\r' then some (.cr, none)
  else some (.normal, some c)

/-- one character: the next state and the character added to the value (if any); `none` = rustc rejects -/
def step : St → Char → Option (St × Option Char)
  | .normal, c => normalStep c
  | .cr, c => if c = '\n' then some (.normal, some '\n') else none
  | .bs, c =>
    if c = 'n' then some (.normal, some '\n')
    else if c = 'r' then some (.normal, some '\r')
    else if c = 't' then some (.normal, some '\t')
    else if c = '\\' then some (.normal, some '\\')
    else if c = '0' then some (.normal, some '\x00')
    else if c = '\'' then some (.normal, some '\'')
    else if c = '"' then some (.normal, some '"')
    else if c = 'x' then some (.x1, none)
    else if c = 'u' then some (.u0, none)
    else if c = '\n' then some (.skip, none)
    else if c = '\r' then some (.bsCr, none)
    else none                                  -- unknown character escape
  | .bsCr, c => if c = '\n' then some (.skip, none) else none
  | .skip, c =>
    if c = ' ' ∨ c = '\t' ∨ c = '\n' ∨ c = '\r' then some (.skip, none) else normalStep c
  | .x1, c =>
    match hexVal? c with
    | some h => if h ≤ 7 then some (.x2 h, none) else none     -- out of range hex escape
    | none => none
  | .x2 hi, c =>
    match hexVal? c with
    | some l => some (.normal, some (Char.ofNat (hi * 16 + l)))
    | none => none
  | .u0, c => if c = '{' then some (.u1, none) else none
  | .u1, c =>
    match hexVal? c with
    | some h => some (.un h 1, none)
    | none => none                              -- empty escape, leading `_`, anything else
  | .un acc nd, c =>
    if c = '}' then (if acc.isValidChar then some (.normal, some (Char.ofNat acc)) else none)
    else if c = '_' then some (.un acc nd, none)
    else match hexVal? c with
      | some h => if nd < 6 then some (.un (acc * 16 + h) (nd + 1), none) else none   -- overlong
      | none => none

/-- may the literal end in this state? (not inside an escape, not after a raw CR) -/
def St.final : St → Bool
  | .normal => true
  | .skip => true
  | _ => false

def emit : Option Char → List Char → List Char
  | none, l => l
  | some c, l => c :: l

def run : St → List Char → Option (List Char)
  | st, [] => if st.final then some [] else none
  | st, c :: cs =>
    match step st c with
    | none => none
    | some (st', out) => (run st' cs).map (emit out)

/-- the value of the cooked string literal whose content (between the quotes) is `lit`; `none` = rustc rejects
    (unknown escape, `\x80`…, malformed / out-of-range `\u{…}`, a raw `"`, a lone trailing `\`, a bare CR) -/
def unescape (lit : List Char) : Option (List Char) := run .normal lit

/-! ## the printers -/

/-- `char::escape_debug` (`EscapeDebugExtArgs::ESCAPE_ALL`), `p c` = "`c` is `Grapheme_Extend` or not printable" -/
def escapeDebug (p : Char → Bool) (c : Char) : List Char :=
  if c = '\x00' then ['\\', '0']
  else if c = '\t' then ['\\', 't']
  else if c = '\r' then ['\\', 'r']
  else if c = '\n' then ['\\', 'n']
  else if c = '\\' then ['\\', '\\']
  else if c = '"' then ['\\', '"']
  else if c = '\'' then ['\\', '\'']
  else if p c then '\\' :: 'u' :: '{' :: (hexOf c.toNat ++ ['}'])
  else [c]

/-- is the next character of the SOURCE string an octal digit? (`chars.as_str().starts_with(|next| '0' <= next && next <= '7')`) -/
def octalNext : List Char → Bool
  | [] => false
  | d :: _ => decide (48 ≤ d.toNat ∧ d.toNat ≤ 55)

/-- one iteration of proc_macro2's `escape_utf8` loop -/
def escChar (p : Char → Bool) (c : Char) (oct : Bool) : List Char :=
  if c = '\x00' then (if oct then ['\\', 'x', '0', '0'] else ['\\', '0'])
  else if c = '\'' then ['\'']
  else escapeDebug p c

/-- proc_macro2 `fallback.rs`, `escape_utf8` -/
def escapeWith (p : Char → Bool) : List Char → List Char
  | [] => []
  | c :: cs => escChar p c (octalNext cs) ++ escapeWith p cs

/-- `proc_macro2::Literal::string(s).to_string()` (fallback printer) -/
def stringToken (p : Char → Bool) (s : List Char) : List Char := '"' :: (escapeWith p s ++ ['"'])

/-- rustc's `proc_macro::Literal::string` (`escape_bytes` on valid UTF-8, `escape_single_quote: false,
    escape_double_quote: true`): `'` raw, everything else `escape_debug` — NUL is always `\0` -/
def escapeRustcWith (p : Char → Bool) : List Char → List Char
  | [] => []
  | c :: cs => (if c = '\'' then ['\''] else escapeDebug p c) ++ escapeRustcWith p cs

def stringTokenRustc (p : Char → Bool) (s : List Char) : List Char := '"' :: (escapeRustcWith p s ++ ['"'])

/-! ## the table-free relation "`lit` spells `s`" -/

/-- the rest of `\u{H…}` after the first digit: value so far `acc`, `nd` digits read; returns the value and the
    text after `}` -/
def scanU : List Char → Nat → Nat → Option (Nat × List Char)
  | [], _, _ => none
  | c :: cs, acc, nd =>
    if c = '}' then some (acc, cs)
    else if c = '_' then scanU cs acc nd
    else match hexVal? c with
      | some h => if nd < 6 then scanU cs (acc * 16 + h) (nd + 1) else none
      | none => none

/-- `lit` = `\e…` is an escape spelling `c`: the text after it -/
def matchEscape (c : Char) (e : Char) (r : List Char) : Option (List Char) :=
  if e = 'n' then (if c = '\n' then some r else none)
  else if e = 'r' then (if c = '\r' then some r else none)
  else if e = 't' then (if c = '\t' then some r else none)
  else if e = '\\' then (if c = '\\' then some r else none)
  else if e = '0' then (if c = '\x00' then some r else none)
  else if e = '\'' then (if c = '\'' then some r else none)
  else if e = '"' then (if c = '"' then some r else none)
  else if e = 'x' then
    match r with
    | h :: l :: r' =>
      match hexVal? h, hexVal? l with
      | some hv, some lv => if hv ≤ 7 ∧ c.toNat = hv * 16 + lv then some r' else none
      | _, _ => none
    | _ => none
  else if e = 'u' then
    match r with
    | b :: d :: r' =>
      if b = '{' then
        match hexVal? d with
        | some h =>
          match scanU r' h 1 with
          | some (v, rest) => if v = c.toNat then some rest else none
          | none => none
        | none => none
      else none
    | _ => none
  else none

/-- `lit` begins with one spelling of `c` (raw — only if `c` is none of `"`, `\`, CR —, a fixed escape, `\xHH`,
    `\u{…}`): the text after it -/
def matchChar (c : Char) : List Char → Option (List Char)
  | [] => none
  | d :: r =>
    if d = '\\' then
      match r with
      | [] => none
      | e :: r' => matchEscape c e r'
    else if d = '"' ∨ d = '\r' then none
    else if d = c then some r
    else none

/-- `lit` (literal content between the quotes) spells `s`: every character of `s`, in order, raw or by one of its
    legal escapes; no line continuations, no raw CR.  Independent of any Unicode table. -/
def IsEscapeOf : List Char → List Char → Bool
  | lit, [] => lit.isEmpty
  | lit, c :: cs =>
    match matchChar c lit with
    | some r => IsEscapeOf r cs
    | none => false

/-! ## whole tokens -/

/-- strip leading `#`s -/
def countHashes : List Char → Nat × List Char
  | [] => (0, [])
  | c :: cs => if c = '#' then let (n, r) := countHashes cs; (n + 1, r) else (0, c :: cs)

/-- `cs` = exactly `n` `#`s followed by `rest` -/
def stripHashes : Nat → List Char → Option (List Char)
  | 0, cs => some cs
  | _ + 1, [] => none
  | n + 1, c :: cs => if c = '#' then stripHashes n cs else none

/-- the body of a raw string after the opening quote, `n` hashes: no escapes; the first `"` followed by `n` `#`s
    closes the literal and must end the token; CRLF → LF, a bare CR is an error ("bare CR not allowed in raw
    string") -/
def rawBody (n : Nat) : List Char → Option (List Char)
  | [] => none
  | c :: cs =>
    if c = '"' then
      match stripHashes n cs with
      | some rest => if rest.isEmpty then some [] else none
      | none => (rawBody n cs).map ('"' :: ·)
    else if c = '\r' then
      -- CRLF: the CR is dropped (the LF is the next character of the value); a bare CR is an error
      (if cs.head? = some '\n' then rawBody n cs else none)
    else (rawBody n cs).map (c :: ·)

/-- the content of a cooked token `"…"` (between the first and the last character, which must be quotes) -/
def cookedContent (tok : List Char) : Option (List Char) :=
  match tok with
  | [] => none
  | c :: rest => if c = '"' ∧ rest.getLast? = some '"' then some rest.dropLast else none

def isRawToken (tok : List Char) : Bool :=
  match tok with
  | c :: _ => c = 'r'
  | [] => false

/-- the `&str` value rustc gives a string-literal token text (cooked or raw; no suffix, nothing around it) -/
def litValue (tok : List Char) : Option (List Char) :=
  match tok with
  | [] => none
  | c :: rest =>
    if c = '"' then
      (if rest.getLast? = some '"' then unescape rest.dropLast else none)
    else if c = 'r' then
      let (n, r) := countHashes rest
      if n ≤ 255 then
        match r with
        | q :: body => if q = '"' then rawBody n body else none
        | [] => none
      else none
    else none

/-! ## the driver's verdict -/

inductive Verdict where
  | ok
  /-- the token is a string literal with another value -/
  | value (v : List Char)
  /-- rustc would not accept the token as a string literal -/
  | rejected (why : String)
  /-- right value, but a cooked literal that `IsEscapeOf` does not accept (line continuation / raw CRLF) -/
  | spelling
  deriving Repr, DecidableEq

def check (tok src : List Char) : Verdict :=
  match litValue tok with
  | none =>
    .rejected (if isRawToken tok then "not a well-formed raw string literal"
               else match cookedContent tok with
                 | some _ => "the literal content is rejected by unescape"
                 | none => "not a string literal token")
  | some v =>
    if v = src then
      (if isRawToken tok then .ok
       else match cookedContent tok with
         | some lit => if IsEscapeOf lit src then .ok else .spelling
         | none => .spelling)
    else .value v

end StrLit
end GqlVerif
