import GqlVerif.Model.Json
/-!
# Model of `graphql_client/src/lib.rs`: `Response<Data>`, `Error`, `Location`, `PathFragment`, `QueryBody`

What is modelled is what serde's derives (serde 1.0.217, serde_json 1.0.138, no field attributes except
`rename = "operationName"` and `#[serde(untagged)]` on `PathFragment`) do for exactly these types when the
source is a `serde_json::Value` (`GqlVerif.Json`: integers exact, other numbers opaque tokens):

* a derived struct accepts a JSON **object** (`visit_map`: every known key at most once, otherwise
  `duplicate field`; unknown keys skipped with `IgnoredAny`; a missing `Option` member is `None`, a missing
  non-`Option` member is `missing field`) **or** a JSON **array** of exactly as many elements as the struct
  has fields (`visit_seq`; too few: `invalid length`, too many: serde_json's "fewer elements in array");
* `Option<T>`: `null` → `None`, anything else → `Some (T::deserialize ..)` (an error of `T` is an error);
* `String`: JSON strings only; `i32`: JSON integers within the i32 range only (floats, even `1.0`, are
  `invalid type`); `Vec<T>`: arrays only; `HashMap<String, Value>` / `serde_json::Map`: objects only, last
  entry wins on a repeated key (`Json.normObj`);
* `#[serde(untagged)] enum PathFragment { Key(String), Index(i32) }`: the content is buffered, `Key` is tried
  first, then `Index`; if neither matches: "data did not match any variant";
* derived `Serialize` of a struct: one member per field, in declaration order, `None` → explicit `null` (no
  `skip_serializing_if` anywhere in these types);
* `impl Display for Error` / `PathFragment` (lib.rs:122-129, :210-238, after the `join("/")` repair).

Results are `Option` (`some` = `Ok`, `none` = `Err`): error texts are not part of the property.
A Rust map value (`HashMap`, `serde_json::Map`) is represented by the list of its entries in *some* iteration
order; keys are distinct (`distinctKeys`).  Serialisation emits the entries in that order, deserialisation of
an object with distinct keys keeps the order, so round trips are stated with literal equality (which implies
equality up to order for every choice of representative).
-/
namespace GqlVerif
namespace Envelope

/-- entries of a JSON object / of a Rust string-keyed map -/
abbrev JMap := List (String × Json)

/-! ## the Rust types -/

/-- `pub struct Location { pub line: i32, pub column: i32 }` -/
structure Location where
  line : Int
  column : Int
  deriving Repr, BEq, DecidableEq, Inhabited

/-- `#[serde(untagged)] pub enum PathFragment { Key(String), Index(i32) }` -/
inductive PathFragment where
  | key (s : String)
  | index (n : Int)
  deriving Repr, BEq, DecidableEq, Inhabited

/-- `pub struct Error { message: String, locations: Option<Vec<Location>>, path: Option<Vec<PathFragment>>,
    extensions: Option<HashMap<String, serde_json::Value>> }` -/
structure Error where
  message : String
  locations : Option (List Location)
  path : Option (List PathFragment)
  extensions : Option JMap
  deriving Repr, Inhabited

/-- `pub struct Response<Data> { data: Option<Data>, errors: Option<Vec<Error>>,
    extensions: Option<HashMap<String, serde_json::Value>> }` -/
structure Response (δ : Type) where
  data : Option δ
  errors : Option (List Error)
  extensions : Option JMap
  deriving Repr, Inhabited

/-- `pub struct QueryBody<Variables> { variables, query: &'static str, #[serde(rename = "operationName")] operation_name }`;
    `Variables` is represented by what it serialises to. -/
structure QueryBody where
  variables : Json
  query : String
  operationName : String
  deriving Repr, Inhabited

/-! ## value well-formedness: what the Rust types guarantee -/

def i32Min : Int := -2147483648
def i32Max : Int := 2147483647

/-- the value fits an `i32` -/
def inI32 (n : Int) : Bool := decide (i32Min ≤ n) && decide (n ≤ i32Max)

def hasKey (k : String) : JMap → Bool
  | [] => false
  | (k', _) :: rest => k' == k || hasKey k rest

/-- a map has every key once -/
def distinctKeys : JMap → Bool
  | [] => true
  | (k, _) :: rest => !hasKey k rest && distinctKeys rest

def Location.wf (l : Location) : Bool := inI32 l.line && inI32 l.column

def PathFragment.wf : PathFragment → Bool
  | .key _ => true
  | .index n => inI32 n

def optAll (p : α → Bool) : Option α → Bool
  | none => true
  | some a => p a

def Error.wf (e : Error) : Bool :=
  optAll (fun ls => ls.all Location.wf) e.locations &&
  optAll (fun fs => fs.all PathFragment.wf) e.path &&
  optAll distinctKeys e.extensions

def Response.wf (wfData : δ → Bool) (r : Response δ) : Bool :=
  optAll wfData r.data && optAll (fun es => es.all Error.wf) r.errors && optAll distinctKeys r.extensions

/-! ## serde building blocks -/

def isNull : Json → Bool
  | .null => true
  | _ => false

/-- `Vec<T>`'s visitor: element by element, the first error aborts -/
def mapOpt (f : α → Option β) : List α → Option (List β)
  | [] => some []
  | x :: xs =>
    match f x with
    | none => none
    | some y =>
      match mapOpt f xs with
      | none => none
      | some ys => some (y :: ys)

/-- all values an object carries under key `k`, in order -/
def occurrences (k : String) (kvs : JMap) : List Json :=
  (kvs.filter (fun kv => kv.1 == k)).map (·.2)

/-- The derived `visit_map` loop, seen from one field: `some none` = key never seen (slot still `None`
    at the end of the loop), `some (some v)` = seen once, `none` = seen twice (`duplicate field`).
    (The real loop deserialises the value when it meets the key; only `Ok`/`Err` and the `Ok` value are
    observable, and those do not depend on the order in which members are visited.) -/
def field (k : String) (kvs : JMap) : Option (Option Json) :=
  match occurrences k kvs with
  | [] => some none
  | [v] => some (some v)
  | _ => none

/-- `<Option<T> as Deserialize>`: `visit_none` on null, `visit_some` otherwise -/
def deOpt (f : Json → Option α) (j : Json) : Option (Option α) :=
  if isNull j then some none else (f j).map some

/-- a struct member of type `Option<T>`: absent → `None` (serde's `missing_field` for `Option`) -/
def deOptField (f : Json → Option α) : Option Json → Option (Option α)
  | none => some none
  | some j => deOpt f j

/-- an `Option<T>` member of an object-shaped struct -/
def optMember (f : Json → Option α) (k : String) (kvs : JMap) : Option (Option α) :=
  match field k kvs with
  | none => none
  | some slot => deOptField f slot

/-- a non-`Option` member of an object-shaped struct: absent → `missing field` -/
def reqMember (f : Json → Option α) (k : String) (kvs : JMap) : Option α :=
  match field k kvs with
  | some (some v) => f v
  | _ => none

def deString : Json → Option String
  | .str s => some s
  | _ => none

def deI32 : Json → Option Int
  | .int n => if inI32 n then some n else none
  | _ => none

def deVec (f : Json → Option α) : Json → Option (List α)
  | .arr xs => mapOpt f xs
  | _ => none

/-- `HashMap<String, Value>` and `serde_json::Map<String, Value>`: objects only; `Value`s are kept as they are -/
def deMap : Json → Option JMap
  | .obj kvs => some (Json.normObj kvs)
  | _ => none

/-! ## deserialisation of the envelope types -/

def deLocation : Json → Option Location
  | .obj kvs =>
    match reqMember deI32 "line" kvs, reqMember deI32 "column" kvs with
    | some l, some c => some { line := l, column := c }
    | _, _ => none
  | .arr [l, c] =>
    match deI32 l, deI32 c with
    | some l, some c => some { line := l, column := c }
    | _, _ => none
  | _ => none

/-- untagged: `Key(String)` first, then `Index(i32)` -/
def dePathFragment (j : Json) : Option PathFragment :=
  match deString j with
  | some s => some (.key s)
  | none =>
    match deI32 j with
    | some n => some (.index n)
    | none => none

def deError : Json → Option Error
  | .obj kvs =>
    match reqMember deString "message" kvs, optMember (deVec deLocation) "locations" kvs,
          optMember (deVec dePathFragment) "path" kvs, optMember deMap "extensions" kvs with
    | some m, some l, some p, some e => some { message := m, locations := l, path := p, extensions := e }
    | _, _, _, _ => none
  | .arr [m, l, p, e] =>
    match deString m, deOpt (deVec deLocation) l, deOpt (deVec dePathFragment) p, deOpt deMap e with
    | some m, some l, some p, some e => some { message := m, locations := l, path := p, extensions := e }
    | _, _, _, _ => none
  | _ => none

/-- `Response<Data>` for any `Data` with deserialiser `deData` -/
def deResponse (deData : Json → Option δ) : Json → Option (Response δ)
  | .obj kvs =>
    match optMember deData "data" kvs, optMember (deVec deError) "errors" kvs, optMember deMap "extensions" kvs with
    | some d, some e, some x => some { data := d, errors := e, extensions := x }
    | _, _, _ => none
  | .arr [d, e, x] =>
    match deOpt deData d, deOpt (deVec deError) e, deOpt deMap x with
    | some d, some e, some x => some { data := d, errors := e, extensions := x }
    | _, _, _ => none
  | _ => none

/-- `Response<serde_json::Map<String, Value>>`: `Data` = any JSON object -/
def deResponseObj : Json → Option (Response JMap) := deResponse deMap

/-! ## serialisation -/

/-- `Option<T>`: `None` is written as an explicit `null` -/
def serOpt (f : α → Json) : Option α → Json
  | none => .null
  | some a => f a

def serLocation (l : Location) : Json := .obj [("line", .int l.line), ("column", .int l.column)]

def serPathFragment : PathFragment → Json
  | .key s => .str s
  | .index n => .int n

def serError (e : Error) : Json :=
  .obj [("message", .str e.message),
        ("locations", serOpt (fun ls => .arr (ls.map serLocation)) e.locations),
        ("path", serOpt (fun fs => .arr (fs.map serPathFragment)) e.path),
        ("extensions", serOpt .obj e.extensions)]

def serResponse (serData : δ → Json) (r : Response δ) : Json :=
  .obj [("data", serOpt serData r.data),
        ("errors", serOpt (fun es => .arr (es.map serError)) r.errors),
        ("extensions", serOpt .obj r.extensions)]

def serResponseObj : Response JMap → Json := serResponse .obj

def serQueryBody (q : QueryBody) : Json :=
  .obj [("variables", q.variables), ("query", .str q.query), ("operationName", .str q.operationName)]

/-! ## Display -/

def digitChar : Nat → Char
  | 0 => '0' | 1 => '1' | 2 => '2' | 3 => '3' | 4 => '4'
  | 5 => '5' | 6 => '6' | 7 => '7' | 8 => '8' | _ => '9'

/-- decimal digits of a natural number, most significant first, no leading zero -/
def natDigits (n : Nat) : List Char :=
  if n < 10 then [digitChar n] else natDigits (n / 10) ++ [digitChar (n % 10)]
termination_by n
decreasing_by omega

/-- `impl Display for i32` -/
def decimal : Int → String
  | .ofNat n => String.ofList (natDigits n)
  | .negSucc n => "-" ++ String.ofList (natDigits (n + 1))

/-- `[String]::join(sep)` -/
def joinWith (sep : String) : List String → String
  | [] => ""
  | [x] => x
  | x :: y :: rest => x ++ sep ++ joinWith sep (y :: rest)

/-- `impl Display for PathFragment` -/
def PathFragment.display : PathFragment → String
  | .key s => s
  | .index n => decimal n

/-- `impl Display for Error`: the path joined with `/` (`<query>` when there is no path; an empty path
    vector prints the empty string), the first location (`Location::default()` = 0:0 when there is none
    or the list is empty), then the message. -/
def Error.display (e : Error) : String :=
  let path :=
    match e.path with
    | some fragments => joinWith "/" (fragments.map PathFragment.display)
    | none => "<query>"
  let loc : Location :=
    match e.locations with
    | some (l :: _) => l
    | _ => { line := 0, column := 0 }
  path ++ ":" ++ decimal loc.line ++ ":" ++ decimal loc.column ++ ": " ++ e.message

end Envelope
end GqlVerif
