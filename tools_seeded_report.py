#!/usr/bin/env python3
"""Markdown table of the seeded changes and what the checks report on them (for DESIGN.md §10.5);
also copies the latest check result into each seeded/<id>/meta.json.
usage: tools_seeded_report.py [--write-design]"""
import json, os, re, sys

root = "/verif/seeded"
res = json.load(open(os.path.join(root, "RESULTS.json")))
rows = []
for d in sorted(os.listdir(root)):
    mp = os.path.join(root, d, "meta.json")
    if not os.path.exists(mp):
        continue
    meta = json.load(open(mp))
    r = res.get(d, {})
    meta["check_result"] = {k: r.get(k) for k in ("status", "classes", "tail", "at", "history")}
    json.dump(meta, open(mp, "w"), indent=1)
    summary = re.sub(r"\s+", " ", str(meta.get("summary", "")))
    needs = re.sub(r"\s+", " ", str(meta.get("needs_to_manifest", "")))
    short = lambda s, n: (s[: n - 1] + "…") if len(s) > n else s
    hist = r.get("history") or []
    first = hist[0]["status"] if hist else r.get("status", "not run")
    classes = ", ".join(r.get("classes") or [])
    note = ""
    if first == "MISSED" and r.get("status") == "detected":
        note = " (missed at first; check strengthened, see 10.6)"
    if classes in ("correspondence-broken", "obligation-broken"):
        note += " (tie broken, no failing input found)"
    rows.append(f"| {d} | {short(summary, 170)} | {short(needs, 150)} | {r.get('status', 'not run')}{note} | {short(classes, 110)} |")

table = "| seeded change | what it changes | what it needs to manifest | quick check of its property | failure class(es) reported |\n|---|---|---|---|---|\n" + "\n".join(rows)
n_det = sum(1 for d, r in res.items() if r.get("status") == "detected")
n = len(rows)
head = f"{n} seeded changes, {n_det} reported as VIOLATION by the quick check of their own property (each also confirmed by hand: existing suite passes with the change, the demonstration fails with it and passes without it).\n\n"
if "--write-design" in sys.argv:
    p = "/verif/DESIGN.md"
    s = open(p).read()
    begin, end = "<!-- SEEDED-TABLE-BEGIN -->", "<!-- SEEDED-TABLE-END -->"
    if begin in s:
        s = s[: s.index(begin) + len(begin)] + "\n" + head + table + "\n" + s[s.index(end):]
        open(p, "w").write(s)
        print("DESIGN.md updated")
    else:
        print("markers not found in DESIGN.md")
else:
    print(head + table)
