//! Ties the harness to `graphql_query_derive/src/lib.rs`: the derive crate is a proc-macro crate and
//! cannot be linked, so the two attribute-dependent functions of its `lib.rs`
//! (`build_query_and_schema_path`, `build_graphql_client_derive_options`) are copied *from the current
//! source* into `$OUT_DIR/derive_lib.rs` on every build (together with the `use` items of the file and
//! `mod attributes`, which becomes a `#[path]` module on the real `attributes.rs`).  Nothing is
//! re-implemented: the harness calls the code of the working tree.
//! If one of the functions cannot be found the generated file says so (`TIE_BROKEN`) and the harness
//! reports the broken tie and falls back to calling the attribute functions the way the derive does.
use quote::ToTokens;
use std::io::Write;

/// the derive crate's source directory; `VERIF_C18_SRC` overrides it (used to try the check on
/// mutated copies of the two files without touching /repo)
const SRC: &str = "/repo/graphql_query_derive/src";
const WANTED: [&str; 2] = ["build_query_and_schema_path", "build_graphql_client_derive_options"];

fn mentions_proc_macro(ts: proc_macro2::TokenStream) -> bool {
    ts.into_iter().any(|t| match t {
        proc_macro2::TokenTree::Ident(i) => i == "proc_macro",
        proc_macro2::TokenTree::Group(g) => mentions_proc_macro(g.stream()),
        _ => false,
    })
}

fn main() {
    println!("cargo:rerun-if-env-changed=VERIF_C18_SRC");
    let src = std::env::var("VERIF_C18_SRC").unwrap_or_else(|_| SRC.to_string());
    let lib = format!("{}/lib.rs", src);
    let attrs = format!("{}/attributes.rs", src);
    #[allow(non_snake_case)]
    let (LIB, ATTRS) = (lib.as_str(), attrs.as_str());
    println!("cargo:rerun-if-changed={}", LIB);
    println!("cargo:rerun-if-changed={}", ATTRS);
    println!("cargo:rerun-if-changed=build.rs");
    let out = std::path::PathBuf::from(std::env::var("OUT_DIR").unwrap()).join("derive_lib.rs");
    let mut text = String::new();
    text.push_str(&format!("#[path = \"{}\"]\npub mod attributes;\n", ATTRS));
    let mut found: Vec<String> = vec![];
    let mut problem: Option<String> = None;
    match std::fs::read_to_string(LIB).map_err(|e| e.to_string()).and_then(|s| syn::parse_file(&s).map_err(|e| e.to_string())) {
        Err(e) => problem = Some(format!("cannot read/parse {}: {}", LIB, e)),
        Ok(file) => {
            for item in file.items {
                match item {
                    syn::Item::Use(u) => {
                        if !mentions_proc_macro(u.to_token_stream()) {
                            text.push_str(&u.to_token_stream().to_string());
                            text.push('\n');
                        }
                    }
                    syn::Item::Fn(mut f) => {
                        let name = f.sig.ident.to_string();
                        if WANTED.contains(&name.as_str()) {
                            // the harness calls these with the signatures of the pinned tree; another signature = broken tie
                            let sig = f.sig.to_token_stream().to_string().replace(' ', "");
                            let expected = if name == "build_query_and_schema_path" {
                                "fnbuild_query_and_schema_path(input:&syn::DeriveInput)->Result<(PathBuf,PathBuf),syn::Error>"
                            } else {
                                "fnbuild_graphql_client_derive_options(input:&syn::DeriveInput,query_path:PathBuf,)->Result<GraphQLClientCodegenOptions,syn::Error>"
                            };
                            if sig != expected && sig != expected.replace(",)", ")") {
                                problem = Some(format!("the signature of `{}` changed: {}", name, sig));
                            }
                            f.vis = syn::parse_quote!(pub);
                            text.push_str(&f.to_token_stream().to_string());
                            text.push('\n');
                            found.push(name);
                        }
                    }
                    _ => {}
                }
            }
            for w in WANTED {
                if !found.iter().any(|f| f == w) {
                    problem = Some(format!("function `{}` not found in {}", w, LIB));
                }
            }
        }
    }
    match &problem {
        None => text.push_str("pub const TIE_BROKEN: Option<&str> = None;\n"),
        Some(p) => {
            // keep the harness compiling: stubs with the signatures the pinned tree has
            text = format!("#[path = \"{}\"]\npub mod attributes;\n", ATTRS);
            text.push_str("use std::path::PathBuf;\nuse graphql_client_codegen::GraphQLClientCodegenOptions;\n");
            text.push_str(&format!("pub const TIE_BROKEN: Option<&str> = Some({:?});\n", p));
            text.push_str("pub fn build_query_and_schema_path(_: &syn::DeriveInput) -> Result<(PathBuf, PathBuf), syn::Error> { unreachable!() }\n");
            text.push_str("pub fn build_graphql_client_derive_options(_: &syn::DeriveInput, _: PathBuf) -> Result<GraphQLClientCodegenOptions, syn::Error> { unreachable!() }\n");
        }
    }
    std::fs::File::create(&out).unwrap().write_all(text.as_bytes()).unwrap();
}
