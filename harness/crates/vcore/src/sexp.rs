//! S-expressions: wire format between the harness and the Lean model driver (`gqlmodel`).
use std::fmt::Write;

#[derive(Debug, Clone, PartialEq, Eq, PartialOrd, Ord, Hash)]
pub enum Sexp {
    Atom(String),
    Str(String),
    List(Vec<Sexp>),
}

pub fn atom(s: &str) -> Sexp {
    Sexp::Atom(s.to_string())
}
pub fn st(s: &str) -> Sexp {
    Sexp::Str(s.to_string())
}
pub fn list(xs: Vec<Sexp>) -> Sexp {
    Sexp::List(xs)
}
pub fn tagged(tag: &str, mut xs: Vec<Sexp>) -> Sexp {
    let mut v = vec![atom(tag)];
    v.append(&mut xs);
    Sexp::List(v)
}
pub fn boolean(b: bool) -> Sexp {
    atom(if b { "true" } else { "false" })
}
pub fn opt_str(s: Option<&str>) -> Sexp {
    match s {
        None => list(vec![]),
        Some(s) => list(vec![st(s)]),
    }
}
pub fn strs<I: IntoIterator<Item = S>, S: AsRef<str>>(xs: I) -> Sexp {
    list(xs.into_iter().map(|s| st(s.as_ref())).collect())
}

impl Sexp {
    pub fn render(&self) -> String {
        let mut out = String::new();
        self.render_into(&mut out);
        out
    }
    fn render_into(&self, out: &mut String) {
        match self {
            Sexp::Atom(a) => out.push_str(a),
            Sexp::Str(s) => {
                out.push('"');
                for c in s.chars() {
                    match c {
                        '\\' => out.push_str("\\\\"),
                        '"' => out.push_str("\\\""),
                        '\n' => out.push_str("\\n"),
                        '\r' => out.push_str("\\r"),
                        '\t' => out.push_str("\\t"),
                        c => out.push(c),
                    }
                }
                out.push('"');
            }
            Sexp::List(xs) => {
                out.push('(');
                for (i, x) in xs.iter().enumerate() {
                    if i > 0 {
                        out.push(' ');
                    }
                    x.render_into(out);
                }
                out.push(')');
            }
        }
    }

    pub fn parse(s: &str) -> Option<Sexp> {
        let cs: Vec<char> = s.chars().collect();
        let mut stack: Vec<Vec<Sexp>> = vec![vec![]];
        let mut i = 0;
        while i < cs.len() {
            let c = cs[i];
            if c == ' ' || c == '\n' || c == '\r' || c == '\t' {
                i += 1;
            } else if c == '(' {
                stack.push(vec![]);
                i += 1;
            } else if c == ')' {
                let top = stack.pop()?;
                stack.last_mut()?.push(Sexp::List(top));
                i += 1;
            } else if c == '"' {
                i += 1;
                let mut out = String::new();
                loop {
                    if i >= cs.len() {
                        return None;
                    }
                    let c = cs[i];
                    if c == '"' {
                        i += 1;
                        break;
                    }
                    if c == '\\' && i + 1 < cs.len() {
                        let d = cs[i + 1];
                        out.push(match d {
                            'n' => '\n',
                            'r' => '\r',
                            't' => '\t',
                            d => d,
                        });
                        i += 2;
                    } else {
                        out.push(c);
                        i += 1;
                    }
                }
                stack.last_mut()?.push(Sexp::Str(out));
            } else {
                let mut out = String::new();
                while i < cs.len() && !matches!(cs[i], '(' | ')' | '"' | ' ' | '\n' | '\r' | '\t') {
                    out.push(cs[i]);
                    i += 1;
                }
                stack.last_mut()?.push(Sexp::Atom(out));
            }
        }
        if stack.len() == 1 && stack[0].len() == 1 {
            stack.pop()?.pop()
        } else {
            None
        }
    }

    pub fn head(&self) -> Option<&str> {
        match self {
            Sexp::List(xs) => match xs.first() {
                Some(Sexp::Atom(a)) => Some(a.as_str()),
                _ => None,
            },
            _ => None,
        }
    }
    pub fn items(&self) -> &[Sexp] {
        match self {
            Sexp::List(xs) => xs,
            _ => &[],
        }
    }
    pub fn as_str(&self) -> Option<&str> {
        match self {
            Sexp::Atom(a) => Some(a),
            Sexp::Str(s) => Some(s),
            _ => None,
        }
    }
    /// Human-readable short form for diagnostics.
    pub fn short(&self, max: usize) -> String {
        let r = self.render();
        if r.chars().count() > max {
            let mut s: String = r.chars().take(max).collect();
            let _ = write!(s, "…");
            s
        } else {
            r
        }
    }
}
