//! Emitted token stream → IR (S-expression, same shape as `GqlVerif.Model.Rust`).
//! Drops everything that is not behaviour: attribute order, `#[allow]`s, docs, spans, whitespace,
//! item order is kept (compared as a multiset by the differ), field order is kept.
//! Refuses constructs outside the modelled subset (`Err("unmodelled-construct: ..")`).
use crate::sexp::*;
use quote::ToTokens;

fn nospace(ts: impl ToTokens) -> String {
    ts.to_token_stream().to_string().replace(' ', "")
}

pub fn ty_sexp(t: &syn::Type) -> Result<Sexp, String> {
    match t {
        syn::Type::Path(tp) if tp.qself.is_none() => {
            let segs = &tp.path.segments;
            if segs.len() == 1 && tp.path.leading_colon.is_none() {
                let seg = &segs[0];
                let id = seg.ident.to_string();
                if let syn::PathArguments::AngleBracketed(ab) = &seg.arguments {
                    if ab.args.len() == 1 {
                        if let syn::GenericArgument::Type(inner) = &ab.args[0] {
                            let tag = match id.as_str() {
                                "Option" => "opt",
                                "Vec" => "vec",
                                "Box" => "box",
                                other => return Err(format!("unmodelled-construct: generic type {}", other)),
                            };
                            return Ok(tagged(tag, vec![ty_sexp(inner)?]));
                        }
                    }
                    return Err(format!("unmodelled-construct: type {}", nospace(t)));
                }
            }
            for seg in segs {
                if !matches!(seg.arguments, syn::PathArguments::None) {
                    return Err(format!("unmodelled-construct: type {}", nospace(t)));
                }
            }
            Ok(tagged("p", vec![st(&nospace(&tp.path))]))
        }
        _ => Err(format!("unmodelled-construct: type {}", nospace(t))),
    }
}

#[derive(Default)]
struct SerdeAttrs {
    rename: Option<String>,
    flatten: bool,
    skip_none: bool,
    deser_with: Option<String>,
    default: bool,
    krate: Option<String>,
    tag: Option<String>,
    other: bool,
    deprecated: Option<Option<String>>,
    derives: Vec<String>,
}

fn lit_str(meta: &syn::meta::ParseNestedMeta) -> syn::Result<String> {
    let v: syn::LitStr = meta.value()?.parse()?;
    Ok(v.value())
}

fn attrs(attrs: &[syn::Attribute]) -> Result<SerdeAttrs, String> {
    let mut out = SerdeAttrs::default();
    for a in attrs {
        let p = nospace(a.path());
        match p.as_str() {
            "allow" | "doc" => {}
            "derive" => {
                a.parse_nested_meta(|m| {
                    out.derives.push(nospace(&m.path));
                    Ok(())
                })
                .map_err(|e| format!("unmodelled-construct: derive: {}", e))?;
            }
            "deprecated" => match &a.meta {
                syn::Meta::Path(_) => out.deprecated = Some(None),
                syn::Meta::List(_) => {
                    let mut note = None;
                    a.parse_nested_meta(|m| {
                        if m.path.is_ident("note") {
                            note = Some(lit_str(&m)?);
                            Ok(())
                        } else {
                            Err(m.error("unknown deprecated key"))
                        }
                    })
                    .map_err(|e| format!("unmodelled-construct: deprecated: {}", e))?;
                    out.deprecated = Some(note);
                }
                _ => return Err("unmodelled-construct: deprecated = ..".into()),
            },
            "serde" => {
                a.parse_nested_meta(|m| {
                    let key = nospace(&m.path);
                    match key.as_str() {
                        "rename" => out.rename = Some(lit_str(&m)?),
                        "flatten" => out.flatten = true,
                        "default" => out.default = true,
                        "other" => out.other = true,
                        "crate" => out.krate = Some(lit_str(&m)?.replace(' ', "")),
                        "tag" => out.tag = Some(lit_str(&m)?),
                        "deserialize_with" => out.deser_with = Some(lit_str(&m)?),
                        "skip_serializing_if" => {
                            let v = lit_str(&m)?;
                            if v == "Option::is_none" {
                                out.skip_none = true
                            } else {
                                return Err(m.error(format!("skip_serializing_if = {}", v)));
                            }
                        }
                        other => {
                            if LENIENT.with(|l| l.get()) {
                                // lenient extraction: an attribute outside the modelled subset is skipped
                                if let Ok(v) = m.value() {
                                    let _ = v.parse::<syn::Lit>();
                                }
                            } else {
                                return Err(m.error(format!("serde({})", other)));
                            }
                        }
                    }
                    Ok(())
                })
                .map_err(|e| format!("unmodelled-construct: {}", e))?;
            }
            other => return Err(format!("unmodelled-construct: attribute #[{}]", other)),
        }
    }
    Ok(out)
}

fn dep_sexp(d: &Option<Option<String>>) -> Sexp {
    match d {
        None => atom("nodep"),
        Some(None) => tagged("dep", vec![]),
        Some(Some(r)) => tagged("dep", vec![st(r)]),
    }
}

fn field_sexp(f: &syn::Field) -> Result<Sexp, String> {
    let a = attrs(&f.attrs)?;
    if !matches!(f.vis, syn::Visibility::Public(_)) {
        return Err("unmodelled-construct: non-pub field".into());
    }
    let name = f.ident.as_ref().ok_or("unmodelled-construct: tuple field")?.to_string();
    Ok(tagged(
        "f",
        vec![
            st(&name),
            opt_str(a.rename.as_deref()),
            ty_sexp(&f.ty)?,
            boolean(a.flatten),
            boolean(a.skip_none),
            opt_str(a.deser_with.as_deref()),
            boolean(a.default),
            dep_sexp(&a.deprecated),
        ],
    ))
}

fn variant_sexp(v: &syn::Variant) -> Result<Sexp, String> {
    let a = attrs(&v.attrs)?;
    let payload = match &v.fields {
        syn::Fields::Unit => list(vec![]),
        syn::Fields::Unnamed(u) if u.unnamed.len() == 1 => list(vec![ty_sexp(&u.unnamed[0].ty)?]),
        _ => return Err("unmodelled-construct: variant shape".into()),
    };
    Ok(tagged(
        "v",
        vec![st(&v.ident.to_string()), opt_str(a.rename.as_deref()), payload, boolean(a.other)],
    ))
}

fn lit_of_expr(e: &syn::Expr) -> Option<String> {
    match e {
        syn::Expr::Lit(syn::ExprLit { lit: syn::Lit::Str(s), .. }) => Some(s.value()),
        _ => None,
    }
}

/// find the single `match` expression in a function body
fn find_match(block: &syn::Block) -> Option<syn::ExprMatch> {
    struct V(Option<syn::ExprMatch>);
    impl<'ast> syn::visit::Visit<'ast> for V {
        fn visit_expr_match(&mut self, m: &'ast syn::ExprMatch) {
            if self.0.is_none() {
                self.0 = Some(m.clone());
            }
        }
    }
    let mut v = V(None);
    syn::visit::Visit::visit_block(&mut v, block);
    v.0
}

fn last_seg(p: &syn::Path) -> String {
    p.segments.last().map(|s| s.ident.to_string()).unwrap_or_default()
}

struct EnumImpls {
    serde_path: String,
    ser: Vec<(String, String)>,
    de: Vec<(String, String)>,
    ser_other: bool,
    de_other: bool,
}

fn enum_impl(imp: &syn::ItemImpl, name: &str, acc: &mut EnumImpls) -> Result<(), String> {
    let (_, trait_path, _) = imp.trait_.as_ref().ok_or("unmodelled-construct: inherent impl on enum")?;
    let trait_name = last_seg(trait_path);
    let mut prefix = nospace(trait_path);
    // strip `::Serialize` / `::Deserialize<'de>`
    if let Some(pos) = prefix.rfind("::") {
        prefix.truncate(pos);
    }
    acc.serde_path = prefix;
    let func = imp
        .items
        .iter()
        .find_map(|i| if let syn::ImplItem::Fn(f) = i { Some(f) } else { None })
        .ok_or("unmodelled-construct: impl without fn")?;
    let m = find_match(&func.block).ok_or("unmodelled-construct: impl without match")?;
    for arm in &m.arms {
        match trait_name.as_str() {
            "Serialize" => match &arm.pat {
                syn::Pat::Path(p) => {
                    let segs: Vec<String> = p.path.segments.iter().map(|s| s.ident.to_string()).collect();
                    if segs.len() != 2 || segs[0] != name {
                        return Err(format!("unmodelled-construct: ser arm {}", nospace(&arm.pat)));
                    }
                    let s = lit_of_expr(&arm.body).ok_or("unmodelled-construct: ser arm body")?;
                    acc.ser.push((segs[1].clone(), s));
                }
                syn::Pat::TupleStruct(ts) if last_seg(&ts.path) == "Other" => acc.ser_other = true,
                other => return Err(format!("unmodelled-construct: ser arm {}", nospace(other))),
            },
            "Deserialize" => match &arm.pat {
                syn::Pat::Lit(l) => {
                    let s = lit_of_expr(&syn::Expr::Lit(l.clone())).ok_or("unmodelled-construct: de arm")?;
                    // body: Ok(Name::Variant)
                    let body = nospace(&arm.body);
                    let pre = format!("Ok({}::", name);
                    if !body.starts_with(&pre) || !body.ends_with(')') {
                        return Err(format!("unmodelled-construct: de arm body {}", body));
                    }
                    acc.de.push((s, body[pre.len()..body.len() - 1].to_string()));
                }
                syn::Pat::Wild(_) => {
                    let body = nospace(&arm.body);
                    if body == format!("Ok({}::Other(s))", name) {
                        acc.de_other = true
                    } else {
                        return Err(format!("unmodelled-construct: de fallback {}", body));
                    }
                }
                other => return Err(format!("unmodelled-construct: de arm {}", nospace(other))),
            },
            other => return Err(format!("unmodelled-construct: impl {} for enum", other)),
        }
    }
    Ok(())
}

fn pairs(xs: &[(String, String)]) -> Sexp {
    list(xs.iter().map(|(a, b)| list(vec![st(a), st(b)])).collect())
}

fn vis_str(v: &syn::Visibility) -> String {
    nospace(v)
}

thread_local! {
    /// lenient extraction: an enum impl that is not in the modelled shape gives a `gqlenum` item with
    /// EMPTY match tables instead of an error (used only to keep a case alive for the oracles that run on
    /// the compiled implementation after the model tie has already been reported as broken)
    static LENIENT: std::cell::Cell<bool> = const { std::cell::Cell::new(false) };
}

/// Like `extract`, but string-enum impls outside the modelled shape do not abort the extraction.
pub fn extract_lenient(tokens: &str) -> Result<Vec<ExtractedModule>, String> {
    LENIENT.with(|l| l.set(true));
    let r = extract(tokens);
    LENIENT.with(|l| l.set(false));
    r
}

pub struct ExtractedModule {
    pub sexp: Sexp,
    pub mod_name: String,
    pub items: Vec<Sexp>,
}

fn extract_mod(
    m: &syn::ItemMod,
    struct_decl: Option<String>,
    impl_for: String,
) -> Result<ExtractedModule, String> {
    let (_, content) = m.content.as_ref().ok_or("unmodelled-construct: mod without body")?;
    let mut operation_name = None;
    let mut query = None;
    let mut query_include = None;
    let mut use_serde = None;
    let mut items: Vec<Sexp> = Vec::new();
    // first pass: impls by self type
    let mut impls: std::collections::BTreeMap<String, Vec<&syn::ItemImpl>> = Default::default();
    for it in content {
        if let syn::Item::Impl(imp) = it {
            impls.entry(nospace(&imp.self_ty)).or_default().push(imp);
        }
    }
    for it in content {
        match it {
            syn::Item::Use(u) => {
                let s = format!("{}{}", if u.leading_colon.is_some() { "::" } else { "" }, nospace(&u.tree));
                if let Some(pos) = s.find("::{Serialize,Deserialize}") {
                    use_serde = Some(s[..pos].to_string());
                } else if s == "std::result::Result" || s == "super::*" {
                } else {
                    return Err(format!("unmodelled-construct: use {}", s));
                }
            }
            syn::Item::Const(c) => {
                let name = c.ident.to_string();
                match name.as_str() {
                    "OPERATION_NAME" => operation_name = lit_of_expr(&c.expr),
                    "QUERY" => query = lit_of_expr(&c.expr),
                    "__QUERY_WORKAROUND" => {
                        if let syn::Expr::Macro(mac) = &*c.expr {
                            let l: syn::LitStr = mac.mac.parse_body().map_err(|e| e.to_string())?;
                            query_include = Some(l.value());
                        }
                    }
                    other => return Err(format!("unmodelled-construct: const {}", other)),
                }
            }
            syn::Item::Type(t) => {
                let is_pub = matches!(t.vis, syn::Visibility::Public(_));
                items.push(tagged("alias", vec![st(&t.ident.to_string()), boolean(is_pub), ty_sexp(&t.ty)?]));
            }
            syn::Item::Struct(s) => {
                let a = attrs(&s.attrs)?;
                let name = s.ident.to_string();
                match &s.fields {
                    syn::Fields::Unit => items.push(tagged(
                        "unit",
                        vec![st(&name), strs(a.derives.iter()), opt_str(a.krate.as_deref())],
                    )),
                    syn::Fields::Named(n) => {
                        let fs = n.named.iter().map(field_sexp).collect::<Result<Vec<_>, _>>()?;
                        items.push(tagged(
                            "struct",
                            vec![st(&name), strs(a.derives.iter()), opt_str(a.krate.as_deref()), list(fs)],
                        ));
                    }
                    _ => return Err("unmodelled-construct: tuple struct".into()),
                }
            }
            syn::Item::Enum(e) => {
                let a = attrs(&e.attrs)?;
                let name = e.ident.to_string();
                if let Some(tag) = &a.tag {
                    let vs = e.variants.iter().map(variant_sexp).collect::<Result<Vec<_>, _>>()?;
                    items.push(tagged(
                        "tagged",
                        vec![st(&name), strs(a.derives.iter()), opt_str(a.krate.as_deref()), st(tag), list(vs)],
                    ));
                } else if let Some(imps) = impls.get(&name) {
                    let mut acc = EnumImpls { serde_path: String::new(), ser: vec![], de: vec![], ser_other: false, de_other: false };
                    let mut impl_unmodelled = false;
                    for imp in imps {
                        if let Err(e) = enum_impl(imp, &name, &mut acc) {
                            if LENIENT.with(|l| l.get()) {
                                impl_unmodelled = true;
                            } else {
                                return Err(e);
                            }
                        }
                    }
                    if impl_unmodelled {
                        acc = EnumImpls { serde_path: String::new(), ser: vec![], de: vec![], ser_other: true, de_other: true };
                    }
                    let mut vs: Vec<String> = Vec::new();
                    let mut has_other = false;
                    for v in &e.variants {
                        let vn = v.ident.to_string();
                        match &v.fields {
                            syn::Fields::Unit => vs.push(vn),
                            syn::Fields::Unnamed(u) if vn == "Other" && u.unnamed.len() == 1 && nospace(&u.unnamed[0].ty) == "String" => has_other = true,
                            _ => return Err(format!("unmodelled-construct: enum variant {}", vn)),
                        }
                    }
                    if !(has_other && acc.ser_other && acc.de_other) {
                        return Err(format!("unmodelled-construct: enum {} without Other fallback", name));
                    }
                    items.push(tagged(
                        "gqlenum",
                        vec![st(&name), strs(a.derives.iter()), st(&acc.serde_path), strs(vs.iter()), pairs(&acc.ser), pairs(&acc.de)],
                    ));
                } else {
                    let vs = e.variants.iter().map(variant_sexp).collect::<Result<Vec<_>, _>>()?;
                    items.push(tagged(
                        "oneof",
                        vec![st(&name), strs(a.derives.iter()), opt_str(a.krate.as_deref()), list(vs)],
                    ));
                }
            }
            syn::Item::Impl(imp) => {
                let self_ty = nospace(&imp.self_ty);
                if imp.trait_.is_none() && self_ty == "Variables" {
                    let mut fns = Vec::new();
                    for i in &imp.items {
                        if let syn::ImplItem::Fn(f) = i {
                            let ret = match &f.sig.output {
                                syn::ReturnType::Type(_, t) => ty_sexp(t)?,
                                _ => return Err("unmodelled-construct: default fn without type".into()),
                            };
                            fns.push(list(vec![st(&f.sig.ident.to_string()), ret]));
                        }
                    }
                    items.push(tagged("defaults", vec![list(fns)]));
                } else if imp.trait_.is_some() {
                    // enum impls, handled with the enum
                } else {
                    return Err(format!("unmodelled-construct: impl {}", self_ty));
                }
            }
            other => return Err(format!("unmodelled-construct: item {}", nospace(other).chars().take(60).collect::<String>())),
        }
    }
    let mod_name = m.ident.to_string();
    let sexp = tagged(
        "module",
        vec![
            st(&mod_name),
            st(&vis_str(&m.vis)),
            opt_str(struct_decl.as_deref()),
            st(&operation_name.ok_or("unmodelled-construct: no OPERATION_NAME")?),
            st(&query.ok_or("unmodelled-construct: no QUERY")?),
            opt_str(query_include.as_deref()),
            st(&use_serde.ok_or("unmodelled-construct: no serde use")?),
            st(&impl_for),
            list(items.clone()),
        ],
    );
    Ok(ExtractedModule { sexp, mod_name, items })
}

/// All generated modules of one token stream, in order.
pub fn extract(tokens: &str) -> Result<Vec<ExtractedModule>, String> {
    let file: syn::File = syn::parse_str(tokens).map_err(|e| format!("emitted code does not parse: {}", e))?;
    let mut out = Vec::new();
    let mut pending_struct: Option<String> = None;
    let mut mods: Vec<(&syn::ItemMod, Option<String>)> = Vec::new();
    let mut impl_fors: Vec<(String, String)> = Vec::new(); // (module, struct)
    for it in &file.items {
        match it {
            syn::Item::Struct(s) => pending_struct = Some(s.ident.to_string()),
            syn::Item::Mod(m) => mods.push((m, pending_struct.take())),
            syn::Item::Impl(imp) => {
                // impl graphql_client::GraphQLQuery for X { type Variables = m::Variables; .. }
                let self_ty = nospace(&imp.self_ty);
                let mut module = String::new();
                for i in &imp.items {
                    if let syn::ImplItem::Type(t) = i {
                        if t.ident == "Variables" {
                            module = nospace(&t.ty).replace("::Variables", "");
                        }
                    }
                }
                impl_fors.push((module, self_ty));
            }
            other => return Err(format!("unmodelled-construct: top-level {}", nospace(other).chars().take(60).collect::<String>())),
        }
    }
    for (i, (m, sd)) in mods.into_iter().enumerate() {
        let impl_for = impl_fors.get(i).map(|x| x.1.clone()).unwrap_or_default();
        out.push(extract_mod(m, sd, impl_for)?);
    }
    Ok(out)
}

/// Source text of every generated string enum (the enum item and its two impls), per module:
/// what a consumer would supply for an `extern_enums` entry to keep the wire behaviour.
pub fn enum_sources(tokens: &str) -> Vec<(String, String, String)> {
    let file: syn::File = match syn::parse_str(tokens) {
        Ok(f) => f,
        Err(_) => return vec![],
    };
    let mut out = Vec::new();
    for it in &file.items {
        if let syn::Item::Mod(m) = it {
            if let Some((_, content)) = &m.content {
                for inner in content {
                    if let syn::Item::Enum(e) = inner {
                        let name = e.ident.to_string();
                        let impls: Vec<String> = content
                            .iter()
                            .filter_map(|x| match x {
                                syn::Item::Impl(imp) if nospace(&imp.self_ty) == name && imp.trait_.is_some() => Some(x.to_token_stream().to_string()),
                                _ => None,
                            })
                            .collect();
                        if impls.len() == 2 {
                            out.push((m.ident.to_string(), name, format!("{}\n{}", inner.to_token_stream(), impls.join("\n"))));
                        }
                    }
                }
            }
        }
    }
    out
}

// ---------------------------------------------------------------------------------------------
// bodies of the `default_*` constructors (`impl Variables { pub fn default_x() -> T { <literal> } }`)

fn lit_expr_sexp(e: &syn::Expr) -> Result<Sexp, String> {
    use syn::Expr;
    let path_segs = |p: &syn::Path| -> Vec<String> { p.segments.iter().map(|s| s.ident.to_string()).collect() };
    match e {
        Expr::Paren(p) => lit_expr_sexp(&p.expr),
        Expr::Group(g) => lit_expr_sexp(&g.expr),
        // (at top level of a literal: `quote!(#en)` of an enum literal written where no enum type is expected prints the
        // name as a string literal; the model calls this `ident`)
        Expr::Lit(l) => match &l.lit {
            syn::Lit::Bool(b) => Ok(tagged("bool", vec![boolean(b.value)])),
            // (`quote!` prints an `f64` without a fraction as `1f64`: digits of an integer with a float suffix)
            syn::Lit::Int(i) if i.suffix().starts_with('f') => Ok(tagged("float", vec![st(i.base10_digits())])),
            syn::Lit::Int(i) => Ok(tagged("int", vec![atom(i.base10_digits())])),
            syn::Lit::Float(f) => Ok(tagged("float", vec![st(f.base10_digits())])),
            syn::Lit::Str(s) => Ok(tagged("ident", vec![st(&s.value())])),
            other => Err(format!("unmodelled-construct: literal {}", nospace(other))),
        },
        Expr::Unary(u) if matches!(u.op, syn::UnOp::Neg(_)) => match lit_expr_sexp(&u.expr)? {
            s if s.head() == Some("int") => Ok(tagged("int", vec![atom(&format!("-{}", s.items()[1].as_str().unwrap_or("0")))])),
            s if s.head() == Some("float") => Ok(tagged("float", vec![st(&format!("-{}", s.items()[1].as_str().unwrap_or("0")))])),
            other => Err(format!("unmodelled-construct: negated {}", other.render())),
        },
        Expr::MethodCall(m) if m.method == "to_string" && m.args.is_empty() => match lit_expr_sexp(&m.receiver)? {
            s if s.head() == Some("ident") => Ok(tagged("str", vec![s.items()[1].clone()])),
            other => Err(format!("unmodelled-construct: to_string on {}", other.render())),
        },
        Expr::Path(p) => {
            let segs = path_segs(&p.path);
            match segs.as_slice() {
                [one] if one == "None" => Ok(tagged("none", vec![])),
                [one] => Ok(tagged("ident", vec![st(one)])),
                [a, b] => Ok(tagged("path", vec![st(a), st(b)])),
                _ => Err(format!("unmodelled-construct: path {}", nospace(p))),
            }
        }
        Expr::Call(c) => {
            let f = match &*c.func {
                Expr::Path(p) => path_segs(&p.path),
                other => return Err(format!("unmodelled-construct: call of {}", nospace(other))),
            };
            let args = c.args.iter().map(lit_expr_sexp).collect::<Result<Vec<_>, _>>()?;
            match (f.iter().map(|s| s.as_str()).collect::<Vec<_>>().as_slice(), args.len()) {
                (["Some"], 1) => Ok(tagged("some", args)),
                (["Box", "new"], 1) => Ok(tagged("box", args)),
                ([a, b], 1) => Ok(tagged("variant", vec![st(a), st(b), args[0].clone()])),
                _ => Err(format!("unmodelled-construct: call {}", nospace(c))),
            }
        }
        Expr::Macro(m) => {
            let name = m.mac.path.segments.last().map(|s| s.ident.to_string()).unwrap_or_default();
            match name.as_str() {
                "vec" => {
                    let parser = syn::punctuated::Punctuated::<syn::Expr, syn::Token![,]>::parse_terminated;
                    let elems = syn::parse::Parser::parse2(parser, m.mac.tokens.clone()).map_err(|e| format!("unmodelled-construct: vec! contents: {}", e))?;
                    Ok(tagged("vec", elems.iter().map(lit_expr_sexp).collect::<Result<Vec<_>, _>>()?))
                }
                "compile_error" => {
                    let msg: syn::LitStr = syn::parse2(m.mac.tokens.clone()).map_err(|e| format!("unmodelled-construct: compile_error! contents: {}", e))?;
                    Ok(tagged("compile-error", vec![st(&msg.value())]))
                }
                other => Err(format!("unmodelled-construct: macro {}!", other)),
            }
        }
        Expr::Struct(s) => {
            let segs = path_segs(&s.path);
            if segs.len() != 1 || s.rest.is_some() {
                return Err(format!("unmodelled-construct: struct literal {}", nospace(&s.path)));
            }
            let mut fields = Vec::new();
            for f in &s.fields {
                let name = match &f.member {
                    syn::Member::Named(i) => i.to_string(),
                    syn::Member::Unnamed(_) => return Err("unmodelled-construct: tuple member in a struct literal".into()),
                };
                fields.push(list(vec![st(&name), lit_expr_sexp(&f.expr)?]));
            }
            let mut items = vec![st(&segs[0])];
            items.extend(fields);
            Ok(tagged("struct", items))
        }
        other => Err(format!("unmodelled-construct: default expression {}", nospace(other).chars().take(80).collect::<String>())),
    }
}

/// per module of the token stream: the `default_*` functions of `impl Variables` with their bodies as literal expressions
/// (the language of `Model/DefaultLit.lean`)
pub fn default_bodies(tokens: &str) -> Result<Vec<(String, Vec<(String, Sexp)>)>, String> {
    let file: syn::File = syn::parse_str(tokens).map_err(|e| format!("emitted code does not parse: {}", e))?;
    let mut out = Vec::new();
    for item in &file.items {
        if let syn::Item::Mod(m) = item {
            let mut fns = Vec::new();
            if let Some((_, content)) = &m.content {
                for it in content {
                    if let syn::Item::Impl(imp) = it {
                        if imp.trait_.is_none() && nospace(&imp.self_ty) == "Variables" {
                            for i in &imp.items {
                                if let syn::ImplItem::Fn(f) = i {
                                    let body = match f.block.stmts.as_slice() {
                                        [syn::Stmt::Expr(e, None)] => lit_expr_sexp(e)?,
                                        _ => return Err(format!("unmodelled-construct: body of {}", f.sig.ident)),
                                    };
                                    fns.push((f.sig.ident.to_string(), body));
                                }
                            }
                        }
                    }
                }
            }
            out.push((m.ident.to_string(), fns));
        }
    }
    Ok(out)
}

/// the string-literal TOKENS (source text, escapes as emitted) of the `OPERATION_NAME` and `QUERY` constants of every
/// generated module in `tokens`: (module name, constant name, token text). The printer that wrote the token is the one
/// under test (proc_macro2's `Literal::string`), the reader is proc_macro2's lexer, which keeps the text as written.
pub fn const_literal_tokens(tokens: &str) -> Result<Vec<(String, String, String)>, String> {
    let file: syn::File = syn::parse_str(tokens).map_err(|e| e.to_string())?;
    let mut out = Vec::new();
    for it in &file.items {
        if let syn::Item::Mod(m) = it {
            if let Some((_, content)) = &m.content {
                for c in content {
                    if let syn::Item::Const(c) = c {
                        if let syn::Expr::Lit(syn::ExprLit { lit: syn::Lit::Str(l), .. }) = &*c.expr {
                            out.push((m.ident.to_string(), c.ident.to_string(), l.token().to_string()));
                        }
                    }
                }
            }
        }
    }
    Ok(out)
}
