//! Compiled consumer crates: the emitted code is compiled with the real rustc / serde and driven
//! with JSON vectors.  One crate per batch, one module per case.
use std::collections::{BTreeMap, BTreeSet};
use std::io::Write;
use std::path::{Path, PathBuf};
use std::process::{Command, Stdio};

#[derive(Clone, Debug)]
pub struct CaseCode {
    pub id: usize,
    /// items the documentation asks the consumer to supply (custom scalar types, extern enums)
    pub prelude: String,
    /// the emitted items (library token stream printed as is), or a `#[derive(GraphQLQuery)]` struct
    pub tokens: String,
    /// (operation struct path, module name) per generated module
    pub ops: Vec<(String, String)>,
    /// (module name, enum type name) of generated string enums
    pub enums: Vec<(String, String)>,
    /// the response types do not derive `Serialize` (acceptance only: replies are `ok null`)
    pub no_serialize: bool,
}

#[derive(Debug, Default)]
pub struct BuildOutcome {
    pub compiled: BTreeSet<usize>,
    /// case id → error codes / messages
    pub failed: BTreeMap<usize, Vec<String>>,
    pub exe: Option<PathBuf>,
    pub rounds: usize,
    pub global_errors: Vec<String>,
    pub dir: PathBuf,
    pub wall_s: f64,
    /// cargo's dep-info of the built binary (`<exe>.d`): every file the crate's compilation read,
    /// `include_str!`-ed files included — what cargo watches to decide about a rebuild
    pub dep_info: Option<String>,
}

fn consumers_root() -> PathBuf {
    let base = std::env::var("VERIF_WORK").unwrap_or_else(|_| "/verif/.work".into());
    PathBuf::from(base)
}

/// compile-only rendering: the modules and an empty `main` (no use of serde / serde_json by the crate itself)
fn render_plain(cases: &[&CaseCode]) -> (String, Vec<(usize, usize, usize)>) {
    let mut src = String::from("#![allow(warnings)]\n");
    let mut ranges = Vec::new();
    for c in cases {
        let start = src.lines().count() + 1;
        src.push_str(&format!("mod case_{} {{\n", c.id));
        src.push_str(&c.prelude);
        src.push('\n');
        src.push_str(&c.tokens);
        src.push_str("\n}\n");
        ranges.push((c.id, start, src.lines().count()));
    }
    src.push_str("fn main() {}\n");
    (src, ranges)
}

fn render_main(cases: &[&CaseCode]) -> (String, Vec<(usize, usize, usize)>) {
    let mut src = String::new();
    src.push_str(
        r#"#![allow(warnings)]
use std::io::BufRead;
/// both entry points of serde_json must agree: from the text and from an already parsed `Value`
fn via_value<T: serde::de::DeserializeOwned>(input: &str) -> Result<T, String> {
    let v: serde_json::Value = serde_json::from_str(input).map_err(|e| e.to_string())?;
    serde_json::from_value::<T>(v).map_err(|e| e.to_string())
}
fn de<T: serde::de::DeserializeOwned + serde::Serialize>(input: &str) -> String {
    let second = via_value::<T>(input).map(|v| serde_json::to_string(&v).unwrap_or_default());
    let first = de_text::<T>(input);
    match (&second, first.strip_prefix("ok ")) {
        (Ok(s), Some(t)) if s == t => first,
        (Err(_), None) => first,
        _ => format!("err from_str and from_value disagree: {} / {:?}", first, second),
    }
}
fn de_text<T: serde::de::DeserializeOwned + serde::Serialize>(input: &str) -> String {
    match serde_json::from_str::<T>(input) {
        Ok(v) => match serde_json::to_string(&v) {
            Ok(s) => format!("ok {}", s),
            Err(e) => format!("sererr {}", e.to_string().replace('\n', " ")),
        },
        Err(e) => format!("err {}", e.to_string().replace('\n', " ")),
    }
}
fn de_dbg<T: serde::de::DeserializeOwned + serde::Serialize + std::fmt::Debug>(input: &str) -> String {
    // both entry points: from the text (borrowed strings possible) and from a parsed `Value` (owned strings only)
    let via: Result<String, String> = via_value::<T>(input).map(|v| format!("{:?}", v));
    match serde_json::from_str::<T>(input) {
        Ok(v) => match serde_json::to_string(&v) {
            Ok(s) => {
                let dbg = format!("{:?}", v);
                if via.as_ref().ok() != Some(&dbg) {
                    return format!("err from_str and from_value disagree: {} / {:?}", dbg, via);
                }
                format!("ok {}", serde_json::to_string(&(serde_json::from_str::<serde_json::Value>(&s).unwrap(), dbg)).unwrap())
            }
            Err(e) => format!("sererr {}", e.to_string().replace('\n', " ")),
        },
        Err(e) => {
            if via.is_ok() {
                return format!("err from_str and from_value disagree: {} / {:?}", e.to_string().replace('\n', " "), via);
            }
            format!("err {}", e.to_string().replace('\n', " "))
        }
    }
}
fn de_only<T: serde::de::DeserializeOwned>(input: &str) -> String {
    match serde_json::from_str::<T>(input) {
        Ok(_) => "ok null".to_string(),
        Err(e) => format!("err {}", e.to_string().replace('\n', " ")),
    }
}
fn vars<Q: graphql_client::GraphQLQuery>(input: &str) -> String
where
    Q::Variables: serde::de::DeserializeOwned,
{
    match serde_json::from_str::<Q::Variables>(input) {
        Ok(v) => match serde_json::to_string(&Q::build_query(v)) {
            Ok(s) => format!("ok {}", s),
            Err(e) => format!("sererr {}", e.to_string().replace('\n', " ")),
        },
        Err(e) => format!("err {}", e.to_string().replace('\n', " ")),
    }
}
"#,
    );
    let mut ranges = Vec::new();
    for c in cases {
        let start = src.lines().count() + 1;
        src.push_str(&format!("mod case_{} {{\n", c.id));
        src.push_str(&c.prelude);
        src.push('\n');
        src.push_str(&c.tokens);
        src.push('\n');
        src.push_str("    pub fn run(kind: &str, arg: &str, input: &str) -> String {\n        match (kind, arg) {\n");
        for (op, module) in &c.ops {
            src.push_str(&format!(
                "            (\"de\", {:?}) => super::{}::<<{} as graphql_client::GraphQLQuery>::ResponseData>(input),\n",
                op,
                if c.no_serialize { "de_only" } else { "de" },
                op
            ));
            // the generated `ResponseData` inside the envelope type of the runtime crate
            src.push_str(&format!(
                "            (\"env\", {:?}) => super::{}::<graphql_client::Response<<{} as graphql_client::GraphQLQuery>::ResponseData>>(input),\n",
                op,
                if c.no_serialize { "de_only" } else { "de" },
                op
            ));
            src.push_str(&format!("            (\"vars\", {:?}) => super::vars::<{}>(input),\n", op, op));
            src.push_str(&format!(
                "            (\"consts\", {:?}) => format!(\"ok {{}}\", serde_json::to_string(&({}::OPERATION_NAME, {}::QUERY)).unwrap()),\n",
                op, module, module
            ));
        }
        if c.prelude.contains("fn defaults_json") {
            // the case supplies a function that evaluates the `default_*` constructors of its operations
            src.push_str("            (\"defaults\", _) => format!(\"ok {}\", defaults_json()),\n");
        }
        for (module, en) in &c.enums {
            src.push_str(&format!("            (\"enum\", {:?}) => super::de_dbg::<{}::{}>(input),\n", format!("{}::{}", module, en), module, en));
        }
        src.push_str("            _ => \"badkind\".to_string(),\n        }\n    }\n}\n");
        let end = src.lines().count();
        ranges.push((c.id, start, end));
    }
    src.push_str("fn main() {\n    let stdin = std::io::stdin();\n    for line in stdin.lock().lines() {\n        let line = line.unwrap();\n        let mut it = line.splitn(4, '\\t');\n        let id = it.next().unwrap_or(\"\");\n        let kind = it.next().unwrap_or(\"\");\n        let arg = it.next().unwrap_or(\"\");\n        let input = it.next().unwrap_or(\"\");\n        let out = match id {\n");
    for c in cases {
        src.push_str(&format!("            \"{}\" => case_{}::run(kind, arg, input),\n", c.id, c.id));
    }
    src.push_str("            _ => \"badcase\".to_string(),\n        };\n        println!(\"{}\", out);\n    }\n}\n");
    (src, ranges)
}

/// Build a consumer crate containing the given cases; cases that do not compile are removed
/// (their diagnostics recorded) and the build is repeated until the rest compiles.
pub fn build_consumer(name: &str, cases: &[CaseCode], with_serde_dep: bool, extra_files: &[(String, String)]) -> BuildOutcome {
    build_consumer_inner(name, cases, with_serde_dep, extra_files, false)
}

/// The same, but the crate only has to compile (empty `main`): usable without a serde dependency.
pub fn build_compile_only(name: &str, cases: &[CaseCode], with_serde_dep: bool, extra_files: &[(String, String)]) -> BuildOutcome {
    build_consumer_inner(name, cases, with_serde_dep, extra_files, true)
}

fn build_consumer_inner(name: &str, cases: &[CaseCode], with_serde_dep: bool, extra_files: &[(String, String)], plain: bool) -> BuildOutcome {
    let started = std::time::Instant::now();
    let root = consumers_root();
    let dir = root.join("consumers").join(format!("{}-{}", name, std::process::id()));
    let _ = std::fs::remove_dir_all(&dir);
    std::fs::create_dir_all(dir.join("src")).unwrap();
    std::fs::create_dir_all(dir.join(".cargo")).unwrap();
    let serde_dep = if with_serde_dep { "serde = { version = \"1\", features = [\"derive\"] }\nserde_json = \"1\"\n" } else { "" };
    std::fs::write(
        dir.join("Cargo.toml"),
        format!(
            "[package]\nname = \"consumer\"\nversion = \"0.1.0\"\nedition = \"2021\"\n\n[workspace]\n\n[dependencies]\ngraphql_client = {{ path = \"/repo/graphql_client\" }}\n{}\n[profile.dev]\ndebug = 0\nopt-level = 0\nincremental = false\n",
            serde_dep
        ),
    )
    .unwrap();
    std::fs::write(
        dir.join(".cargo/config.toml"),
        format!("[net]\noffline = true\n[build]\ntarget-dir = \"{}\"\n", root.join("consumer-target").display()),
    )
    .unwrap();
    let _ = std::fs::copy("/repo/Cargo.lock", dir.join("Cargo.lock"));
    for (rel, content) in extra_files {
        let p = dir.join(rel);
        if let Some(parent) = p.parent() {
            std::fs::create_dir_all(parent).unwrap();
        }
        std::fs::write(p, content).unwrap();
    }
    let mut out = BuildOutcome { dir: dir.clone(), ..Default::default() };
    let mut live: Vec<&CaseCode> = cases.iter().collect();
    for round in 0..6 {
        out.rounds = round + 1;
        let (src, ranges) = if plain { render_plain(&live) } else { render_main(&live) };
        std::fs::write(dir.join("src/main.rs"), &src).unwrap();
        let res = Command::new("cargo")
            .args(["build", "--offline", "--message-format=json", "-q"])
            .current_dir(&dir)
            .env("CARGO_NET_OFFLINE", "true")
            .env_remove("CARGO_TARGET_DIR")
            .stdout(Stdio::piped())
            .stderr(Stdio::piped())
            .output()
            .expect("cargo build of consumer crate");
        let stdout = String::from_utf8_lossy(&res.stdout);
        let mut failed_now: BTreeMap<usize, Vec<String>> = BTreeMap::new();
        let mut exe = None;
        for line in stdout.lines() {
            let v: serde_json::Value = match serde_json::from_str(line) {
                Ok(v) => v,
                Err(_) => continue,
            };
            if v["reason"] == "compiler-artifact" && v["target"]["name"] == "consumer" {
                if let Some(e) = v["executable"].as_str() {
                    exe = Some(PathBuf::from(e));
                }
            }
            if v["reason"] != "compiler-message" || v["message"]["level"] != "error" {
                continue;
            }
            let msg = &v["message"];
            let code = msg["code"]["code"].as_str().unwrap_or("E????").to_string();
            let text = msg["message"].as_str().unwrap_or("").to_string();
            if text.starts_with("aborting due to") || text.starts_with("could not compile") {
                continue;
            }
            let mut owner = None;
            if let Some(spans) = msg["spans"].as_array() {
                for sp in spans {
                    let fname = sp["file_name"].as_str().unwrap_or("");
                    if let Some(pos) = fname.rfind("case_") {
                        // a file written for one case (`case_<id>_….rs`)
                        let digits: String = fname[pos + 5..].chars().take_while(|c| c.is_ascii_digit()).collect();
                        if let Ok(id) = digits.parse::<usize>() {
                            owner = Some(id);
                            break;
                        }
                    }
                    if fname.ends_with("main.rs") {
                        let l = sp["line_start"].as_u64().unwrap_or(0) as usize;
                        if let Some((id, _, _)) = ranges.iter().find(|(_, a, b)| *a <= l && l <= *b) {
                            owner = Some(*id);
                            break;
                        }
                    }
                }
            }
            // a diagnostic without a usable span (e.g. E0391 "cycle detected when computing layout of `case_12::w::String`"):
            // the module path in its text names the case
            if owner.is_none() {
                if let Some(pos) = text.find("case_") {
                    let digits: String = text[pos + 5..].chars().take_while(|c| c.is_ascii_digit()).collect();
                    if text[pos + 5 + digits.len()..].starts_with("::") {
                        if let Ok(id) = digits.parse::<usize>() {
                            if live.iter().any(|c| c.id == id) {
                                owner = Some(id);
                            }
                        }
                    }
                }
            }
            match owner {
                Some(id) => failed_now.entry(id).or_default().push(format!("{}: {}", code, text.chars().take(1000).collect::<String>())),
                None => out.global_errors.push(format!("{}: {}", code, text.chars().take(300).collect::<String>())),
            }
        }
        if res.status.success() {
            out.exe = exe;
            out.compiled = live.iter().map(|c| c.id).collect();
            break;
        }
        if failed_now.is_empty() {
            out.global_errors.push(format!("build failed without attributable errors: {}", String::from_utf8_lossy(&res.stderr).chars().take(600).collect::<String>()));
            break;
        }
        live.retain(|c| !failed_now.contains_key(&c.id));
        for (k, v) in failed_now {
            out.failed.entry(k).or_default().extend(v);
        }
        if live.is_empty() {
            break;
        }
    }
    // keep a private copy of the executable: the shared target dir is overwritten by the next batch
    if let Some(exe) = &out.exe {
        out.dep_info = std::fs::read_to_string(exe.with_extension("d")).ok();
        let keep = dir.join("consumer-bin");
        if std::fs::copy(exe, &keep).is_ok() {
            out.exe = Some(keep);
        }
    }
    out.wall_s = started.elapsed().as_secs_f64();
    out
}

/// Run requests `(case id, kind, arg, json text)` through a built consumer; one reply per request.
/// A request that kills the process (stack overflow, abort) is answered `crashed` and the rest is
/// re-run in a fresh process.
pub fn run_consumer(exe: &Path, requests: &[(usize, String, String, String)]) -> Vec<String> {
    let mut replies: Vec<String> = Vec::with_capacity(requests.len());
    while replies.len() < requests.len() {
        let start = replies.len();
        let mut child = Command::new(exe).stdin(Stdio::piped()).stdout(Stdio::piped()).stderr(Stdio::null()).spawn().expect("start consumer");
        let mut stdin = child.stdin.take().unwrap();
        let input: String = requests[start..].iter().map(|(id, k, a, j)| format!("{}\t{}\t{}\t{}\n", id, k, a, j)).collect();
        let writer = std::thread::spawn(move || {
            let _ = stdin.write_all(input.as_bytes());
        });
        let out = child.wait_with_output().expect("consumer output");
        let _ = writer.join();
        let text = String::from_utf8_lossy(&out.stdout);
        let got: Vec<String> = text.lines().map(|s| s.to_string()).collect();
        let n = got.len().min(requests.len() - start);
        replies.extend(got.into_iter().take(n));
        if replies.len() < requests.len() {
            // the request after the last reply killed the process
            replies.push("crashed".to_string());
        }
    }
    replies
}

pub fn remove_consumer(out: &BuildOutcome) {
    let _ = std::fs::remove_dir_all(&out.dir);
}
