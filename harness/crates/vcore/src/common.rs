//! Shared plumbing: options, running the real generator, running the model, diffing IRs.
use crate::ast2sexp::*;
use crate::extract;
use crate::model::Model;
use crate::sexp::*;
use graphql_client_codegen::{
    deprecation::DeprecationStrategy, normalization::Normalization, CodegenMode,
    GraphQLClientCodegenOptions,
};
use heck::{ToSnakeCase, ToUpperCamelCase};
use std::collections::BTreeSet;
use std::panic::{catch_unwind, AssertUnwindSafe};
use std::path::{Path, PathBuf};

#[derive(Clone, Debug, PartialEq)]
pub struct Opts {
    pub derive_mode: bool,
    pub operation_name: Option<String>,
    pub struct_ident: Option<String>,
    pub normalization_rust: bool,
    pub deprecation: &'static str, // allow | deny | warn
    pub other_variant: bool,
    pub skip_none: bool,
    pub response_derives: Option<String>,
    pub variables_derives: Option<String>,
    pub scalars_module: Option<String>,
    pub extern_enums: Vec<String>,
    pub serde_path: String,
    pub visibility: String,
    pub query_file: Option<String>,
    /// derive delivery form: the text inside `#[graphql(...)]` as the user wrote it. When set, the implementation's
    /// options are NOT built from the fields above but by the derive's own option builder from this text (see
    /// `derive_front`); the fields above stay what the model and the oracles are told.
    pub derive_attr: Option<String>,
}

impl Default for Opts {
    fn default() -> Self {
        Opts {
            derive_mode: false,
            operation_name: None,
            struct_ident: None,
            normalization_rust: false,
            deprecation: "warn",
            other_variant: false,
            skip_none: false,
            response_derives: None,
            variables_derives: None,
            scalars_module: None,
            extern_enums: vec![],
            serde_path: "::serde".into(),
            visibility: "pub".into(),
            query_file: None,
            derive_attr: None,
        }
    }
}

impl Opts {
    /// The options every wire-level harness uses: both directions derivable on both sides.
    pub fn harness() -> Opts {
        Opts {
            response_derives: Some("Serialize,Debug,PartialEq".into()),
            variables_derives: Some("Deserialize,Debug,PartialEq".into()),
            ..Opts::default()
        }
    }

    pub fn to_real(&self) -> GraphQLClientCodegenOptions {
        let mut o = GraphQLClientCodegenOptions::new(if self.derive_mode {
            CodegenMode::Derive
        } else {
            CodegenMode::Cli
        });
        if let Some(n) = &self.operation_name {
            o.set_operation_name(n.clone());
        }
        if let Some(n) = &self.struct_ident {
            o.set_struct_ident(proc_macro2::Ident::new(n, proc_macro2::Span::call_site()));
        }
        o.set_normalization(if self.normalization_rust { Normalization::Rust } else { Normalization::None });
        o.set_deprecation_strategy(match self.deprecation {
            "allow" => DeprecationStrategy::Allow,
            "deny" => DeprecationStrategy::Deny,
            _ => DeprecationStrategy::Warn,
        });
        o.set_fragments_other_variant(self.other_variant);
        o.set_skip_serializing_none(self.skip_none);
        if let Some(d) = &self.response_derives {
            o.set_response_derives(d.clone());
        }
        if let Some(d) = &self.variables_derives {
            o.set_variables_derives(d.clone());
        }
        if let Some(m) = &self.scalars_module {
            o.set_custom_scalars_module(syn::parse_str(m).expect("scalars module path"));
        }
        o.set_extern_enums(self.extern_enums.clone());
        o.set_serde_path(syn::parse_str(&self.serde_path).expect("serde path"));
        if !self.visibility.is_empty() {
            o.set_module_visibility(syn::parse_str(&self.visibility).expect("visibility"));
        }
        if let Some(q) = &self.query_file {
            o.set_query_file(PathBuf::from(q));
        }
        o
    }

    pub fn to_sexp(&self) -> Sexp {
        tagged(
            "opts",
            vec![
                atom(if self.derive_mode { "derive" } else { "cli" }),
                opt_str(self.operation_name.as_deref()),
                opt_str(self.struct_ident.as_deref()),
                atom(if self.normalization_rust { "rust" } else { "none" }),
                atom(self.deprecation),
                boolean(self.other_variant),
                boolean(self.skip_none),
                opt_str(self.response_derives.as_deref()),
                opt_str(self.variables_derives.as_deref()),
                opt_str(self.scalars_module.as_deref()),
                strs(self.extern_enums.iter()),
                st(&self.serde_path.replace(' ', "")),
                st(&self.visibility.replace(' ', "")),
                opt_str(self.query_file.as_deref()),
            ],
        )
    }

    pub fn describe(&self) -> serde_json::Value {
        serde_json::json!({
            "mode": if self.derive_mode {"derive"} else {"cli"},
            "operation_name": self.operation_name, "struct_ident": self.struct_ident,
            "normalization": if self.normalization_rust {"rust"} else {"none"},
            "deprecation": self.deprecation, "other_variant": self.other_variant, "skip_none": self.skip_none,
            "response_derives": self.response_derives, "variables_derives": self.variables_derives,
            "scalars_module": self.scalars_module, "extern_enums": self.extern_enums,
            "serde_path": self.serde_path, "visibility": self.visibility,
            "derive_attribute": self.derive_attr,
        })
    }
}

/// heck's results for every identifier-like word of the given texts (+ keyword-escaped forms);
/// the model is parametric in the case functions and looks names up here.
pub fn case_table(texts: &[&str]) -> Sexp {
    let mut words: BTreeSet<String> = BTreeSet::new();
    for t in texts {
        let mut cur = String::new();
        for c in t.chars().chain(std::iter::once(' ')) {
            if c == '_' || c.is_alphanumeric() {
                cur.push(c);
            } else if !cur.is_empty() {
                words.insert(std::mem::take(&mut cur));
            }
        }
    }
    let extra: Vec<String> = words.iter().map(|w| format!("{}_", w)).collect();
    words.extend(extra);
    tagged(
        "cases",
        vec![list(
            words
                .iter()
                .map(|w| list(vec![st(w), st(&w.to_snake_case()), st(&w.to_upper_camel_case())]))
                .collect(),
        )],
    )
}

#[derive(Debug, Clone, PartialEq)]
pub enum RealOutcome {
    Ok(String),
    Err(String),
    Panic(String),
}

impl RealOutcome {
    pub fn kind(&self) -> &'static str {
        match self {
            RealOutcome::Ok(_) => "ok",
            RealOutcome::Err(_) => "err",
            RealOutcome::Panic(_) => "panic",
        }
    }
}

pub fn panic_message(e: Box<dyn std::any::Any + Send>) -> String {
    if let Some(s) = e.downcast_ref::<String>() {
        s.clone()
    } else if let Some(s) = e.downcast_ref::<&str>() {
        s.to_string()
    } else {
        "<non-string panic payload>".into()
    }
}

pub fn quiet_panics() {
    std::panic::set_hook(Box::new(|_| {}));
}

/// The real generator, library route.
pub fn run_real(schema_path: &Path, query_text: &str, opts: &Opts) -> RealOutcome {
    let o = match &opts.derive_attr {
        None => opts.to_real(),
        Some(attr) => {
            let ident = opts.struct_ident.clone().unwrap_or_default();
            let qfile = opts.query_file.clone().unwrap_or_default();
            match catch_unwind(AssertUnwindSafe(|| crate::derive_front::options_from_attr(attr, &opts.visibility, &ident, Path::new(&qfile)))) {
                Ok(Ok(mut o)) => {
                    // the consumer crates of the harness name serde directly
                    o.set_serde_path(syn::parse_str(&opts.serde_path).expect("serde path"));
                    o
                }
                Ok(Err(e)) => return RealOutcome::Err(format!("derive options: {}", e)),
                Err(p) => return RealOutcome::Panic(panic_message(p)),
            }
        }
    };
    match catch_unwind(AssertUnwindSafe(|| {
        graphql_client_codegen::generate_module_token_stream_from_string(query_text, schema_path, o)
    })) {
        Ok(Ok(ts)) => RealOutcome::Ok(ts.to_string()),
        Ok(Err(e)) => RealOutcome::Err(e.to_string()),
        Err(p) => RealOutcome::Panic(panic_message(p)),
    }
}

/// `(sdl ..)` / `(json ..)` for the model, or the reason the text does not even parse
/// (in which case the implementation must panic and the model is not consulted).
pub fn schema_src_sexp(schema_text: &str, is_json: bool) -> Result<Sexp, String> {
    if is_json {
        let v: serde_json::Value = serde_json::from_str(schema_text).map_err(|e| e.to_string())?;
        Ok(tagged("json", vec![json_sexp(&v)]))
    } else {
        let doc = graphql_parser::parse_schema::<String>(schema_text).map_err(|e| e.to_string())?;
        Ok(schema_doc_sexp(&doc))
    }
}

/// the model's `default_*` bodies (`Model/DefaultLit.lean`), same arguments as `run_model`
pub fn run_model_defaults(model: &mut Model, schema_src: &Sexp, schema_text: &str, query_text: &str, opts: &Opts) -> Sexp {
    let doc = match graphql_parser::parse_query::<String>(query_text) {
        Ok(d) => d,
        Err(e) => return tagged("err", vec![st(&format!("Query parser error: {}", e))]),
    };
    let cases = case_table(&[schema_text, query_text, opts.struct_ident.as_deref().unwrap_or("")]);
    model.ask(&tagged("defaults", vec![schema_src.clone(), query_doc_sexp(&doc), st(query_text), opts.to_sexp(), cases]))
}

pub fn run_model(
    model: &mut Model,
    schema_src: &Sexp,
    schema_text: &str,
    query_text: &str,
    opts: &Opts,
) -> Sexp {
    let doc = match graphql_parser::parse_query::<String>(query_text) {
        Ok(d) => d,
        Err(e) => return tagged("err", vec![st(&format!("Query parser error: {}", e))]),
    };
    let cases = case_table(&[schema_text, query_text, opts.struct_ident.as_deref().unwrap_or("")]);
    model.ask(&tagged(
        "gen",
        vec![schema_src.clone(), query_doc_sexp(&doc), st(query_text), opts.to_sexp(), cases],
    ))
}

/// The model's prediction for `generate_module_token_stream_from_string`, in the order the code
/// works: the query text is parsed first (a parse error is an `Err`), then the schema file is loaded
/// (a schema text that does not parse makes the loader panic), then resolve + codegen (the model).
pub fn predict(model: &mut Model, schema_text: &str, is_json: bool, query_text: &str, opts: &Opts) -> Sexp {
    if let Err(e) = graphql_parser::parse_query::<String>(query_text) {
        return tagged("err", vec![st(&format!("Query parser error: {}", e))]);
    }
    match schema_src_sexp(schema_text, is_json) {
        Ok(src) => run_model(model, &src, schema_text, query_text, opts),
        Err(e) => tagged("panic", vec![st(&e)]),
    }
}

/// Compare the IR of one real module with one model module: item multisets (order-insensitive),
/// header fields exactly.  Returns human-readable differences.
pub fn diff_modules(real: &Sexp, model: &Sexp) -> Vec<String> {
    let mut out = Vec::new();
    let r = real.items();
    let m = model.items();
    if r.len() != 10 || m.len() != 10 {
        return vec![format!("module shape: real {} model {}", real.short(120), model.short(120))];
    }
    let names = ["", "modName", "vis", "structDecl", "operationName", "query", "queryInclude", "useSerde", "implFor"];
    for i in 1..9 {
        if r[i] != m[i] {
            out.push(format!("{}: real {} / model {}", names[i], r[i].short(200), m[i].short(200)));
        }
    }
    let mut ri: Vec<&Sexp> = r[9].items().iter().collect();
    let mut mi: Vec<&Sexp> = m[9].items().iter().collect();
    ri.sort();
    mi.sort();
    let (mut a, mut b) = (0, 0);
    while a < ri.len() || b < mi.len() {
        if a < ri.len() && b < mi.len() && ri[a] == mi[b] {
            a += 1;
            b += 1;
        } else if b >= mi.len() || (a < ri.len() && ri[a] < mi[b]) {
            out.push(format!("only in implementation: {}", ri[a].short(400)));
            a += 1;
        } else {
            out.push(format!("only in model: {}", mi[b].short(400)));
            b += 1;
        }
    }
    out
}

/// Full IR comparison of a real outcome with the model's reply.
pub fn compare_outcome(real: &RealOutcome, model: &Sexp) -> Result<(), Vec<String>> {
    let mk = model.head().unwrap_or("?");
    if mk == "nomodel" {
        return Ok(());
    }
    match real {
        RealOutcome::Ok(tokens) => {
            if mk != "ok" {
                return Err(vec![format!("implementation: ok, model: {}", model.short(200))]);
            }
            let mods = match extract::extract(tokens) {
                Ok(m) => m,
                Err(e) => return Err(vec![e]),
            };
            let mm = model.items()[1].items();
            if mods.len() != mm.len() {
                return Err(vec![format!("module count: implementation {} model {}", mods.len(), mm.len())]);
            }
            let mut diffs = Vec::new();
            for (r, m) in mods.iter().zip(mm.iter()) {
                diffs.extend(diff_modules(&r.sexp, m));
            }
            if diffs.is_empty() { Ok(()) } else { Err(diffs) }
        }
        RealOutcome::Err(_) => {
            if mk == "err" { Ok(()) } else { Err(vec![format!("implementation: {:?}, model: {}", real, model.short(200))]) }
        }
        RealOutcome::Panic(_) => {
            if mk == "panic" { Ok(()) } else { Err(vec![format!("implementation: {:?}, model: {}", real, model.short(200))]) }
        }
    }
}

pub fn work_dir() -> PathBuf {
    let base = std::env::var("VERIF_WORK").unwrap_or_else(|_| "/verif/.work".into());
    let d = PathBuf::from(base).join(format!("run-{}", std::process::id()));
    std::fs::create_dir_all(&d).unwrap();
    d
}
