//! graphql_parser ASTs and serde_json values → S-expressions (the model's input language).
//! Lexing/parsing is *shared* with the implementation (same graphql_parser / serde_json), not modelled.
use crate::sexp::*;
use graphql_parser::query as q;
use graphql_parser::schema as s;

pub fn ty_sexp<'a>(t: &s::Type<'a, String>) -> Sexp {
    match t {
        s::Type::NamedType(n) => tagged("named", vec![st(n)]),
        s::Type::ListType(t) => tagged("list", vec![ty_sexp(t)]),
        s::Type::NonNullType(t) => tagged("nonnull", vec![ty_sexp(t)]),
    }
}

fn directive_sexp<'a>(d: &s::Directive<'a, String>) -> Sexp {
    let args = d
        .arguments
        .iter()
        .map(|(n, v)| {
            let v = match v {
                q::Value::String(s) => tagged("s", vec![st(s)]),
                _ => tagged("other", vec![]),
            };
            list(vec![st(n), v])
        })
        .collect();
    tagged("dir", vec![st(&d.name), list(args)])
}

fn field_sexp<'a>(f: &s::Field<'a, String>) -> Sexp {
    tagged(
        "field",
        vec![
            st(&f.name),
            ty_sexp(&f.field_type),
            list(f.directives.iter().map(directive_sexp).collect()),
        ],
    )
}

pub fn schema_doc_sexp<'a>(doc: &s::Document<'a, String>) -> Sexp {
    let defs = doc
        .definitions
        .iter()
        .map(|d| match d {
            s::Definition::SchemaDefinition(sd) => tagged(
                "schemadef",
                vec![
                    opt_str(sd.query.as_deref()),
                    opt_str(sd.mutation.as_deref()),
                    opt_str(sd.subscription.as_deref()),
                ],
            ),
            s::Definition::TypeDefinition(td) => match td {
                s::TypeDefinition::Scalar(x) => tagged("scalar", vec![st(&x.name)]),
                s::TypeDefinition::Enum(x) => tagged(
                    "enum",
                    vec![st(&x.name), strs(x.values.iter().map(|v| v.name.as_str()))],
                ),
                s::TypeDefinition::Union(x) => {
                    tagged("union", vec![st(&x.name), strs(x.types.iter())])
                }
                s::TypeDefinition::Interface(x) => tagged(
                    "interface",
                    vec![st(&x.name), list(x.fields.iter().map(field_sexp).collect())],
                ),
                s::TypeDefinition::Object(x) => tagged(
                    "object",
                    vec![
                        st(&x.name),
                        strs(x.implements_interfaces.iter()),
                        list(x.fields.iter().map(field_sexp).collect()),
                    ],
                ),
                s::TypeDefinition::InputObject(x) => tagged(
                    "input",
                    vec![
                        st(&x.name),
                        strs(x.directives.iter().map(|d| d.name.as_str())),
                        list(
                            x.fields
                                .iter()
                                .map(|f| list(vec![st(&f.name), ty_sexp(&f.value_type)]))
                                .collect(),
                        ),
                    ],
                ),
            },
            s::Definition::TypeExtension(s::TypeExtension::Object(x)) => tagged(
                "extobject",
                vec![
                    st(&x.name),
                    strs(x.implements_interfaces.iter()),
                    list(x.fields.iter().map(field_sexp).collect()),
                ],
            ),
            _ => tagged("other", vec![]),
        })
        .collect();
    tagged("sdl", defs)
}

pub fn value_sexp<'a>(v: &q::Value<'a, String>) -> Sexp {
    match v {
        q::Value::Variable(n) => tagged("var", vec![st(n)]),
        q::Value::Int(i) => tagged("int", vec![atom(&i.as_i64().unwrap_or(0).to_string())]),
        q::Value::Float(f) => tagged("float", vec![st(&f.to_string())]),
        q::Value::String(s) => tagged("str", vec![st(s)]),
        q::Value::Boolean(b) => tagged("bool", vec![boolean(*b)]),
        q::Value::Null => tagged("null", vec![]),
        q::Value::Enum(e) => tagged("enum", vec![st(e)]),
        q::Value::List(xs) => tagged("list", xs.iter().map(value_sexp).collect()),
        q::Value::Object(kvs) => tagged(
            "obj",
            kvs.iter()
                .map(|(k, v)| list(vec![st(k), value_sexp(v)]))
                .collect(),
        ),
    }
}

fn selset_sexp<'a>(ss: &q::SelectionSet<'a, String>) -> Sexp {
    list(
        ss.items
            .iter()
            .map(|sel| match sel {
                q::Selection::Field(f) => tagged(
                    "field",
                    vec![
                        opt_str(f.alias.as_deref()),
                        st(&f.name),
                        selset_sexp(&f.selection_set),
                    ],
                ),
                q::Selection::FragmentSpread(sp) => tagged("spread", vec![st(&sp.fragment_name)]),
                q::Selection::InlineFragment(inl) => {
                    let on = inl.type_condition.as_ref().map(|tc| {
                        let q::TypeCondition::On(n) = tc;
                        n.as_str()
                    });
                    tagged("inline", vec![opt_str(on), selset_sexp(&inl.selection_set)])
                }
            })
            .collect(),
    )
}

fn vars_sexp<'a>(vs: &[q::VariableDefinition<'a, String>]) -> Sexp {
    list(
        vs.iter()
            .map(|v| {
                let d = match &v.default_value {
                    None => list(vec![]),
                    Some(d) => list(vec![value_sexp(d)]),
                };
                tagged("var", vec![st(&v.name), ty_sexp(&v.var_type), d])
            })
            .collect(),
    )
}

pub fn query_doc_sexp<'a>(doc: &q::Document<'a, String>) -> Sexp {
    let defs = doc
        .definitions
        .iter()
        .map(|d| match d {
            q::Definition::Fragment(f) => {
                let q::TypeCondition::On(on) = &f.type_condition;
                tagged(
                    "frag",
                    vec![st(&f.name), st(on), selset_sexp(&f.selection_set)],
                )
            }
            q::Definition::Operation(op) => match op {
                q::OperationDefinition::SelectionSet(ss) => {
                    tagged("selset", vec![selset_sexp(ss)])
                }
                q::OperationDefinition::Query(x) => tagged(
                    "op",
                    vec![
                        atom("query"),
                        opt_str(x.name.as_deref()),
                        vars_sexp(&x.variable_definitions),
                        selset_sexp(&x.selection_set),
                    ],
                ),
                q::OperationDefinition::Mutation(x) => tagged(
                    "op",
                    vec![
                        atom("mutation"),
                        opt_str(x.name.as_deref()),
                        vars_sexp(&x.variable_definitions),
                        selset_sexp(&x.selection_set),
                    ],
                ),
                q::OperationDefinition::Subscription(x) => tagged(
                    "op",
                    vec![
                        atom("subscription"),
                        opt_str(x.name.as_deref()),
                        vars_sexp(&x.variable_definitions),
                        selset_sexp(&x.selection_set),
                    ],
                ),
            },
        })
        .collect();
    tagged("qdoc", defs)
}

pub fn json_sexp(v: &serde_json::Value) -> Sexp {
    use serde_json::Value as V;
    match v {
        V::Null => tagged("null", vec![]),
        V::Bool(b) => tagged("bool", vec![boolean(*b)]),
        V::Number(n) => {
            if let Some(i) = n.as_i64() {
                tagged("int", vec![atom(&i.to_string())])
            } else if let Some(u) = n.as_u64() {
                tagged("int", vec![atom(&u.to_string())])
            } else {
                tagged("num", vec![st(&n.to_string())])
            }
        }
        V::String(s) => tagged("str", vec![st(s)]),
        V::Array(xs) => tagged("arr", xs.iter().map(json_sexp).collect()),
        V::Object(m) => tagged(
            "obj",
            m.iter().map(|(k, v)| list(vec![st(k), json_sexp(v)])).collect(),
        ),
    }
}

pub fn sexp_json(s: &Sexp) -> Option<serde_json::Value> {
    use serde_json::Value as V;
    let items = s.items();
    match s.head()? {
        "null" => Some(V::Null),
        "bool" => Some(V::Bool(items.get(1)?.as_str()? == "true")),
        "int" => {
            let t = items.get(1)?.as_str()?;
            if let Ok(i) = t.parse::<i64>() {
                Some(V::from(i))
            } else if let Ok(u) = t.parse::<u64>() {
                Some(V::from(u))
            } else {
                None
            }
        }
        "num" => serde_json::from_str(items.get(1)?.as_str()?).ok(),
        "str" => Some(V::String(items.get(1)?.as_str()?.to_string())),
        "arr" => Some(V::Array(
            items[1..].iter().map(sexp_json).collect::<Option<Vec<_>>>()?,
        )),
        "obj" => {
            let mut m = serde_json::Map::new();
            for kv in &items[1..] {
                let kv = kv.items();
                m.insert(kv.first()?.as_str()?.to_string(), sexp_json(kv.get(1)?)?);
            }
            Some(V::Object(m))
        }
        _ => None,
    }
}
