//! Client of the Lean model driver `gqlmodel` (one S-expression request per line, one reply per line).
use crate::sexp::Sexp;
use std::io::{BufRead, BufReader, Write};
use std::process::{Child, ChildStdin, ChildStdout, Command, Stdio};

pub struct Model {
    inner: Option<(Child, ChildStdin, BufReader<ChildStdout>)>,
    pub requests: u64,
}

pub fn model_path() -> String {
    std::env::var("GQLMODEL").unwrap_or_else(|_| "/verif/lean/.lake/build/bin/gqlmodel".to_string())
}

impl Model {
    /// `GQLMODEL=none`: the Lean build is broken; every request is answered `(nomodel)` and the
    /// harness runs the implementation against the property oracles only.
    pub fn spawn() -> Model {
        if model_path() == "none" {
            return Model { inner: None, requests: 0 };
        }
        let mut child = Command::new(model_path())
            .stdin(Stdio::piped())
            .stdout(Stdio::piped())
            .spawn()
            .unwrap_or_else(|e| panic!("cannot start model driver {}: {}", model_path(), e));
        let stdin = child.stdin.take().unwrap();
        let stdout = BufReader::new(child.stdout.take().unwrap());
        Model { inner: Some((child, stdin, stdout)), requests: 0 }
    }

    pub fn available(&self) -> bool {
        self.inner.is_some()
    }

    pub fn ask(&mut self, req: &Sexp) -> Sexp {
        self.requests += 1;
        let (_, stdin, stdout) = match self.inner.as_mut() {
            Some(x) => x,
            None => return crate::sexp::tagged("nomodel", vec![]),
        };
        let line = req.render();
        stdin.write_all(line.as_bytes()).unwrap();
        stdin.write_all(b"\n").unwrap();
        stdin.flush().unwrap();
        let mut reply = String::new();
        stdout.read_line(&mut reply).unwrap();
        if reply.is_empty() {
            panic!("model driver died on request: {}", req.short(400));
        }
        Sexp::parse(reply.trim_end_matches('\n'))
            .unwrap_or_else(|| panic!("unparsable model reply: {}", reply))
    }
}

impl Drop for Model {
    fn drop(&mut self) {
        if let Some((child, _, _)) = self.inner.as_mut() {
            let _ = child.kill();
            let _ = child.wait();
        }
    }
}
