//! Shared machinery of the correspondence harness: S-expression codec, Lean model client,
//! generators, syn → IR extractor, result collection.
pub mod ast2sexp;
pub mod caserun;
pub mod common;
pub mod consumer;
pub mod derive_front;
pub mod extract;
pub mod gen;
pub mod model;
pub mod report;
pub mod sexp;
