//! Running one (schema, document, options) case through the implementation and the model.
use crate::common::*;
use crate::extract::{self, ExtractedModule};
use crate::model::Model;
use crate::sexp::Sexp;
use std::path::PathBuf;

pub struct CaseCtx {
    pub work: PathBuf,
    pub model: Model,
    counter: usize,
}

pub struct CaseResult {
    /// the IR could only be extracted leniently (the strict extraction refused a construct: the model
    /// tie is already reported as broken through `diffs`; model requests on this IR are meaningless)
    pub lenient: bool,
    pub schema_path: PathBuf,
    pub real: RealOutcome,
    pub model: Sexp,
    pub modules: Option<Vec<ExtractedModule>>,
    pub diffs: Vec<String>,
}

impl CaseCtx {
    pub fn new() -> CaseCtx {
        quiet_panics();
        CaseCtx { work: work_dir(), model: Model::spawn(), counter: 0 }
    }

    pub fn schema_file(&mut self, text: &str, ext: &str) -> PathBuf {
        self.counter += 1;
        let dir = self.work.join("schemas");
        std::fs::create_dir_all(&dir).unwrap();
        let p = dir.join(format!("s{}.{}", self.counter, ext));
        std::fs::write(&p, text).unwrap();
        p
    }

    /// implementation only
    pub fn run_real(&mut self, schema_text: &str, is_json: bool, query_text: &str, opts: &Opts) -> (PathBuf, RealOutcome) {
        let p = self.schema_file(schema_text, if is_json { "json" } else { "graphql" });
        let r = run_real(&p, query_text, opts);
        (p, r)
    }

    pub fn run(&mut self, schema_text: &str, is_json: bool, query_text: &str, opts: &Opts) -> CaseResult {
        let (schema_path, real) = self.run_real(schema_text, is_json, query_text, opts);
        let model = predict(&mut self.model, schema_text, is_json, query_text, opts);
        let mut lenient = false;
        let modules = match &real {
            RealOutcome::Ok(t) => match extract::extract(t) {
                Ok(m) => Some(m),
                Err(_) => {
                    lenient = true;
                    extract::extract_lenient(t).ok()
                }
            },
            _ => None,
        };
        let diffs = match compare_outcome(&real, &model) {
            Ok(()) => vec![],
            Err(d) => d,
        };
        CaseResult { lenient, schema_path, real, model, modules, diffs }
    }
}

impl Drop for CaseCtx {
    fn drop(&mut self) {
        let _ = std::fs::remove_dir_all(&self.work);
    }
}

// ---- IR navigation helpers -----------------------------------------------------------------

pub fn ty_string(t: &Sexp) -> String {
    let it = t.items();
    match t.head() {
        Some("p") => it[1].as_str().unwrap_or("?").to_string(),
        Some("opt") => format!("Option<{}>", ty_string(&it[1])),
        Some("vec") => format!("Vec<{}>", ty_string(&it[1])),
        Some("box") => format!("Box<{}>", ty_string(&it[1])),
        _ => "?".into(),
    }
}

pub fn find_item<'a>(items: &'a [Sexp], kind: &str, name: &str) -> Option<&'a Sexp> {
    items.iter().find(|i| i.head() == Some(kind) && i.items().get(1).and_then(|n| n.as_str()) == Some(name))
}

pub struct FieldView<'a> {
    pub rust: &'a str,
    pub rename: Option<&'a str>,
    pub ty: &'a Sexp,
    pub flatten: bool,
    pub skip_none: bool,
    pub deser_with: Option<&'a str>,
    pub default: bool,
    pub deprecated: &'a Sexp,
}

impl<'a> FieldView<'a> {
    pub fn wire(&self) -> &'a str {
        // (serde un-raws a raw identifier itself: `r#type` is `type` on the wire)
        self.rename.unwrap_or_else(|| self.rust.strip_prefix("r#").unwrap_or(self.rust))
    }
}

fn opt_of(s: &Sexp) -> Option<&str> {
    s.items().first().and_then(|x| x.as_str())
}

pub fn struct_fields(item: &Sexp) -> Vec<FieldView<'_>> {
    if item.head() != Some("struct") {
        return vec![];
    }
    item.items()[4]
        .items()
        .iter()
        .map(|f| {
            let it = f.items();
            FieldView {
                rust: it[1].as_str().unwrap_or(""),
                rename: opt_of(&it[2]),
                ty: &it[3],
                flatten: it[4].as_str() == Some("true"),
                skip_none: it[5].as_str() == Some("true"),
                deser_with: opt_of(&it[6]),
                default: it[7].as_str() == Some("true"),
                deprecated: &it[8],
            }
        })
        .collect()
}

pub struct VariantView<'a> {
    pub name: &'a str,
    pub rename: Option<&'a str>,
    pub payload: Option<&'a Sexp>,
    pub other: bool,
}

pub fn enum_variants(item: &Sexp) -> Vec<VariantView<'_>> {
    let idx = match item.head() {
        Some("tagged") => 5,
        Some("oneof") => 4,
        _ => return vec![],
    };
    item.items()[idx]
        .items()
        .iter()
        .map(|v| {
            let it = v.items();
            VariantView {
                name: it[1].as_str().unwrap_or(""),
                rename: opt_of(&it[2]),
                payload: it[3].items().first(),
                other: it[4].as_str() == Some("true"),
            }
        })
        .collect()
}
