//! The derive delivery form's front end, from the working tree: `#[graphql(...)]` attribute text -> options.
//! `graphql_query_derive` is a proc-macro crate and cannot be linked; `build.rs` copies its option-building function
//! from the current source (and mounts the real `attributes.rs` as a `#[path]` module), exactly as the C18 harness does.
//! The wire-level harnesses (C01, C03, C04, C09, C14 ...) route a share of their cases through it, so that a property
//! broken for users of the derive macro through the attribute scanner is seen by that property's own check.
use crate::common::Opts;
use crate::gen::rng::Rng;
use graphql_client_codegen::GraphQLClientCodegenOptions;
use std::path::Path;

#[allow(unused_imports, dead_code, clippy::all)]
mod derive_lib {
    include!(concat!(env!("OUT_DIR"), "/derive_lib.rs"));
}

pub fn tie_broken() -> Option<&'static str> {
    derive_lib::TIE_BROKEN
}

/// what `#[derive(GraphQLQuery)] #[graphql(<attr>)] <vis> struct <ident>;` makes the derive pass to the generator
pub fn options_from_attr(attr: &str, vis: &str, ident: &str, query_path: &Path) -> Result<GraphQLClientCodegenOptions, String> {
    let text = format!("#[derive(GraphQLQuery)]\n#[graphql({})]\n{} struct {};", attr, vis, ident);
    let ast: syn::DeriveInput = syn::parse_str(&text).map_err(|e| format!("derive input does not parse: {}", e))?;
    derive_lib::build_graphql_client_derive_options(&ast, query_path.to_path_buf()).map_err(|e| e.to_string())
}

/// The options of `o` written as the user of the derive would write them: every key in a random position (the
/// scanners are positional), booleans spelled out, flags next to `key = value` pairs, optional trailing comma.
pub fn render_attr(o: &Opts, rng: &mut Rng) -> String {
    let mut items: Vec<String> = vec!["schema_path = \"schema.graphql\"".into(), "query_path = \"query.graphql\"".into()];
    if let Some(d) = &o.response_derives {
        items.push(format!("response_derives = {:?}", d));
    }
    if let Some(d) = &o.variables_derives {
        items.push(format!("variables_derives = {:?}", d));
    }
    match o.deprecation {
        // (the documented lower-case spellings; other spellings are the business of C18's own check)
        "warn" => {
            if rng.chance(50) {
                items.push("deprecated = \"warn\"".into());
            }
        }
        d => items.push(format!("deprecated = {:?}", d)),
    }
    if o.normalization_rust {
        items.push("normalization = \"rust\"".into());
    } else if rng.chance(50) {
        items.push("normalization = \"none\"".into());
    }
    if let Some(m) = &o.scalars_module {
        items.push(format!("custom_scalars_module = {:?}", m));
    }
    if !o.extern_enums.is_empty() {
        items.push(format!("extern_enums({})", o.extern_enums.iter().map(|e| format!("{:?}", e)).collect::<Vec<_>>().join(", ")));
    } else if rng.chance(if o.skip_none { 75 } else { 35 }) {
        // the list form next to the other keys and flags (most often when the bare flag is there too); naming an enum the
        // schema does not have changes nothing
        items.push("extern_enums(\"NoSuchEnumInTheSchema\")".into());
    }
    if o.other_variant {
        items.push("fragments_other_variant = \"true\"".into());
    } else if rng.chance(60) {
        // written out: `false` must stay false
        items.push("fragments_other_variant = \"false\"".into());
    }
    if o.skip_none {
        items.push("skip_serializing_none".into());
    }
    rng.shuffle(&mut items);
    let mut s = items.join(if rng.chance(50) { ", " } else { ",\n    " });
    if rng.chance(40) {
        s.push(',');
    }
    s
}
