//! The C06 rule catalogue as single invalidating edits applied at every applicable position of a
//! valid document (any depth, inside fragments, inside inline fragments, on objects / interfaces / unions).
use super::op::*;
use super::schema::*;

#[derive(Clone, Debug)]
pub struct Pos {
    /// `Ok(i)` operation i, `Err(j)` fragment j
    pub container: Result<usize, usize>,
    /// child indices from the container's root selection set down to the selection whose
    /// sub-selection set this position denotes (empty = the root selection set)
    pub path: Vec<usize>,
    pub parent_type: String,
    pub under_inline: bool,
}

impl Pos {
    pub fn describe(&self) -> String {
        format!(
            "{}{}@{:?} on {}{}",
            if self.container.is_ok() { "op" } else { "fragment" },
            match self.container { Ok(i) | Err(i) => i },
            self.path,
            self.parent_type,
            if self.under_inline { " (under inline fragment)" } else { "" }
        )
    }
    pub fn kind_tag(&self, s: &ASchema) -> String {
        format!(
            "{}/{}/depth{}{}",
            if self.container.is_ok() { "operation" } else { "fragment" },
            s.kind_of(&self.parent_type).to_lowercase(),
            self.path.len().min(3),
            if self.under_inline { "/inline" } else { "" }
        )
    }
}

fn walk(s: &ASchema, sels: &[ASel], parent: &str, container: Result<usize, usize>, path: &mut Vec<usize>, under_inline: bool, out: &mut Vec<Pos>) {
    out.push(Pos { container, path: path.clone(), parent_type: parent.to_string(), under_inline });
    let fields = s.fields_of(parent);
    for (i, sel) in sels.iter().enumerate() {
        match sel {
            ASel::Field { name, sub, .. } => {
                if let Some(f) = fields.iter().find(|f| &f.name == name) {
                    let base = f.ty.base().to_string();
                    if s.is_composite(&base) && !sub.is_empty() {
                        path.push(i);
                        walk(s, sub, &base, container, path, false, out);
                        path.pop();
                    }
                }
            }
            ASel::Inline { on, sub } => {
                path.push(i);
                walk(s, sub, on, container, path, true, out);
                path.pop();
            }
            _ => {}
        }
    }
}

/// every selection set of the document with its parent type
pub fn positions(s: &ASchema, doc: &ADoc) -> Vec<Pos> {
    let mut out = Vec::new();
    for (i, op) in doc.ops.iter().enumerate() {
        let root = match op.kind {
            "query" => s.query.clone(),
            "mutation" => s.mutation.clone(),
            _ => s.subscription.clone(),
        };
        if let Some(root) = root {
            walk(s, &op.sels, &root, Ok(i), &mut vec![], false, &mut out);
        }
    }
    for (j, f) in doc.frags.iter().enumerate() {
        walk(s, &f.sels, &f.on, Err(j), &mut vec![], false, &mut out);
    }
    out
}

fn selset_mut<'a>(doc: &'a mut ADoc, pos: &Pos) -> &'a mut Vec<ASel> {
    let mut cur: &mut Vec<ASel> = match pos.container {
        Ok(i) => &mut doc.ops[i].sels,
        Err(j) => &mut doc.frags[j].sels,
    };
    for &i in &pos.path {
        cur = match &mut cur[i] {
            ASel::Field { sub, .. } | ASel::Inline { sub, .. } => sub,
            _ => unreachable!("path through a leaf"),
        };
    }
    cur
}

#[derive(Clone, Copy, Debug, PartialEq, Eq, PartialOrd, Ord)]
pub enum Edit {
    UnknownField,
    SubselectionOnLeaf,
    NoSelectionOnComposite,
    UndefinedFragment,
    UnknownTypeCondition,
    FragmentOnUnknownType,
    ImpossibleTypeCondition,
    ImpossibleFragmentSpread,
    MissingTypename,
    TypenameWithSelection,
    SubscriptionSecondRootField,
    SubscriptionRootViaFragment,
    AnonymousOperation,
    BareSelectionSet,
    MissingRootType,
    DuplicateFragmentName,
    DuplicateOperationName,
    ImpossibleSpreadOfUsedFragment,
    TypenameOnlyInVariantSpread,
    TypenameOnlyInVariantInline,
    /// like ImpossibleTypeCondition / ImpossibleFragmentSpread, with an INTERFACE or UNION as the type condition
    ImpossibleAbstractCondition,
    ImpossibleAbstractSpread,
    /// a composite field is selected a SECOND time in the same selection set (same response key), and only the second
    /// occurrence's sub-selection names a field that does not exist: every occurrence must be checked against the schema
    UnknownFieldUnderRepeatedField,
}

pub const ALL_EDITS: [Edit; 23] = [
    Edit::UnknownField,
    Edit::SubselectionOnLeaf,
    Edit::NoSelectionOnComposite,
    Edit::UndefinedFragment,
    Edit::UnknownTypeCondition,
    Edit::FragmentOnUnknownType,
    Edit::ImpossibleTypeCondition,
    Edit::ImpossibleFragmentSpread,
    Edit::MissingTypename,
    Edit::TypenameWithSelection,
    Edit::SubscriptionSecondRootField,
    Edit::SubscriptionRootViaFragment,
    Edit::AnonymousOperation,
    Edit::BareSelectionSet,
    Edit::MissingRootType,
    Edit::DuplicateFragmentName,
    Edit::DuplicateOperationName,
    Edit::ImpossibleSpreadOfUsedFragment,
    Edit::TypenameOnlyInVariantSpread,
    Edit::TypenameOnlyInVariantInline,
    Edit::ImpossibleAbstractCondition,
    Edit::ImpossibleAbstractSpread,
    Edit::UnknownFieldUnderRepeatedField,
];

impl Edit {
    pub fn name(&self) -> &'static str {
        match self {
            Edit::UnknownField => "unknown-field",
            Edit::SubselectionOnLeaf => "subselection-on-leaf",
            Edit::NoSelectionOnComposite => "composite-field-without-selection-set",
            Edit::UndefinedFragment => "undefined-fragment",
            Edit::UnknownTypeCondition => "unknown-type-condition",
            Edit::FragmentOnUnknownType => "fragment-on-unknown-type",
            Edit::ImpossibleTypeCondition => "impossible-type-condition",
            Edit::ImpossibleFragmentSpread => "impossible-fragment-spread",
            Edit::MissingTypename => "missing-typename",
            Edit::TypenameWithSelection => "typename-with-selection",
            Edit::SubscriptionSecondRootField => "subscription-second-root-field",
            Edit::SubscriptionRootViaFragment => "subscription-root-via-fragment",
            Edit::AnonymousOperation => "anonymous-operation",
            Edit::BareSelectionSet => "bare-selection-set",
            Edit::MissingRootType => "missing-root-type",
            Edit::DuplicateFragmentName => "duplicate-fragment-name",
            Edit::DuplicateOperationName => "duplicate-operation-name",
            Edit::ImpossibleSpreadOfUsedFragment => "impossible-spread-of-used-fragment",
            Edit::TypenameOnlyInVariantSpread => "typename-only-in-variant-spread",
            Edit::TypenameOnlyInVariantInline => "typename-only-in-variant-inline",
            Edit::ImpossibleAbstractCondition => "impossible-abstract-type-condition",
            Edit::ImpossibleAbstractSpread => "impossible-abstract-fragment-spread",
            Edit::UnknownFieldUnderRepeatedField => "unknown-field-under-a-repeated-field",
        }
    }
    /// document-level edits are applied once per operation, not per position
    pub fn per_position(&self) -> bool {
        !matches!(
            self,
            Edit::FragmentOnUnknownType
                | Edit::SubscriptionSecondRootField
                | Edit::SubscriptionRootViaFragment
                | Edit::AnonymousOperation
                | Edit::BareSelectionSet
                | Edit::MissingRootType
                | Edit::DuplicateFragmentName
                | Edit::DuplicateOperationName
        )
    }
}

/// rename a type everywhere in the schema (definition, field types, union members, implements lists)
fn rename_type(s: &mut ASchema, old: &str, new: &str) {
    fn ty(t: &mut ATy, old: &str, new: &str) {
        match t {
            ATy::Named(n) => {
                if n == old {
                    *n = new.to_string()
                }
            }
            ATy::List(i) | ATy::NonNull(i) => ty(i, old, new),
        }
    }
    let fix = |n: &mut String| {
        if n == old {
            *n = new.to_string()
        }
    };
    for t in s.types.iter_mut() {
        match t {
            AType::Scalar { name } | AType::Enum { name, .. } => fix(name),
            AType::Object { name, implements, fields, ext_fields } => {
                fix(name);
                implements.iter_mut().for_each(fix);
                fields.iter_mut().chain(ext_fields.iter_mut()).for_each(|f| ty(&mut f.ty, old, new));
            }
            AType::Interface { name, fields } => {
                fix(name);
                fields.iter_mut().for_each(|f| ty(&mut f.ty, old, new));
            }
            AType::Union { name, members } => {
                fix(name);
                members.iter_mut().for_each(fix);
            }
            AType::Input { name, fields, .. } => {
                fix(name);
                fields.iter_mut().for_each(|f| ty(&mut f.1, old, new));
            }
        }
    }
    for r in [&mut s.query, &mut s.mutation, &mut s.subscription] {
        if r.as_deref() == Some(old) {
            *r = Some(new.to_string());
        }
    }
}

/// a composite type whose possible types do not intersect `parent`'s (and which is not `parent`)
fn disjoint_type(s: &ASchema, parent: &str, pick: usize) -> Option<String> {
    disjoint_type_of(s, parent, pick, false)
}

fn disjoint_type_of(s: &ASchema, parent: &str, pick: usize, abstract_only: bool) -> Option<String> {
    let pp = s.possible_types(parent);
    let mut cands: Vec<String> = s
        .types
        .iter()
        .filter(|t| matches!(t, AType::Interface { .. } | AType::Union { .. }) || (!abstract_only && matches!(t, AType::Object { .. })))
        .map(|t| t.name().to_string())
        .filter(|n| n != parent && !s.possible_types(n).iter().any(|p| pp.contains(p)))
        .collect();
    if cands.is_empty() {
        return None;
    }
    let i = pick % cands.len();
    Some(cands.swap_remove(i))
}

/// does the selection (of abstract type `t`) select `__typename` directly or through same-type fragments?
pub fn has_typename(doc: &ADoc, t: &str, sels: &[ASel], depth: usize) -> bool {
    if depth > 16 {
        return false;
    }
    sels.iter().any(|s| match s {
        ASel::Typename => true,
        ASel::Spread { name } => doc.frag(name).map(|f| f.on == t && has_typename(doc, t, &f.sels, depth + 1)).unwrap_or(false),
        _ => false,
    })
}

/// Apply `edit` at `pos` (or at operation `op_idx` for document-level edits).  `None` when the edit is
/// not applicable there.  The returned schema is the (possibly edited) schema.
pub fn apply(s: &ASchema, doc: &ADoc, edit: Edit, pos: Option<&Pos>, op_idx: usize, pick: usize) -> Option<(ASchema, ADoc, String)> {
    let mut d = doc.clone();
    let mut schema = s.clone();
    let desc;
    match edit {
        Edit::UnknownField => {
            let pos = pos?;
            if s.kind_of(&pos.parent_type) == "UNION" {
                // any field but __typename is unknown on a union
            }
            let set = selset_mut(&mut d, pos);
            let at = pick % (set.len() + 1);
            set.insert(at, ASel::Field { alias: None, name: "noSuchFieldAnywhere".into(), sub: vec![] });
            desc = format!("field `noSuchFieldAnywhere` added at {}", pos.describe());
        }
        Edit::UnknownFieldUnderRepeatedField => {
            let pos = pos?;
            let set = selset_mut(&mut d, pos);
            let composites: Vec<usize> = set.iter().enumerate().filter(|(_, sel)| matches!(sel, ASel::Field { sub, .. } if !sub.is_empty())).map(|(i, _)| i).collect();
            if composites.is_empty() {
                return None;
            }
            let i = composites[pick % composites.len()];
            let mut twin = set[i].clone();
            if let ASel::Field { sub, .. } = &mut twin {
                sub.push(ASel::Field { alias: None, name: "noSuchFieldAnywhere".into(), sub: vec![] });
            }
            // right after the first occurrence, or at the end of the selection set
            let at = if pick % 2 == 0 { i + 1 } else { set.len() };
            set.insert(at, twin);
            desc = format!("a composite field selected a second time at {}, with `noSuchFieldAnywhere` under the second occurrence only", pos.describe());
        }
        Edit::SubselectionOnLeaf => {
            let pos = pos?;
            let fields = s.fields_of(&pos.parent_type);
            let set = selset_mut(&mut d, pos);
            let leafs: Vec<usize> = set
                .iter()
                .enumerate()
                .filter(|(_, sel)| match sel {
                    ASel::Field { name, .. } => fields.iter().any(|f| &f.name == name && !s.is_composite(f.ty.base())),
                    _ => false,
                })
                .map(|(i, _)| i)
                .collect();
            if leafs.is_empty() {
                return None;
            }
            let i = leafs[pick % leafs.len()];
            if let ASel::Field { sub, name, .. } = &mut set[i] {
                sub.push(ASel::Field { alias: None, name: "x".into(), sub: vec![] });
                desc = format!("sub-selection given to leaf field `{}` at {}", name, pos.describe());
            } else {
                return None;
            }
        }
        Edit::NoSelectionOnComposite => {
            let pos = pos?;
            let fields = s.fields_of(&pos.parent_type);
            let set = selset_mut(&mut d, pos);
            let comps: Vec<usize> = set
                .iter()
                .enumerate()
                .filter(|(_, sel)| match sel {
                    ASel::Field { name, sub, .. } => !sub.is_empty() && fields.iter().any(|f| &f.name == name && s.is_composite(f.ty.base())),
                    _ => false,
                })
                .map(|(i, _)| i)
                .collect();
            if comps.is_empty() {
                return None;
            }
            let i = comps[pick % comps.len()];
            if let ASel::Field { sub, name, .. } = &mut set[i] {
                sub.clear();
                desc = format!("selection set removed from composite field `{}` at {}", name, pos.describe());
            } else {
                return None;
            }
        }
        Edit::UndefinedFragment => {
            let pos = pos?;
            let set = selset_mut(&mut d, pos);
            let at = pick % (set.len() + 1);
            set.insert(at, ASel::Spread { name: "NoSuchFragment".into() });
            desc = format!("spread of undefined fragment at {}", pos.describe());
        }
        Edit::UnknownTypeCondition => {
            let pos = pos?;
            let set = selset_mut(&mut d, pos);
            let at = pick % (set.len() + 1);
            set.insert(at, ASel::Inline { on: "NoSuchType".into(), sub: vec![ASel::Typename] });
            desc = format!("inline fragment on unknown type at {}", pos.describe());
        }
        Edit::FragmentOnUnknownType => {
            d.frags.push(AFrag { name: "OrphanFragment".into(), on: "NoSuchType".into(), sels: vec![ASel::Typename] });
            desc = "fragment definition on unknown type".to_string();
        }
        Edit::ImpossibleTypeCondition => {
            let pos = pos?;
            let t = disjoint_type(s, &pos.parent_type, pick)?;
            let set = selset_mut(&mut d, pos);
            let at = pick % (set.len() + 1);
            set.insert(at, ASel::Inline { on: t.clone(), sub: vec![ASel::Typename] });
            desc = format!("inline fragment on `{}` which can never apply at {}", t, pos.describe());
        }
        Edit::ImpossibleFragmentSpread => {
            let pos = pos?;
            let t = disjoint_type(s, &pos.parent_type, pick)?;
            d.frags.push(AFrag { name: "MisplacedFragment".into(), on: t.clone(), sels: vec![ASel::Typename] });
            let set = selset_mut(&mut d, pos);
            let at = pick % (set.len() + 1);
            set.insert(at, ASel::Spread { name: "MisplacedFragment".into() });
            desc = format!("spread of a fragment on `{}` which can never apply at {}", t, pos.describe());
        }
        Edit::ImpossibleAbstractCondition => {
            let pos = pos?;
            let t = disjoint_type_of(s, &pos.parent_type, pick, true)?;
            let set = selset_mut(&mut d, pos);
            let at = pick % (set.len() + 1);
            set.insert(at, ASel::Inline { on: t.clone(), sub: vec![ASel::Typename] });
            desc = format!("inline fragment on the abstract type `{}`, none of whose possible types can occur at {}", t, pos.describe());
        }
        Edit::ImpossibleAbstractSpread => {
            let pos = pos?;
            let t = disjoint_type_of(s, &pos.parent_type, pick, true)?;
            d.frags.push(AFrag { name: "MisplacedFragment".into(), on: t.clone(), sels: vec![ASel::Typename] });
            let set = selset_mut(&mut d, pos);
            let at = pick % (set.len() + 1);
            set.insert(at, ASel::Spread { name: "MisplacedFragment".into() });
            desc = format!("spread of a fragment on the abstract type `{}`, none of whose possible types can occur at {}", t, pos.describe());
        }
        Edit::ImpossibleSpreadOfUsedFragment => {
            // a fragment that is already spread (validly) somewhere else is additionally spread where its
            // type condition can never apply: every spread has to be checked, not every fragment once
            let pos = pos?;
            let pp = s.possible_types(&pos.parent_type);
            let cands: Vec<&AFrag> = d
                .frags
                .iter()
                .filter(|f| f.on != pos.parent_type && pos.container != Err(d.frags.iter().position(|g| g.name == f.name).unwrap_or(usize::MAX)))
                .filter(|f| !s.possible_types(&f.on).iter().any(|t| pp.contains(t)))
                .collect();
            if cands.is_empty() {
                return None;
            }
            let f = cands[pick % cands.len()].clone();
            let set = selset_mut(&mut d, pos);
            let at = if pick % 3 == 0 { pick % (set.len() + 1) } else { set.len() };
            set.insert(at, ASel::Spread { name: f.name.clone() });
            desc = format!("existing fragment `{}` (on `{}`) additionally spread where it can never apply, at {}", f.name, f.on, pos.describe());
        }
        Edit::TypenameOnlyInVariantSpread | Edit::TypenameOnlyInVariantInline => {
            // `__typename` is moved from the abstract selection into a fragment on ONE concrete member:
            // the abstract selection itself no longer has it
            let pos = pos?;
            if !s.is_abstract(&pos.parent_type) || pos.under_inline {
                return None;
            }
            let parent = pos.parent_type.clone();
            let members = s.possible_types(&parent);
            if members.is_empty() {
                return None;
            }
            let member = members[pick % members.len()].clone();
            let set = selset_mut(&mut d, pos);
            if !set.iter().any(|x| matches!(x, ASel::Typename)) {
                return None;
            }
            set.retain(|x| !matches!(x, ASel::Typename));
            let via_spread = edit == Edit::TypenameOnlyInVariantSpread;
            if via_spread {
                set.push(ASel::Spread { name: "VariantWithTypename".into() });
            } else {
                set.push(ASel::Inline { on: member.clone(), sub: vec![ASel::Typename] });
            }
            let remaining = set.clone();
            if via_spread {
                d.frags.push(AFrag { name: "VariantWithTypename".into(), on: member.clone(), sels: vec![ASel::Typename] });
            }
            if has_typename(&d, &parent, &remaining, 0) {
                return None;
            }
            desc = format!("`__typename` of the abstract selection at {} moved into a {} on member `{}`", pos.describe(), if via_spread { "fragment spread" } else { "inline fragment" }, member);
        }
        Edit::MissingTypename => {
            let pos = pos?;
            if !s.is_abstract(&pos.parent_type) || pos.under_inline {
                return None;
            }
            let parent = pos.parent_type.clone();
            let set = selset_mut(&mut d, pos);
            if !set.iter().any(|x| matches!(x, ASel::Typename)) {
                return None;
            }
            set.retain(|x| !matches!(x, ASel::Typename));
            let remaining = set.clone();
            if has_typename(&d, &parent, &remaining, 0) {
                return None; // still provided by a same-type fragment: not an invalidating edit
            }
            if remaining.is_empty() {
                return None; // would not parse
            }
            desc = format!("`__typename` removed from the selection on abstract type at {}", pos.describe());
        }
        Edit::TypenameWithSelection => {
            let pos = pos?;
            let set = selset_mut(&mut d, pos);
            let at = pick % (set.len() + 1);
            set.insert(at, ASel::Field { alias: None, name: "__typename".into(), sub: vec![ASel::Field { alias: None, name: "x".into(), sub: vec![] }] });
            desc = format!("`__typename {{ x }}` added at {}", pos.describe());
        }
        Edit::SubscriptionSecondRootField => {
            let op = d.ops.get_mut(op_idx)?;
            if op.kind != "subscription" {
                return None;
            }
            let root = s.subscription.clone()?;
            let fields = s.fields_of(&root);
            // either another (leaf) field, or the SAME root field once more under a second response key
            let same = op.sels.iter().find_map(|x| if let ASel::Field { name, sub, .. } = x { Some((name.clone(), sub.clone())) } else { None });
            match (pick % 2 == 1, same) {
                (true, Some((name, sub))) => {
                    op.sels.push(ASel::Field { alias: Some("secondRoot".into()), name, sub });
                    desc = "the subscription's root field selected a second time under another alias".to_string();
                }
                _ => {
                    let f = fields.iter().find(|f| !s.is_composite(f.ty.base()))?;
                    op.sels.push(ASel::Field { alias: Some("secondRoot".into()), name: f.name.clone(), sub: vec![] });
                    desc = "second root field added to a subscription".to_string();
                }
            }
        }
        Edit::SubscriptionRootViaFragment => {
            let root = s.subscription.clone()?;
            let op = d.ops.get_mut(op_idx)?;
            if op.kind != "subscription" {
                return None;
            }
            let fields = s.fields_of(&root);
            let mut fsels = std::mem::take(&mut op.sels);
            let same = fsels.iter().find_map(|x| if let ASel::Field { name, sub, .. } = x { Some((name.clone(), sub.clone())) } else { None });
            match (pick % 2 == 1, same) {
                // the same schema field twice, under two response keys: still two root fields
                (true, Some((name, sub))) => fsels.push(ASel::Field { alias: Some("secondRoot".into()), name, sub }),
                _ => {
                    let f = fields.iter().find(|f| !s.is_composite(f.ty.base()))?;
                    fsels.push(ASel::Field { alias: Some("secondRoot".into()), name: f.name.clone(), sub: vec![] });
                }
            }
            op.sels = vec![ASel::Spread { name: "SubscriptionRootFields".into() }];
            d.frags.push(AFrag { name: "SubscriptionRootFields".into(), on: root, sels: fsels });
            desc = "subscription root selection moved into a fragment selecting two fields".to_string();
        }
        Edit::AnonymousOperation => {
            let op = d.ops.get_mut(op_idx)?;
            op.name = String::new();
            desc = format!("operation {} made anonymous (keyword kept)", op_idx);
        }
        Edit::BareSelectionSet => {
            let op = d.ops.get_mut(op_idx)?;
            if op.kind != "query" || !op.vars.is_empty() {
                return None;
            }
            op.name = String::new();
            op.kind = "";
            desc = format!("operation {} written as a bare selection set", op_idx);
        }
        Edit::DuplicateFragmentName => {
            // a second fragment with an already used name, on another type, whose body would be invalid
            // there: if the two definitions are merged the body is never checked against its own type
            if op_idx != 0 {
                return None;
            }
            let first = d.frags.get(pick % d.frags.len().max(1))?.clone();
            let other = disjoint_type(s, &first.on, pick).or_else(|| s.query.clone())?;
            d.frags.push(AFrag { name: first.name.clone(), on: other.clone(), sels: vec![ASel::Typename, ASel::Inline { on: first.on.clone(), sub: vec![ASel::Typename] }] });
            desc = format!("second fragment named `{}` (on `{}`)", first.name, other);
        }
        Edit::DuplicateOperationName => {
            let op = d.ops.get(op_idx)?.clone();
            if op.kind != "query" {
                return None;
            }
            let mut dup = op.clone();
            dup.vars.clear();
            d.ops.push(dup);
            desc = format!("second operation named `{}`", op.name);
        }
        Edit::MissingRootType => {
            let op = d.ops.get(op_idx)?;
            // the former root type stays in the schema as an ordinary object AND carries the conventional
            // name (`Mutation` / `Subscription`): the explicit `schema { }` block simply does not list it
            let (old, default_name) = match op.kind {
                "mutation" => (schema.mutation.take()?, "Mutation"),
                "subscription" => (schema.subscription.take()?, "Subscription"),
                _ => return None,
            };
            if old != default_name && schema.get(default_name).is_none() {
                rename_type(&mut schema, &old, default_name);
            }
            desc = format!("schema no longer designates a root type for the {} operation (the former root type is an ordinary object named {})", op.kind, default_name);
        }
    }
    Some((schema, d, desc))
}
