//! One xorshift64* PRNG; every random choice of a run derives from `VERIF_SEED`.
#[derive(Clone)]
pub struct Rng(pub u64);

impl Rng {
    pub fn new(seed: u64) -> Rng {
        let mut r = Rng(seed ^ 0x9E37_79B9_7F4A_7C15);
        if r.0 == 0 {
            r.0 = 0x1234_5678_9ABC_DEF1;
        }
        for _ in 0..4 {
            r.next();
        }
        r
    }
    pub fn next(&mut self) -> u64 {
        let mut x = self.0;
        x ^= x >> 12;
        x ^= x << 25;
        x ^= x >> 27;
        self.0 = x;
        x.wrapping_mul(0x2545_F491_4F6C_DD1D)
    }
    /// uniform in 0..n (n > 0)
    pub fn below(&mut self, n: usize) -> usize {
        (self.next() % (n as u64)) as usize
    }
    pub fn range(&mut self, lo: usize, hi_incl: usize) -> usize {
        lo + self.below(hi_incl - lo + 1)
    }
    pub fn chance(&mut self, percent: u32) -> bool {
        (self.next() % 100) < percent as u64
    }
    pub fn pick<'a, T>(&mut self, xs: &'a [T]) -> &'a T {
        &xs[self.below(xs.len())]
    }
    pub fn shuffle<T>(&mut self, xs: &mut Vec<T>) {
        for i in (1..xs.len()).rev() {
            let j = self.below(i + 1);
            xs.swap(i, j);
        }
    }
    pub fn fork(&mut self) -> Rng {
        Rng::new(self.next())
    }
}

pub fn seed_from_env() -> u64 {
    std::env::var("VERIF_SEED").ok().and_then(|s| s.parse::<u64>().ok()).unwrap_or(20260930)
}
