//! Abstract schemas and their renderings as SDL text and introspection JSON.
use super::rng::Rng;
use serde_json::{json, Value};
use std::collections::BTreeMap;

#[derive(Clone, Debug, PartialEq)]
pub enum ATy {
    Named(String),
    List(Box<ATy>),
    NonNull(Box<ATy>),
}

impl ATy {
    pub fn named(n: &str) -> ATy {
        ATy::Named(n.to_string())
    }
    pub fn base(&self) -> &str {
        match self {
            ATy::Named(n) => n,
            ATy::List(t) | ATy::NonNull(t) => t.base(),
        }
    }
    pub fn render(&self) -> String {
        match self {
            ATy::Named(n) => n.clone(),
            ATy::List(t) => format!("[{}]", t.render()),
            ATy::NonNull(t) => format!("{}!", t.render()),
        }
    }
    pub fn is_non_null(&self) -> bool {
        matches!(self, ATy::NonNull(_))
    }
    pub fn has_list(&self) -> bool {
        match self {
            ATy::Named(_) => false,
            ATy::List(_) => true,
            ATy::NonNull(t) => t.has_list(),
        }
    }
    pub fn list_depth(&self) -> usize {
        match self {
            ATy::Named(_) => 0,
            ATy::List(t) => 1 + t.list_depth(),
            ATy::NonNull(t) => t.list_depth(),
        }
    }
    /// the Rust type the single documented rule gives (the *specification* for C13)
    pub fn rust_of(&self, base: &str) -> String {
        fn nn(t: &ATy, base: &str) -> String {
            match t {
                ATy::Named(_) => base.to_string(),
                ATy::List(t) => format!("Vec<{}>", t.rust_of(base)),
                ATy::NonNull(t) => nn(t, base),
            }
        }
        match self {
            ATy::NonNull(t) => nn(t, base),
            t => format!("Option<{}>", nn(t, base)),
        }
    }
    pub fn to_json(&self, kind_of: &dyn Fn(&str) -> &'static str) -> Value {
        match self {
            ATy::Named(n) => json!({"kind": kind_of(n), "name": n, "ofType": null}),
            ATy::List(t) => json!({"kind": "LIST", "name": null, "ofType": t.to_json(kind_of)}),
            ATy::NonNull(t) => json!({"kind": "NON_NULL", "name": null, "ofType": t.to_json(kind_of)}),
        }
    }
    /// every type expression over `base` with list depth ≤ `depth` and every placement of `!`
    pub fn all_shapes(base: &str, depth: usize) -> Vec<ATy> {
        let mut out = Vec::new();
        let mut level: Vec<ATy> = vec![ATy::named(base), ATy::NonNull(Box::new(ATy::named(base)))];
        out.extend(level.clone());
        for _ in 0..depth {
            let mut next = Vec::new();
            for t in &level {
                let l = ATy::List(Box::new(t.clone()));
                next.push(l.clone());
                next.push(ATy::NonNull(Box::new(l)));
            }
            out.extend(next.clone());
            level = next;
        }
        out
    }
}

#[derive(Clone, Debug, PartialEq)]
pub struct AField {
    pub name: String,
    pub ty: ATy,
    /// `Some(None)` deprecated without reason
    pub dep: Option<Option<String>>,
}

#[derive(Clone, Debug, PartialEq)]
pub enum AType {
    Scalar { name: String },
    Enum { name: String, values: Vec<String> },
    Object { name: String, implements: Vec<String>, fields: Vec<AField>, ext_fields: Vec<AField> },
    Interface { name: String, fields: Vec<AField> },
    Union { name: String, members: Vec<String> },
    Input { name: String, one_of: bool, fields: Vec<(String, ATy)> },
}

impl AType {
    pub fn name(&self) -> &str {
        match self {
            AType::Scalar { name }
            | AType::Enum { name, .. }
            | AType::Object { name, .. }
            | AType::Interface { name, .. }
            | AType::Union { name, .. }
            | AType::Input { name, .. } => name,
        }
    }
}

#[derive(Clone, Debug, PartialEq)]
pub struct ASchema {
    pub types: Vec<AType>,
    pub query: Option<String>,
    pub mutation: Option<String>,
    pub subscription: Option<String>,
}

pub const BUILTIN_SCALARS: [&str; 5] = ["ID", "String", "Int", "Float", "Boolean"];

#[derive(Clone, Debug)]
pub struct RenderKnobs {
    /// write `schema { .. }` even when the default names are used
    pub explicit_schema_block: bool,
    /// SDL: keep `ext_fields` in an `extend type` block (JSON always folds them)
    pub use_extend: bool,
    /// JSON: include the built-in scalars and `__` introspection types
    pub json_builtins: bool,
    /// SDL with `use_extend`: the object's LAST interface is declared by the extension block
    /// (`extend type X implements I { .. }`), and two or more extension fields go into separate blocks
    pub extend_implements: bool,
    /// SDL with `use_extend`: the `extend type` blocks are written BEFORE the definitions they extend
    pub extensions_first: bool,
    /// both formats: input-object fields of built-in scalar type carry a default value
    /// (`limit: Int! = 10` / `"defaultValue": "10"`); defaults never change the generated types
    pub input_defaults: bool,
    /// SDL: re-declare the built-in scalars (`scalar ID` …), as some schema printers do
    pub sdl_builtin_scalars: bool,
    /// JSON: wrap in `{"data": ..}`
    pub json_wrapped: bool,
    /// JSON: include `isOneOf`
    pub json_is_one_of: bool,
    /// JSON: `directives` member present
    pub json_directives: bool,
    /// mark every second enum value `@deprecated` (both formats; the generator ignores it today)
    pub deprecated_enum_values: bool,
    /// SDL: after the definitions, one `extend input X @tag(name: "x")` per input object: an extension that adds a
    /// directive and NO field changes nothing (the generator ignores extensions of input objects altogether, known
    /// finding C07-non-object-type-extensions-ignored; one that only adds a directive is harmless either way)
    pub input_directive_extensions: bool,
    /// JSON with `json_wrapped`: further members of a full response around `data` (`extensions` after it, `errors: null`
    /// before it), as servers with response extensions send them
    pub json_response_members: bool,
}

impl Default for RenderKnobs {
    fn default() -> Self {
        RenderKnobs {
            explicit_schema_block: false,
            use_extend: false,
            json_builtins: true,
            sdl_builtin_scalars: false,
            extend_implements: false,
            extensions_first: false,
            input_defaults: false,
            json_wrapped: false,
            input_directive_extensions: false,
            json_response_members: false,
            json_is_one_of: true,
            json_directives: true,
            deprecated_enum_values: true,
        }
    }
}

/// the default-value literal used by the `input_defaults` render knob (built-in scalars and lists of them)
pub fn input_default_literal(t: &ATy) -> Option<String> {
    match t {
        ATy::NonNull(i) => input_default_literal(i),
        ATy::List(i) => input_default_literal(i).map(|_| "[]".to_string()),
        ATy::Named(n) => match n.as_str() {
            "Int" => Some("10".into()),
            "Float" => Some("1.5".into()),
            "String" => Some("\"dflt\"".into()),
            "Boolean" => Some("true".into()),
            _ => None,
        },
    }
}

impl ASchema {
    pub fn get(&self, name: &str) -> Option<&AType> {
        self.types.iter().find(|t| t.name() == name)
    }
    pub fn kind_of(&self, name: &str) -> &'static str {
        if BUILTIN_SCALARS.contains(&name) {
            return "SCALAR";
        }
        match self.get(name) {
            Some(AType::Scalar { .. }) => "SCALAR",
            Some(AType::Enum { .. }) => "ENUM",
            Some(AType::Object { .. }) => "OBJECT",
            Some(AType::Interface { .. }) => "INTERFACE",
            Some(AType::Union { .. }) => "UNION",
            Some(AType::Input { .. }) => "INPUT_OBJECT",
            None => "SCALAR",
        }
    }
    pub fn is_composite(&self, name: &str) -> bool {
        matches!(self.kind_of(name), "OBJECT" | "INTERFACE" | "UNION")
    }
    pub fn is_abstract(&self, name: &str) -> bool {
        matches!(self.kind_of(name), "INTERFACE" | "UNION")
    }
    /// all fields of an object (own + extension) or interface
    pub fn fields_of(&self, name: &str) -> Vec<AField> {
        match self.get(name) {
            Some(AType::Object { fields, ext_fields, .. }) => {
                fields.iter().chain(ext_fields.iter()).cloned().collect()
            }
            Some(AType::Interface { fields, .. }) => fields.clone(),
            _ => vec![],
        }
    }
    /// possible runtime object types, in schema order
    pub fn possible_types(&self, name: &str) -> Vec<String> {
        match self.get(name) {
            Some(AType::Object { name, .. }) => vec![name.clone()],
            Some(AType::Interface { name: iname, .. }) => self
                .types
                .iter()
                .filter_map(|t| match t {
                    AType::Object { name, implements, .. } if implements.contains(iname) => Some(name.clone()),
                    _ => None,
                })
                .collect(),
            Some(AType::Union { members, .. }) => members.clone(),
            _ => vec![],
        }
    }
    pub fn root_names(&self) -> (Option<String>, Option<String>, Option<String>) {
        (self.query.clone(), self.mutation.clone(), self.subscription.clone())
    }
    fn default_roots(&self) -> bool {
        let ok = |r: &Option<String>, d: &str| match r {
            None => self.get(d).map(|t| !matches!(t, AType::Object { .. })).unwrap_or(true),
            Some(n) => n == d,
        };
        ok(&self.query, "Query") && ok(&self.mutation, "Mutation") && ok(&self.subscription, "Subscription")
    }

    pub fn to_sdl(&self, k: &RenderKnobs) -> String {
        let mut out = String::new();
        let dep = |f: &AField| match &f.dep {
            None => String::new(),
            Some(None) => " @deprecated".to_string(),
            Some(Some(r)) => format!(" @deprecated(reason: {})", serde_json::to_string(r).unwrap()),
        };
        if k.explicit_schema_block || !self.default_roots() {
            out.push_str("schema {\n");
            if let Some(q) = &self.query {
                out.push_str(&format!("  query: {}\n", q));
            }
            if let Some(q) = &self.mutation {
                out.push_str(&format!("  mutation: {}\n", q));
            }
            if let Some(q) = &self.subscription {
                out.push_str(&format!("  subscription: {}\n", q));
            }
            out.push_str("}\n\n");
        }
        if k.sdl_builtin_scalars {
            for b in BUILTIN_SCALARS {
                out.push_str(&format!("scalar {}\n\n", b));
            }
        }
        let mut exts = String::new();
        for t in &self.types {
            match t {
                AType::Scalar { name } => out.push_str(&format!("scalar {}\n\n", name)),
                AType::Enum { name, values } => {
                    out.push_str(&format!("enum {} {{\n", name));
                    for (i, v) in values.iter().enumerate() {
                        if k.deprecated_enum_values && i % 2 == 1 {
                            out.push_str(&format!("  {} @deprecated(reason: \"old value\")\n", v));
                        } else {
                            out.push_str(&format!("  {}\n", v));
                        }
                    }
                    out.push_str("}\n\n");
                }
                AType::Union { name, members } => {
                    if members.is_empty() {
                        out.push_str(&format!("union {}\n\n", name));
                    } else {
                        out.push_str(&format!("union {} = {}\n\n", name, members.join(" | ")));
                    }
                }
                AType::Interface { name, fields } => {
                    out.push_str(&format!("interface {} {{\n", name));
                    for f in fields {
                        out.push_str(&format!("  {}: {}{}\n", f.name, f.ty.render(), dep(f)));
                    }
                    out.push_str("}\n\n");
                }
                AType::Object { name, implements, fields, ext_fields } => {
                    let by_extension = k.use_extend && k.extend_implements && !ext_fields.is_empty() && !implements.is_empty();
                    let own: &[String] = if by_extension { &implements[..implements.len() - 1] } else { &implements[..] };
                    let imp = if own.is_empty() { String::new() } else { format!(" implements {}", own.join(" & ")) };
                    out.push_str(&format!("type {}{} {{\n", name, imp));
                    for f in fields {
                        out.push_str(&format!("  {}: {}{}\n", f.name, f.ty.render(), dep(f)));
                    }
                    if !k.use_extend {
                        for f in ext_fields {
                            out.push_str(&format!("  {}: {}{}\n", f.name, f.ty.render(), dep(f)));
                        }
                    }
                    out.push_str("}\n\n");
                    if k.use_extend && !ext_fields.is_empty() {
                        // one block per field when `extend_implements` (several `extend type X` blocks), else one block
                        let blocks: Vec<&[AField]> = if k.extend_implements { ext_fields.chunks(1).collect() } else { vec![&ext_fields[..]] };
                        for (bi, block) in blocks.iter().enumerate() {
                            let eimp = if by_extension && bi == 0 { format!(" implements {}", implements[implements.len() - 1]) } else { String::new() };
                            exts.push_str(&format!("extend type {}{} {{\n", name, eimp));
                            for f in block.iter() {
                                exts.push_str(&format!("  {}: {}{}\n", f.name, f.ty.render(), dep(f)));
                            }
                            exts.push_str("}\n\n");
                        }
                    }
                }
                AType::Input { name, one_of, fields } => {
                    out.push_str(&format!("input {}{} {{\n", name, if *one_of { " @oneOf" } else { "" }));
                    for (n, t) in fields {
                        let dflt = match (k.input_defaults, input_default_literal(t)) {
                            (true, Some(l)) => format!(" = {}", l),
                            _ => String::new(),
                        };
                        out.push_str(&format!("  {}: {}{}\n", n, t.render(), dflt));
                    }
                    out.push_str("}\n\n");
                    if k.input_directive_extensions {
                        exts.push_str(&format!("extend input {} @tag(name: \"x\")\n\n", name));
                    }
                }
            }
        }
        if k.extensions_first {
            // (after the optional `schema { }` block nothing depends on the order of definitions)
            return format!("{}{}", exts, out);
        }
        out.push_str(&exts);
        out
    }

    pub fn to_json(&self, k: &RenderKnobs) -> Value {
        let kind_of = |n: &str| self.kind_of(n);
        let field_json = |f: &AField| {
            json!({
                "name": f.name, "description": null, "args": [],
                "type": f.ty.to_json(&kind_of),
                "isDeprecated": f.dep.is_some(),
                "deprecationReason": f.dep.clone().flatten(),
            })
        };
        let base = |kind: &str, name: &str| {
            let mut m = serde_json::Map::new();
            m.insert("kind".into(), json!(kind));
            m.insert("name".into(), json!(name));
            m.insert("description".into(), Value::Null);
            for key in ["fields", "inputFields", "interfaces", "enumValues", "possibleTypes"] {
                m.insert(key.into(), Value::Null);
            }
            m
        };
        let mut types: Vec<Value> = Vec::new();
        for t in &self.types {
            let mut m;
            match t {
                AType::Scalar { name } => m = base("SCALAR", name),
                AType::Enum { name, values } => {
                    m = base("ENUM", name);
                    m.insert(
                        "enumValues".into(),
                        Value::Array(
                            values
                                .iter()
                                .enumerate()
                                .map(|(i, v)| {
                                    let dep = k.deprecated_enum_values && i % 2 == 1;
                                    json!({"name": v, "description": null, "isDeprecated": dep,
                                           "deprecationReason": if dep { Value::String("old value".into()) } else { Value::Null }})
                                })
                                .collect(),
                        ),
                    );
                }
                AType::Union { name, members } => {
                    m = base("UNION", name);
                    m.insert(
                        "possibleTypes".into(),
                        Value::Array(members.iter().map(|n| json!({"kind": "OBJECT", "name": n, "ofType": null})).collect()),
                    );
                }
                AType::Interface { name, fields } => {
                    m = base("INTERFACE", name);
                    m.insert("fields".into(), Value::Array(fields.iter().map(field_json).collect()));
                    m.insert(
                        "possibleTypes".into(),
                        Value::Array(
                            self.possible_types(name).iter().map(|n| json!({"kind": "OBJECT", "name": n, "ofType": null})).collect(),
                        ),
                    );
                }
                AType::Object { name, implements, fields, ext_fields } => {
                    m = base("OBJECT", name);
                    m.insert(
                        "fields".into(),
                        Value::Array(fields.iter().chain(ext_fields.iter()).map(field_json).collect()),
                    );
                    m.insert(
                        "interfaces".into(),
                        Value::Array(implements.iter().map(|n| json!({"kind": "INTERFACE", "name": n, "ofType": null})).collect()),
                    );
                }
                AType::Input { name, one_of, fields } => {
                    m = base("INPUT_OBJECT", name);
                    m.insert(
                        "inputFields".into(),
                        Value::Array(
                            fields
                                .iter()
                                .map(|(n, t)| json!({"name": n, "description": null, "type": t.to_json(&kind_of),
                                    "defaultValue": if k.input_defaults { input_default_literal(t).map(Value::String).unwrap_or(Value::Null) } else { Value::Null }}))
                                .collect(),
                        ),
                    );
                    if k.json_is_one_of {
                        m.insert("isOneOf".into(), json!(*one_of));
                    }
                }
            }
            types.push(Value::Object(m));
        }
        if k.json_builtins {
            for s in BUILTIN_SCALARS {
                types.push(Value::Object(base("SCALAR", s)));
            }
            // a token `__` type, as real servers return (never referenced by operations here)
            let mut m = base("OBJECT", "__Directive");
            m.insert(
                "fields".into(),
                json!([{"name": "name", "description": null, "args": [],
                        "type": {"kind": "NON_NULL", "name": null, "ofType": {"kind": "SCALAR", "name": "String", "ofType": null}},
                        "isDeprecated": false, "deprecationReason": null}]),
            );
            m.insert("interfaces".into(), json!([]));
            types.push(Value::Object(m));
        }
        let named = |r: &Option<String>| match r {
            Some(n) => json!({"name": n}),
            None => Value::Null,
        };
        let mut schema = serde_json::Map::new();
        schema.insert("queryType".into(), named(&self.query));
        schema.insert("mutationType".into(), named(&self.mutation));
        schema.insert("subscriptionType".into(), named(&self.subscription));
        schema.insert("types".into(), Value::Array(types));
        if k.json_directives {
            schema.insert(
                "directives".into(),
                json!([{"name": "deprecated", "description": null, "locations": ["FIELD_DEFINITION", "ENUM_VALUE"],
                        "args": [{"name": "reason", "description": null,
                                  "type": {"kind": "SCALAR", "name": "String", "ofType": null}, "defaultValue": "\"No longer supported\""}]}]),
            );
        }
        let inner = json!({ "__schema": Value::Object(schema) });
        if k.json_wrapped && k.json_response_members {
            // (serde_json's `preserve_order` is not enabled: the members are written in key order, `data` < `errors` < `extensions`)
            json!({ "data": inner, "errors": Value::Null, "extensions": {"tracing": {"version": 1, "duration": 12345}, "cost": [1, 2, 3]} })
        } else if k.json_wrapped {
            json!({ "data": inner })
        } else {
            inner
        }
    }
}

// ------------------------------------------------------------------------------------------------
// random schemas

#[derive(Clone, Debug)]
pub struct SchemaKnobs {
    pub max_list_depth: usize,
    pub keywords_as_names: bool,
    pub deprecations: bool,
    pub one_of: bool,
    pub custom_root_names: bool,
    pub empty_abstract: bool,
    /// enum values that differ only in case style (`asc` / `ASC`, `self` / `Self`) may meet in one enum: distinct variants
    /// under normalization none, one identifier under normalization rust (C02's finding) - the user of this knob must not
    /// combine such a schema with normalization rust (`default_opts` does not)
    pub enum_case_twins: bool,
}

impl Default for SchemaKnobs {
    fn default() -> Self {
        SchemaKnobs {
            max_list_depth: 2,
            keywords_as_names: true,
            deprecations: true,
            one_of: true,
            custom_root_names: true,
            empty_abstract: false,
            enum_case_twins: false,
        }
    }
}

// two names that Rust normalization (UpperCamelCase) changes: `HTTPError` -> `HttpError`, `audit_entry` -> `AuditEntry`
// (names with ONE leading underscore are ordinary names - Apollo federation's `_Service` / `_Any`, Hasura's `_text`; only `__` is reserved)
const OBJECT_NAMES: [&str; 13] = ["Dog", "Cat", "Person", "Organization", "Droid", "Starship", "Review", "Post", "Comment", "Tag", "HTTPError", "audit_entry", "_Service"];
const IFACE_NAMES: [&str; 4] = ["Animal", "Named", "Node", "Entity"];
const UNION_NAMES: [&str; 3] = ["SearchResult", "Pet", "Subject"];
const ENUM_NAMES: [&str; 7] = ["Episode", "Color", "Status", "Unit", "HTTPMethod", "sort_order", "_Kind"];
const SCALAR_NAMES: [&str; 4] = ["DateTime", "URL", "JSON", "_Any"];
const INPUT_NAMES: [&str; 8] = ["Filter", "Range", "Point", "Options", "Tree", "HTTPOptions", "page_input", "_text_filter"];
// (no two names of this pool may collide after snake-casing and keyword escaping: `Self` / `self` would)
const FIELD_NAMES: [&str; 29] = [
    "name", "barks", "meows", "age", "weight", "isActive", "createdAt", "snake_case_field", "ownerId", "homepage",
    "score", "title", "body", "SCREAMING", "PascalField", "_leading", "field2", "nickName", "e_mail", "x",
    "type", "in", "ref", "match", "loop", "yield", "Self", "super", "crate",
];
const LINK_NAMES: [&str; 10] = ["owner", "friend", "friends", "bestFriend", "pets", "author", "items", "parent", "children", "related"];
const ENUM_VALUES: [&str; 18] = [
    "NEWHOPE", "EMPIRE", "JEDI", "red", "Green", "dark_blue", "lightBlue", "ON", "OFF", "type", "self", "where", "Self", "_x", "A1", "async", "Other", "OTHER",
];

/// every keyword of the Rust reference (strict, reserved, weak that lex as keywords; 2018+ editions), written here
/// independently of the generator's own table: a name position must be safe for each of them. (`self` is left out of the
/// field pool because `Self` is in it and the two collide after snake-casing — known finding C02-snake-collision;
/// `true` / `false` are not GraphQL names an enum value may have and are left to the keyword-table theorems of C11.)
pub const ALL_KEYWORDS: [&str; 49] = [
    "Self", "abstract", "as", "async", "await", "become", "box", "break", "const", "continue", "crate", "do", "dyn", "else", "enum",
    "extern", "final", "fn", "for", "if", "impl", "in", "let", "loop", "macro", "match", "mod", "move", "mut", "override", "priv",
    "pub", "ref", "return", "static", "struct", "super", "trait", "try", "type", "typeof", "union", "unsafe", "unsized", "use",
    "virtual", "where", "while", "yield",
];

fn pick_distinct(rng: &mut Rng, pool: &[&str], n: usize) -> Vec<String> {
    let mut v: Vec<String> = pool.iter().map(|s| s.to_string()).collect();
    rng.shuffle(&mut v);
    v.truncate(n.min(pool.len()));
    v
}

pub fn wrap_random(rng: &mut Rng, base: &str, max_depth: usize) -> ATy {
    let mut t = ATy::named(base);
    if rng.chance(50) {
        t = ATy::NonNull(Box::new(t));
    }
    let depth = if max_depth == 0 { 0 } else if rng.chance(65) { 0 } else if rng.chance(75) { 1 } else { rng.range(1, max_depth) };
    for _ in 0..depth {
        t = ATy::List(Box::new(t));
        if rng.chance(50) {
            t = ATy::NonNull(Box::new(t));
        }
    }
    t
}

pub fn random_schema(rng: &mut Rng, k: &SchemaKnobs) -> ASchema {
    let scalars = pick_distinct(rng, &SCALAR_NAMES, rng.clone().below(3));
    let n_enums = rng.range(1, 2);
    let enums = pick_distinct(rng, &ENUM_NAMES, n_enums);
    let n_obj = rng.range(2, 5);
    let objects = pick_distinct(rng, &OBJECT_NAMES, n_obj);
    let n_if = rng.range(0, 2);
    let ifaces = pick_distinct(rng, &IFACE_NAMES, n_if);
    let n_un = rng.range(0, 2);
    let unions = pick_distinct(rng, &UNION_NAMES, n_un);
    let n_in = rng.range(0, 3);
    let inputs = pick_distinct(rng, &INPUT_NAMES, n_in);

    let mut field_pool: Vec<&str> = if k.keywords_as_names { FIELD_NAMES.to_vec() } else { FIELD_NAMES[..20].to_vec() };
    if k.keywords_as_names {
        // six more keywords per schema, drawn from the whole reference list (over the cases of a run every keyword occurs)
        for kw in pick_distinct(rng, &ALL_KEYWORDS, 6) {
            if let Some(k) = ALL_KEYWORDS.iter().find(|x| **x == kw) {
                if !field_pool.contains(k) {
                    field_pool.push(k);
                }
            }
        }
    }
    let leaf_types: Vec<String> = ["Int", "Float", "String", "Boolean", "ID"]
        .iter()
        .map(|s| s.to_string())
        .chain(scalars.iter().cloned())
        .chain(enums.iter().cloned())
        .collect();
    let composite: Vec<String> = objects.iter().chain(ifaces.iter()).chain(unions.iter()).cloned().collect();

    let mut types: Vec<AType> = Vec::new();
    for s in &scalars {
        types.push(AType::Scalar { name: s.clone() });
    }
    for e in &enums {
        let n = rng.range(1, 5);
        let mut pool: Vec<&str> = if k.keywords_as_names { ENUM_VALUES.to_vec() } else { ENUM_VALUES[..9].to_vec() };
        if k.keywords_as_names {
            for kw in pick_distinct(rng, &ALL_KEYWORDS, 4) {
                if let Some(k) = ALL_KEYWORDS.iter().find(|x| **x == kw) {
                    if !pool.contains(k) {
                        pool.push(k);
                    }
                }
            }
        }
        // values whose identifiers coincide under `normalization = rust` (`self` / `Self`) make the generated
        // enum declare one variant twice: that is C02's known finding `enum-values-equal-after-normalization`
        // (witness in its corpus); the random schemas stay clear of it
        let mut values = pick_distinct(rng, &pool, n);
        let twins = k.enum_case_twins && rng.chance(50);
        if twins {
            // a pair that differs in case only, as `order_by { asc ASC }` of real schemas
            for (a, b) in [("asc", "ASC"), ("desc_nulls", "DESC_NULLS")] {
                if rng.chance(60) && !values.iter().any(|v| v == a || v == b) {
                    values.push(a.to_string());
                    values.push(b.to_string());
                }
            }
        }
        let mut seen: Vec<String> = Vec::new();
        values.retain(|v| {
            if twins {
                return true;
            }
            let key: String = v.chars().filter(|c| *c != '_').flat_map(|c| c.to_lowercase()).collect();
            if seen.contains(&key) { false } else { seen.push(key); true }
        });
        types.push(AType::Enum { name: e.clone(), values });
    }
    let mut gen_fields = |rng: &mut Rng, n_leaf: usize, n_link: usize, taken: &mut Vec<String>| -> Vec<AField> {
        let mut fs = Vec::new();
        let mut names = pick_distinct(rng, &field_pool, n_leaf + 4);
        names.retain(|n| !taken.contains(n));
        names.truncate(n_leaf);
        for n in names {
            let base = rng.pick(&leaf_types).clone();
            let dep = if k.deprecations && rng.chance(15) {
                Some(if rng.chance(60) { Some(rng.pick(&["Use something else", "old \"API\"", "no longer\nsupported", "ünïcode ✓", "No longer supported", ""]).to_string()) } else { None })
            } else {
                None
            };
            taken.push(n.clone());
            fs.push(AField { name: n, ty: wrap_random(rng, &base, k.max_list_depth), dep });
        }
        let mut links = pick_distinct(rng, &LINK_NAMES, n_link + 2);
        links.retain(|n| !taken.contains(n));
        links.truncate(n_link);
        for n in links {
            let base = rng.pick(&composite).clone();
            taken.push(n.clone());
            // composite-typed fields are deprecated too, now and then
            let dep = if k.deprecations && rng.chance(8) { Some(if rng.chance(50) { Some("moved".to_string()) } else { None }) } else { None };
            fs.push(AField { name: n, ty: wrap_random(rng, &base, k.max_list_depth.min(2)), dep });
        }
        fs
    };
    // interfaces first (implementors copy their fields)
    let mut iface_fields: BTreeMap<String, Vec<AField>> = BTreeMap::new();
    // field names are disjoint across interfaces, so that one object can implement all of them
    // (every interface gets at least one implementor unless `empty_abstract` is wanted)
    let mut iface_taken: Vec<String> = vec![];
    for i in &ifaces {
        let (a, b) = (rng.range(1, 3), rng.range(0, 1));
        let fs = gen_fields(rng, a, b, &mut iface_taken);
        iface_fields.insert(i.clone(), fs.clone());
        types.push(AType::Interface { name: i.clone(), fields: fs });
    }
    for (idx, o) in objects.iter().enumerate() {
        let mut implements = Vec::new();
        let mut fields: Vec<AField> = Vec::new();
        let mut taken: Vec<String> = vec![];
        for i in &ifaces {
            // every interface gets at least one implementor unless empty abstract types are wanted
            let force = !k.empty_abstract && idx == 0;
            if force || rng.chance(45) {
                let ifs = &iface_fields[i];
                if ifs.iter().all(|f| !taken.contains(&f.name)) {
                    implements.push(i.clone());
                    for f in ifs {
                        taken.push(f.name.clone());
                        // an implementor may NARROW an inherited field (`name: String` -> `name: String!`, covariance)
                        // and may deprecate it on its own, or with another reason than the interface
                        let mut own = f.clone();
                        // (leaf-typed fields only: a non-null LINK would make a recursive fragment through it unsatisfiable -
                        // no finite response exists - and the payload generator would not terminate)
                        if rng.chance(15) && !own.ty.is_non_null() && leaf_types.iter().any(|l| l == own.ty.base()) {
                            own.ty = ATy::NonNull(Box::new(own.ty));
                        }
                        if k.deprecations && rng.chance(10) {
                            own.dep = match own.dep {
                                None => Some(Some("deprecated on the object only".to_string())),
                                Some(_) => if rng.chance(50) { None } else { Some(Some("the object's own reason".to_string())) },
                            };
                        }
                        fields.push(own);
                    }
                }
            }
        }
        let (a, b) = (rng.range(1, 4), rng.range(0, 2));
        fields.extend(gen_fields(rng, a, b, &mut taken));
        let ext_fields = if rng.chance(30) { let n = rng.range(1, 2); gen_fields(rng, n, 0, &mut taken) } else { vec![] };
        types.push(AType::Object { name: o.clone(), implements, fields, ext_fields });
    }
    for u in &unions {
        let n = if k.empty_abstract && rng.chance(30) { 0 } else { rng.range(1, objects.len().min(3)) };
        types.push(AType::Union { name: u.clone(), members: pick_distinct(rng, &objects.iter().map(|s| s.as_str()).collect::<Vec<_>>(), n) });
    }
    let input_leafs: Vec<String> = leaf_types.clone();
    for (idx, i) in inputs.iter().enumerate() {
        let one_of = k.one_of && rng.chance(25);
        let mut fields = Vec::new();
        let n = rng.range(1, 4);
        for fname in pick_distinct(rng, &field_pool, n) {
            let base = rng.pick(&input_leafs).clone();
            let mut t = wrap_random(rng, &base, k.max_list_depth);
            if one_of {
                if let ATy::NonNull(inner) = t {
                    t = *inner;
                }
            }
            fields.push((fname, t));
        }
        // references to input types (possibly recursive)
        for (j, other) in inputs.iter().enumerate() {
            if rng.chance(if j == idx { 30 } else { 35 }) {
                let lname = format!("{}{}", ["sub", "next", "child", "nested"][rng.below(4)], other);
                let t = match rng.below(5) {
                    0 => ATy::named(other),
                    1 if !one_of && j != idx => ATy::NonNull(Box::new(ATy::named(other))),
                    2 => ATy::List(Box::new(ATy::named(other))),
                    3 if !one_of => ATy::NonNull(Box::new(ATy::List(Box::new(ATy::NonNull(Box::new(ATy::named(other))))))),
                    _ => ATy::named(other),
                };
                fields.push((lname, t));
            }
        }
        types.push(AType::Input { name: i.clone(), one_of, fields });
    }
    // break non-null input cycles (an infinite value would be required): make back edges nullable
    break_required_input_cycles(&mut types);

    // roots
    let (qname, mname, sname) = if k.custom_root_names && rng.chance(30) {
        ("RootQuery".to_string(), "RootMutation".to_string(), "RootSubscription".to_string())
    } else {
        ("Query".to_string(), "Mutation".to_string(), "Subscription".to_string())
    };
    let mut root_fields = |rng: &mut Rng, n_leaf: usize| -> Vec<AField> {
        let mut taken = vec![];
        let mut fs = gen_fields(rng, n_leaf, 0, &mut taken);
        for c in &composite {
            let lname = format!("{}{}", c[..1].to_lowercase(), &c[1..]);
            fs.push(AField { name: lname, ty: wrap_random(rng, c, 1), dep: None });
        }
        fs
    };
    let qf = root_fields(rng, 2);
    types.push(AType::Object { name: qname.clone(), implements: vec![], fields: qf, ext_fields: vec![] });
    let mutation = if rng.chance(50) {
        let f = root_fields(rng, 1);
        types.push(AType::Object { name: mname.clone(), implements: vec![], fields: f, ext_fields: vec![] });
        Some(mname)
    } else {
        None
    };
    let subscription = if rng.chance(50) {
        let f = root_fields(rng, 1);
        types.push(AType::Object { name: sname.clone(), implements: vec![], fields: f, ext_fields: vec![] });
        Some(sname)
    } else {
        None
    };
    let mut s = ASchema { types, query: Some(qname), mutation, subscription };
    if rng.chance(40) {
        rng.shuffle(&mut s.types);
    }
    s
}

fn break_required_input_cycles(types: &mut Vec<AType>) {
    // an edge is "required" if a value of the source must contain a value of the target:
    // non-null all the way down to the name with no list in between
    fn required_target(t: &ATy) -> Option<&str> {
        match t {
            ATy::NonNull(inner) => match &**inner {
                ATy::Named(n) => Some(n),
                _ => None,
            },
            _ => None,
        }
    }
    loop {
        let names: Vec<String> = types.iter().filter_map(|t| if let AType::Input { name, .. } = t { Some(name.clone()) } else { None }).collect();
        let edges: Vec<(String, String)> = types
            .iter()
            .filter_map(|t| if let AType::Input { name, fields, .. } = t { Some((name, fields)) } else { None })
            .flat_map(|(n, fs)| fs.iter().filter_map(move |(_, t)| required_target(t).map(|x| (n.clone(), x.to_string()))))
            .filter(|(_, b)| names.contains(b))
            .collect();
        // find a node on a cycle
        let mut bad: Option<(String, String)> = None;
        'outer: for (a, b) in &edges {
            let mut stack = vec![b.clone()];
            let mut seen = vec![];
            while let Some(x) = stack.pop() {
                if &x == a {
                    bad = Some((a.clone(), b.clone()));
                    break 'outer;
                }
                if seen.contains(&x) {
                    continue;
                }
                seen.push(x.clone());
                for (c, d) in &edges {
                    if c == &x {
                        stack.push(d.clone());
                    }
                }
            }
        }
        match bad {
            None => return,
            Some((a, b)) => {
                for t in types.iter_mut() {
                    if let AType::Input { name, fields, .. } = t {
                        if name == &a {
                            for (_, ft) in fields.iter_mut() {
                                if required_target(ft) == Some(b.as_str()) {
                                    *ft = ATy::named(&b);
                                }
                            }
                        }
                    }
                }
            }
        }
    }
}
