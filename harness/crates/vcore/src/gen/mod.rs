pub mod op;
pub mod rng;
pub mod schema;
