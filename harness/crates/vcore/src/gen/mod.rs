pub mod edits;
pub mod op;
pub mod rng;
pub mod schema;
