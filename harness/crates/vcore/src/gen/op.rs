//! Type-directed random operations (valid by construction), with named fragments, and
//! conforming payloads / variable assignments for them.
use super::rng::Rng;
use super::schema::*;
use serde_json::{json, Map, Value};

#[derive(Clone, Debug, PartialEq)]
pub enum ASel {
    Field { alias: Option<String>, name: String, sub: Vec<ASel> },
    Typename,
    Inline { on: String, sub: Vec<ASel> },
    Spread { name: String },
}

#[derive(Clone, Debug, PartialEq)]
pub struct AFrag {
    pub name: String,
    pub on: String,
    pub sels: Vec<ASel>,
}

#[derive(Clone, Debug, PartialEq)]
pub struct AVar {
    pub name: String,
    pub ty: ATy,
    pub default: Option<String>, // GraphQL literal text
}

#[derive(Clone, Debug, PartialEq)]
pub struct AOp {
    pub kind: &'static str, // query | mutation | subscription
    pub name: String,
    pub vars: Vec<AVar>,
    pub sels: Vec<ASel>,
}

#[derive(Clone, Debug, PartialEq)]
pub struct ADoc {
    pub ops: Vec<AOp>,
    pub frags: Vec<AFrag>,
}

thread_local! {
    /// (mode, counter): mode > 0 = `render_decorated` is running
    static DECORATE: std::cell::Cell<(u32, u32)> = const { std::cell::Cell::new((0, 0)) };
}

/// ` @include(if: true)` / ` @skip(if: false)` on every third selection while `render_decorated` runs: directives that
/// leave the executed selection as it is (so responses, types and validity are those of the undecorated document)
fn decoration() -> &'static str {
    DECORATE.with(|d| {
        let (mode, n) = d.get();
        if mode == 0 {
            return "";
        }
        d.set((mode, n + 1));
        if (n + mode) % 3 != 0 {
            ""
        } else if (n / 3) % 2 == 0 {
            " @include(if: true)"
        } else {
            " @skip(if: false)"
        }
    })
}

fn render_sels(sels: &[ASel], indent: usize, out: &mut String) {
    let pad = "  ".repeat(indent);
    for s in sels {
        match s {
            ASel::Typename => out.push_str(&format!("{}__typename\n", pad)),
            ASel::Field { alias, name, sub } => {
                let a = alias.as_ref().map(|a| format!("{}: ", a)).unwrap_or_default();
                let d = decoration();
                if sub.is_empty() {
                    out.push_str(&format!("{}{}{}{}\n", pad, a, name, d));
                } else {
                    out.push_str(&format!("{}{}{}{} {{\n", pad, a, name, d));
                    render_sels(sub, indent + 1, out);
                    out.push_str(&format!("{}}}\n", pad));
                }
            }
            ASel::Inline { on, sub } => {
                out.push_str(&format!("{}... on {}{} {{\n", pad, on, decoration()));
                render_sels(sub, indent + 1, out);
                out.push_str(&format!("{}}}\n", pad));
            }
            ASel::Spread { name } => out.push_str(&format!("{}...{}{}\n", pad, name, decoration())),
        }
    }
}

impl ADoc {
    /// is some fragment reachable from itself through spreads?
    pub fn has_recursive_fragment(&self) -> bool {
        fn spreads(sels: &[ASel], out: &mut Vec<String>) {
            for s in sels {
                match s {
                    ASel::Field { sub, .. } | ASel::Inline { sub, .. } => spreads(sub, out),
                    ASel::Spread { name } => out.push(name.clone()),
                    ASel::Typename => {}
                }
            }
        }
        for f in &self.frags {
            let mut seen: Vec<String> = vec![];
            let mut todo = vec![];
            spreads(&f.sels, &mut todo);
            while let Some(n) = todo.pop() {
                if n == f.name {
                    return true;
                }
                if seen.contains(&n) {
                    continue;
                }
                seen.push(n.clone());
                if let Some(g) = self.frag(&n) {
                    spreads(&g.sels, &mut todo);
                }
            }
        }
        false
    }

    /// drop fragments no operation reaches
    pub fn prune_unreachable(&mut self) {
        fn walk(sels: &[ASel], frags: &[AFrag], seen: &mut Vec<String>) {
            for s in sels {
                match s {
                    ASel::Field { sub, .. } | ASel::Inline { sub, .. } => walk(sub, frags, seen),
                    ASel::Spread { name } => {
                        if !seen.contains(name) {
                            seen.push(name.clone());
                            if let Some(f) = frags.iter().find(|f| &f.name == name) {
                                walk(&f.sels, frags, seen);
                            }
                        }
                    }
                    ASel::Typename => {}
                }
            }
        }
        let mut reachable = Vec::new();
        for op in &self.ops {
            walk(&op.sels, &self.frags, &mut reachable);
        }
        self.frags.retain(|f| reachable.contains(&f.name));
    }

    /// `render` with `@include(if: true)` / `@skip(if: false)` on every third selection (phase `mode` in 1..=3)
    pub fn render_decorated(&self, mode: u32) -> String {
        DECORATE.with(|d| d.set((mode.max(1), 0)));
        let s = self.render();
        DECORATE.with(|d| d.set((0, 0)));
        s
    }

    pub fn render(&self) -> String {
        let mut out = String::new();
        for op in &self.ops {
            let vars = if op.vars.is_empty() {
                String::new()
            } else {
                format!(
                    "({})",
                    op.vars
                        .iter()
                        .map(|v| format!(
                            "${}: {}{}",
                            v.name,
                            v.ty.render(),
                            v.default.as_ref().map(|d| format!(" = {}", d)).unwrap_or_default()
                        ))
                        .collect::<Vec<_>>()
                        .join(", ")
                )
            };
            if op.kind.is_empty() {
                out.push_str("{\n");
            } else {
                out.push_str(&format!("{} {}{} {{\n", op.kind, op.name, vars));
            }
            render_sels(&op.sels, 1, &mut out);
            out.push_str("}\n\n");
        }
        for f in &self.frags {
            out.push_str(&format!("fragment {} on {} {{\n", f.name, f.on));
            render_sels(&f.sels, 1, &mut out);
            out.push_str("}\n\n");
        }
        out
    }
    pub fn frag(&self, name: &str) -> Option<&AFrag> {
        self.frags.iter().find(|f| f.name == name)
    }
}

#[derive(Clone, Debug)]
pub struct OpKnobs {
    pub max_depth: usize,
    pub fragments: bool,
    pub recursive_fragments: bool,
    pub aliases: bool,
    pub variables: bool,
    /// allow the same response key to be read by two readers of one object (known finding C01-overlap)
    pub allow_overlap: bool,
    /// select deprecated fields
    pub deprecated: bool,
    /// now and then rewrite the fragments on one abstract type so that they select `__typename` only through a spread of
    /// ONE shared base fragment on that type (`fragment Base on T { __typename }`): valid, and the generator's check for
    /// `__typename` must follow the spread in every one of them (only used where the compiled code is not run on payloads)
    pub shared_typename_base: bool,
}

impl Default for OpKnobs {
    fn default() -> Self {
        OpKnobs { max_depth: 3, fragments: true, recursive_fragments: true, aliases: true, variables: true, allow_overlap: false, deprecated: true, shared_typename_base: false }
    }
}

pub struct OpGen<'a> {
    pub s: &'a ASchema,
    pub k: OpKnobs,
    pub frags: Vec<AFrag>,
    frag_counter: usize,
    alias_counter: usize,
    /// fragments whose selection is still being generated (must not be spread: that would be a
    /// same-level spread cycle, which is not a valid document)
    building: Vec<String>,
}

/// response keys a selection set claims on an object of runtime type `rt` (flattening fragments)
pub fn keys_of(s: &ASchema, frags: &[AFrag], sels: &[ASel], rt: Option<&str>, out: &mut Vec<String>, depth: usize) {
    if depth > 12 {
        return;
    }
    for sel in sels {
        match sel {
            ASel::Typename => out.push("__typename".into()),
            ASel::Field { alias, name, .. } => out.push(alias.clone().unwrap_or_else(|| name.clone())),
            ASel::Inline { on, sub } => {
                if rt.map(|rt| s.possible_types(on).iter().any(|p| p == rt)).unwrap_or(true) {
                    keys_of(s, frags, sub, rt, out, depth + 1)
                }
            }
            ASel::Spread { name } => {
                if let Some(f) = frags.iter().find(|f| &f.name == name) {
                    if rt.map(|rt| s.possible_types(&f.on).iter().any(|p| p == rt)).unwrap_or(true) {
                        keys_of(s, frags, &f.sels, rt, out, depth + 1)
                    }
                }
            }
        }
    }
}

impl<'a> OpGen<'a> {
    pub fn new(s: &'a ASchema, k: OpKnobs) -> OpGen<'a> {
        OpGen { s, k, frags: vec![], frag_counter: 0, alias_counter: 0, building: vec![] }
    }

    fn fresh_alias(&mut self) -> String {
        self.alias_counter += 1;
        let styles = ["alias", "renamedField", "snake_alias", "X", "_underscored"];
        format!("{}{}", styles[self.alias_counter % styles.len()], self.alias_counter)
    }

    /// selection for a composite type; `used` = response keys already claimed in this JSON object
    pub fn selection(&mut self, rng: &mut Rng, ty: &str, depth: usize, used: &mut Vec<String>) -> Vec<ASel> {
        let mut sels: Vec<ASel> = Vec::new();
        let is_abs = self.s.is_abstract(ty);
        if is_abs {
            sels.push(ASel::Typename);
            used.push("__typename".into());
        } else if rng.chance(25) && !used.contains(&"__typename".to_string()) {
            sels.push(ASel::Typename);
            used.push("__typename".into());
        }
        // own fields
        let fields = self.s.fields_of(ty);
        if !fields.is_empty() {
            let n = rng.range(if is_abs { 0 } else { 1 }, fields.len().min(4));
            let mut idxs: Vec<usize> = (0..fields.len()).collect();
            rng.shuffle(&mut idxs);
            for &i in idxs.iter().take(n) {
                let f = &fields[i];
                if f.dep.is_some() && !self.k.deprecated {
                    continue;
                }
                if let Some(sel) = self.field_sel(rng, f, depth, used) {
                    sels.push(sel);
                }
            }
        }
        // fragment spread on the type itself
        if self.k.fragments && depth > 0 && rng.chance(30) {
            if let Some(name) = self.fragment_for(rng, ty, depth, used) {
                sels.push(ASel::Spread { name });
            }
        }
        // variants
        if is_abs {
            for pt in self.s.possible_types(ty) {
                if rng.chance(60) {
                    if self.k.fragments && rng.chance(35) {
                        // keys inside a variant are read from the same JSON object as the parent's
                        if let Some(name) = self.fragment_for(rng, &pt, depth, used) {
                            sels.push(ASel::Spread { name });
                            continue;
                        }
                    }
                    let mut sub = Vec::new();
                    let pfields = self.s.fields_of(&pt);
                    let n = rng.range(1, pfields.len().clamp(1, 3));
                    let mut idxs: Vec<usize> = (0..pfields.len()).collect();
                    rng.shuffle(&mut idxs);
                    for &i in idxs.iter().take(n) {
                        if let Some(sel) = self.field_sel(rng, &pfields[i], depth, used) {
                            sub.push(sel);
                        }
                    }
                    if !sub.is_empty() {
                        sels.push(ASel::Inline { on: pt.clone(), sub });
                        // a SECOND inline fragment on the same possible type whose body is a lone spread: the selections on
                        // one variant are merged into one struct (under `deny` the first may render no field at all, and
                        // the struct must still be a struct: `has_fields` counts pushed fields)
                        if self.k.fragments && rng.chance(20) {
                            if let Some(name) = self.fragment_for(rng, &pt, depth, used) {
                                sels.push(ASel::Inline { on: pt.clone(), sub: vec![ASel::Spread { name }] });
                            }
                        }
                    }
                }
            }
        }
        if sels.iter().all(|s| matches!(s, ASel::Typename)) && !is_abs {
            // make sure an object selection has at least one real field when possible
            if let Some(f) = fields.iter().find(|f| !self.s.is_composite(f.ty.base())) {
                let key = f.name.clone();
                if !used.contains(&key) {
                    used.push(key);
                    sels.push(ASel::Field { alias: None, name: f.name.clone(), sub: vec![] });
                }
            }
        }
        if rng.chance(30) {
            rng.shuffle(&mut sels);
        }
        sels
    }

    fn field_sel(&mut self, rng: &mut Rng, f: &AField, depth: usize, used: &mut Vec<String>) -> Option<ASel> {
        let base = f.ty.base().to_string();
        let composite = self.s.is_composite(&base);
        if composite && depth == 0 {
            return None;
        }
        let mut alias = if self.k.aliases && rng.chance(15) { Some(self.fresh_alias()) } else { None };
        if self.k.aliases && alias.is_none() && rng.chance(8) {
            // an alias that differs from the field's name only in case style (`userId: user_id`, `Score: score`): the
            // alias, not the schema name, is the response key. (Not when a sibling key has the same snake-cased form:
            // that is the known finding C02-snake-collision.)
            use heck::{ToLowerCamelCase, ToSnakeCase, ToUpperCamelCase};
            let variants = [f.name.to_snake_case(), f.name.to_lower_camel_case(), f.name.to_upper_camel_case(), f.name.to_uppercase()];
            let cand: Vec<&String> = variants.iter().filter(|v| **v != f.name && !v.is_empty() && v.chars().next().map(|c| c.is_ascii_alphabetic() || c == '_').unwrap_or(false)).collect();
            if !cand.is_empty() {
                let a = (*rng.pick(&cand)).clone();
                let snake = a.to_snake_case();
                if !used.iter().any(|u| u.to_snake_case() == snake) && !super::schema::ALL_KEYWORDS.contains(&a.as_str()) {
                    alias = Some(a);
                }
            }
        }
        let mut key = alias.clone().unwrap_or_else(|| f.name.clone());
        if used.contains(&key) {
            if self.k.allow_overlap && rng.chance(50) {
                // same key, same field: GraphQL merges them
            } else {
                let a = self.fresh_alias();
                key = a.clone();
                alias = Some(a);
            }
        }
        used.push(key);
        let sub = if composite {
            let mut inner_used = Vec::new();
            self.selection(rng, &base, depth - 1, &mut inner_used)
        } else {
            vec![]
        };
        Some(ASel::Field { alias, name: f.name.clone(), sub })
    }

    /// reuse or create a fragment on `ty` whose keys do not clash with `used`
    fn fragment_for(&mut self, rng: &mut Rng, ty: &str, depth: usize, used: &mut Vec<String>) -> Option<String> {
        let candidates: Vec<usize> =
            self.frags.iter().enumerate().filter(|(_, f)| f.on == ty && !self.building.contains(&f.name)).map(|(i, _)| i).collect();
        if !candidates.is_empty() && rng.chance(50) {
            let f = self.frags[*rng.pick(&candidates)].clone();
            let mut keys = Vec::new();
            keys_of(self.s, &self.frags, &f.sels, None, &mut keys, 0);
            if self.k.allow_overlap || keys.iter().all(|k| !used.contains(k)) {
                used.extend(keys);
                return Some(f.name);
            }
            return None;
        }
        if depth == 0 {
            return None;
        }
        self.frag_counter += 1;
        let styles = ["Fields", "Frag", "_part", "snake_frag"];
        let name = format!("{}{}{}", ty, styles[self.frag_counter % styles.len()], self.frag_counter);
        // reserve the slot so that recursive spreads can refer to it
        let idx = self.frags.len();
        self.frags.push(AFrag { name: name.clone(), on: ty.to_string(), sels: vec![] });
        self.building.push(name.clone());
        let mut sels = self.selection(rng, ty, depth - 1, used);
        self.building.retain(|n| n != &name);
        // recursive fragment: spread itself below a self-typed (nullable or list) link
        if self.k.recursive_fragments && rng.chance(30) {
            let fields = self.s.fields_of(ty);
            if let Some(link) = fields.iter().find(|f| f.ty.base() == ty && (!f.ty.is_non_null() || f.ty.has_list())) {
                let a = self.fresh_alias();
                used.push(a.clone());
                let mut sub = vec![ASel::Spread { name: name.clone() }];
                if self.s.is_abstract(ty) {
                    sub.insert(0, ASel::Typename);
                }
                sels.push(ASel::Field { alias: Some(a), name: link.name.clone(), sub });
            }
        }
        if sels.is_empty() {
            self.frags.remove(idx);
            return None;
        }
        self.frags[idx].sels = sels;
        Some(name)
    }

    pub fn variables(&mut self, rng: &mut Rng) -> Vec<AVar> {
        if !self.k.variables {
            return vec![];
        }
        let mut pool: Vec<String> = vec!["Int", "Float", "String", "Boolean", "ID"].into_iter().map(String::from).collect();
        for t in &self.s.types {
            match t {
                AType::Scalar { name } | AType::Enum { name, .. } | AType::Input { name, .. } => pool.push(name.clone()),
                _ => {}
            }
        }
        // (two more names per operation from the whole keyword list)
        let kw1 = *rng.pick(&super::schema::ALL_KEYWORDS);
        let kw2 = *rng.pick(&super::schema::ALL_KEYWORDS);
        let mut names = vec!["id", "first", "filterBy", "snake_var", "Type", "in", "msg", "x2"];
        for kw in [kw1, kw2] {
            // (`Self` and `self` would collide after snake-casing; `type` is spelled `Type` above)
            if !names.iter().any(|n| n.eq_ignore_ascii_case(kw)) {
                names.push(kw);
            }
        }
        let n = rng.below(4);
        let mut idx: Vec<usize> = (0..names.len()).collect();
        rng.shuffle(&mut idx);
        idx.iter()
            .take(n)
            .map(|&i| {
                let base = rng.pick(&pool).clone();
                let ty = wrap_random(rng, &base, 2);
                // default values of every literal kind (an Int literal is also a valid Float / ID, a single value a
                // valid one-element list)
                let default = if rng.chance(25) {
                    let leaf: Option<String> = match base.as_str() {
                        "Int" => Some(rng.pick(&["42", "-7", "0"]).to_string()),
                        "Float" => Some(rng.pick(&["1.5", "3", "-0.25"]).to_string()),
                        "String" => Some(rng.pick(&["\"hello\"", "\"\"", "\"he said \\\"hi\\\" \\\\ \\u00e9\""]).to_string()),
                        "Boolean" => Some(rng.pick(&["true", "false"]).to_string()),
                        "ID" => Some(rng.pick(&["\"id-1\"", "7"]).to_string()),
                        other => match self.s.get(other) {
                            Some(AType::Enum { values, .. }) => values.first().cloned(),
                            _ => None,
                        },
                    };
                    // `null` is a valid default wherever the type is nullable (the whole value, or an element of a list
                    // whose elements are nullable)
                    let elem_nullable = |t: &ATy| -> bool {
                        let inner = match t { ATy::NonNull(i) => &**i, other => other };
                        matches!(inner, ATy::List(e) if !e.is_non_null())
                    };
                    if !ty.is_non_null() && rng.chance(15) {
                        Some("null".to_string())
                    } else {
                        match (leaf, ty.list_depth()) {
                            (Some(l), 0) => Some(l),
                            (Some(l), 1) if elem_nullable(&ty) && rng.chance(30) => Some(format!("[{}, null]", l)),
                            (Some(l), 1) => Some(if rng.chance(50) { format!("[{}, {}]", l, l) } else if rng.chance(50) { "[]".to_string() } else { l }),
                            (Some(l), 2) if elem_nullable(&ty) && rng.chance(30) => Some(format!("[[{}], null]", l)),
                            (Some(l), 2) => Some(format!("[[{}], []]", l)),
                            _ => None,
                        }
                    }
                } else {
                    None
                };
                AVar { name: names[i].to_string(), ty, default }
            })
            .collect()
    }

    pub fn operation(&mut self, rng: &mut Rng, kind: &'static str, name: &str) -> Option<AOp> {
        let root = match kind {
            "query" => self.s.query.clone()?,
            "mutation" => self.s.mutation.clone()?,
            _ => self.s.subscription.clone()?,
        };
        let mut used = Vec::new();
        let depth = self.k.max_depth;
        let mut sels;
        if kind == "subscription" {
            // exactly one root field
            let fields = self.s.fields_of(&root);
            let f = rng.pick(&fields).clone();
            sels = vec![self.field_sel(rng, &f, depth, &mut used)?];
        } else {
            let save = self.k.fragments;
            sels = self.selection(rng, &root, depth, &mut used);
            self.k.fragments = save;
            sels.retain(|s| !matches!(s, ASel::Typename));
            if sels.is_empty() {
                return None;
            }
        }
        let vars = self.variables(rng);
        Some(AOp { kind, name: name.to_string(), vars, sels })
    }
}

pub fn random_doc(rng: &mut Rng, s: &ASchema, k: &OpKnobs) -> ADoc {
    let mut g = OpGen::new(s, k.clone());
    let mut ops = Vec::new();
    let names = ["MyQuery", "SecondOp", "Third", "getStuff"];
    let n = if rng.chance(70) { 1 } else { rng.range(2, 3) };
    for i in 0..n {
        let kind = match rng.below(5) {
            0 if s.mutation.is_some() => "mutation",
            1 if s.subscription.is_some() => "subscription",
            _ => "query",
        };
        // the first operation's name is sometimes one that Rust normalization changes
        let name = if i == 0 { *rng.pick(&["MyQuery", "MyQuery", "recentPages", "fetch_All"]) } else { names[i] };
        if let Some(op) = g.operation(rng, kind, name) {
            ops.push(op);
        }
    }
    if ops.is_empty() {
        if let Some(op) = g.operation(rng, "query", "MyQuery") {
            ops.push(op);
        }
    }
    // drop fragments nobody reaches (unused fragments are legal for the generator but not for GraphQL)
    let mut reachable: Vec<String> = Vec::new();
    fn walk(sels: &[ASel], frags: &[AFrag], seen: &mut Vec<String>) {
        for s in sels {
            match s {
                ASel::Field { sub, .. } | ASel::Inline { sub, .. } => walk(sub, frags, seen),
                ASel::Spread { name } => {
                    if !seen.contains(name) {
                        seen.push(name.clone());
                        if let Some(f) = frags.iter().find(|f| &f.name == name) {
                            walk(&f.sels, frags, seen);
                        }
                    }
                }
                ASel::Typename => {}
            }
        }
    }
    for op in &ops {
        walk(&op.sels, &g.frags, &mut reachable);
    }
    let mut frags: Vec<AFrag> = g.frags.into_iter().filter(|f| reachable.contains(&f.name)).collect();
    if k.shared_typename_base && rng.chance(40) {
        // abstract types with at least two fragments that select `__typename` directly
        let mut by_type: Vec<(String, Vec<usize>)> = Vec::new();
        for (i, f) in frags.iter().enumerate() {
            if s.is_abstract(&f.on) && f.sels.iter().any(|x| matches!(x, ASel::Typename)) {
                match by_type.iter_mut().find(|(t, _)| *t == f.on) {
                    Some((_, v)) => v.push(i),
                    None => by_type.push((f.on.clone(), vec![i])),
                }
            }
        }
        fn add_twin(sels: &mut Vec<ASel>, of: &str, twin: &str) {
            let mut i = 0;
            while i < sels.len() {
                match &mut sels[i] {
                    ASel::Field { sub, .. } | ASel::Inline { sub, .. } => add_twin(sub, of, twin),
                    ASel::Spread { name } if name == of => {
                        sels.insert(i + 1, ASel::Spread { name: twin.to_string() });
                        i += 1;
                    }
                    _ => {}
                }
                i += 1;
            }
        }
        for (ty, mut idxs) in by_type {
            if idxs.len() < 2 {
                // a twin of the only fragment: it selects nothing but the base, and is spread wherever the fragment is
                let of = frags[idxs[0]].name.clone();
                let twin = format!("{}Twin", of);
                for op in ops.iter_mut() {
                    add_twin(&mut op.sels, &of, &twin);
                }
                for f in frags.iter_mut() {
                    add_twin(&mut f.sels, &of, &twin);
                }
                frags.push(AFrag { name: twin, on: ty.clone(), sels: vec![ASel::Typename] });
                idxs.push(frags.len() - 1);
            }
            let base = format!("{}TypenameBase", ty);
            for i in &idxs {
                for x in frags[*i].sels.iter_mut() {
                    if matches!(x, ASel::Typename) {
                        *x = ASel::Spread { name: base.clone() };
                    }
                }
            }
            frags.push(AFrag { name: base, on: ty, sels: vec![ASel::Typename] });
        }
    }
    ADoc { ops, frags }
}

// ------------------------------------------------------------------------------------------------
// conforming payloads (GraphQL spec §6 Execution / §7 Response, written independently of the code)

pub struct PayloadGen<'a> {
    pub s: &'a ASchema,
    pub doc: &'a ADoc,
    /// deprecation strategy `deny`: deprecated fields are not part of the generated types
    pub deny_deprecated: bool,
    pub max_list: usize,
    /// budget that stops recursive fragments: below it nullable positions are null, lists empty
    pub depth_budget: usize,
    /// percentage of null values at nullable positions that are written as an ABSENT key instead
    /// (what a server sends for a field skipped by `@skip` / `@include`; C01 / C16 treat null and absent alike)
    pub absent_percent: u32,
}

#[derive(Default, Clone, Debug)]
pub struct PayloadStats {
    pub absent: usize,
    pub abstract_positions: usize,
    pub lists: usize,
    pub nulls: usize,
    pub int_ids: usize,
    pub objects: usize,
}

impl<'a> PayloadGen<'a> {
    /// merged field map for runtime type `rt`: key → (field def name, parent type for lookup, sub-selections)
    fn collect(&self, rt: &str, sels: &[ASel], out: &mut Vec<(String, String, Vec<ASel>)>, depth: usize) {
        if depth > 16 {
            return;
        }
        for sel in sels {
            match sel {
                ASel::Typename => {
                    if !out.iter().any(|(k, _, _)| k == "__typename") {
                        out.push(("__typename".into(), "__typename".into(), vec![]));
                    }
                }
                ASel::Field { alias, name, sub } => {
                    let key = alias.clone().unwrap_or_else(|| name.clone());
                    if let Some(e) = out.iter_mut().find(|(k, _, _)| *k == key) {
                        e.2.extend(sub.iter().cloned());
                    } else {
                        out.push((key, name.clone(), sub.clone()));
                    }
                }
                ASel::Inline { on, sub } => {
                    if self.s.possible_types(on).iter().any(|p| p == rt) {
                        self.collect(rt, sub, out, depth + 1);
                    }
                }
                ASel::Spread { name } => {
                    if let Some(f) = self.doc.frag(name) {
                        if self.s.possible_types(&f.on).iter().any(|p| p == rt) {
                            self.collect(rt, &f.sels, out, depth + 1);
                        }
                    }
                }
            }
        }
    }

    /// response key -> the type whose field definition gives the key its STATIC type: the type the selection set is
    /// written on for direct selections, the type condition for selections inside an applicable inline fragment / spread
    /// (an implementor may narrow an inherited field, so the runtime type's definition is not the static one)
    fn owners(&self, static_ty: &str, rt: &str, sels: &[ASel], out: &mut Vec<(String, String)>, depth: usize) {
        if depth > 16 {
            return;
        }
        for sel in sels {
            match sel {
                ASel::Field { alias, name, .. } => {
                    let key = alias.clone().unwrap_or_else(|| name.clone());
                    if !out.iter().any(|(k, _)| *k == key) {
                        out.push((key, static_ty.to_string()));
                    }
                }
                ASel::Inline { on, sub } => {
                    if self.s.possible_types(on).iter().any(|p| p == rt) {
                        self.owners(on, rt, sub, out, depth + 1);
                    }
                }
                ASel::Spread { name } => {
                    if let Some(f) = self.doc.frag(name) {
                        if self.s.possible_types(&f.on).iter().any(|p| p == rt) {
                            self.owners(&f.on, rt, &f.sels, out, depth + 1);
                        }
                    }
                }
                ASel::Typename => {}
            }
        }
    }

    pub fn object(&self, rng: &mut Rng, rt: &str, sels: &[ASel], budget: usize, st: &mut PayloadStats) -> Value {
        st.objects += 1;
        let mut fields = Vec::new();
        self.collect(rt, sels, &mut fields, 0);
        let defs = self.s.fields_of(rt);
        let mut m = Map::new();
        for (key, fname, sub) in fields {
            if fname == "__typename" {
                m.insert(key, json!(rt));
                continue;
            }
            let def = match defs.iter().find(|f| f.name == fname) {
                Some(d) => d,
                None => continue,
            };
            let v = self.value(rng, &def.ty, &sub, budget, st);
            if v.is_null() && !def.ty.is_non_null() && self.absent_percent > 0 && rng.chance(self.absent_percent) {
                st.absent += 1;
                continue;
            }
            m.insert(key, v);
        }
        Value::Object(m)
    }

    pub fn value(&self, rng: &mut Rng, ty: &ATy, sub: &[ASel], budget: usize, st: &mut PayloadStats) -> Value {
        match ty {
            ATy::NonNull(inner) => self.non_null(rng, inner, sub, budget, st),
            t => {
                if budget == 0 || rng.chance(20) {
                    st.nulls += 1;
                    Value::Null
                } else {
                    self.non_null(rng, t, sub, budget, st)
                }
            }
        }
    }

    fn non_null(&self, rng: &mut Rng, ty: &ATy, sub: &[ASel], budget: usize, st: &mut PayloadStats) -> Value {
        match ty {
            ATy::NonNull(inner) => self.non_null(rng, inner, sub, budget, st),
            ATy::List(inner) => {
                st.lists += 1;
                let n = if budget == 0 { 0 } else { *rng.pick(&[0usize, 1, 1, 2, self.max_list]) };
                Value::Array((0..n).map(|_| self.value(rng, inner, sub, budget.saturating_sub(1), st)).collect())
            }
            ATy::Named(n) => self.named(rng, n, sub, budget, st),
        }
    }

    fn named(&self, rng: &mut Rng, name: &str, sub: &[ASel], budget: usize, st: &mut PayloadStats) -> Value {
        match name {
            "Int" => json!(*rng.pick(&[0i64, 1, -1, 42, i32::MAX as i64, i32::MIN as i64])),
            // (a quarter of the Float values are written as integer tokens: `3` is a valid Float on the wire)
            "Float" => if rng.chance(25) { json!(*rng.pick(&[3i64, -12, 0])) } else { json!(*rng.pick(&[0.5f64, -1.25, 3.0, 1e10])) },
            "String" => json!(*rng.pick(&["", "hello", "ünïcode ✓", "with \"quotes\"", "line\nbreak", "123"])),
            "Boolean" => json!(rng.chance(50)),
            "ID" => {
                if rng.chance(40) {
                    st.int_ids += 1;
                    json!(*rng.pick(&[0i64, 7, -3, i64::MAX, i64::MIN, 1234567890123]))
                } else {
                    json!(*rng.pick(&["abc", "", "42", "id-ü"]))
                }
            }
            _ => match self.s.get(name) {
                Some(AType::Enum { values, .. }) => json!(rng.pick(values)),
                Some(AType::Scalar { .. }) => json!(*rng.pick(&["2024-01-01T00:00:00Z", "https://example.com", "opaque"])),
                Some(AType::Object { .. }) | Some(AType::Interface { .. }) | Some(AType::Union { .. }) => {
                    let pts = self.s.possible_types(name);
                    if self.s.is_abstract(name) {
                        st.abstract_positions += 1;
                    }
                    if pts.is_empty() {
                        // no runtime type can exist: only reachable at nullable positions in valid data;
                        // callers with a non-null empty abstract type get null (and skip the case)
                        return Value::Null;
                    }
                    let rt = rng.pick(&pts).clone();
                    self.object(rng, &rt, sub, budget.saturating_sub(1), st)
                }
                _ => Value::Null,
            },
        }
    }

    pub fn response(&self, rng: &mut Rng, op: &AOp, st: &mut PayloadStats) -> Value {
        let root = match op.kind {
            "query" => self.s.query.clone(),
            "mutation" => self.s.mutation.clone(),
            _ => self.s.subscription.clone(),
        }
        .unwrap_or_default();
        self.object(rng, &root, &op.sels, self.depth_budget, st)
    }

    /// a valid assignment for the operation's variables (every declared variable present)
    pub fn variables(&self, rng: &mut Rng, op: &AOp) -> Value {
        let mut m = Map::new();
        for v in &op.vars {
            m.insert(v.name.clone(), self.input_value(rng, &v.ty, 4));
        }
        Value::Object(m)
    }

    pub fn input_value(&self, rng: &mut Rng, ty: &ATy, budget: usize) -> Value {
        match ty {
            ATy::NonNull(inner) => self.input_non_null(rng, inner, budget),
            t => {
                if budget == 0 || rng.chance(30) {
                    Value::Null
                } else {
                    self.input_non_null(rng, t, budget)
                }
            }
        }
    }

    fn input_non_null(&self, rng: &mut Rng, ty: &ATy, budget: usize) -> Value {
        match ty {
            ATy::NonNull(inner) => self.input_non_null(rng, inner, budget),
            ATy::List(inner) => {
                let n = if budget == 0 { 0 } else { *rng.pick(&[0usize, 1, 2, 3]) };
                Value::Array((0..n).map(|_| self.input_value(rng, inner, budget.saturating_sub(1))).collect())
            }
            ATy::Named(n) => match n.as_str() {
                "Int" => json!(*rng.pick(&[0i64, 5, -7, i32::MAX as i64])),
                "Float" => if rng.chance(25) { json!(*rng.pick(&[4i64, -1, 0])) } else { json!(*rng.pick(&[0.5f64, -2.5, 4.0])) },
                "String" => json!(*rng.pick(&["", "text", "ünï", "a\"b"])),
                "Boolean" => json!(rng.chance(50)),
                "ID" => json!(*rng.pick(&["id1", "42", ""])),
                _ => match self.s.get(n) {
                    Some(AType::Enum { values, .. }) => json!(rng.pick(values)),
                    Some(AType::Scalar { .. }) => json!("custom-scalar-value"),
                    Some(AType::Input { one_of, fields, .. }) => {
                        let mut m = Map::new();
                        if *one_of {
                            let (fname, fty) = rng.pick(fields).clone();
                            // exactly one key, non-null
                            m.insert(fname, self.input_non_null(rng, &fty, budget.saturating_sub(1)));
                        } else {
                            for (fname, fty) in fields {
                                m.insert(fname.clone(), self.input_value(rng, fty, budget.saturating_sub(1)));
                            }
                        }
                        Value::Object(m)
                    }
                    _ => Value::Null,
                },
            },
        }
    }
}

// ------------------------------------------------------------------------------------------------
// typed walks over a conforming payload: the expected re-serialisation and single-point corruptions

/// numbers: an integral float and the integer are the same JSON number
pub fn canon_numbers(v: &Value) -> Value {
    match v {
        Value::Number(n) => {
            if n.is_f64() {
                let f = n.as_f64().unwrap_or(0.0);
                if f.fract() == 0.0 && f.abs() < 9.0e15 {
                    return json!(f as i64);
                }
            }
            v.clone()
        }
        Value::Array(xs) => Value::Array(xs.iter().map(canon_numbers).collect()),
        Value::Object(m) => Value::Object(m.iter().map(|(k, v)| (k.clone(), canon_numbers(v))).collect()),
        _ => v.clone(),
    }
}

/// drop members whose value is null (null and absent are the same at nullable positions)
pub fn drop_nulls(v: &Value) -> Value {
    match v {
        Value::Array(xs) => Value::Array(xs.iter().map(drop_nulls).collect()),
        Value::Object(m) => Value::Object(m.iter().filter(|(_, v)| !v.is_null()).map(|(k, v)| (k.clone(), drop_nulls(v))).collect()),
        _ => v.clone(),
    }
}

#[derive(Clone, Debug)]
pub struct Corruption {
    pub kind: &'static str,
    pub path: String,
    pub payload: Value,
    /// what the property demands: `Some(false)` must be rejected, `Some(true)` must be accepted,
    /// `None` either (but if accepted, `expect_typename` must hold)
    pub must_accept: Option<bool>,
    /// for tag swaps: (JSON pointer of the object, the tag it must carry after a successful round trip)
    pub expect_typename: Option<(String, String)>,
}

thread_local! {
    static KEEP_OBJECT_TYPENAME: std::cell::Cell<bool> = const { std::cell::Cell::new(false) };
}

impl<'a> PayloadGen<'a> {
    /// `expected`, for an implementation that KEEPS `__typename` where the static type is an object type (the statement
    /// allows the key to be dropped there, it does not demand it)
    pub fn expected_keeping_object_typename(&self, op: &AOp, payload: &Value) -> Value {
        KEEP_OBJECT_TYPENAME.with(|k| k.set(true));
        let v = self.expected(op, payload);
        KEEP_OBJECT_TYPENAME.with(|k| k.set(false));
        v
    }

    /// what `to_value(from_value(payload))` must give, up to the differences the property allows:
    /// integer IDs as decimal strings, `__typename` dropped where the static type is an object type,
    /// null members dropped.
    pub fn expected(&self, op: &AOp, payload: &Value) -> Value {
        let root = match op.kind {
            "query" => self.s.query.clone(),
            "mutation" => self.s.mutation.clone(),
            _ => self.s.subscription.clone(),
        }
        .unwrap_or_default();
        drop_nulls(&canon_numbers(&self.expected_object(&root, &root, &op.sels, payload)))
    }

    fn expected_object(&self, static_ty: &str, rt: &str, sels: &[ASel], v: &Value) -> Value {
        let m = match v.as_object() {
            Some(m) => m,
            None => return v.clone(),
        };
        let mut fields = Vec::new();
        self.collect(rt, sels, &mut fields, 0);
        let defs = self.s.fields_of(rt);
        // the definition that counts (type AND deprecation status) is the one in the type the selection was written on:
        // an implementor may narrow or deprecate an inherited field on its own
        let mut owners = Vec::new();
        self.owners(static_ty, rt, sels, &mut owners, 0);
        let mut out = Map::new();
        for (key, fname, sub) in fields {
            let val = match m.get(&key) {
                Some(x) => x,
                None => continue,
            };
            if fname == "__typename" {
                if self.s.is_abstract(static_ty) || KEEP_OBJECT_TYPENAME.with(|k| k.get()) {
                    out.insert(key, val.clone());
                }
                continue;
            }
            let owner_defs = owners.iter().find(|(k, _)| *k == key).map(|(_, o)| self.s.fields_of(o)).unwrap_or_else(|| defs.clone());
            if let Some(def) = owner_defs.iter().find(|f| f.name == fname).or_else(|| defs.iter().find(|f| f.name == fname)) {
                if self.deny_deprecated && def.dep.is_some() {
                    continue;
                }
                out.insert(key, self.expected_value(&def.ty, &sub, val));
            }
        }
        Value::Object(out)
    }

    fn expected_value(&self, ty: &ATy, sub: &[ASel], v: &Value) -> Value {
        if v.is_null() {
            return Value::Null;
        }
        match ty {
            ATy::NonNull(inner) => self.expected_value(inner, sub, v),
            ATy::List(inner) => match v.as_array() {
                Some(xs) => Value::Array(xs.iter().map(|x| self.expected_value(inner, sub, x)).collect()),
                None => v.clone(),
            },
            ATy::Named(n) => {
                if n == "ID" {
                    return match v {
                        Value::Number(num) => json!(num.to_string()),
                        other => other.clone(),
                    };
                }
                if self.s.is_composite(n) {
                    let rt = v.get("__typename").and_then(|t| t.as_str()).map(|s| s.to_string()).unwrap_or_else(|| n.clone());
                    let rt = if self.s.is_abstract(n) { rt } else { n.clone() };
                    return self.expected_object(n, &rt, sub, v);
                }
                v.clone()
            }
        }
    }

    /// every single-point corruption of a conforming payload the property speaks about
    pub fn corruptions(&self, op: &AOp, payload: &Value, other_variant: bool) -> Vec<Corruption> {
        let root = match op.kind {
            "query" => self.s.query.clone(),
            "mutation" => self.s.mutation.clone(),
            _ => self.s.subscription.clone(),
        }
        .unwrap_or_default();
        let mut out = Vec::new();
        self.corrupt_object(payload, &root, &root, &op.sels, payload, "", other_variant, &mut out);
        out
    }

    #[allow(clippy::too_many_arguments)]
    fn corrupt_object(&self, whole: &Value, static_ty: &str, rt: &str, sels: &[ASel], v: &Value, ptr: &str, other: bool, out: &mut Vec<Corruption>) {
        let m = match v.as_object() {
            Some(m) => m,
            None => return,
        };
        let mut fields = Vec::new();
        self.collect(rt, sels, &mut fields, 0);
        let defs = self.s.fields_of(rt);
        // the tag of an abstract position
        if self.s.is_abstract(static_ty) && m.contains_key("__typename") {
            let p = format!("{}/__typename", ptr);
            out.push(Corruption {
                kind: "unknown-typename",
                path: p.clone(),
                payload: replace_at(whole, &p, Some(json!("NoSuchRuntimeType"))),
                must_accept: Some(other),
                expect_typename: None,
            });
            // a `__typename` of the wrong scalar kind; with the other-variant option serde maps any
            // unrecognised identifier (also a numeric one) to `Unknown`, which the property allows
            out.push(Corruption { kind: "typename-not-a-string", path: p.clone(), payload: replace_at(whole, &p, Some(json!(17))), must_accept: if other { None } else { Some(false) }, expect_typename: None });
            out.push(Corruption { kind: "typename-bool", path: p.clone(), payload: replace_at(whole, &p, Some(json!(true))), must_accept: Some(false), expect_typename: None });
            out.push(Corruption { kind: "typename-integer-index", path: p.clone(), payload: replace_at(whole, &p, Some(json!(0))), must_accept: Some(false), expect_typename: None });
            out.push(Corruption { kind: "typename-deleted", path: p.clone(), payload: replace_at(whole, &p, None), must_accept: Some(false), expect_typename: None });
            for pt in self.s.possible_types(static_ty) {
                if pt != rt {
                    out.push(Corruption {
                        kind: "swapped-typename",
                        path: p.clone(),
                        payload: replace_at(whole, &p, Some(json!(pt))),
                        must_accept: None,
                        expect_typename: Some((ptr.to_string(), pt.clone())),
                    });
                }
            }
        }
        let mut owners = Vec::new();
        self.owners(static_ty, rt, sels, &mut owners, 0);
        for (key, fname, sub) in fields {
            if fname == "__typename" {
                continue;
            }
            // the static type of the key: the definition in the type the selection was written on
            let owner_defs = owners.iter().find(|(k, _)| *k == key).map(|(_, o)| self.s.fields_of(o)).unwrap_or_else(|| defs.clone());
            let def = match owner_defs.iter().find(|f| f.name == fname).or_else(|| defs.iter().find(|f| f.name == fname)) {
                Some(d) => d.clone(),
                None => continue,
            };
            let val = match m.get(&key) {
                Some(x) => x,
                None => continue,
            };
            if self.deny_deprecated && def.dep.is_some() {
                continue;
            }
            let p = format!("{}/{}", ptr, key.replace('~', "~0").replace('/', "~1"));
            self.corrupt_value(whole, &def.ty, &sub, val, &p, other, out);
        }
    }

    #[allow(clippy::too_many_arguments)]
    fn corrupt_value(&self, whole: &Value, ty: &ATy, sub: &[ASel], v: &Value, ptr: &str, other: bool, out: &mut Vec<Corruption>) {
        let non_null = ty.is_non_null();
        let in_list = ptr.rsplit('/').next().map(|s| s.chars().all(|c| c.is_ascii_digit()) && !s.is_empty()).unwrap_or(false);
        if non_null {
            out.push(Corruption { kind: "null-at-non-null", path: ptr.into(), payload: replace_at(whole, ptr, Some(Value::Null)), must_accept: Some(false), expect_typename: None });
            if !in_list {
                out.push(Corruption { kind: "missing-at-non-null", path: ptr.into(), payload: replace_at(whole, ptr, None), must_accept: Some(false), expect_typename: None });
            }
        }
        if v.is_null() {
            return;
        }
        let inner = match ty {
            ATy::NonNull(i) => &**i,
            t => t,
        };
        match inner {
            ATy::List(elem) => {
                for (kind, repl) in [("non-list-for-list/string", json!("not a list")), ("non-list-for-list/object", json!({})), ("non-list-for-list/number", json!(3))] {
                    out.push(Corruption { kind, path: ptr.into(), payload: replace_at(whole, ptr, Some(repl)), must_accept: Some(false), expect_typename: None });
                }
                if let Some(xs) = v.as_array() {
                    for (i, x) in xs.iter().enumerate().take(2) {
                        self.corrupt_value(whole, elem, sub, x, &format!("{}/{}", ptr, i), other, out);
                    }
                }
            }
            ATy::Named(n) => {
                let swaps: Vec<(&'static str, Value)> = match n.as_str() {
                    "Int" => vec![("wrong-kind/int<-string", json!("12")), ("wrong-kind/int<-float", json!(1.5)), ("wrong-kind/int<-bool", json!(true)), ("wrong-kind/int<-list", json!([1]))],
                    "Float" => vec![("wrong-kind/float<-string", json!("1.5")), ("wrong-kind/float<-bool", json!(false)), ("wrong-kind/float<-object", json!({}))],
                    "String" => vec![("wrong-kind/string<-int", json!(7)), ("wrong-kind/string<-bool", json!(true)), ("wrong-kind/string<-list", json!(["a"]))],
                    "Boolean" => vec![("wrong-kind/bool<-string", json!("true")), ("wrong-kind/bool<-int", json!(1))],
                    "ID" => vec![("wrong-kind/id<-float", json!(1.5)), ("wrong-kind/id<-bool", json!(true)), ("wrong-kind/id<-list", json!(["a"])), ("wrong-kind/id<-object", json!({}))],
                    _ => match self.s.get(n) {
                        Some(AType::Enum { .. }) => vec![("wrong-kind/enum<-int", json!(3)), ("wrong-kind/enum<-bool", json!(true)), ("wrong-kind/enum<-object", json!({}))],
                        Some(AType::Object { .. }) | Some(AType::Interface { .. }) | Some(AType::Union { .. }) => {
                            vec![("wrong-kind/object<-string", json!("x")), ("wrong-kind/object<-number", json!(1)), ("wrong-kind/object<-bool", json!(true))]
                        }
                        _ => vec![],
                    },
                };
                for (kind, repl) in swaps {
                    out.push(Corruption { kind, path: ptr.into(), payload: replace_at(whole, ptr, Some(repl)), must_accept: Some(false), expect_typename: None });
                }
                if self.s.is_composite(n) {
                    let rt = v.get("__typename").and_then(|t| t.as_str()).map(|s| s.to_string()).unwrap_or_else(|| n.clone());
                    let rt = if self.s.is_abstract(n) { rt } else { n.clone() };
                    if !self.s.is_abstract(n) {
                        // an ARRAY where an object is required: one `null` per selected field (serde's derived
                        // structs also implement `visit_seq`)
                        let mut fields = Vec::new();
                        self.collect(&rt, sub, &mut fields, 0);
                        let defs = self.s.fields_of(&rt);
                        let k = fields.iter().filter(|(_, f, _)| f != "__typename" && !(self.deny_deprecated && defs.iter().any(|d| &d.name == f && d.dep.is_some()))).count();
                        out.push(Corruption { kind: "object-as-array", path: ptr.into(), payload: replace_at(whole, ptr, Some(Value::Array(vec![Value::Null; k]))), must_accept: Some(false), expect_typename: None });
                    }
                    self.corrupt_object(whole, n, &rt, sub, v, ptr, other, out);
                }
            }
            ATy::NonNull(_) => {}
        }
    }
}

/// replace (Some) or delete (None) the value at a JSON pointer
pub fn replace_at(whole: &Value, ptr: &str, with: Option<Value>) -> Value {
    let mut v = whole.clone();
    let parts: Vec<String> = ptr.split('/').skip(1).map(|s| s.replace("~1", "/").replace("~0", "~")).collect();
    if parts.is_empty() {
        return with.unwrap_or(Value::Null);
    }
    let mut cur = &mut v;
    for (i, p) in parts.iter().enumerate() {
        let last = i + 1 == parts.len();
        if last {
            match cur {
                Value::Object(m) => match &with {
                    Some(w) => {
                        m.insert(p.clone(), w.clone());
                    }
                    None => {
                        m.remove(p);
                    }
                },
                Value::Array(xs) => {
                    if let Ok(idx) = p.parse::<usize>() {
                        if idx < xs.len() {
                            match &with {
                                Some(w) => xs[idx] = w.clone(),
                                None => {
                                    xs.remove(idx);
                                }
                            }
                        }
                    }
                }
                _ => {}
            }
            break;
        }
        cur = match cur {
            Value::Object(m) => match m.get_mut(p) {
                Some(x) => x,
                None => return v,
            },
            Value::Array(xs) => match p.parse::<usize>().ok().and_then(|i| xs.get_mut(i)) {
                Some(x) => x,
                None => return v,
            },
            _ => return v,
        };
    }
    v
}
