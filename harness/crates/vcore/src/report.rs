//! Result collection: what a run covered, disagreements with the model, oracle failures on the
//! implementation, known findings; writes the harness part of the evidence and the replay files.
use serde_json::{json, Value};
use std::collections::{BTreeMap, BTreeSet};
use std::hash::{Hash, Hasher};
use std::path::PathBuf;
use std::time::Instant;

pub struct Report {
    pub prop: String,
    pub tier: String,
    pub seed: u64,
    pub out: Option<PathBuf>,
    pub started: Instant,
    pub evaluations: u64,
    pub nontrivial: BTreeSet<u64>,
    pub rule: String,
    pub samples: Vec<Value>,
    pub distribution: BTreeMap<String, u64>,
    pub model_disagreements: Vec<Value>,
    pub oracle_failures: Vec<(String, Value)>, // (class, replay content)
    pub internal: Vec<String>,
    pub traces_validated: u64,
    pub known: Vec<Value>,
    pub extra: BTreeMap<String, Value>,
}

pub fn hash_str(s: &str) -> u64 {
    let mut h = std::collections::hash_map::DefaultHasher::new();
    s.hash(&mut h);
    h.finish()
}

pub struct Args {
    pub tier: String,
    pub seed: u64,
    pub out: Option<PathBuf>,
    pub replay: Option<PathBuf>,
    pub rest: Vec<String>,
}

pub fn parse_args(args: &[String]) -> Args {
    let mut a = Args {
        tier: std::env::var("VERIF_TIER").unwrap_or_else(|_| "quick".into()),
        seed: crate::gen::rng::seed_from_env(),
        out: None,
        replay: None,
        rest: vec![],
    };
    let mut i = 0;
    while i < args.len() {
        match args[i].as_str() {
            "--tier" => {
                a.tier = args[i + 1].clone();
                i += 1
            }
            "--seed" => {
                a.seed = args[i + 1].parse().unwrap_or(a.seed);
                i += 1
            }
            "--out" => {
                a.out = Some(PathBuf::from(&args[i + 1]));
                i += 1
            }
            "--replay" => {
                a.replay = Some(PathBuf::from(&args[i + 1]));
                i += 1
            }
            other => a.rest.push(other.to_string()),
        }
        i += 1;
    }
    a
}

impl Report {
    pub fn new(prop: &str, a: &Args, rule: &str) -> Report {
        Report {
            prop: prop.to_string(),
            tier: a.tier.clone(),
            seed: a.seed,
            out: a.out.clone(),
            started: Instant::now(),
            evaluations: 0,
            nontrivial: BTreeSet::new(),
            rule: rule.to_string(),
            samples: vec![],
            distribution: BTreeMap::new(),
            model_disagreements: vec![],
            oracle_failures: vec![],
            internal: vec![],
            traces_validated: 0,
            known: vec![],
            extra: BTreeMap::new(),
        }
    }
    pub fn thorough(&self) -> bool {
        self.tier == "thorough"
    }
    pub fn count(&mut self, key: &str) {
        *self.distribution.entry(key.to_string()).or_insert(0) += 1;
    }
    pub fn count_n(&mut self, key: &str, n: u64) {
        *self.distribution.entry(key.to_string()).or_insert(0) += n;
    }
    /// one evaluated case; `nontrivial_key` identifies it when it is non-trivial by the stated rule
    pub fn case(&mut self, nontrivial_key: Option<&str>) {
        self.evaluations += 1;
        if let Some(k) = nontrivial_key {
            self.nontrivial.insert(hash_str(k));
        }
    }
    pub fn sample(&mut self, v: Value) {
        if self.samples.len() < 5 {
            self.samples.push(v);
        }
    }
    pub fn disagree(&mut self, v: Value) {
        if self.model_disagreements.len() < 50 {
            self.model_disagreements.push(v);
        } else {
            self.count("model_disagreements_not_listed");
        }
    }
    pub fn fail(&mut self, class: &str, v: Value) {
        if self.oracle_failures.len() < 200 {
            self.oracle_failures.push((class.to_string(), v));
        } else {
            self.count("oracle_failures_not_listed");
        }
    }

    /// Writes the result file, prints VIOLATION / KNOWN-FINDING lines, returns the exit code.
    pub fn finish(mut self) -> i32 {
        let known_file: Value = std::fs::read_to_string("/verif/known_findings.json")
            .ok()
            .and_then(|s| serde_json::from_str(&s).ok())
            .unwrap_or(json!({"findings": []}));
        let open: Vec<(String, String)> = known_file["findings"]
            .as_array()
            .cloned()
            .unwrap_or_default()
            .iter()
            .filter(|f| f["property"] == json!(self.prop) && f["status"] == json!("open"))
            .map(|f| (f["class"].as_str().unwrap_or("").to_string(), f["what"].as_str().unwrap_or("").to_string()))
            .collect();
        let replay_dir = PathBuf::from(format!("/verif/replays/{}", self.prop));
        let mut violations = 0;
        let mut lines: Vec<String> = Vec::new();
        let mut known_seen: BTreeMap<String, u64> = BTreeMap::new();
        let mut violation_classes: BTreeSet<String> = BTreeSet::new();
        for (class, v) in &self.oracle_failures {
            if let Some((c, _)) = open.iter().find(|(c, _)| c == class) {
                *known_seen.entry(c.clone()).or_insert(0) += 1;
                continue;
            }
            // one replay per class is enough to act on; keep up to 3
            let n = violation_classes.iter().filter(|c| *c == class).count();
            if n == 0 {
                violation_classes.insert(class.clone());
            }
            violations += 1;
            if violations <= 5 {
                std::fs::create_dir_all(&replay_dir).ok();
                let body = json!({"property": self.prop, "kind": "oracle-failure", "class": class, "seed": self.seed, "tier": self.tier, "case": v});
                let text = serde_json::to_string_pretty(&body).unwrap();
                let path = replay_dir.join(format!("{:016x}.json", hash_str(&text)));
                std::fs::write(&path, text).ok();
                lines.push(format!("VIOLATION property={} replay={}", self.prop, path.display()));
            }
        }
        for (c, what) in &open {
            if let Some(n) = known_seen.get(c) {
                println!("KNOWN-FINDING: property={} {} [{}; {} failing case(s) this run]", self.prop, what, c, n);
                self.known.push(json!({"class": c, "what": what, "cases": n}));
            }
        }
        if violations == 0 && !self.model_disagreements.is_empty() {
            // the tie is broken but no failing input was found
            std::fs::create_dir_all(&replay_dir).ok();
            let body = json!({"property": self.prop, "kind": "correspondence-broken",
                "broken": format!("corr:{}/model-vs-implementation", self.prop),
                "seed": self.seed, "tier": self.tier,
                "first_disagreements": self.model_disagreements.iter().take(5).collect::<Vec<_>>()});
            let text = serde_json::to_string_pretty(&body).unwrap();
            let path = replay_dir.join(format!("{:016x}.json", hash_str(&text)));
            std::fs::write(&path, text).ok();
            lines.push(format!("VIOLATION property={} replay={} no-failing-input-found", self.prop, path.display()));
            violations += 1;
        }
        for l in &lines {
            println!("{}", l);
        }
        for i in &self.internal {
            println!("INTERNAL: {}", i);
        }
        let result = json!({
            "property_id": self.prop, "tier": self.tier, "seed": self.seed,
            "evaluations": self.evaluations,
            "distinct_nontrivial": self.nontrivial.len(),
            "rule": self.rule,
            "samples": self.samples,
            "input_distribution": self.distribution,
            "traces_validated_against_impl": self.traces_validated,
            "model_disagreements": self.model_disagreements,
            "oracle_failures": self.oracle_failures.iter().map(|(c, v)| json!({"class": c, "case": v})).collect::<Vec<_>>(),
            "known_findings": self.known,
            "internal_errors": self.internal,
            "violations": violations,
            "harness_wall_s": self.started.elapsed().as_secs_f64(),
            "extra": self.extra,
        });
        if let Some(out) = &self.out {
            std::fs::write(out, serde_json::to_string_pretty(&result).unwrap()).expect("write result");
        }
        println!(
            "{}: {} evaluations, {} distinct non-trivial, {} model disagreements, {} oracle failures ({} known), {} violations",
            self.prop, self.evaluations, self.nontrivial.len(), self.model_disagreements.len(),
            self.oracle_failures.len(), self.known.len(), violations
        );
        if !self.internal.is_empty() {
            2
        } else if violations > 0 {
            1
        } else {
            0
        }
    }
}
