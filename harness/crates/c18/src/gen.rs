//! Generators of derive inputs for C18: the attribute grammar of the property (any subset and order of
//! the recognised keys, every string-literal style, free whitespace/comments, optional trailing commas,
//! other attributes around, struct visibilities) and a separate malformed stream.
//! The oracle of a case is assembled from the *semantic* choices (strategy = deny, then a spelling
//! " DeNy\t"), never read back from the text.
use serde_json::{json, Map, Value};
use vcore::gen::rng::Rng;
use vcore::sexp::{atom, boolean, st, tagged, Sexp};

#[derive(Clone, Debug, PartialEq)]
pub enum Item {
    Kv(String, String),
    Flag(String),
    List(String, Vec<String>),
}

impl Item {
    pub fn head(&self) -> &str {
        match self {
            Item::Kv(k, _) | Item::Flag(k) | Item::List(k, _) => k,
        }
    }
}

/// the attribute as the Lean specification sees it (`Attr.Item` list + `Attr.Style`)
pub struct Spec {
    pub items: Vec<Item>,
    pub trailing: bool,
    pub list_trailing: bool,
    pub delim: &'static str,
}

impl Spec {
    pub fn items_sexp(&self) -> Sexp {
        tagged(
            "items",
            self.items
                .iter()
                .map(|i| match i {
                    Item::Kv(k, v) => tagged("kv", vec![st(k), st(v)]),
                    Item::Flag(f) => tagged("flag", vec![st(f)]),
                    Item::List(k, vs) => {
                        let mut x = vec![st(k)];
                        x.extend(vs.iter().map(|v| st(v)));
                        tagged("list", x)
                    }
                })
                .collect(),
        )
    }
    pub fn style_sexp(&self) -> Sexp {
        tagged("style", vec![boolean(self.trailing), boolean(self.list_trailing), atom(self.delim)])
    }
    pub fn all_values(&self) -> Vec<String> {
        let mut out = vec![];
        for i in &self.items {
            match i {
                Item::Kv(_, v) => out.push(v.clone()),
                Item::List(_, vs) => out.extend(vs.iter().cloned()),
                _ => {}
            }
        }
        out
    }
}

pub struct Case {
    pub kind: String,
    pub text: String,
    pub manifest_dir: Option<String>,
    /// partial observation: only what the property statement determines for this input
    pub oracle: Value,
    pub spec: Option<Spec>,
    pub tags: Vec<String>,
    pub nontrivial: bool,
}

// ---------------------------------------------------------------------------------------------
// value pools

const ADVERSARIAL: [&str; 34] = [
    "Debug",
    "Debug,PartialEq",
    "Debug, Clone , PartialEq",
    "",
    " ",
    "a,b,,c",
    "deprecated",
    "deprecated = \"deny\"",
    "skip_serializing_none",
    "x, skip_serializing_none, normalization = \"rust\"",
    "extern_enums(\"A\")",
    "query_path",
    "=",
    ",",
    "\\",
    "\"",
    "\\\"",
    "é",
    "日本語,テスト",
    "tab\there",
    "line\nbreak",
    "r#\"raw\"#",
    "\"#",
    "\"##",
    "{}",
    "#[graphql(deprecated = \"deny\")]",
    "\u{1F600} smile",
    "a\0b",
    "'",
    "\\n not a newline",
    "\\u{41}",
    "cr\rlf",
    "true",
    "İstanbul \u{212A}",
];

const REL_PATHS: [&str; 12] = [
    "schema.graphql",
    "src/q.graphql",
    "gql/sch\u{e9}ma.graphql",
    "a b/c d.graphql",
    "./x.json",
    "../up/x.gql",
    "",
    "x/",
    "dir//file",
    "deprecated = \"deny\".graphql",
    "C:\\x",
    "query_path",
];

const ABS_PATHS: [&str; 3] = ["/abs/s.graphql", "//x", "/"];

const STD_DIRS: [&str; 5] = ["/home/user/proj", "/tmp/x y", "/verif/.work/\u{e7}", "rel/dir", "C:\\proj"];
const ODD_DIRS: [&str; 3] = ["/trailing/", "", "/"];

const WHITE: [&str; 14] = [
    " ", "\t", "\n", "\u{a0}", "\u{3000}", "\u{2003}", "\u{85}", "\r\n", "\u{1680}", "\u{2028}", "\u{202f}", "\u{205f}", "\u{b}", "\u{c}",
];

const BAD_STRATEGY: [&str; 14] = [
    "\u{feff}warn",
    "\u{180e}deny",
    "foo",
    "",
    "warnn",
    "al low",
    "de\u{301}ny",
    "\u{212A}",
    "ALLOW\u{200B}",
    "deny,",
    "\"deny\"",
    "war\u{0130}",
    "none",
    "rust",
];
const BAD_NORMALIZATION: [&str; 7] = ["Rust!", "", "camel", "no ne", "warn", "ru\u{17F}t", "\u{200B}none"];
const FOV_OFF: [&str; 9] = ["false", "TRUE", " true", "true ", "1", "", "yes", "True", "true\n"];
const GOOD_MODULES: [(&str, &str); 7] = [
    ("crate::scalars", "crate::scalars"),
    ("scalars", "scalars"),
    ("::a::b", "::a::b"),
    ("super::x", "super::x"),
    (" a :: b ", "a::b"),
    ("self::m", "self::m"),
    ("a::\n b", "a::b"),
];
const BAD_MODULES: [&str; 6] = ["a b", "1x", "", "a::", "a-b", "\"x\""];

const STRUCT_NAMES: [&str; 3] = ["MyQuery", "Probe", "Q2"];
const VISIBILITIES: [&str; 5] = ["", "pub", "pub(crate)", "pub(super)", "pub(in crate::queries)"];

const PRE_ATTRS: [&str; 10] = [
    "#[derive(GraphQLQuery)]",
    "#[allow(dead_code)]",
    "#[derive(Debug)]",
    "#[derive(Serialize, Deserialize, Debug)]",
    "#[doc = \"graphql(deprecated = \\\"deny\\\")\"]",
    "#[cfg_attr(test, graphql(deprecated = \"deny\", skip_serializing_none))]",
    "#[my::graphql(deprecated = \"deny\", skip_serializing_none)]",
    "#[serde(graphql, skip_serializing_none)]",
    "/// graphql(skip_serializing_none)",
    "#[graphql_extra(normalization = \"rust\")]",
];

fn random_case(rng: &mut Rng, w: &str) -> String {
    w.chars().map(|c| if rng.chance(50) { c.to_ascii_uppercase() } else { c }).collect()
}

fn spelled(rng: &mut Rng, w: &str) -> String {
    let c = random_case(rng, w);
    padded(rng, &c)
}

fn padded(rng: &mut Rng, w: &str) -> String {
    let mut s = String::new();
    for _ in 0..rng.below(3) {
        s.push_str(*rng.pick(&WHITE));
    }
    s.push_str(w);
    for _ in 0..rng.below(3) {
        s.push_str(*rng.pick(&WHITE));
    }
    s
}

// ---------------------------------------------------------------------------------------------
// text rendering

/// Rust source of a string literal whose value is `v`
pub fn lit_text(rng: &mut Rng, v: &str, tags: &mut Vec<String>) -> String {
    let has_cr = v.contains('\r');
    let mut style = rng.below(6);
    if style == 2 && (v.contains('"') || has_cr) {
        style = 0;
    }
    if style == 3 && (v.contains("\"#") || has_cr) {
        style = 1;
    }
    if style == 4 && (v.contains("\"##") || has_cr) {
        style = 1;
    }
    match style {
        2 => {
            tags.push("literal:raw0".into());
            format!("r\"{}\"", v)
        }
        3 => {
            tags.push("literal:raw1".into());
            format!("r#\"{}\"#", v)
        }
        4 => {
            tags.push("literal:raw2".into());
            format!("r##\"{}\"##", v)
        }
        _ => {
            let heavy = style == 1;
            let continuation = style == 5;
            tags.push(if heavy { "literal:escaped-heavy" } else if continuation { "literal:continuation" } else { "literal:plain" }.into());
            let chars: Vec<char> = v.chars().collect();
            let mut out = String::from("\"");
            for (i, &c) in chars.iter().enumerate() {
                if continuation && i > 0 && !c.is_whitespace() && rng.chance(15) {
                    out.push_str("\\\n      ");
                }
                match c {
                    '"' => out.push_str("\\\""),
                    '\\' => out.push_str("\\\\"),
                    '\r' => out.push_str("\\r"),
                    '\0' => out.push_str("\\0"),
                    '\n' => out.push_str(if heavy || rng.chance(50) { "\\n" } else { "\n" }),
                    '\t' => out.push_str(if heavy || rng.chance(50) { "\\t" } else { "\t" }),
                    '\'' => out.push_str(if heavy { "\\'" } else { "'" }),
                    c if !c.is_ascii() => {
                        if heavy || rng.chance(30) {
                            out.push_str(&format!("\\u{{{:x}}}", c as u32));
                        } else {
                            out.push(c)
                        }
                    }
                    c if heavy && c.is_ascii_alphanumeric() && rng.chance(20) => out.push_str(&format!("\\x{:02x}", c as u32)),
                    c if (c as u32) < 0x20 || c as u32 == 0x7f => out.push_str(&format!("\\x{:02x}", c as u32)),
                    c => out.push(c),
                }
            }
            out.push('"');
            out
        }
    }
}

fn ws(rng: &mut Rng) -> &'static str {
    *rng.pick(&["", "", " ", " ", "  ", "\n", "\n        ", "\t", " /* c, = \"x\" */ ", " // skip_serializing_none\n"])
}

pub fn item_text(rng: &mut Rng, i: &Item, list_trailing: bool, delim: &str, tags: &mut Vec<String>) -> String {
    match i {
        Item::Kv(k, v) => format!("{}{}={}{}", k, ws(rng), ws(rng), lit_text(rng, v, tags)),
        Item::Flag(f) => f.clone(),
        Item::List(k, vs) => {
            let (o, c) = match delim {
                "bracket" => ("[", "]"),
                "brace" => ("{", "}"),
                _ => ("(", ")"),
            };
            let mut s = format!("{}{}{}", k, ws(rng), o);
            for (n, v) in vs.iter().enumerate() {
                s.push_str(ws(rng));
                s.push_str(&lit_text(rng, v, tags));
                s.push_str(ws(rng));
                if n + 1 < vs.len() || list_trailing {
                    s.push(',');
                }
            }
            s.push_str(ws(rng));
            s.push_str(c);
            s
        }
    }
}

pub fn body_text(rng: &mut Rng, sp: &Spec, tags: &mut Vec<String>) -> String {
    let mut s = String::new();
    for (n, i) in sp.items.iter().enumerate() {
        s.push_str(ws(rng));
        s.push_str(&item_text(rng, i, sp.list_trailing, sp.delim, tags));
        s.push_str(ws(rng));
        if n + 1 < sp.items.len() || sp.trailing {
            s.push(',');
        }
    }
    s.push_str(ws(rng));
    s
}

pub struct Around {
    pub pre: Vec<&'static str>,
    pub post: Vec<&'static str>,
    pub vis: &'static str,
    pub name: &'static str,
    pub body: &'static str,
}

pub fn around(rng: &mut Rng) -> Around {
    let mut pre = vec![];
    let mut post = vec![];
    for a in PRE_ATTRS {
        if rng.chance(22) {
            if rng.chance(55) {
                pre.push(a)
            } else {
                post.push(a)
            }
        }
    }
    rng.shuffle(&mut pre);
    rng.shuffle(&mut post);
    Around {
        pre,
        post,
        vis: *rng.pick(&VISIBILITIES),
        name: *rng.pick(&STRUCT_NAMES),
        body: *rng.pick(&[";", ";", " {}", " { }", "(u8);", " { x: u8 }"]),
    }
}

/// the complete derive input; `attrs` are the `#[graphql…]` attribute texts to put between pre and post
pub fn assemble(a: &Around, attrs: &[String]) -> String {
    let mut s = String::new();
    for p in &a.pre {
        s.push_str(p);
        s.push('\n');
    }
    for x in attrs {
        s.push_str(x);
        s.push('\n');
    }
    for p in &a.post {
        s.push_str(p);
        s.push('\n');
    }
    s.push_str(a.vis);
    s.push_str(if a.vis.is_empty() { "struct " } else { " struct " });
    s.push_str(a.name);
    s.push_str(a.body);
    s.push('\n');
    s
}

fn outer(rng: &mut Rng, body: &str, tags: &mut Vec<String>) -> String {
    match rng.below(12) {
        0 => {
            tags.push("outer:bracket".into());
            format!("#[graphql[{}]]", body)
        }
        1 => {
            tags.push("outer:brace".into());
            format!("#[graphql{{{}}}]", body)
        }
        2 => format!("# [ graphql ({}) ]", body),
        _ => format!("#[graphql({})]", body),
    }
}

// ---------------------------------------------------------------------------------------------
// the oracle

/// what the derive must do with `items` (each recognised key at most once, all in recognised form)
/// `sem` carries the semantic choices that cannot be recovered without re-parsing spellings.
pub struct Sem {
    pub deprecation: &'static str,
    pub normalization: &'static str,
    pub module: Option<Result<String, ()>>, // canonical path or invalid
}

fn kv<'a>(items: &'a [Item], k: &str) -> Option<&'a str> {
    items.iter().find_map(|i| match i {
        Item::Kv(k2, v) if k2 == k => Some(v.as_str()),
        _ => None,
    })
}

pub fn oracle_for(items: &[Item], sem: &Sem, dir: Option<&str>, vis: &str, with_ident_list: bool) -> Value {
    let mut attr = Map::new();
    let mut ident = Map::new();
    let mut lst = Map::new();
    for k in crate::KEYS {
        attr.insert(k.into(), kv(items, k).map(|v| json!(v)).unwrap_or(Value::Null));
        let as_list = items.iter().find_map(|i| match i {
            Item::List(k2, vs) if k2 == k => Some(vs.clone()),
            _ => None,
        });
        if with_ident_list {
            lst.insert(k.into(), as_list.map(|v| json!(v)).unwrap_or(Value::Null));
            // a name used as a key is not a flag question; the statement only speaks about written flags
            if !items.iter().any(|i| i.head() == k && !matches!(i, Item::Flag(_))) {
                ident.insert(k.into(), json!(items.contains(&Item::Flag(k.to_string()))));
            }
        }
    }
    let skip = items.contains(&Item::Flag("skip_serializing_none".into()));
    let fov = kv(items, "fragments_other_variant") == Some("true");
    let fns = json!({
        "deprecation_strategy": if kv(items, "deprecated").is_some() && sem.deprecation != "invalid" { json!(sem.deprecation) } else { Value::Null },
        "normalization": if kv(items, "normalization").is_some() && sem.normalization != "invalid" { json!(sem.normalization) } else { Value::Null },
        "fragments_other_variant": fov, "skip_serializing_none": skip,
    });
    let derive = match (dir, kv(items, "query_path"), kv(items, "schema_path"), &sem.module) {
        (None, _, _, _) | (_, None, _, _) | (_, _, None, _) | (_, _, _, Some(Err(()))) => json!({"err": true}),
        (Some(d), Some(q), Some(s), m) => {
            let mut o = Map::new();
            let std_dir = !d.is_empty() && !d.ends_with('/');
            if std_dir && !q.starts_with('/') {
                o.insert("query".into(), json!(format!("{}/{}", d, q)));
            }
            if std_dir && !s.starts_with('/') {
                o.insert("schema".into(), json!(format!("{}/{}", d, s)));
            }
            o.insert("variables_derives".into(), json!(kv(items, "variables_derives")));
            let rd: Vec<String> = match kv(items, "response_derives") {
                None => vec![],
                Some(r) => r.split(',').map(|x| x.trim().to_string()).collect(),
            };
            o.insert("response_derives".into(), json!(rd));
            o.insert("deprecation".into(), json!(if sem.deprecation == "invalid" { "warn" } else { sem.deprecation }));
            o.insert("normalization".into(), json!(if sem.normalization == "invalid" { "none" } else { sem.normalization }));
            o.insert("custom_scalars_module".into(), json!(m.as_ref().map(|r| r.clone().unwrap())));
            let ee = items
                .iter()
                .find_map(|i| match i {
                    Item::List(k, vs) if k == "extern_enums" => Some(vs.clone()),
                    _ => None,
                })
                .unwrap_or_default();
            o.insert("extern_enums".into(), json!(ee));
            o.insert("fragments_other_variant".into(), json!(fov));
            o.insert("skip_serializing_none".into(), json!(skip));
            o.insert("visibility".into(), json!(vis.replace(' ', "")));
            json!({ "ok": Value::Object(o) })
        }
    };
    let mut all = Map::new();
    all.insert("attr".into(), Value::Object(attr));
    if with_ident_list {
        all.insert("ident".into(), Value::Object(ident));
        all.insert("list".into(), Value::Object(lst));
    }
    all.insert("fns".into(), fns);
    all.insert("derive".into(), derive);
    Value::Object(all)
}

// ---------------------------------------------------------------------------------------------
// the attribute grammar of the property

fn any_text(rng: &mut Rng) -> String {
    rng.pick(&ADVERSARIAL).to_string()
}

/// items from the recognised keys: any subset, any order, semantic values first
pub fn recognised_items(rng: &mut Rng, tags: &mut Vec<String>, allow_empty_list: bool) -> (Vec<Item>, Sem) {
    let mut items = vec![];
    let mut sem = Sem { deprecation: "warn", normalization: "none", module: None };
    for (k, p) in [("schema_path", 88), ("query_path", 88)] {
        if rng.chance(p) {
            let v = if rng.chance(7) {
                tags.push("paths:absolute".into());
                rng.pick(&ABS_PATHS).to_string()
            } else {
                rng.pick(&REL_PATHS).to_string()
            };
            items.push(Item::Kv(k.into(), v));
        }
    }
    for k in ["response_derives", "variables_derives"] {
        if rng.chance(55) {
            items.push(Item::Kv(k.into(), any_text(rng)));
        }
    }
    if rng.chance(60) {
        let (s, v) = match rng.below(4) {
            0 => ("allow", spelled(rng, "allow")),
            1 => ("deny", spelled(rng, "deny")),
            2 => ("warn", spelled(rng, "warn")),
            _ => ("invalid", rng.pick(&BAD_STRATEGY).to_string()),
        };
        tags.push(format!("deprecated:{}", s));
        sem.deprecation = s;
        items.push(Item::Kv("deprecated".into(), v));
    } else {
        tags.push("deprecated:absent".into());
    }
    if rng.chance(50) {
        let (s, v) = match rng.below(3) {
            0 => ("none", spelled(rng, "none")),
            1 => ("rust", spelled(rng, "rust")),
            _ => ("invalid", rng.pick(&BAD_NORMALIZATION).to_string()),
        };
        tags.push(format!("normalization:{}", s));
        sem.normalization = s;
        items.push(Item::Kv("normalization".into(), v));
    } else {
        tags.push("normalization:absent".into());
    }
    if rng.chance(40) {
        if rng.chance(12) {
            tags.push("custom_scalars_module:invalid".into());
            sem.module = Some(Err(()));
            items.push(Item::Kv("custom_scalars_module".into(), rng.pick(&BAD_MODULES).to_string()));
        } else {
            tags.push("custom_scalars_module:valid".into());
            let (v, c) = *rng.pick(&GOOD_MODULES);
            sem.module = Some(Ok(c.to_string()));
            items.push(Item::Kv("custom_scalars_module".into(), v.into()));
        }
    }
    if rng.chance(50) {
        let v = if rng.chance(50) { "true".to_string() } else { rng.pick(&FOV_OFF).to_string() };
        tags.push(format!("fragments_other_variant:{}", if v == "true" { "on" } else { "off-spelling" }));
        items.push(Item::Kv("fragments_other_variant".into(), v));
    } else {
        tags.push("fragments_other_variant:absent".into());
    }
    if rng.chance(50) {
        tags.push("skip_serializing_none:written".into());
        items.push(Item::Flag("skip_serializing_none".into()));
    } else {
        tags.push("skip_serializing_none:absent".into());
    }
    if rng.chance(50) {
        let n = if allow_empty_list { rng.below(4) } else { rng.range(1, 3) };
        let vs: Vec<String> = (0..n).map(|_| if rng.chance(50) { rng.pick(&["Direction", "DistanceUnit", "E"]).to_string() } else { any_text(rng) }).collect();
        tags.push(format!("extern_enums:{}", n));
        items.push(Item::List("extern_enums".into(), vs));
    } else {
        tags.push("extern_enums:absent".into());
    }
    rng.shuffle(&mut items);
    (items, sem)
}

fn pick_dir(rng: &mut Rng, tags: &mut Vec<String>) -> Option<String> {
    match rng.below(100) {
        0..=2 => {
            tags.push("manifest_dir:unset".into());
            None
        }
        3..=8 => {
            tags.push("manifest_dir:odd".into());
            Some(rng.pick(&ODD_DIRS).to_string())
        }
        _ => Some(rng.pick(&STD_DIRS).to_string()),
    }
}

pub fn well_formed(rng: &mut Rng) -> Case {
    let mut tags = vec![];
    let (items, sem) = recognised_items(rng, &mut tags, false);
    let sp = Spec {
        items,
        trailing: rng.chance(50),
        list_trailing: rng.chance(40),
        delim: *rng.pick(&["paren", "paren", "paren", "paren", "bracket", "brace"]),
    };
    let a = around(rng);
    let dir = pick_dir(rng, &mut tags);
    let body = body_text(rng, &sp, &mut tags);
    let text = assemble(&a, &[outer(rng, &body, &mut tags)]);
    tags.push(format!("items:{}", sp.items.len()));
    tags.push(format!("trailing_comma:{}", sp.trailing));
    tags.push(format!("visibility:{}", if a.vis.is_empty() { "inherited" } else { a.vis }));
    tags.push(format!("attrs_before:{}", a.pre.len()));
    tags.push(format!("attrs_after:{}", a.post.len()));
    let oracle = oracle_for(&sp.items, &sem, dir.as_deref(), a.vis, true);
    let nontrivial = sp.items.len() >= 2;
    Case { kind: "grammar".into(), text, manifest_dir: dir, oracle, spec: Some(sp), tags, nontrivial }
}

// ---------------------------------------------------------------------------------------------
// the malformed stream

const NON_STRING_LITS: [&str; 12] = ["1", "1.5", "'c'", "b\"x\"", "b'x'", "c\"x\"", "1u8", "0x1F", "-1", "true", "br#\"x\"#", "1e3"];

fn absent_everything(dir_unset_ok: bool) -> Value {
    let mut attr = Map::new();
    let mut ident = Map::new();
    let mut lst = Map::new();
    for k in crate::KEYS {
        attr.insert(k.into(), Value::Null);
        ident.insert(k.into(), json!(false));
        lst.insert(k.into(), Value::Null);
    }
    let _ = dir_unset_ok;
    json!({"attr": attr, "ident": ident, "list": lst, "derive": {"err": true},
        "fns": {"deprecation_strategy": null, "normalization": null, "fragments_other_variant": false, "skip_serializing_none": false}})
}

fn strip(o: &mut Value, section: &str, key: &str) {
    if let Some(m) = o.get_mut(section).and_then(|s| s.as_object_mut()) {
        m.remove(key);
    }
}

pub fn malformed(rng: &mut Rng) -> Case {
    let mut tags = vec![];
    let a = around(rng);
    let dir = pick_dir(rng, &mut tags);
    let kind = rng.below(14);
    let (items, sem) = recognised_items(rng, &mut tags, true);
    let sp = Spec { items: items.clone(), trailing: rng.chance(50), list_trailing: rng.chance(40), delim: "paren" };
    let mk = |kind: &str, text: String, oracle: Value, tags: Vec<String>, n: usize| Case {
        kind: kind.into(),
        text,
        manifest_dir: dir.clone(),
        oracle,
        spec: None,
        tags,
        nontrivial: n >= 2,
    };
    match kind {
        0 => mk("missing-attribute", assemble(&a, &[]), absent_everything(true), tags, 0),
        1 => {
            let t = rng.pick(&["#[graphql]", "#[graphql = \"deprecated\"]", "#[graphql = skip_serializing_none]"]).to_string();
            mk("non-list-meta", assemble(&a, &[t]), absent_everything(true), tags, 0)
        }
        2 | 3 => {
            // one key's value is not a string literal / is missing: that key counts as not written
            let kvs: Vec<usize> = items.iter().enumerate().filter(|(_, i)| matches!(i, Item::Kv(..))).map(|(n, _)| n).collect();
            if kvs.is_empty() {
                return mk("missing-attribute", assemble(&a, &[]), absent_everything(true), tags, 0);
            }
            let victim = *rng.pick(&kvs);
            let key = items[victim].head().to_string();
            let mut body = String::new();
            let form = rng.below(3);
            for (n, i) in items.iter().enumerate() {
                if n == victim {
                    if kind == 2 {
                        body.push_str(&format!("{} = {}", key, rng.pick(&NON_STRING_LITS)));
                    } else {
                        body.push_str(&match form {
                            0 => key.clone(),
                            1 => format!("{} =", key),
                            _ => format!("{} = ()", key),
                        });
                    }
                } else {
                    body.push_str(&item_text(rng, i, sp.list_trailing, sp.delim, &mut tags));
                }
                if n + 1 < items.len() || sp.trailing {
                    body.push_str(", ");
                }
            }
            let mut rest = items.clone();
            rest.remove(victim);
            let mut sem2 = Sem { deprecation: sem.deprecation, normalization: sem.normalization, module: sem.module.clone() };
            match key.as_str() {
                "deprecated" => sem2.deprecation = "warn",
                "normalization" => sem2.normalization = "none",
                "custom_scalars_module" => sem2.module = None,
                _ => {}
            }
            let oracle = oracle_for(&rest, &sem2, dir.as_deref(), a.vis, false);
            let n = items.len();
            mk(if kind == 2 { "non-string-literal" } else { "key-without-value" }, assemble(&a, &[format!("#[graphql({})]", body)]), oracle, tags, n)
        }
        4 => {
            // an empty list: the option keeps its (empty) default
            let mut its: Vec<Item> = items.iter().filter(|i| i.head() != "extern_enums").cloned().collect();
            its.insert(rng.below(its.len() + 1), Item::List("extern_enums".into(), vec![]));
            let sp2 = Spec { items: its.clone(), trailing: sp.trailing, list_trailing: false, delim: "paren" };
            let body = body_text(rng, &sp2, &mut tags);
            let mut oracle = oracle_for(&its, &sem, dir.as_deref(), a.vis, false);
            strip(&mut oracle, "list", "extern_enums");
            let n = its.len();
            mk("empty-list", assemble(&a, &[format!("#[graphql({})]", body)]), oracle, tags, n)
        }
        5 => {
            // a key written twice: the statement does not say which one counts -> model only for that key
            let kvs: Vec<usize> = items.iter().enumerate().filter(|(_, i)| matches!(i, Item::Kv(..))).map(|(n, _)| n).collect();
            if kvs.is_empty() {
                return mk("missing-attribute", assemble(&a, &[]), absent_everything(true), tags, 0);
            }
            let victim = *rng.pick(&kvs);
            let key = items[victim].head().to_string();
            let mut its = items.clone();
            its.insert(rng.below(its.len() + 1), Item::Kv(key.clone(), any_text(rng)));
            let sp2 = Spec { items: its.clone(), trailing: sp.trailing, list_trailing: sp.list_trailing, delim: "paren" };
            let body = body_text(rng, &sp2, &mut tags);
            let mut oracle = oracle_for(&items, &sem, dir.as_deref(), a.vis, false);
            strip(&mut oracle, "attr", &key);
            // everything derived from that key is undetermined too
            oracle.as_object_mut().unwrap().remove("derive");
            oracle.as_object_mut().unwrap().remove("fns");
            let n = its.len();
            mk("duplicate-key", assemble(&a, &[format!("#[graphql({})]", body)]), oracle, tags, n)
        }
        6 => {
            // unknown keys in every form are ignored
            let mut its = items.clone();
            for extra in [
                Item::Kv("unknown".into(), any_text(rng)),
                Item::Flag("some_flag".into()),
                Item::List("more".into(), vec!["deprecated".into(), any_text(rng)]),
                Item::Kv("deprecated_".into(), "deny".into()),
                Item::Flag("skip_serializing_none_".into()),
            ] {
                if rng.chance(50) {
                    its.insert(rng.below(its.len() + 1), extra);
                }
            }
            let sp2 = Spec { items: its.clone(), trailing: sp.trailing, list_trailing: sp.list_trailing, delim: "paren" };
            let body = body_text(rng, &sp2, &mut tags);
            let mut oracle = oracle_for(&its, &sem, dir.as_deref(), a.vis, true);
            if its.iter().any(|i| matches!(i, Item::List(_, v) if v.is_empty())) {
                strip(&mut oracle, "list", "extern_enums");
            }
            let n = its.len();
            let mut c = mk("unknown-keys", assemble(&a, &[format!("#[graphql({})]", body)]), oracle, tags, n);
            c.spec = Some(sp2);
            c
        }
        7 => {
            // a second #[graphql] attribute: the first one is the attribute
            let (items2, _) = recognised_items(rng, &mut vec![], true);
            let sp2 = Spec { items: items2, trailing: false, list_trailing: false, delim: "paren" };
            let b1 = body_text(rng, &sp, &mut tags);
            let b2 = body_text(rng, &sp2, &mut vec![]);
            let text = assemble(&a, &[format!("#[graphql({})]", b1), "#[derive(Clone)]".into(), format!("#[graphql({})]", b2)]);
            let mut oracle = oracle_for(&items, &sem, dir.as_deref(), a.vis, true);
            if items.iter().any(|i| matches!(i, Item::List(_, v) if v.is_empty())) {
                strip(&mut oracle, "list", "extern_enums");
            }
            let n = items.len();
            mk("second-attribute", text, oracle, tags, n)
        }
        8 => {
            // identifiers inside groups are not flags, key = value inside groups is not an option
            let mut body = body_text(rng, &sp, &mut tags);
            let extra = rng
                .pick(&[
                    "cfg(skip_serializing_none, deprecated = \"deny\", normalization = \"rust\")",
                    "more[skip_serializing_none]",
                    "x = (skip_serializing_none)",
                    "nested(fragments_other_variant = \"true\", extern_enums(\"Z\"))",
                ])
                .to_string();
            if !sp.trailing && !sp.items.is_empty() {
                body.push(',');
            }
            body.push_str(&extra);
            let mut oracle = oracle_for(&items, &sem, dir.as_deref(), a.vis, true);
            if items.iter().any(|i| matches!(i, Item::List(_, v) if v.is_empty())) {
                strip(&mut oracle, "list", "extern_enums");
            }
            let n = items.len() + 1;
            mk("idents-in-groups", assemble(&a, &[format!("#[graphql({})]", body)]), oracle, tags, n)
        }
        9 => {
            // separators: missing, doubled, semicolons (token level junk): model only
            let mut body = String::new();
            for i in &items {
                body.push_str(&item_text(rng, i, sp.list_trailing, sp.delim, &mut tags));
                body.push_str(*rng.pick(&[" ", ",,", ";", ", ,", " , ", ""]));
                body.push(' ');
            }
            let n = items.len();
            mk("odd-separators", assemble(&a, &[format!("#[graphql({})]", body)]), json!({}), tags, n)
        }
        _ => {
            // token soup over the vocabulary of the attribute: model only
            let vocab = [
                "deprecated", "query_path", "schema_path", "skip_serializing_none", "extern_enums", "normalization",
                "fragments_other_variant", "unknown_key", "true", "=", "=", ",", ",", "\"deny\"", "\"true\"", "\"x\"", "r#\"rust\"#",
                "1", "'c'", "b\"x\"", "(\"A\", \"B\")", "(skip_serializing_none)", "[\"A\"]", "()", "::", "-", "!",
            ];
            let n = rng.range(0, 14);
            let body: Vec<&str> = (0..n).map(|_| *rng.pick(&vocab)).collect();
            mk("token-soup", assemble(&a, &[format!("#[graphql({})]", body.join(" "))]), json!({}), tags, n)
        }
    }
}

// ---------------------------------------------------------------------------------------------
// fixed witnesses

fn fixed(kind: &str, text: &str, oracle: Value) -> Case {
    Case {
        kind: kind.into(),
        text: text.into(),
        manifest_dir: Some("/m".into()),
        oracle,
        spec: None,
        tags: vec![],
        nontrivial: true,
    }
}

/// Witnesses of the Lean negative theorems (replayed on the real code through the model tie: the
/// expectations are facts about the scanner, not promises of the property, so they carry no oracle),
/// and the texts of the repository's own unit tests with their assertions as oracle.
pub fn witnesses() -> Vec<Case> {
    let unit = |extra: &str| format!("#[derive(GraphQLQuery)]\n#[graphql(\n schema_path = \"x\",\n query_path = \"x\",\n {}\n)]\nstruct MyQuery;", extra);
    vec![
        // C18.flag_then_kv_hides_value
        fixed("witness:flag-then-kv", "#[graphql(deprecated, deprecated = \"deny\", schema_path = \"s\", query_path = \"q\")] struct MyQuery;", json!({})),
        // C18.flag_written_as_kv_is_on
        fixed("witness:flag-as-kv", "#[graphql(skip_serializing_none = \"false\", schema_path = \"s\", query_path = \"q\")] struct MyQuery;", json!({})),
        // C18.empty_list_is_ok
        fixed("witness:empty-list", "#[graphql(extern_enums(), schema_path = \"s\", query_path = \"q\")] struct MyQuery;", json!({})),
        // C18.non_string_value_is_error
        fixed("witness:non-string", "#[graphql(deprecated = 1, schema_path = \"s\", query_path = \"q\")] struct MyQuery;", json!({})),
        // C18.paths_absolute_differ
        fixed("witness:absolute-paths", "#[graphql(schema_path = \"/abs/s\", query_path = \"/abs/q\")] struct MyQuery;", json!({})),
        // a value equal to a key name / containing `key = "value"` text is inert
        fixed(
            "witness:value-looks-like-key",
            "#[graphql(response_derives = \"deprecated\", variables_derives = \"deprecated = \\\"deny\\\", skip_serializing_none\", deprecated = \"allow\", schema_path = \"s\", query_path = \"q\")] struct MyQuery;",
            json!({"attr": {"deprecated": "allow", "response_derives": "deprecated"}, "ident": {"skip_serializing_none": false},
                   "derive": {"ok": {"deprecation": "allow", "skip_serializing_none": false, "query": "/m/q", "schema": "/m/s"}}}),
        ),
        // the repository's unit tests
        fixed("unit-test", &unit("deprecated = \"warn\","), json!({"fns": {"deprecation_strategy": "warn"}})),
        fixed("unit-test", &unit("deprecated = \"DeNy\","), json!({"fns": {"deprecation_strategy": "deny"}})),
        fixed("unit-test", &unit("deprecated = \"foo\","), json!({"fns": {"deprecation_strategy": null}})),
        fixed("unit-test", &unit("fragments_other_variant = \"true\","), json!({"fns": {"fragments_other_variant": true}})),
        fixed("unit-test", &unit("fragments_other_variant = \"false\","), json!({"fns": {"fragments_other_variant": false}})),
        fixed("unit-test", &unit("fragments_other_variant = \"invalid\","), json!({"fns": {"fragments_other_variant": false}})),
        fixed("unit-test", &unit(""), json!({"fns": {"fragments_other_variant": false, "skip_serializing_none": false}})),
        fixed("unit-test", &unit("skip_serializing_none"), json!({"fns": {"skip_serializing_none": true}})),
        fixed("unit-test", &unit("extern_enums(\"Direction\", \"DistanceUnit\"),"), json!({"list": {"extern_enums": ["Direction", "DistanceUnit"]}})),
    ]
}
