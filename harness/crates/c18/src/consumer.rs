//! Thorough tier: a tiny consumer crate with real `#[derive(GraphQLQuery)]` uses, compiled by the real
//! rustc (so the attribute goes through the compiler's tokeniser and the proc-macro bridge, which the
//! in-process route cannot exercise).  Every derive is written so that the crate compiles / the program
//! prints `ok` only if the option value written in the attribute visibly took effect.
use serde_json::json;
use std::path::Path;
use std::process::Command;
use vcore::report::Report;

const SCHEMA: &str = r#"schema { query: Query }
scalar DateTime
enum Direction { NORTH SOUTH_WEST }
interface Animal { name: String }
type Dog implements Animal { name: String barks: Boolean }
type Cat implements Animal { name: String }
type Query {
  animal: Animal
  old: Int @deprecated(reason: "gone")
  cur: Int
  when: DateTime
  dir: Direction
  echo(a: Int, b: String): Int
}
"#;

const QUERIES: &str = r#"query Derives { cur }
query Other { animal { __typename ... on Dog { barks } } }
query OtherOff { animal { __typename ... on Dog { barks } } }
query SkipNone($a: Int, $b: String) { echo(a: $a, b: $b) }
query SkipNoneOff($a: Int, $b: String) { echo(a: $a, b: $b) }
query Deny { old cur }
query Allow { old cur }
query Norm { dir }
query Ext { dir }
query Scalars { when }
query RawLits($a: Int) { echo(a: $a) }
"#;

/// name, what the derive must visibly do
const CHECKS: [(&str, &str); 10] = [
    ("response_derives", "response_derives = \"Debug,PartialEq\": `{:?}` and `==` on ResponseData compile"),
    ("fragments_other_variant_on", "fragments_other_variant = \"true\" (attribute permuted, no trailing comma, pub(crate)): unknown __typename deserialises"),
    ("fragments_other_variant_off", "fragments_other_variant = \"false\": unknown __typename is rejected"),
    ("skip_serializing_none_on", "skip_serializing_none flag: None variables are omitted"),
    ("skip_serializing_none_off", "flag absent: None variables serialise as null"),
    ("deprecated_deny", "deprecated = \"deny\": the deprecated field is not in ResponseData"),
    ("deprecated_allow", "deprecated = \" ALLOW \" (case and white space): the field carries no #[deprecated] (crate denies deprecated)"),
    ("normalization_rust", "normalization = \"Rust\": enum variant SOUTH_WEST is SouthWest"),
    ("extern_enums_and_scalars", "extern_enums(\"Direction\") uses the crate's enum; custom_scalars_module = \"crate::my_scalars\" resolves DateTime there"),
    ("literal_styles_and_paths", "raw / escaped / continued string literals, comments and newlines in the attribute; paths relative to the manifest dir (cargo run from another cwd)"),
];

const MAIN_RS: &str = r####"#![deny(deprecated)]
#![allow(dead_code)]
use graphql_client::GraphQLQuery;

#[derive(serde::Deserialize, Debug, PartialEq)]
#[serde(rename_all = "SCREAMING_SNAKE_CASE")]
pub enum Direction { North, SouthWest }

pub mod my_scalars { pub type DateTime = u64; }

#[derive(GraphQLQuery)]
#[graphql(schema_path = "gql/schema.graphql", query_path = "gql/queries.graphql", response_derives = "Debug,PartialEq")]
pub struct Derives;

#[allow(dead_code)]
#[derive(GraphQLQuery)]
#[derive(Debug)]
#[graphql(fragments_other_variant = "true", response_derives = "Debug", query_path = "gql/queries.graphql", schema_path = "gql/schema.graphql")]
#[derive(Clone)]
pub(crate) struct Other;

#[derive(GraphQLQuery)]
#[graphql(schema_path = "gql/schema.graphql", query_path = "gql/queries.graphql", response_derives = "Debug", fragments_other_variant = "false",)]
struct OtherOff;

#[derive(GraphQLQuery)]
#[graphql(
    skip_serializing_none,
    schema_path = "gql/schema.graphql",
    query_path = "gql/queries.graphql"
)]
pub struct SkipNone;

#[derive(GraphQLQuery)]
#[graphql(schema_path = "gql/schema.graphql", query_path = "gql/queries.graphql", variables_derives = "Debug")]
pub struct SkipNoneOff;

#[derive(GraphQLQuery)]
#[graphql(deprecated = "deny", schema_path = "gql/schema.graphql", query_path = "gql/queries.graphql")]
pub struct Deny;

#[derive(GraphQLQuery)]
#[graphql(schema_path = "gql/schema.graphql", deprecated = " ALLOW ", query_path = "gql/queries.graphql")]
pub struct Allow;

#[derive(GraphQLQuery)]
#[graphql(schema_path = "gql/schema.graphql", query_path = "gql/queries.graphql", normalization = "Rust", response_derives = "Debug,PartialEq")]
pub struct Norm;

#[derive(GraphQLQuery)]
#[graphql(extern_enums("Direction",), schema_path = "gql/schema.graphql", query_path = "gql/queries.graphql", response_derives = "Debug")]
pub struct Ext;

#[derive(GraphQLQuery)]
#[graphql(query_path = "gql/queries.graphql", custom_scalars_module = "crate::my_scalars", schema_path = "gql/schema.graphql")]
pub struct Scalars;

#[derive(GraphQLQuery)]
#[graphql(
    schema_path = r#"gql/schema.graphql"#   , // a comment, with = "noise"
    variables_derives
        =
        r"Debug,Clone,PartialEq",
    query_path = "gql/\u{71}\x75eries.\
                  graphql" /* deprecated = "deny" */ ,
    response_derives = "Debug"
)]
pub struct RawLits;

fn check(name: &str, ok: bool, detail: String) {
    println!("CHECK {} {} {}", name, if ok { "ok" } else { "FAIL" }, detail.replace('\n', " "));
}

fn main() {
    let a = derives::ResponseData { cur: Some(1) };
    let b = derives::ResponseData { cur: Some(1) };
    check("response_derives", a == b && format!("{:?}", a).contains("cur"), format!("{:?}", a));

    let unknown = r#"{"animal":{"__typename":"Bird"}}"#;
    let on = serde_json::from_str::<other::ResponseData>(unknown);
    check("fragments_other_variant_on", on.is_ok() && format!("{:?}", on).contains("Unknown"), format!("{:?}", on));
    let off = serde_json::from_str::<other_off::ResponseData>(unknown);
    check("fragments_other_variant_off", off.is_err(), format!("{:?}", off));

    let s = serde_json::to_string(&skip_none::Variables { a: None, b: Some("x".into()) }).unwrap();
    check("skip_serializing_none_on", s == r#"{"b":"x"}"#, s);
    let s = serde_json::to_string(&skip_none_off::Variables { a: None, b: Some("x".into()) }).unwrap();
    check("skip_serializing_none_off", s == r#"{"a":null,"b":"x"}"#, s);

    // compiles only if `old` was omitted
    let d = deny::ResponseData { cur: Some(2) };
    check("deprecated_deny", d.cur == Some(2), String::new());
    // compiles under #![deny(deprecated)] only if `old` carries no #[deprecated]
    let al = allow::ResponseData { old: Some(1), cur: None };
    check("deprecated_allow", al.old == Some(1), String::new());

    let n = serde_json::from_str::<norm::ResponseData>(r#"{"dir":"SOUTH_WEST"}"#).unwrap();
    check("normalization_rust", n.dir == Some(norm::Direction::SouthWest), format!("{:?}", n));

    let e = serde_json::from_str::<ext::ResponseData>(r#"{"dir":"SOUTH_WEST"}"#).unwrap();
    let dir: Option<crate::Direction> = e.dir;
    let sc = serde_json::from_str::<scalars::ResponseData>(r#"{"when":7}"#).unwrap();
    let when: Option<u64> = sc.when;
    check("extern_enums_and_scalars", dir == Some(Direction::SouthWest) && when == Some(7), String::new());

    let v = raw_lits::Variables { a: Some(1) };
    check("literal_styles_and_paths", v.clone() == v && format!("{:?}", v).contains("a"), format!("{:?}", v));
}
"####;

pub fn run(rep: &mut Report, work: &Path) {
    let dir = work.join("c18 consumer");
    let _ = std::fs::remove_dir_all(&dir);
    std::fs::create_dir_all(dir.join("src")).unwrap();
    std::fs::create_dir_all(dir.join("gql")).unwrap();
    std::fs::write(
        dir.join("Cargo.toml"),
        "[package]\nname = \"c18_consumer\"\nversion = \"0.1.0\"\nedition = \"2021\"\n\n[dependencies]\ngraphql_client = { path = \"/repo/graphql_client\" }\nserde = { version = \"1\", features = [\"derive\"] }\nserde_json = \"1\"\n\n[workspace]\n",
    )
    .unwrap();
    let _ = std::fs::copy("/repo/Cargo.lock", dir.join("Cargo.lock"));
    std::fs::write(dir.join("gql/schema.graphql"), SCHEMA).unwrap();
    std::fs::write(dir.join("gql/queries.graphql"), QUERIES).unwrap();
    std::fs::write(dir.join("src/main.rs"), MAIN_RS).unwrap();
    let base = std::env::var("VERIF_WORK").unwrap_or_else(|_| "/verif/.work".into());
    let target = Path::new(&base).join("target-c18-consumer");
    let out = Command::new("cargo")
        .args(["run", "--offline", "--quiet", "--manifest-path"])
        .arg(dir.join("Cargo.toml"))
        .env("CARGO_TARGET_DIR", &target)
        .env("CARGO_NET_OFFLINE", "true")
        .env_remove("CARGO_MANIFEST_DIR")
        .current_dir("/")
        .output();
    let (stdout, stderr, status) = match out {
        Ok(o) => (String::from_utf8_lossy(&o.stdout).to_string(), String::from_utf8_lossy(&o.stderr).to_string(), o.status.success()),
        Err(e) => {
            rep.internal.push(format!("cannot run cargo for the consumer crate: {}", e));
            return;
        }
    };
    for (name, what) in CHECKS {
        rep.count(&format!("consumer:{}", name));
        rep.case(Some(&format!("consumer|{}", name)));
        let line = stdout.lines().find(|l| l.starts_with(&format!("CHECK {} ", name)));
        match line {
            Some(l) if l.starts_with(&format!("CHECK {} ok", name)) => {}
            other => {
                let tail: String = stderr.chars().rev().take(3000).collect::<String>().chars().rev().collect();
                rep.fail(
                    &format!("consumer:{}", name),
                    json!({"consumer": true, "check": name, "what": what, "line": other, "build_ok": status, "stderr_tail": tail}),
                );
            }
        }
    }
    rep.extra.insert("consumer_crate".into(), json!({"built_and_ran": status, "checks": CHECKS.len()}));
    let _ = std::fs::remove_dir_all(&dir);
}
