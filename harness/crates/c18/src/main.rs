//! C18 — the derive macro applies exactly the options written in `#[graphql(...)]`.
//!
//! (a) implementation: `attributes.rs` compiled in via `#[path]`, and the two option-building functions of
//!     the derive's `lib.rs` copied from the current source by `build.rs` (see there);
//! (b) Lean model `GqlVerif.Model.Attr` through the driver `gqlmodel_c18`;
//! (c) oracle: the values the generator *chose to write* (semantic value first, spelling second), or the
//!     documented defaults — never computed from the attribute text.
mod consumer;
mod gen;

#[allow(unused_imports, dead_code, clippy::all)]
mod derive_lib {
    include!(concat!(env!("OUT_DIR"), "/derive_lib.rs"));
}

use derive_lib::attributes;
use gen::*;
use quote::ToTokens;
use serde_json::{json, Map, Value};
use std::panic::{catch_unwind, AssertUnwindSafe};
use std::path::PathBuf;
use vcore::gen::rng::Rng;
use vcore::model::Model;
use vcore::report::*;
use vcore::sexp::{atom, list, st, tagged, Sexp};

/// every function is asked about each of these names, whatever the attribute contains
pub const KEYS: [&str; 13] = [
    "schema_path",
    "query_path",
    "response_derives",
    "variables_derives",
    "deprecated",
    "normalization",
    "custom_scalars_module",
    "extern_enums",
    "fragments_other_variant",
    "skip_serializing_none",
    "unknown_key",
    "graphql",
    "true",
];

const PROBE_SCHEMA: &str = "schema { query: Query }\ntype Query { old: Int @deprecated(reason: \"x\") cur: Int }\n";
const PROBE_QUERY: &str = "query MyQuery { old cur }\nquery Probe { old cur }\nquery Q2 { old cur }\n";

pub struct Ctx {
    pub model: Model,
    pub probe_schema: PathBuf,
}

// ---------------------------------------------------------------------------------------------
// token trees -> model language

fn delim_atom(d: proc_macro2::Delimiter) -> Sexp {
    atom(match d {
        proc_macro2::Delimiter::Parenthesis => "paren",
        proc_macro2::Delimiter::Bracket => "bracket",
        proc_macro2::Delimiter::Brace => "brace",
        proc_macro2::Delimiter::None => "none",
    })
}

/// string literal tokens become their value through `syn::LitStr`, exactly what the real code does
fn toks_sexp(ts: proc_macro2::TokenStream, strings: &mut Vec<String>) -> Vec<Sexp> {
    ts.into_iter()
        .map(|t| match t {
            proc_macro2::TokenTree::Ident(i) => list(vec![atom("i"), st(&i.to_string())]),
            proc_macro2::TokenTree::Punct(p) => list(vec![atom("p"), st(&p.as_char().to_string())]),
            proc_macro2::TokenTree::Literal(l) => match syn::parse_str::<syn::LitStr>(&l.to_string()) {
                Ok(s) => {
                    strings.push(s.value());
                    list(vec![atom("s"), st(&s.value())])
                }
                Err(_) => list(vec![atom("o"), st(&l.to_string())]),
            },
            proc_macro2::TokenTree::Group(g) => {
                let mut v = vec![atom("g"), delim_atom(g.delimiter())];
                v.extend(toks_sexp(g.stream(), strings));
                list(v)
            }
        })
        .collect()
}

fn input_sexp(ast: &syn::DeriveInput, strings: &mut Vec<String>) -> Sexp {
    let attrs = ast
        .attrs
        .iter()
        .map(|a| {
            let path = match a.path().get_ident() {
                Some(i) => i.to_string(),
                None => String::new(),
            };
            let body = match &a.meta {
                syn::Meta::List(l) => {
                    let mut v = vec![atom("list")];
                    v.extend(toks_sexp(l.tokens.clone(), strings));
                    list(v)
                }
                _ => atom("nolist"),
            };
            tagged("attr", vec![st(&path), body])
        })
        .collect();
    tagged("input", attrs)
}

fn path_table(strings: &[String]) -> Sexp {
    let mut seen = std::collections::BTreeSet::new();
    list(
        strings
            .iter()
            .filter(|s| seen.insert((*s).clone()))
            .map(|s| list(vec![st(s), vcore::sexp::boolean(syn::parse_str::<syn::Path>(s).is_ok())]))
            .collect(),
    )
}

fn norm_path(s: &str) -> Option<String> {
    syn::parse_str::<syn::Path>(s).ok().map(|p| p.to_token_stream().to_string().replace(' ', ""))
}

// ---------------------------------------------------------------------------------------------
// (a) the implementation

fn res_str(r: Result<String, syn::Error>) -> Value {
    match r {
        Ok(s) => json!(s),
        Err(_) => Value::Null,
    }
}

/// the derive's attribute-dependent behaviour, by the code of `lib.rs` itself
fn real_derive(ast: &syn::DeriveInput, dir: Option<&str>, ctx: &Ctx) -> Value {
    match dir {
        Some(d) => std::env::set_var("CARGO_MANIFEST_DIR", d),
        None => std::env::remove_var("CARGO_MANIFEST_DIR"),
    }
    let built = catch_unwind(AssertUnwindSafe(|| {
        let (q, s) = if derive_lib::TIE_BROKEN.is_none() {
            derive_lib::build_query_and_schema_path(ast)?
        } else {
            reimpl_paths(ast)?
        };
        let o = if derive_lib::TIE_BROKEN.is_none() {
            derive_lib::build_graphql_client_derive_options(ast, q.clone())?
        } else {
            reimpl_options(ast, q.clone())?
        };
        Ok::<_, syn::Error>((s, o))
    }));
    let (schema, mut o) = match built {
        Ok(Ok(x)) => x,
        Ok(Err(_)) => return json!({"err": true}),
        Err(p) => return json!({"panic": vcore::common::panic_message(p)}),
    };
    let mut m = Map::new();
    m.insert("query".into(), json!(o.query_file().map(|p| p.to_string_lossy().to_string())));
    m.insert("schema".into(), json!(schema.to_string_lossy().to_string()));
    m.insert("variables_derives".into(), json!(o.variables_derives()));
    m.insert("response_derives".into(), json!(o.additional_response_derives().collect::<Vec<_>>()));
    m.insert(
        "normalization".into(),
        json!(match o.normalization() {
            graphql_client_codegen::normalization::Normalization::None => "none",
            graphql_client_codegen::normalization::Normalization::Rust => "rust",
        }),
    );
    m.insert(
        "custom_scalars_module".into(),
        json!(o.custom_scalars_module().map(|p| p.to_token_stream().to_string().replace(' ', ""))),
    );
    m.insert("extern_enums".into(), json!(o.extern_enums()));
    m.insert("fragments_other_variant".into(), json!(*o.fragments_other_variant()));
    m.insert("skip_serializing_none".into(), json!(*o.skip_serializing_none()));
    // The deprecation strategy and the module visibility have no public getter: they are observed through
    // what the generator does with these very options on a fixed probe (deprecated field `old`).
    // Only the derive lists are overwritten (arbitrary text there makes the generator panic on `Ident::new`).
    o.set_response_derives("Debug".into());
    o.set_variables_derives("Debug".into());
    let gen = catch_unwind(AssertUnwindSafe(|| {
        graphql_client_codegen::generate_module_token_stream_from_string(PROBE_QUERY, &ctx.probe_schema, o)
            .map(|t| t.to_string())
            .map_err(|e| e.to_string())
    }));
    match gen {
        Ok(Ok(tokens)) => {
            let file = syn::parse_str::<syn::File>(&tokens).ok();
            let module = file.as_ref().and_then(|f| {
                f.items.iter().find_map(|i| match i {
                    syn::Item::Mod(md) => Some(md),
                    _ => None,
                })
            });
            // the field `old` of ResponseData: absent = deny, #[deprecated] = warn, plain = allow
            let old = module.and_then(|md| md.content.as_ref()).and_then(|(_, items)| {
                items.iter().find_map(|i| match i {
                    syn::Item::Struct(s) if s.ident == "ResponseData" => Some(
                        s.fields.iter().find(|f| f.ident.as_ref().map(|i| i == "old").unwrap_or(false)).map(|f| f.attrs.iter().any(|a| a.path().is_ident("deprecated"))),
                    ),
                    _ => None,
                })
            });
            match old {
                Some(Some(true)) => m.insert("deprecation".into(), json!("warn")),
                Some(Some(false)) => m.insert("deprecation".into(), json!("allow")),
                Some(None) => m.insert("deprecation".into(), json!("deny")),
                None => m.insert("probe_error".into(), json!("no ResponseData in the probe module")),
            };
            let vis = module.map(|md| md.vis.to_token_stream().to_string().replace(' ', ""));
            m.insert("visibility".into(), json!(vis));
        }
        Ok(Err(e)) => {
            m.insert("probe_error".into(), json!(e));
        }
        Err(p) => {
            m.insert("probe_error".into(), json!(vcore::common::panic_message(p)));
        }
    }
    json!({ "ok": Value::Object(m) })
}

/// fallback when `lib.rs` no longer has the two functions: the same calls, in the same order
fn reimpl_paths(ast: &syn::DeriveInput) -> Result<(PathBuf, PathBuf), syn::Error> {
    let dir = std::env::var("CARGO_MANIFEST_DIR").map_err(|_| syn::Error::new_spanned(ast, "CARGO_MANIFEST_DIR"))?;
    let q = attributes::extract_attr(ast, "query_path")?;
    let q = PathBuf::from(format!("{}/{}", dir, q));
    let s = attributes::extract_attr(ast, "schema_path")?;
    Ok((q, std::path::Path::new(&dir).join(s)))
}

fn reimpl_options(
    ast: &syn::DeriveInput,
    query_path: PathBuf,
) -> Result<graphql_client_codegen::GraphQLClientCodegenOptions, syn::Error> {
    use graphql_client_codegen::{CodegenMode, GraphQLClientCodegenOptions};
    let mut o = GraphQLClientCodegenOptions::new(CodegenMode::Derive);
    o.set_query_file(query_path);
    o.set_fragments_other_variant(attributes::extract_fragments_other_variant(ast));
    o.set_skip_serializing_none(attributes::extract_skip_serializing_none(ast));
    if let Ok(v) = attributes::extract_attr(ast, "variables_derives") {
        o.set_variables_derives(v);
    }
    if let Ok(v) = attributes::extract_attr(ast, "response_derives") {
        o.set_response_derives(v);
    }
    if let Ok(d) = attributes::extract_deprecation_strategy(ast) {
        o.set_deprecation_strategy(d);
    }
    if let Ok(n) = attributes::extract_normalization(ast) {
        o.set_normalization(n);
    }
    if let Ok(m) = attributes::extract_attr(ast, "custom_scalars_module") {
        o.set_custom_scalars_module(syn::parse_str(&m)?);
    }
    if let Ok(e) = attributes::extract_attr_list(ast, "extern_enums") {
        o.set_extern_enums(e);
    }
    o.set_struct_ident(ast.ident.clone());
    o.set_module_visibility(ast.vis.clone());
    o.set_operation_name(ast.ident.to_string());
    o.set_serde_path(syn::parse_quote!(graphql_client::_private::serde));
    Ok(o)
}

fn real_obs(ast: &syn::DeriveInput, dir: Option<&str>, ctx: &Ctx) -> Value {
    let mut attr = Map::new();
    let mut ident = Map::new();
    let mut lst = Map::new();
    for k in KEYS {
        attr.insert(k.into(), res_str(attributes::extract_attr(ast, k)));
        ident.insert(k.into(), json!(attributes::ident_exists(ast, k).is_ok()));
        lst.insert(
            k.into(),
            match attributes::extract_attr_list(ast, k) {
                Ok(v) => json!(v),
                Err(_) => Value::Null,
            },
        );
    }
    use graphql_client_codegen::deprecation::DeprecationStrategy as D;
    use graphql_client_codegen::normalization::Normalization as N;
    let fns = json!({
        "deprecation_strategy": match attributes::extract_deprecation_strategy(ast) {
            Ok(D::Allow) => json!("allow"), Ok(D::Deny) => json!("deny"), Ok(D::Warn) => json!("warn"), Err(_) => Value::Null },
        "normalization": match attributes::extract_normalization(ast) {
            Ok(N::None) => json!("none"), Ok(N::Rust) => json!("rust"), Err(_) => Value::Null },
        "fragments_other_variant": attributes::extract_fragments_other_variant(ast),
        "skip_serializing_none": attributes::extract_skip_serializing_none(ast),
    });
    json!({"attr": attr, "ident": ident, "list": lst, "fns": fns, "derive": real_derive(ast, dir, ctx)})
}

// ---------------------------------------------------------------------------------------------
// (b) the model

fn res_value(r: &Sexp, as_list: bool) -> Value {
    match r.head() {
        Some("ok") => {
            let rest: Vec<Value> = r.items()[1..].iter().map(|x| json!(x.as_str().unwrap_or(""))).collect();
            if as_list {
                json!(rest)
            } else {
                rest.first().cloned().unwrap_or(json!(true))
            }
        }
        _ => Value::Null,
    }
}

fn field<'a>(dump: &'a [Sexp], name: &str) -> &'a [Sexp] {
    dump.iter().find(|f| f.head() == Some(name)).map(|f| &f.items()[1..]).unwrap_or(&[])
}

fn derive_value(r: &Sexp) -> Value {
    if r.head() != Some("ok") {
        return json!({"err": true});
    }
    let d = &r.items()[1..];
    let s1 = |n: &str| field(d, n).first().and_then(|x| x.as_str()).map(|s| s.to_string());
    let b = |n: &str| s1(n).as_deref() == Some("true");
    let resp: Vec<String> = match s1("response_derives") {
        None => vec![],
        Some(raw) => raw.split(',').map(|s| s.trim().to_string()).collect(),
    };
    json!({"ok": {
        "query": s1("query"), "schema": s1("schema"),
        "variables_derives": s1("variables_derives"),
        "response_derives": resp,
        "deprecation": s1("deprecation"), "normalization": s1("normalization"),
        "custom_scalars_module": s1("custom_scalars_module").and_then(|m| norm_path(&m)),
        "extern_enums": field(d, "extern_enums").iter().map(|x| x.as_str().unwrap_or("").to_string()).collect::<Vec<_>>(),
        "fragments_other_variant": b("fragments_other_variant"),
        "skip_serializing_none": b("skip_serializing_none"),
    }})
}

fn dir_sexp(dir: Option<&str>) -> Sexp {
    match dir {
        None => list(vec![]),
        Some(d) => list(vec![st(d)]),
    }
}

/// `None` when there is no model (Lean build broken)
fn model_obs(input: &Sexp, strings: &[String], dir: Option<&str>, ctx: &mut Ctx) -> Option<Value> {
    let keys = list(KEYS.iter().map(|k| st(k)).collect());
    let all = ctx.model.ask(&tagged("scan-all", vec![input.clone(), keys]));
    if all.head() == Some("nomodel") {
        return None;
    }
    if all.head() != Some("all") {
        return Some(json!({"model_error": all.short(300)}));
    }
    let part = |i: usize, as_list: bool, as_bool: bool| -> Map<String, Value> {
        let rs = &all.items()[i].items()[1..];
        KEYS.iter()
            .zip(rs.iter())
            .map(|(k, r)| {
                let v = if as_bool { json!(r.head() == Some("ok")) } else { res_value(r, as_list) };
                (k.to_string(), v)
            })
            .collect()
    };
    let d = ctx.model.ask(&tagged("options", vec![input.clone(), dir_sexp(dir), path_table(strings)]));
    Some(json!({"attr": part(1, false, false), "ident": part(2, false, true), "list": part(3, true, false),
        "derive": derive_value(&d)}))
}

// ---------------------------------------------------------------------------------------------
// comparison

/// differences between two observations on the keys of `want` (recursively); `want` may be partial
fn diff(path: &str, want: &Value, got: &Value, out: &mut Vec<String>) {
    match (want, got) {
        (Value::Object(w), Value::Object(g)) => {
            for (k, wv) in w {
                match g.get(k) {
                    Some(gv) => diff(&format!("{}.{}", path, k), wv, gv, out),
                    None => out.push(format!("{}.{}: expected {}, absent", path, k, wv)),
                }
            }
        }
        _ => {
            if want != got {
                out.push(format!("{}: expected {} got {}", path, want, got));
            }
        }
    }
}

/// the part of the implementation's observation the model speaks about
fn model_view(real: &Value) -> Value {
    let mut r = real.clone();
    if let Some(o) = r.get_mut("derive").and_then(|d| d.get_mut("ok")).and_then(|o| o.as_object_mut()) {
        o.remove("visibility");
    }
    if let Some(o) = r.as_object_mut() {
        o.remove("fns");
    }
    r
}

pub struct CaseResult {
    pub real: Value,
    pub model: Option<Value>,
    pub tie: Vec<String>,
    pub oracle: Vec<String>,
    pub internal: Vec<String>,
}

pub fn run_case(c: &Case, ctx: &mut Ctx) -> CaseResult {
    let mut res = CaseResult { real: Value::Null, model: None, tie: vec![], oracle: vec![], internal: vec![] };
    let ast = match syn::parse_str::<syn::DeriveInput>(&c.text) {
        Ok(a) => a,
        Err(e) => {
            res.internal.push(format!("generated text does not parse as a DeriveInput: {} :: {}", e, c.text));
            return res;
        }
    };
    let dir = c.manifest_dir.as_deref();
    res.real = real_obs(&ast, dir, ctx);
    if let Some(p) = res.real["derive"].get("panic") {
        res.oracle.push(format!("the derive's option building panicked: {}", p));
    }
    if let Some(e) = res.real["derive"]["ok"].get("probe_error") {
        res.internal.push(format!("probe generation failed: {} :: {}", e, c.text));
    }
    // (a) vs (c)
    diff("", &c.oracle, &res.real, &mut res.oracle);
    // consistency of the four convenience functions with the options the derive builds (implementation alone)
    if let Some(o) = res.real["derive"].get("ok") {
        let f = &res.real["fns"];
        let dep = f["deprecation_strategy"].as_str().unwrap_or("warn");
        if o.get("deprecation").is_some() && o["deprecation"] != json!(dep) {
            res.oracle.push(format!("options carry deprecation {} but extract_deprecation_strategy gives {}", o["deprecation"], f["deprecation_strategy"]));
        }
        let n = f["normalization"].as_str().unwrap_or("none");
        if o["normalization"] != json!(n) {
            res.oracle.push(format!("options carry normalization {} but extract_normalization gives {}", o["normalization"], f["normalization"]));
        }
        if o["fragments_other_variant"] != f["fragments_other_variant"] || o["skip_serializing_none"] != f["skip_serializing_none"] {
            res.oracle.push("boolean options differ from extract_fragments_other_variant / extract_skip_serializing_none".into());
        }
    }
    // (a) vs (b)
    let mut strings = vec![];
    let input = input_sexp(&ast, &mut strings);
    res.model = model_obs(&input, &strings, dir, ctx);
    if let Some(m) = &res.model {
        let view = model_view(&res.real);
        diff("", m, &view, &mut res.tie);
        // generator vs Lean specification: the written items, rendered by `Attr.render`, are the tokens syn
        // produced, and `Attr.specDerive` of the items is the oracle the generator claims
        if let Some(sp) = &c.spec {
            let toks = ctx.model.ask(&tagged("render", vec![sp.style_sexp(), sp.items_sexp()]));
            let mut ignore = vec![];
            let real_toks: Vec<Sexp> = ast
                .attrs
                .iter()
                .find(|a| a.path().is_ident("graphql"))
                .and_then(|a| match &a.meta {
                    syn::Meta::List(l) => Some(toks_sexp(l.tokens.clone(), &mut ignore)),
                    _ => None,
                })
                .unwrap_or_default();
            if toks.head() != Some("toks") || toks.items()[1..] != real_toks[..] {
                res.internal.push(format!(
                    "Attr.render of the written items differs from syn's tokens: {} vs {} :: {}",
                    toks.short(300),
                    list(real_toks).short(300),
                    c.text
                ));
            }
            let wf = ctx.model.ask(&tagged("wf", vec![sp.items_sexp()]));
            if wf.render() != "(true)" {
                res.internal.push(format!("generated items are not WfItems: {}", sp.items_sexp().short(300)));
            }
            if c.oracle.get("derive").is_some() {
                let mut all: Vec<String> = strings.clone();
                all.extend(sp.all_values());
                let sd = ctx.model.ask(&tagged("spec-options", vec![sp.items_sexp(), dir_sexp(dir), path_table(&all)]));
                let mut d = vec![];
                diff(".derive", &c.oracle["derive"], &{
                    let mut v = derive_value(&sd);
                    if let (Some(o), Some(vis)) = (v.get_mut("ok").and_then(|o| o.as_object_mut()), c.oracle["derive"]["ok"].get("visibility")) {
                        o.insert("visibility".into(), vis.clone());
                    }
                    v
                }, &mut d);
                if !d.is_empty() {
                    res.internal.push(format!("generator oracle differs from Attr.specDerive: {:?} :: {}", d, c.text));
                }
            }
        }
    }
    res
}

fn record(rep: &mut Report, c: &Case, r: CaseResult, sample: bool) {
    rep.count(&format!("kind:{}", c.kind));
    rep.count(&format!(
        "derive_result:{}",
        if r.real["derive"].get("ok").is_some() { "ok" } else if r.real["derive"].get("err").is_some() { "err" } else { "panic" }
    ));
    for t in &c.tags {
        rep.count(t);
    }
    let key = format!("{}|{:?}", c.text, c.manifest_dir);
    rep.case(if c.nontrivial { Some(&key) } else { None });
    let replay = || json!({"text": c.text, "manifest_dir": c.manifest_dir, "kind": c.kind, "oracle": c.oracle});
    for i in &r.internal {
        rep.internal.push(i.clone());
    }
    if !r.oracle.is_empty() {
        let mut v = replay();
        v["failures"] = json!(r.oracle);
        v["implementation"] = r.real.clone();
        rep.fail(&format!("{}:{}", c.kind, class_of(&r.oracle[0])), v);
    }
    if !r.tie.is_empty() {
        let mut v = replay();
        v["diffs"] = json!(r.tie.iter().take(8).collect::<Vec<_>>());
        v["implementation"] = r.real.clone();
        v["model"] = r.model.clone().unwrap_or(Value::Null);
        rep.disagree(v);
    } else if r.model.is_some() {
        rep.traces_validated += 1;
    }
    if sample {
        rep.sample(json!({"kind": c.kind, "text": c.text, "manifest_dir": c.manifest_dir,
            "implementation": {"derive": r.real["derive"], "deprecated": r.real["attr"]["deprecated"]}}));
    }
}

/// a short stable name of the kind of failure (the first differing observable)
fn class_of(msg: &str) -> String {
    let p = msg.split(':').next().unwrap_or("").trim_start_matches('.');
    let mut parts = p.split('.');
    let a = parts.next().unwrap_or("");
    match a {
        "attr" => "extract_attr".into(),
        "ident" => "ident_exists".into(),
        "list" => "extract_attr_list".into(),
        "derive" => format!("options.{}", parts.last().unwrap_or("result")),
        "fns" => format!("extract_{}", parts.last().unwrap_or("fn")),
        _ if msg.starts_with("options carry") || msg.starts_with("boolean options") => "options-vs-extract-functions".into(),
        _ if msg.contains("panicked") => "panic".into(),
        _ => "other".into(),
    }
}

fn main() {
    let args: Vec<String> = std::env::args().skip(1).collect();
    if args.first().map(|s| s.as_str()) != Some("C18") {
        eprintln!("usage: vdrive_c18 C18 --tier quick|thorough --seed N --out <file> [--replay <file>]");
        std::process::exit(2);
    }
    let a = parse_args(&args[1..]);
    let mut rep = Report::new(
        "C18",
        &a,
        "a case is one complete derive input text (attributes + struct) parsed by the real syn::parse_str::<DeriveInput>; \
         for it extract_attr / ident_exists / extract_attr_list are evaluated for 13 names, the four extract_* convenience \
         functions once, and the derive's own build_query_and_schema_path + build_graphql_client_derive_options (copied from \
         lib.rs at build time) once, with CARGO_MANIFEST_DIR set per case; all of it is compared with the Lean model on the \
         token trees syn produced and with the values the generator chose to write. Non-trivial = the #[graphql] attribute has \
         at least two items (the positional scanner has a context to get wrong); keys are the full text + manifest dir",
    );
    vcore::common::quiet_panics();
    let work = vcore::common::work_dir();
    let probe_schema = work.join("c18_probe_schema.graphql");
    std::fs::write(&probe_schema, PROBE_SCHEMA).unwrap();
    let mut ctx = Ctx { model: Model::spawn(), probe_schema };
    if let Some(p) = derive_lib::TIE_BROKEN {
        rep.disagree(json!({"broken": "corr:C18/lib.rs-functions", "detail": p}));
    }
    rep.extra.insert("lib_rs_functions_from_source".into(), json!(derive_lib::TIE_BROKEN.is_none()));

    if let Some(path) = &a.replay {
        let v: Value = serde_json::from_str(&std::fs::read_to_string(path).expect("replay file")).expect("replay json");
        let case = &v["case"];
        if case.get("consumer").is_some() {
            consumer::run(&mut rep, &work);
        } else {
            let c = Case {
                kind: case["kind"].as_str().unwrap_or("replay").to_string(),
                text: case["text"].as_str().unwrap_or("").to_string(),
                manifest_dir: case["manifest_dir"].as_str().map(|s| s.to_string()),
                oracle: case["oracle"].clone(),
                spec: None,
                tags: vec![],
                nontrivial: true,
            };
            let r = run_case(&c, &mut ctx);
            println!("implementation: {}", r.real);
            println!("model: {}", r.model.clone().unwrap_or(Value::Null));
            record(&mut rep, &c, r, true);
        }
    } else {
        let mut rng = Rng::new(a.seed);
        // fixed witnesses first (Lean negative theorems replayed on the real code, unit-test texts of the repository)
        let mut replays = vec![];
        for c in gen::witnesses() {
            let r = run_case(&c, &mut ctx);
            if c.kind.starts_with("witness:") {
                replays.push(json!({"witness": c.kind, "text": c.text, "manifest_dir": c.manifest_dir,
                    "attr.deprecated": r.real["attr"]["deprecated"], "list.extern_enums": r.real["list"]["extern_enums"],
                    "derive": r.real["derive"], "agrees_with_model": r.tie.is_empty()}));
            }
            record(&mut rep, &c, r, false);
        }
        rep.extra.insert("witness_replays".into(), json!(replays));
        let (n_wf, n_mal) = if rep.thorough() { (60000, 28000) } else { (10000, 5000) };
        for i in 0..n_wf {
            let c = gen::well_formed(&mut rng);
            let r = run_case(&c, &mut ctx);
            record(&mut rep, &c, r, i % 997 == 3);
        }
        for i in 0..n_mal {
            let c = gen::malformed(&mut rng);
            let r = run_case(&c, &mut ctx);
            record(&mut rep, &c, r, i % 997 == 5);
        }
        // real `#[derive(GraphQLQuery)]` uses compiled by rustc (both tiers: the option plumbing of the proc-macro
        // crate's lib.rs is only reached this way)
        consumer::run(&mut rep, &work);
    }
    rep.extra.insert("model_requests".into(), json!(ctx.model.requests));
    drop(ctx);
    let _ = std::fs::remove_dir_all(&work);
    std::process::exit(rep.finish());
}
