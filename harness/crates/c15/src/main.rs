//! C15 — Response / Error envelope accepts and preserves every spec-shaped body.
//!
//! Implementation under test: `graphql_client::{Response, Error, Location, PathFragment, QueryBody}` built
//! from /repo's working tree, called in-process (`serde_json::from_str`, `from_value`, `to_value`,
//! `format!("{}", error)`).
//!
//! Streams (every case is regenerated from `(seed, stream, index)` alone):
//!   spec-body   a `Response` value is drawn first (the *intended meaning*), then written as a JSON text
//!               with the freedom the response grammar gives: every `None` member absent or `null`,
//!               unknown extra members at every level, members in random order, nested extension JSON.
//!               Oracle: `from_str(text)` and `from_value(value)` both give exactly the intended value;
//!               `from_value(to_value(r)) == r`, `from_str(to_string(r)) == r`.
//!   malformed   a fully populated spec body with exactly one fault (table `FAULTS`). Oracle: rejected.
//!   seq-form    structs written as arrays (serde's `visit_seq`): outside the grammar, no oracle, tie only.
//!   dup-map     repeated names inside `data` / `extensions` / among unknown members (text only): tie only.
//!   display     random `Error` values. Oracle: `format!("{}", e)` equals the string built by `oracle_display`.
//!   querybody   `QueryBody` serialisation. Oracle: exactly the members variables / query / operationName.
//!   typed-data  `Response<Data>` for a derived struct `Data` (oracle only: round trip, absent/null data).
//! On every case the Lean model (`gqlmodel_c15`) is asked the same question and must give the same
//! accept/reject answer and the same canonical value / string.
use graphql_client::{Error, Location, PathFragment, QueryBody, Response};
use serde::{Deserialize, Serialize};
use serde_json::{json, Map, Value};
use std::collections::HashMap;
use vcore::gen::rng::Rng;
use vcore::model::Model;
use vcore::report::{hash_str, parse_args, Args, Report};
use vcore::sexp::{atom, list, st, tagged, Sexp};

type Resp = Response<Map<String, Value>>;

// ------------------------------------------------------------------------------------------------
// ordered JSON trees (member order and repeated names are under the generator's control)
// ------------------------------------------------------------------------------------------------

#[derive(Clone, Debug, PartialEq)]
enum J {
    Null,
    Bool(bool),
    Int(i128), // always within i64::MIN ..= u64::MAX
    Float(f64),
    Str(String),
    Arr(Vec<J>),
    Obj(Vec<(String, J)>),
}

impl J {
    fn from_value(v: &Value) -> J {
        match v {
            Value::Null => J::Null,
            Value::Bool(b) => J::Bool(*b),
            Value::Number(n) => {
                if let Some(i) = n.as_i64() {
                    J::Int(i as i128)
                } else if let Some(u) = n.as_u64() {
                    J::Int(u as i128)
                } else {
                    J::Float(n.as_f64().unwrap())
                }
            }
            Value::String(s) => J::Str(s.clone()),
            Value::Array(xs) => J::Arr(xs.iter().map(J::from_value).collect()),
            Value::Object(m) => J::Obj(m.iter().map(|(k, v)| (k.clone(), J::from_value(v))).collect()),
        }
    }
    fn int_value(i: i128) -> Value {
        if i < 0 {
            Value::from(i as i64)
        } else {
            Value::from(i as u64)
        }
    }
    /// what `serde_json::Value` makes of it (a repeated name: last one wins)
    fn to_value(&self) -> Value {
        match self {
            J::Null => Value::Null,
            J::Bool(b) => Value::Bool(*b),
            J::Int(i) => J::int_value(*i),
            J::Float(f) => Value::from(*f),
            J::Str(s) => Value::String(s.clone()),
            J::Arr(xs) => Value::Array(xs.iter().map(|x| x.to_value()).collect()),
            J::Obj(kvs) => {
                let mut m = Map::new();
                for (k, v) in kvs {
                    m.insert(k.clone(), v.to_value());
                }
                Value::Object(m)
            }
        }
    }
    fn to_text(&self) -> String {
        match self {
            J::Null => "null".into(),
            J::Bool(b) => b.to_string(),
            J::Int(i) => i.to_string(),
            J::Float(f) => Value::from(*f).to_string(),
            J::Str(s) => serde_json::to_string(s).unwrap(),
            J::Arr(xs) => format!("[{}]", xs.iter().map(|x| x.to_text()).collect::<Vec<_>>().join(",")),
            J::Obj(kvs) => format!(
                "{{{}}}",
                kvs.iter()
                    .map(|(k, v)| format!("{}:{}", serde_json::to_string(k).unwrap(), v.to_text()))
                    .collect::<Vec<_>>()
                    .join(",")
            ),
        }
    }
    /// `GqlVerif.Json.ofSexp` syntax, member order and repetitions kept
    fn to_sexp(&self) -> Sexp {
        match self {
            J::Null => tagged("null", vec![]),
            J::Bool(b) => tagged("bool", vec![atom(if *b { "true" } else { "false" })]),
            J::Int(i) => tagged("int", vec![atom(&i.to_string())]),
            J::Float(f) => tagged("num", vec![st(&Value::from(*f).to_string())]),
            J::Str(s) => tagged("str", vec![st(s)]),
            J::Arr(xs) => tagged("arr", xs.iter().map(|x| x.to_sexp()).collect()),
            J::Obj(kvs) => tagged("obj", kvs.iter().map(|(k, v)| list(vec![st(k), v.to_sexp()])).collect()),
        }
    }
    fn has_repeated_name(&self) -> bool {
        match self {
            J::Arr(xs) => xs.iter().any(|x| x.has_repeated_name()),
            J::Obj(kvs) => {
                let mut seen = std::collections::BTreeSet::new();
                kvs.iter().any(|(k, v)| !seen.insert(k.clone()) || v.has_repeated_name())
            }
            _ => false,
        }
    }
}

const FLOAT_MARK: &str = "\u{1}float";

/// model reply → `Value`; non-integer numbers become an opaque marker (never compared as floats)
fn sexp_value(s: &Sexp) -> Option<Value> {
    let items = s.items();
    match s.head()? {
        "null" => Some(Value::Null),
        "bool" => Some(Value::Bool(items.get(1)?.as_str()? == "true")),
        "int" => {
            let t = items.get(1)?.as_str()?;
            let i: i128 = t.parse().ok()?;
            Some(J::int_value(i))
        }
        "num" => Some(Value::String(FLOAT_MARK.into())),
        "str" => Some(Value::String(items.get(1)?.as_str()?.to_string())),
        "arr" => Some(Value::Array(items[1..].iter().map(sexp_value).collect::<Option<Vec<_>>>()?)),
        "obj" => {
            let mut m = Map::new();
            for kv in &items[1..] {
                let kv = kv.items();
                m.insert(kv.first()?.as_str()?.to_string(), sexp_value(kv.get(1)?)?);
            }
            Some(Value::Object(m))
        }
        _ => None,
    }
}

/// the same marker on the implementation's side
fn scrub(v: &Value) -> Value {
    match v {
        Value::Number(n) if n.as_i64().is_none() && n.as_u64().is_none() => Value::String(FLOAT_MARK.into()),
        Value::Array(xs) => Value::Array(xs.iter().map(scrub).collect()),
        Value::Object(m) => Value::Object(m.iter().map(|(k, v)| (k.clone(), scrub(v))).collect()),
        other => other.clone(),
    }
}

// ------------------------------------------------------------------------------------------------
// value dump (same encoding as `C15Driver.dump*` in MainC15.lean; not the serde encoding)
// ------------------------------------------------------------------------------------------------

fn dump_opt<T>(o: &Option<T>, f: impl Fn(&T) -> Value) -> Value {
    match o {
        None => json!([]),
        Some(x) => json!([f(x)]),
    }
}
fn dump_hashmap(m: &HashMap<String, Value>) -> Value {
    Value::Object(m.iter().map(|(k, v)| (k.clone(), v.clone())).collect())
}
fn dump_error(e: &Error) -> Value {
    json!({
        "message": e.message,
        "locations": dump_opt(&e.locations, |ls| Value::Array(ls.iter().map(|l| json!({"line": l.line, "column": l.column})).collect())),
        "path": dump_opt(&e.path, |fs| Value::Array(fs.iter().map(|f| match f {
            PathFragment::Key(k) => json!({"key": k}),
            PathFragment::Index(i) => json!({"index": i}),
        }).collect())),
        "extensions": dump_opt(&e.extensions, dump_hashmap),
    })
}
fn dump_response(r: &Resp) -> Value {
    json!({
        "data": dump_opt(&r.data, |m| Value::Object(m.clone())),
        "errors": dump_opt(&r.errors, |es| Value::Array(es.iter().map(dump_error).collect())),
        "extensions": dump_opt(&r.extensions, dump_hashmap),
    })
}

// ------------------------------------------------------------------------------------------------
// generators
// ------------------------------------------------------------------------------------------------

const STRINGS: &[&str] = &[
    "", "a", "user", "friends", "a/", "/", "//", "/a", "a/b", "0", "-1", "007", "2147483648", "<query>", ":", "a:1:2",
    "名前", "ключ", "with space", "q\"uote", "back\\slash", "line\nbreak", "tab\there", "é", "null", "true", "message",
];
const I32S: &[i32] = &[0, 1, -1, 2, 7, 10, 99, 100, -100, 12345, i32::MAX, i32::MIN, i32::MAX - 1, i32::MIN + 1, 65536, -65536];
const MAP_KEYS: &[&str] = &["code", "a", "b", "", "message", "data", "path", "errors", "extensions", "x/y", "ключ", "timestamp", "0"];
const EXTRA_KEYS: &[&str] = &["foo", "Message", "messages", "data ", "locations2", "hasNext", "__typename", "label", "", "line ", "Path", "error"];
const FLOATS: &[f64] = &[1.5, -0.25, 0.5, 3.75, 100.0, -2.0, 1024.5];

fn gen_string(rng: &mut Rng) -> String {
    if rng.chance(80) {
        rng.pick(STRINGS).to_string()
    } else {
        let n = rng.range(1, 6);
        (0..n).map(|_| *rng.pick(&['a', 'b', 'z', '/', '0', '9', '_', 'Q', '-', ' '])).collect()
    }
}
fn gen_i32(rng: &mut Rng) -> i32 {
    if rng.chance(70) {
        *rng.pick(I32S)
    } else {
        rng.next() as i32
    }
}
fn gen_json(rng: &mut Rng, depth: usize, floats: bool) -> Value {
    let top = if depth == 0 { 5 } else { 7 };
    match rng.below(top) {
        0 => Value::Null,
        1 => Value::Bool(rng.chance(50)),
        2 => match rng.below(6) {
            0 => json!(i64::MAX),
            1 => json!(i64::MIN),
            2 => json!(u64::MAX),
            3 => json!(2147483648u64),
            _ => json!(gen_i32(rng)),
        },
        3 => Value::String(gen_string(rng)),
        4 => {
            if floats {
                json!(*rng.pick(FLOATS))
            } else {
                json!(gen_i32(rng) as i64 * 3)
            }
        }
        5 => Value::Array((0..rng.below(4)).map(|_| gen_json(rng, depth - 1, floats)).collect()),
        _ => Value::Object(gen_map(rng, depth - 1, floats)),
    }
}
fn gen_map(rng: &mut Rng, depth: usize, floats: bool) -> Map<String, Value> {
    let mut m = Map::new();
    for _ in 0..rng.below(4) {
        let k = if rng.chance(85) { rng.pick(MAP_KEYS).to_string() } else { gen_string(rng) };
        m.insert(k, gen_json(rng, depth, floats));
    }
    m
}
fn gen_location(rng: &mut Rng) -> Location {
    Location { line: gen_i32(rng), column: gen_i32(rng) }
}
fn gen_fragment(rng: &mut Rng) -> PathFragment {
    if rng.chance(55) {
        PathFragment::Key(gen_string(rng))
    } else {
        PathFragment::Index(gen_i32(rng))
    }
}
/// `full`: every member present and non-empty (the base of the malformed stream)
fn gen_error(rng: &mut Rng, floats: bool, full: bool) -> Error {
    let lo = if full { 1 } else { 0 };
    Error {
        message: gen_string(rng),
        locations: if full || rng.chance(60) { Some((0..rng.range(lo, 3)).map(|_| gen_location(rng)).collect()) } else { None },
        path: if full || rng.chance(65) { Some((0..rng.range(lo, 5)).map(|_| gen_fragment(rng)).collect()) } else { None },
        extensions: if full || rng.chance(50) { Some(gen_map(rng, 2, floats).into_iter().collect()) } else { None },
    }
}
fn gen_response(rng: &mut Rng, floats: bool, full: bool) -> Resp {
    let lo = if full { 1 } else { 0 };
    Response {
        data: if full || rng.chance(60) { Some(gen_map(rng, 2, floats)) } else { None },
        errors: if full || rng.chance(75) { Some((0..rng.range(lo, 3)).map(|_| gen_error(rng, floats, full)).collect()) } else { None },
        extensions: if full || rng.chance(40) { Some(gen_map(rng, 2, floats).into_iter().collect()) } else { None },
    }
}

/// how a value is written
#[derive(Clone, Copy)]
struct Style {
    noise: bool,  // absent-or-null for None, unknown members, shuffled member order
    floats: bool, // unknown members may carry floats
    seq: bool,    // structs as arrays (visit_seq form)
}

fn put_opt(rng: &mut Rng, st: Style, members: &mut Vec<(String, J)>, key: &str, v: Option<J>) {
    match v {
        Some(j) => members.push((key.into(), j)),
        None => {
            if !st.noise || rng.chance(50) {
                members.push((key.into(), J::Null))
            }
        }
    }
}
fn finish_obj(rng: &mut Rng, st: Style, mut members: Vec<(String, J)>, known: &[&str]) -> J {
    if st.noise {
        for _ in 0..(if rng.chance(45) { rng.range(1, 2) } else { 0 }) {
            let k = rng.pick(EXTRA_KEYS).to_string();
            if known.contains(&k.as_str()) || members.iter().any(|(m, _)| *m == k) {
                continue;
            }
            members.push((k, J::from_value(&gen_json(rng, 2, st.floats))));
        }
        rng.shuffle(&mut members);
    }
    J::Obj(members)
}
fn write_map<'a>(rng: &mut Rng, st: Style, m: impl Iterator<Item = (&'a String, &'a Value)>) -> J {
    let mut kvs: Vec<(String, J)> = m.map(|(k, v)| (k.clone(), J::from_value(v))).collect();
    if st.noise {
        rng.shuffle(&mut kvs);
    }
    J::Obj(kvs)
}
fn write_location(rng: &mut Rng, st: Style, l: &Location) -> J {
    if st.seq && rng.chance(70) {
        return J::Arr(vec![J::Int(l.line as i128), J::Int(l.column as i128)]);
    }
    let members = vec![("line".to_string(), J::Int(l.line as i128)), ("column".to_string(), J::Int(l.column as i128))];
    finish_obj(rng, st, members, &["line", "column"])
}
fn write_fragment(f: &PathFragment) -> J {
    match f {
        PathFragment::Key(k) => J::Str(k.clone()),
        PathFragment::Index(i) => J::Int(*i as i128),
    }
}
fn opt_seq(v: Option<J>) -> J {
    v.unwrap_or(J::Null)
}
fn write_error(rng: &mut Rng, st: Style, e: &Error) -> J {
    let locs = e.locations.as_ref().map(|ls| J::Arr(ls.iter().map(|l| write_location(rng, st, l)).collect()));
    let path = e.path.as_ref().map(|fs| J::Arr(fs.iter().map(write_fragment).collect()));
    let ext = e.extensions.as_ref().map(|m| write_map(rng, st, m.iter()));
    if st.seq && rng.chance(70) {
        return J::Arr(vec![J::Str(e.message.clone()), opt_seq(locs), opt_seq(path), opt_seq(ext)]);
    }
    let mut members = vec![("message".to_string(), J::Str(e.message.clone()))];
    put_opt(rng, st, &mut members, "locations", locs);
    put_opt(rng, st, &mut members, "path", path);
    put_opt(rng, st, &mut members, "extensions", ext);
    finish_obj(rng, st, members, &["message", "locations", "path", "extensions"])
}
fn write_response(rng: &mut Rng, st: Style, r: &Resp) -> J {
    let data = r.data.as_ref().map(|m| write_map(rng, st, m.iter()));
    let errors = r.errors.as_ref().map(|es| J::Arr(es.iter().map(|e| write_error(rng, st, e)).collect()));
    let ext = r.extensions.as_ref().map(|m| write_map(rng, st, m.iter()));
    if st.seq && rng.chance(50) {
        return J::Arr(vec![opt_seq(data), opt_seq(errors), opt_seq(ext)]);
    }
    let mut members = vec![];
    put_opt(rng, st, &mut members, "data", data);
    put_opt(rng, st, &mut members, "errors", errors);
    put_opt(rng, st, &mut members, "extensions", ext);
    finish_obj(rng, st, members, &["data", "errors", "extensions"])
}

// ------------------------------------------------------------------------------------------------
// the malformed stream: one fault in a fully populated body
// ------------------------------------------------------------------------------------------------

#[derive(Clone, Debug)]
enum Bad {
    Put(J),  // replace the value at the site
    Absent,  // remove the member
    Repeat,  // write the member twice (text only)
}

/// (site, human-readable class, replacement)
fn faults() -> Vec<(&'static str, String, Bad)> {
    let mut out: Vec<(&'static str, String, Bad)> = vec![];
    let mut add = |site: &'static str, what: &str, bad: Bad| out.push((site, format!("{}:{}", site, what), bad));
    let big = [
        ("2^31", 2147483648i128),
        ("-2^31-1", -2147483649i128),
        ("i64max", i64::MAX as i128),
        ("i64min", i64::MIN as i128),
        ("u64max", u64::MAX as i128),
    ];
    // the body itself
    for (w, j) in [
        ("null", J::Null),
        ("string", J::Str("{}".into())),
        ("number", J::Int(42)),
        ("bool", J::Bool(true)),
        ("array-of-2", J::Arr(vec![J::Null, J::Null])),
        ("array-of-4", J::Arr(vec![J::Null, J::Null, J::Null, J::Null])),
        ("array-wrong-content", J::Arr(vec![J::Int(1), J::Null, J::Null])),
    ] {
        add("body", w, Bad::Put(j));
    }
    // map positions
    for site in ["data", "extensions", "error.extensions"] {
        for (w, j) in [
            ("array", J::Arr(vec![])),
            ("array-of-pairs", J::Arr(vec![J::Arr(vec![J::Str("k".into()), J::Int(1)])])),
            ("string", J::Str("x".into())),
            ("number", J::Int(1)),
            ("bool", J::Bool(false)),
            ("float", J::Float(1.5)),
        ] {
            add(site, w, Bad::Put(j));
        }
        add(site, "repeated", Bad::Repeat);
    }
    // list positions
    for site in ["errors", "error.locations", "error.path"] {
        for (w, j) in [
            ("object", J::Obj(vec![])),
            ("object-with-0", J::Obj(vec![("0".into(), J::Null)])),
            ("string", J::Str("x".into())),
            ("number", J::Int(0)),
            ("bool", J::Bool(true)),
        ] {
            add(site, w, Bad::Put(j));
        }
        add(site, "repeated", Bad::Repeat);
    }
    // an entry of `errors`
    for (w, j) in [
        ("null", J::Null),
        ("string", J::Str("boom".into())),
        ("number", J::Int(1)),
        ("bool", J::Bool(true)),
        ("array-of-3", J::Arr(vec![J::Str("m".into()), J::Null, J::Null])),
        ("array-of-5", J::Arr(vec![J::Str("m".into()), J::Null, J::Null, J::Null, J::Null])),
        ("array-wrong-content", J::Arr(vec![J::Int(1), J::Null, J::Null, J::Null])),
        ("empty-object", J::Obj(vec![])),
    ] {
        add("error", w, Bad::Put(j));
    }
    // message
    add("error.message", "absent", Bad::Absent);
    add("error.message", "repeated", Bad::Repeat);
    for (w, j) in [
        ("null", J::Null),
        ("number", J::Int(7)),
        ("bool", J::Bool(true)),
        ("array", J::Arr(vec![J::Str("m".into())])),
        ("object", J::Obj(vec![("text".into(), J::Str("m".into()))])),
        ("float", J::Float(0.5)),
    ] {
        add("error.message", w, Bad::Put(j));
    }
    // an entry of `locations`
    for (w, j) in [
        ("null", J::Null),
        ("string", J::Str("1:2".into())),
        ("number", J::Int(1)),
        ("bool", J::Bool(true)),
        ("array-of-1", J::Arr(vec![J::Int(1)])),
        ("array-of-3", J::Arr(vec![J::Int(1), J::Int(2), J::Int(3)])),
        ("array-wrong-content", J::Arr(vec![J::Str("1".into()), J::Int(2)])),
        ("empty-object", J::Obj(vec![])),
    ] {
        add("location", w, Bad::Put(j));
    }
    for site in ["location.line", "location.column"] {
        add(site, "absent", Bad::Absent);
        add(site, "repeated", Bad::Repeat);
        for (w, j) in [
            ("null", J::Null),
            ("string", J::Str("1".into())),
            ("float", J::Float(1.5)),
            ("float-integral", J::Float(1.0)),
            ("float-negzero", J::Float(-0.0)),
            ("bool", J::Bool(true)),
            ("array", J::Arr(vec![J::Int(1)])),
            ("object", J::Obj(vec![])),
        ] {
            add(site, w, Bad::Put(j));
        }
        for (w, i) in big {
            add(site, w, Bad::Put(J::Int(i)));
        }
    }
    // an entry of `path`
    for (w, j) in [
        ("null", J::Null),
        ("bool", J::Bool(false)),
        ("float", J::Float(1.5)),
        ("float-integral", J::Float(1.0)),
        ("float-negzero", J::Float(-0.0)),
        ("array", J::Arr(vec![J::Str("a".into())])),
        ("empty-array", J::Arr(vec![])),
        ("object", J::Obj(vec![("key".into(), J::Str("a".into()))])),
        ("empty-object", J::Obj(vec![])),
    ] {
        add("path-entry", w, Bad::Put(j));
    }
    for (w, i) in big {
        add("path-entry", w, Bad::Put(J::Int(i)));
    }
    out
}

fn obj_mut(j: &mut J) -> Option<&mut Vec<(String, J)>> {
    match j {
        J::Obj(kvs) => Some(kvs),
        _ => None,
    }
}
fn arr_mut(j: &mut J) -> Option<&mut Vec<J>> {
    match j {
        J::Arr(xs) => Some(xs),
        _ => None,
    }
}
fn member_mut<'a>(j: &'a mut J, k: &str) -> Option<&'a mut J> {
    obj_mut(j)?.iter_mut().find(|(m, _)| m == k).map(|(_, v)| v)
}
fn pick_entry<'a>(rng: &mut Rng, j: &'a mut J) -> Option<&'a mut J> {
    let xs = arr_mut(j)?;
    if xs.is_empty() {
        return None;
    }
    let i = rng.below(xs.len());
    xs.get_mut(i)
}

/// apply `bad` to member `key` of object `parent`
fn hit_member(rng: &mut Rng, parent: &mut J, key: &str, bad: &Bad) -> Option<()> {
    let kvs = obj_mut(parent)?;
    let pos = kvs.iter().position(|(m, _)| m == key)?;
    match bad {
        Bad::Put(j) => kvs[pos].1 = j.clone(),
        Bad::Absent => {
            kvs.remove(pos);
        }
        Bad::Repeat => {
            let copy = kvs[pos].clone();
            let at = rng.below(kvs.len() + 1);
            kvs.insert(at, copy);
        }
    }
    Some(())
}

fn inject(rng: &mut Rng, body: &mut J, site: &str, bad: &Bad) -> Option<()> {
    match site {
        "body" => {
            if let Bad::Put(j) = bad {
                *body = j.clone();
            }
            Some(())
        }
        "data" | "extensions" | "errors" => hit_member(rng, body, site, bad),
        _ => {
            let err = pick_entry(rng, member_mut(body, "errors")?)?;
            match site {
                "error" => {
                    if let Bad::Put(j) = bad {
                        *err = j.clone();
                    }
                    Some(())
                }
                "error.message" | "error.locations" | "error.path" | "error.extensions" => {
                    hit_member(rng, err, &site["error.".len()..], bad)
                }
                "path-entry" => {
                    let e = pick_entry(rng, member_mut(err, "path")?)?;
                    if let Bad::Put(j) = bad {
                        *e = j.clone();
                    }
                    Some(())
                }
                _ => {
                    let loc = pick_entry(rng, member_mut(err, "locations")?)?;
                    match site {
                        "location" => {
                            if let Bad::Put(j) = bad {
                                *loc = j.clone();
                            }
                            Some(())
                        }
                        "location.line" | "location.column" => hit_member(rng, loc, &site["location.".len()..], bad),
                        _ => None,
                    }
                }
            }
        }
    }
}

// ------------------------------------------------------------------------------------------------
// oracles written from the property statement
// ------------------------------------------------------------------------------------------------

/// decimal rendering, written out (not `to_string`)
fn dec(n: i64) -> String {
    let mut digits: Vec<u8> = vec![];
    let mut m: u64 = n.unsigned_abs();
    loop {
        digits.push(b'0' + (m % 10) as u8);
        m /= 10;
        if m == 0 {
            break;
        }
    }
    if n < 0 {
        digits.push(b'-');
    }
    digits.reverse();
    String::from_utf8(digits).unwrap()
}

/// `path:line:column: message`; path `/`-joined, `<query>` when absent; first location, 0:0 when none
fn oracle_display(e: &Error) -> String {
    let path = match &e.path {
        None => "<query>".to_string(),
        Some(fs) => {
            let mut s = String::new();
            for (i, f) in fs.iter().enumerate() {
                if i > 0 {
                    s.push('/');
                }
                match f {
                    PathFragment::Key(k) => s.push_str(k),
                    PathFragment::Index(n) => s.push_str(&dec(*n as i64)),
                }
            }
            s
        }
    };
    let (line, column) = match e.locations.as_ref().and_then(|ls| ls.first()) {
        Some(l) => (l.line as i64, l.column as i64),
        None => (0, 0),
    };
    let mut out = path;
    out.push(':');
    out.push_str(&dec(line));
    out.push(':');
    out.push_str(&dec(column));
    out.push_str(": ");
    out.push_str(&e.message);
    out
}

#[derive(Debug, Clone, PartialEq, Serialize, Deserialize)]
struct Inner {
    id: i64,
    tags: Vec<String>,
}
/// a stand-in for a generated `ResponseData` (never serialises to null)
#[derive(Debug, Clone, PartialEq, Serialize, Deserialize)]
struct Data {
    name: String,
    count: Option<i64>,
    items: Vec<Inner>,
}

// ------------------------------------------------------------------------------------------------
// cases
// ------------------------------------------------------------------------------------------------

struct Ctx {
    rep: Report,
    model: Model,
    seed: u64,
    faults: Vec<(&'static str, String, Bad)>,
}

fn case_rng(seed: u64, stream: &str, index: u64) -> Rng {
    Rng::new(seed ^ hash_str(stream).rotate_left(17) ^ index.wrapping_mul(0x9E37_79B9_7F4A_7C15))
}

fn short(s: &str) -> String {
    if s.chars().count() > 600 {
        let t: String = s.chars().take(600).collect();
        format!("{}…", t)
    } else {
        s.to_string()
    }
}

impl Ctx {
    fn replay_info(&self, stream: &str, index: u64) -> Value {
        json!({"stream": stream, "index": index, "seed": self.seed})
    }

    /// ask the model to deserialise `body`; `Ok(Some(dump))`, `Ok(None)` = rejected, `Err` = no model / bad reply
    fn model_de(&mut self, what: &str, body: &J) -> Result<Option<Value>, String> {
        let reply = self.model.ask(&tagged(what, vec![body.to_sexp()]));
        match reply.head() {
            Some("nomodel") => Err("nomodel".into()),
            Some("err") => Ok(None),
            Some("ok") => sexp_value(&reply.items()[1]).map(Some).ok_or_else(|| format!("unreadable model value {}", reply.short(200))),
            _ => Err(format!("model reply {}", reply.short(200))),
        }
    }
    fn model_bool(&mut self, what: &str, arg: Sexp) -> Result<bool, String> {
        let reply = self.model.ask(&tagged(what, vec![arg]));
        match reply.items().first().and_then(|x| x.as_str()) {
            Some("nomodel") => Err("nomodel".into()),
            Some("true") => Ok(true),
            Some("false") => Ok(false),
            _ => Err(format!("model reply {}", reply.short(200))),
        }
    }
    fn model_json(&mut self, req: Sexp) -> Result<Value, String> {
        let reply = self.model.ask(&req);
        match reply.head() {
            Some("nomodel") => Err("nomodel".into()),
            Some("ok") => sexp_value(&reply.items()[1]).ok_or_else(|| format!("unreadable model value {}", reply.short(200))),
            _ => Err(format!("model reply {}", reply.short(200))),
        }
    }
    /// bookkeeping of one model/implementation comparison; returns true when they agree
    fn tie(&mut self, agree: Result<bool, String>, info: Value) -> bool {
        match agree {
            Ok(true) => true,
            Ok(false) => {
                self.rep.disagree(info);
                false
            }
            Err(e) if e == "nomodel" => false,
            Err(e) => {
                self.rep.internal.push(format!("{} ({})", e, info));
                false
            }
        }
    }

    /// implementation on one written body: text route and (when no name is repeated) value route
    fn implementation(&mut self, stream: &str, index: u64, body: &J, text: &str) -> Result<Resp, String> {
        let by_text = serde_json::from_str::<Resp>(text).map_err(|e| e.to_string());
        if !body.has_repeated_name() {
            let by_value = serde_json::from_value::<Resp>(body.to_value()).map_err(|e| e.to_string());
            let same = match (&by_text, &by_value) {
                (Ok(a), Ok(b)) => a == b,
                (Err(_), Err(_)) => true,
                _ => false,
            };
            if !same {
                let mut info = self.replay_info(stream, index);
                info["body"] = json!(short(text));
                info["from_str"] = json!(format!("{:?}", by_text));
                info["from_value"] = json!(format!("{:?}", by_value));
                self.rep.fail("from-str-and-from-value-differ", info);
            }
        }
        by_text
    }

    // ---- spec-body -------------------------------------------------------------------------------
    fn spec_body(&mut self, index: u64) {
        let stream = "spec-body";
        let mut rng = case_rng(self.seed, stream, index);
        let floats = rng.chance(12);
        let intended = gen_response(&mut rng, floats, false);
        let style = Style { noise: true, floats, seq: false };
        let body = write_response(&mut rng, style, &intended);
        let text = body.to_text();
        let n_err = intended.errors.as_ref().map(|e| e.len()).unwrap_or(0);
        let nontrivial = n_err > 0 || intended.data.as_ref().map(|d| !d.is_empty()).unwrap_or(false);
        let key = format!("spec-body|{}", text);
        self.rep.case(if nontrivial { Some(&key) } else { None });
        self.rep.count("stream:spec-body");
        self.rep.count(&format!("spec-body:data={}", match &intended.data { None => "none", Some(_) => "object" }));
        self.rep.count(&format!("spec-body:errors={}", match &intended.errors { None => "none".to_string(), Some(e) => e.len().to_string() }));
        if floats {
            self.rep.count("spec-body:with-floats-in-extensions");
        }
        for e in intended.errors.iter().flatten() {
            if let Some(p) = &e.path {
                let k = p.iter().any(|f| matches!(f, PathFragment::Key(_)));
                let i = p.iter().any(|f| matches!(f, PathFragment::Index(_)));
                self.rep.count(if p.is_empty() { "spec-body:path=empty" } else if k && i { "spec-body:path=mixed" } else if k { "spec-body:path=names" } else { "spec-body:path=indices" });
            } else {
                self.rep.count("spec-body:path=none");
            }
        }
        if index < 3 {
            self.rep.sample(json!({"stream": stream, "body": short(&text), "intended": dump_response(&intended)}));
        }

        // (a) implementation, (c) oracle: accepted, and means exactly what was written
        let got = self.implementation(stream, index, &body, &text);
        let mut info = self.replay_info(stream, index);
        info["body"] = json!(short(&text));
        match &got {
            Err(e) => {
                info["error"] = json!(e);
                self.rep.fail("spec-body-rejected", info.clone());
            }
            Ok(r) if *r != intended => {
                info["got"] = dump_response(r);
                info["intended"] = dump_response(&intended);
                self.rep.fail("spec-body-not-preserved", info.clone());
            }
            Ok(_) => {}
        }
        // round trips of the value
        let ser = serde_json::to_value(&intended).expect("to_value");
        let back = serde_json::from_value::<Resp>(ser.clone());
        let back_text = serde_json::to_string(&intended).map_err(|e| e.to_string()).and_then(|t| serde_json::from_str::<Resp>(&t).map_err(|e| e.to_string()));
        if back.as_ref().ok() != Some(&intended) || back_text.as_ref().ok() != Some(&intended) {
            let mut i2 = self.replay_info(stream, index);
            i2["value"] = dump_response(&intended);
            i2["serialized"] = ser.clone();
            i2["back"] = json!(format!("{:?}", back));
            self.rep.fail("response-roundtrip", i2);
        }

        // (b) model
        let m = self.model_de("de-response", &body);
        let mut ok = true;
        let agree = m.map(|m| m == got.as_ref().ok().map(|r| scrub(&dump_response(r))));
        let mut i3 = info.clone();
        i3["what"] = json!("de-response: model and implementation differ");
        ok &= self.tie(agree, i3);
        let g = self.model_bool("spec-body", body.to_sexp());
        let mut i4 = info.clone();
        i4["what"] = json!("generated body is outside the Lean grammar specBody");
        ok &= self.tie(g, i4);
        let dump = J::from_value(&dump_response(&intended));
        let s = self.model_json(tagged("ser-response", vec![dump.to_sexp()])).map(|v| v == scrub(&ser));
        let mut i5 = info.clone();
        i5["what"] = json!("ser-response: model and to_value differ");
        i5["to_value"] = ser;
        ok &= self.tie(s, i5);
        let w = self.model_bool("wf-response", dump.to_sexp());
        let mut i6 = info;
        i6["what"] = json!("value is not well-formed in the model (hypothesis of the round-trip theorem)");
        ok &= self.tie(w, i6);
        if ok {
            self.rep.traces_validated += 1;
        }
    }

    // ---- malformed -------------------------------------------------------------------------------
    fn malformed(&mut self, index: u64) {
        let stream = "malformed";
        let nf = self.faults.len() as u64;
        let (site, class, bad) = self.faults[(index % nf) as usize].clone();
        let mut rng = case_rng(self.seed, stream, index);
        let intended = gen_response(&mut rng, false, true);
        // the base is written plainly half of the time, with extras and shuffling otherwise
        let style = Style { noise: rng.chance(50), floats: false, seq: false };
        let mut body = write_response(&mut rng, style, &intended);
        if inject(&mut rng, &mut body, site, &bad).is_none() {
            self.rep.internal.push(format!("malformed: fault {} not applicable at index {}", class, index));
            return;
        }
        let text = body.to_text();
        self.rep.case(Some(&format!("malformed|{}", text)));
        self.rep.count("stream:malformed");
        self.rep.count(&format!("malformed:{}", site));
        if index == 1 {
            self.rep.sample(json!({"stream": stream, "fault": class, "body": short(&text)}));
        }
        let got = self.implementation(stream, index, &body, &text);
        let mut info = self.replay_info(stream, index);
        info["fault"] = json!(class);
        info["body"] = json!(short(&text));
        // The statement demands acceptance and preservation of spec bodies; of the malformed stream it can only demand what
        // follows from that: a body whose member has the WRONG JSON KIND (or lacks `message`) cannot be "accepted and
        // preserved". Integers beyond the i32 of the current types, `1.0` for an integer and a member written twice are
        // limits of the current types / of serde's duplicate check: what happens there is compared with the model below (a
        // broken tie if it changes), not demanded.
        let type_limit = ["2^31", "-2^31-1", "i64max", "i64min", "u64max", ":repeated", ":float-integral", ":float-negzero"].iter().any(|w| class.contains(w));
        if let Ok(r) = &got {
            info["got"] = dump_response(r);
            if !type_limit {
                self.rep.fail(&format!("malformed-accepted:{}", class), info.clone());
            } else {
                self.rep.count("malformed:type-limit-accepted");
            }
        }
        let m = self.model_de("de-response", &body);
        let agree = m.map(|m| m == got.as_ref().ok().map(|r| scrub(&dump_response(r))));
        let mut i2 = info.clone();
        i2["what"] = json!("de-response: model and implementation differ");
        let mut ok = self.tie(agree, i2);
        let g = self.model_bool("spec-body", body.to_sexp()).map(|b| !b);
        let mut i3 = info;
        i3["what"] = json!("faulty body is inside the Lean grammar specBody");
        ok &= self.tie(g, i3);
        if ok {
            self.rep.traces_validated += 1;
        }
    }

    // ---- seq-form / dup-map: outside the grammar, tie only ------------------------------------------
    fn tie_only(&mut self, stream: &str, index: u64) {
        let mut rng = case_rng(self.seed, stream, index);
        let intended = gen_response(&mut rng, false, false);
        let seq = stream == "seq-form";
        let style = Style { noise: true, floats: false, seq };
        let mut body = write_response(&mut rng, style, &intended);
        if !seq {
            // repeat a name inside a map position or among the unknown members
            let target = *rng.pick(&["data", "extensions", "unknown", "error.extensions"]);
            let dup = |rng: &mut Rng, j: &mut J| {
                if let Some(kvs) = obj_mut(j) {
                    let k = if kvs.is_empty() || rng.chance(30) { "k".to_string() } else { kvs[rng.below(kvs.len())].0.clone() };
                    if kvs.is_empty() {
                        kvs.push((k.clone(), J::Int(1)));
                    }
                    let at = rng.below(kvs.len() + 1);
                    kvs.insert(at, (k, J::from_value(&gen_json(rng, 1, false))));
                }
            };
            match target {
                "unknown" => {
                    if let Some(kvs) = obj_mut(&mut body) {
                        kvs.push(("foo".into(), J::Int(1)));
                        kvs.insert(0, ("foo".into(), J::Str("again".into())));
                    }
                }
                "error.extensions" => {
                    if let Some(e) = member_mut(&mut body, "errors").and_then(|es| pick_entry(&mut rng, es)) {
                        if let Some(x) = member_mut(e, "extensions") {
                            dup(&mut rng, x);
                        }
                    }
                }
                t => {
                    if let Some(x) = member_mut(&mut body, t) {
                        dup(&mut rng, x);
                    }
                }
            }
            self.rep.count(&format!("dup-map:{}", target));
        }
        let text = body.to_text();
        self.rep.case(Some(&format!("{}|{}", stream, text)));
        self.rep.count(&format!("stream:{}", stream));
        if index == 0 {
            self.rep.sample(json!({"stream": stream, "body": short(&text)}));
        }
        let got = self.implementation(stream, index, &body, &text);
        self.rep.count(&format!("{}:{}", stream, if got.is_ok() { "accepted" } else { "rejected" }));
        let m = self.model_de("de-response", &body);
        let agree = m.map(|m| m == got.as_ref().ok().map(|r| scrub(&dump_response(r))));
        let mut info = self.replay_info(stream, index);
        info["body"] = json!(short(&text));
        info["implementation"] = json!(format!("{:?}", got.as_ref().map(dump_response)));
        info["what"] = json!("de-response: model and implementation differ");
        if self.tie(agree, info) {
            self.rep.traces_validated += 1;
        }
    }

    // ---- display -----------------------------------------------------------------------------------
    fn display(&mut self, index: u64) {
        let stream = "display";
        let mut rng = case_rng(self.seed, stream, index);
        let e = gen_error(&mut rng, false, false);
        // direct deserialisation of the single error object, too
        let body = write_error(&mut rng, Style { noise: true, floats: false, seq: false }, &e);
        let got = format!("{}", e);
        let want = oracle_display(&e);
        let nontrivial = e.path.as_ref().map(|p| !p.is_empty()).unwrap_or(false) || e.locations.as_ref().map(|l| !l.is_empty()).unwrap_or(false);
        let key = format!("display|{}", dump_error(&e));
        self.rep.case(if nontrivial { Some(&key) } else { None });
        self.rep.count("stream:display");
        self.rep.count(match &e.path {
            None => "display:path=none",
            Some(p) if p.is_empty() => "display:path=empty",
            Some(p) if matches!(p.last(), Some(PathFragment::Key(k)) if k.is_empty() || k.ends_with('/')) => "display:path=ends-empty-or-slash",
            Some(_) => "display:path=other",
        });
        self.rep.count(match &e.locations {
            None => "display:locations=none",
            Some(l) if l.is_empty() => "display:locations=empty",
            Some(_) => "display:locations=some",
        });
        if index == 0 {
            self.rep.sample(json!({"stream": stream, "error": dump_error(&e), "display": got}));
        }
        let mut info = self.replay_info(stream, index);
        info["error"] = dump_error(&e);
        if got != want {
            info["display"] = json!(got);
            info["expected"] = json!(want);
            let class = match &e.path {
                Some(p) if matches!(p.last(), Some(PathFragment::Key(k)) if k.is_empty() || k.ends_with('/')) => "display-trailing-empty-or-slash-key",
                Some(p) if p.is_empty() => "display-empty-path",
                None => "display-no-path",
                _ => "display-format",
            };
            self.rep.fail(class, info.clone());
        }
        // each fragment alone
        for f in e.path.iter().flatten() {
            let one = format!("{}", f);
            let want1 = match f {
                PathFragment::Key(k) => k.clone(),
                PathFragment::Index(n) => dec(*n as i64),
            };
            if one != want1 {
                let mut i2 = info.clone();
                i2["fragment"] = json!(format!("{:?}", f));
                i2["display"] = json!(one);
                self.rep.fail("display-fragment", i2);
            }
        }
        // Error on its own: parse, round trip
        let parsed = serde_json::from_str::<Error>(&body.to_text()).map_err(|x| x.to_string());
        if parsed.as_ref().ok() != Some(&e) {
            let mut i2 = info.clone();
            i2["body"] = json!(short(&body.to_text()));
            i2["got"] = json!(format!("{:?}", parsed));
            self.rep.fail("spec-error-not-preserved", i2);
        }
        let ser = serde_json::to_value(&e).expect("to_value");
        let back = serde_json::from_value::<Error>(ser.clone());
        if back.as_ref().ok() != Some(&e) {
            let mut i2 = info.clone();
            i2["serialized"] = ser.clone();
            self.rep.fail("error-roundtrip", i2);
        }
        // model
        let dump = J::from_value(&dump_error(&e));
        let reply = self.model.ask(&tagged("display-error", vec![dump.to_sexp()]));
        let agree = match reply.head() {
            Some("nomodel") => Err("nomodel".to_string()),
            Some("ok") => Ok(reply.items().get(1).and_then(|s| s.as_str()) == Some(got.as_str())),
            _ => Err(format!("model reply {}", reply.short(200))),
        };
        let mut i3 = info.clone();
        i3["what"] = json!("display: model and implementation differ");
        i3["display"] = json!(got);
        i3["model"] = json!(reply.short(300));
        let mut ok = self.tie(agree, i3);
        let m = self.model_de("de-error", &body).map(|m| m == parsed.as_ref().ok().map(|r| scrub(&dump_error(r))));
        let mut i4 = info.clone();
        i4["what"] = json!("de-error: model and implementation differ");
        i4["body"] = json!(short(&body.to_text()));
        ok &= self.tie(m, i4);
        let s = self.model_json(tagged("ser-error", vec![dump.to_sexp()])).map(|v| v == scrub(&ser));
        let mut i5 = info;
        i5["what"] = json!("ser-error: model and to_value differ");
        ok &= self.tie(s, i5);
        if ok {
            self.rep.traces_validated += 1;
        }
    }

    // ---- querybody ---------------------------------------------------------------------------------
    fn querybody(&mut self, index: u64) {
        const QUERIES: &[&str] = &["", "query Q { a }", "query Q($v: Int!) {\n  f(x: $v) { id }\n}", "{ \"quoted\" }", "mutation M { m }"];
        const OPS: &[&str] = &["", "Q", "M", "StarWarsQuery", "операция", "a b"];
        let stream = "querybody";
        let mut rng = case_rng(self.seed, stream, index);
        let variables = match rng.below(4) {
            0 => Value::Null,
            1 => Value::Object(gen_map(&mut rng, 2, false)),
            _ => gen_json(&mut rng, 2, false),
        };
        let query: &'static str = *rng.pick(QUERIES);
        let op: &'static str = *rng.pick(OPS);
        let q = QueryBody { variables: variables.clone(), query, operation_name: op };
        let got = serde_json::to_value(&q).expect("to_value");
        self.rep.case(Some(&format!("querybody|{}", got)));
        self.rep.count("stream:querybody");
        self.rep.count(&format!("querybody:variables={}", match &variables { Value::Null => "null", Value::Object(_) => "object", _ => "other" }));
        if index == 0 {
            self.rep.sample(json!({"stream": stream, "serialized": got}));
        }
        let mut info = self.replay_info(stream, index);
        info["serialized"] = got.clone();
        let good = match &got {
            Value::Object(m) => {
                let mut keys: Vec<&str> = m.keys().map(|k| k.as_str()).collect();
                keys.sort();
                keys == ["operationName", "query", "variables"]
                    && m["variables"] == variables
                    && m["query"] == Value::String(query.into())
                    && m["operationName"] == Value::String(op.into())
            }
            _ => false,
        };
        // the text form has the same three members
        let text_ok = serde_json::to_string(&q).ok().and_then(|t| serde_json::from_str::<Value>(&t).ok()) == Some(got.clone());
        if !good || !text_ok {
            self.rep.fail("querybody-members", info.clone());
        }
        let req = tagged("querybody", vec![J::from_value(&variables).to_sexp(), st(query), st(op)]);
        let agree = self.model_json(req).map(|v| v == scrub(&got));
        info["what"] = json!("querybody: model and to_value differ");
        if self.tie(agree, info) {
            self.rep.traces_validated += 1;
        }
    }

    // ---- typed data (oracle only) -------------------------------------------------------------------
    fn typed_data(&mut self, index: u64) {
        let stream = "typed-data";
        let mut rng = case_rng(self.seed, stream, index);
        let data = if rng.chance(70) {
            Some(Data {
                name: gen_string(&mut rng),
                count: if rng.chance(50) { Some(gen_i32(&mut rng) as i64) } else { None },
                items: (0..rng.below(3)).map(|_| Inner { id: rng.next() as i64, tags: (0..rng.below(3)).map(|_| gen_string(&mut rng)).collect() }).collect(),
            })
        } else {
            None
        };
        let base = gen_response(&mut rng, false, false);
        let r: Response<Data> = Response { data, errors: base.errors, extensions: base.extensions };
        self.rep.case(None);
        self.rep.count("stream:typed-data");
        let ser = serde_json::to_value(&r).expect("to_value");
        let back = serde_json::from_value::<Response<Data>>(ser.clone());
        let mut info = self.replay_info(stream, index);
        info["serialized"] = ser.clone();
        if back.as_ref().ok() != Some(&r) {
            info["back"] = json!(format!("{:?}", back));
            self.rep.fail("typed-response-roundtrip", info.clone());
        }
        // `data` absent must mean the same as `data: null`
        if let Value::Object(mut m) = ser {
            if r.data.is_none() {
                m.remove("data");
                let absent = serde_json::from_value::<Response<Data>>(Value::Object(m));
                if absent.as_ref().ok() != Some(&r) {
                    info["back"] = json!(format!("{:?}", absent));
                    self.rep.fail("typed-response-absent-data", info);
                }
            }
        }
    }

    fn run_case(&mut self, stream: &str, index: u64) {
        match stream {
            "spec-body" => self.spec_body(index),
            "malformed" => self.malformed(index),
            "seq-form" | "dup-map" => self.tie_only(stream, index),
            "display" => self.display(index),
            "querybody" => self.querybody(index),
            "typed-data" => self.typed_data(index),
            other => self.rep.internal.push(format!("unknown stream {}", other)),
        }
    }
}

fn run(a: &Args) -> i32 {
    let rep = Report::new(
        "C15",
        a,
        "streams: spec-body (a Response value drawn first, then written as JSON text with every None member absent-or-null, unknown members at every level, shuffled member order, mixed paths incl. empty / slash-terminated keys and boundary i32 indices, nested extension JSON; parsed with from_str and from_value), malformed (fully populated body + exactly one fault of the FAULTS table, every fault several times), seq-form and dup-map (outside the grammar; model tie only), display (random Error values), querybody, typed-data; a case is one body / value; non-trivial = spec-body with at least one error or non-empty data, display with a non-empty path or location list, every malformed / seq-form / dup-map / querybody case; keys are the written texts",
    );
    let mut ctx = Ctx { rep, model: Model::spawn(), seed: a.seed, faults: faults() };

    if let Some(path) = &a.replay {
        let loaded: Result<Value, String> = std::fs::read_to_string(path).map_err(|e| e.to_string()).and_then(|t| serde_json::from_str(&t).map_err(|e| e.to_string()));
        match loaded {
            Ok(v) => {
                // oracle failures carry the case directly; broken ties list them under first_disagreements
                let mut cases: Vec<Value> = vec![];
                if v["case"].is_object() {
                    cases.push(v["case"].clone());
                }
                for c in v["first_disagreements"].as_array().cloned().unwrap_or_default() {
                    cases.push(c);
                }
                if cases.is_empty() {
                    ctx.rep.internal.push(format!("replay file {} names no case", path.display()));
                }
                for c in cases {
                    match (c["stream"].as_str(), c["index"].as_u64(), c["seed"].as_u64()) {
                        (Some(s), Some(i), Some(seed)) => {
                            ctx.seed = seed;
                            ctx.run_case(s, i);
                        }
                        _ => ctx.rep.internal.push(format!("replay case without stream/index/seed: {}", c)),
                    }
                }
            }
            Err(e) => ctx.rep.internal.push(format!("cannot read replay file: {}", e)),
        }
        return ctx.rep.finish();
    }

    let scale: u64 = if ctx.rep.thorough() { 12 } else { 1 };
    let nf = ctx.faults.len() as u64;
    let plan: [(&str, u64); 7] = [
        ("spec-body", 6000 * scale),
        ("malformed", nf * 8 * scale),
        ("seq-form", 600 * scale),
        ("dup-map", 600 * scale),
        ("display", 4000 * scale),
        ("querybody", 600 * scale),
        ("typed-data", 400 * scale),
    ];
    for (stream, n) in plan {
        for i in 0..n {
            ctx.run_case(stream, i);
        }
    }
    // observation, not an oracle: the JSON integer literal `-0` is read by serde_json's text parser as the
    // float -0.0 and is therefore refused in i32 positions; the model starts at `serde_json::Value`
    // (where `-0` cannot be written as an integer), so this is recorded only.
    let negzero = serde_json::from_str::<Resp>(r#"{"errors":[{"message":"m","path":["a",-0]}]}"#);
    ctx.rep.extra.insert(
        "observation_negative_zero_integer_literal_in_path".into(),
        json!(if negzero.is_ok() { "accepted" } else { "rejected (serde_json parses -0 as a float)" }),
    );
    ctx.rep.extra.insert("fault_table_size".into(), json!(nf));
    ctx.rep.extra.insert("model_requests".into(), json!(ctx.model.requests));
    ctx.rep.extra.insert("model_available".into(), json!(ctx.model.available()));
    ctx.rep.finish()
}

fn main() {
    let args: Vec<String> = std::env::args().skip(1).collect();
    match args.first().map(|s| s.as_str()) {
        Some("C15") => std::process::exit(run(&parse_args(&args[1..]))),
        _ => {
            eprintln!("usage: vdrive_c15 C15 --tier quick|thorough --seed N --out <file> [--replay <file>]");
            std::process::exit(2)
        }
    }
}
