//! A loopback HTTP/1.1 endpoint that records what it is sent and plays one scripted behaviour.
//! Hand-written so that it can close the connection at any point of the reply.
use std::io::{Read, Write};
use std::net::{Shutdown, TcpListener, TcpStream};
use std::sync::{Arc, Mutex};
use std::time::Duration;

#[derive(Clone, Debug)]
pub enum Play {
    /// full reply: status line, content-type, content-length, body
    Reply { code: u16, content_type: String, body: Vec<u8> },
    /// close after the request has been read, having written only `partial` (possibly nothing)
    CutBeforeHead { partial: Vec<u8> },
    /// complete head announcing `body.len()` bytes, then only `sent` of them, then close
    CutInBody { content_type: String, body: Vec<u8>, sent: usize },
}

#[derive(Clone, Debug, Default)]
pub struct Recorded {
    pub method: String,
    pub path: String,
    pub version: String,
    /// (name lower-cased, value with optional whitespace (SP / HTAB) trimmed), in wire order
    pub headers: Vec<(String, String)>,
    pub body: Vec<u8>,
    pub complete: bool,
}

struct State {
    play: Play,
    records: Vec<Recorded>,
}

pub struct Mock {
    pub port: u16,
    state: Arc<Mutex<State>>,
}

fn reason(code: u16) -> &'static str {
    match code {
        200 => "OK",
        201 => "Created",
        400 => "Bad Request",
        401 => "Unauthorized",
        403 => "Forbidden",
        404 => "Not Found",
        418 => "I'm a teapot",
        422 => "Unprocessable Entity",
        429 => "Too Many Requests",
        500 => "Internal Server Error",
        502 => "Bad Gateway",
        503 => "Service Unavailable",
        _ => "Status",
    }
}

fn find(hay: &[u8], needle: &[u8]) -> Option<usize> {
    hay.windows(needle.len()).position(|w| w == needle)
}

fn read_request(s: &mut TcpStream) -> Recorded {
    let mut buf: Vec<u8> = Vec::new();
    let mut tmp = [0u8; 8192];
    let mut rec = Recorded::default();
    let head_end = loop {
        if let Some(i) = find(&buf, b"\r\n\r\n") {
            break i;
        }
        match s.read(&mut tmp) {
            Ok(0) | Err(_) => return rec,
            Ok(n) => buf.extend_from_slice(&tmp[..n]),
        }
    };
    let head = String::from_utf8_lossy(&buf[..head_end]).into_owned();
    let mut lines = head.split("\r\n");
    let mut first = lines.next().unwrap_or("").splitn(3, ' ');
    rec.method = first.next().unwrap_or("").to_string();
    rec.path = first.next().unwrap_or("").to_string();
    rec.version = first.next().unwrap_or("").to_string();
    for l in lines {
        if let Some(i) = l.find(':') {
            let name = l[..i].to_ascii_lowercase();
            let value = l[i + 1..].trim_matches(|c| c == ' ' || c == '\t').to_string();
            rec.headers.push((name, value));
        }
    }
    let len: usize = rec.headers.iter().find(|(n, _)| n == "content-length").and_then(|(_, v)| v.parse().ok()).unwrap_or(0);
    let mut body = buf[head_end + 4..].to_vec();
    while body.len() < len {
        match s.read(&mut tmp) {
            Ok(0) | Err(_) => {
                rec.body = body;
                return rec;
            }
            Ok(n) => body.extend_from_slice(&tmp[..n]),
        }
    }
    rec.body = body;
    rec.complete = true;
    rec
}

fn serve(mut s: TcpStream, state: &Arc<Mutex<State>>) {
    let _ = s.set_read_timeout(Some(Duration::from_secs(10)));
    let _ = s.set_write_timeout(Some(Duration::from_secs(10)));
    let rec = read_request(&mut s);
    let play = {
        let mut st = state.lock().unwrap();
        st.records.push(rec);
        st.play.clone()
    };
    match play {
        Play::Reply { code, content_type, body } => {
            let head = format!(
                "HTTP/1.1 {} {}\r\ncontent-type: {}\r\ncontent-length: {}\r\nconnection: close\r\n\r\n",
                code, reason(code), content_type, body.len()
            );
            let _ = s.write_all(head.as_bytes());
            let _ = s.write_all(&body);
        }
        Play::CutBeforeHead { partial } => {
            let _ = s.write_all(&partial);
        }
        Play::CutInBody { content_type, body, sent } => {
            let head = format!(
                "HTTP/1.1 200 OK\r\ncontent-type: {}\r\ncontent-length: {}\r\nconnection: close\r\n\r\n",
                content_type, body.len()
            );
            let _ = s.write_all(head.as_bytes());
            let _ = s.write_all(&body[..sent.min(body.len())]);
        }
    }
    let _ = s.flush();
    let _ = s.shutdown(Shutdown::Both);
}

impl Mock {
    pub fn start() -> Mock {
        let listener = TcpListener::bind("127.0.0.1:0").expect("bind loopback");
        let port = listener.local_addr().unwrap().port();
        let state = Arc::new(Mutex::new(State { play: Play::CutBeforeHead { partial: vec![] }, records: vec![] }));
        let st = state.clone();
        std::thread::spawn(move || {
            for conn in listener.incoming() {
                if let Ok(s) = conn {
                    serve(s, &st);
                }
            }
        });
        Mock { port, state }
    }

    /// script the next case and forget earlier requests
    pub fn arm(&self, play: Play) {
        let mut st = self.state.lock().unwrap();
        st.play = play;
        st.records.clear();
    }

    pub fn take(&self) -> Vec<Recorded> {
        std::mem::take(&mut self.state.lock().unwrap().records)
    }
}

/// a loopback port nobody listens on
pub fn dead_port() -> u16 {
    let l = TcpListener::bind("127.0.0.1:0").expect("bind loopback");
    l.local_addr().unwrap().port()
}
